"""Native replay (litex.gen.sim) for C19 / SPIMaster (litex/soc/cores/spi/spi_master.py): does a started transfer finish?
usage: replay_spi_master_hang.py [control|div0|div1|len0|lenbig|all] [cycles]
Each scenario starts ONE transfer on the real core (with_csr=False, data_width 8) and runs `cycles` system clock cycles (default 70000, i.e. more
than one wrap of the 16-bit divider counter).  Reported: the cycle in which `done` came back (or that it never did), the FSM state at the end, the
number of SCK rising edges seen on the pad and whether SCK is still toggling at the end."""
import sys; sys.path.insert(0, '/verif')
from vf import elab
from migen import *
from litex.gen.sim import run_simulation
from litex.soc.cores.spi import SPIMaster

SCEN = dict(control=(4, 8), div0=(0, 8), div1=(1, 8), len0=(4, 0), lenbig=(4, 9), div2=(2, 8), div3=(3, 5))

def scenario(name, cycles):
    div, length = SCEN[name]
    d = SPIMaster(None, 8, 100e6, 25e6, with_csr=False)
    d.finalize(); enc = {v: k for k, v in d.fsm.encoding.items()}
    out = dict(done_at=None, rises=0, last_rise=None, state=None)
    def gen():
        yield d.clk_divider.eq(div); yield d.length.eq(length); yield d.mosi.eq(0xA5); yield d.loopback.eq(1)
        yield; yield
        yield d.start.eq(1); yield
        yield d.start.eq(0); yield
        prev = 0
        for c in range(cycles):
            clk = (yield d.pads.clk)
            if clk and not prev: out["rises"] += 1; out["last_rise"] = c
            prev = clk
            if (yield d.done) and out["done_at"] is None: out["done_at"] = c; break
            yield
        out["state"] = enc[(yield d.fsm.state)]; out["miso"] = (yield d.miso)
    run_simulation(d, gen())
    if out["done_at"] is not None:
        print(f"{name}: clk_divider={div} length={length}: done after {out['done_at']} cycles, {out['rises']} SCK pulses, received 0x{out['miso']:02x} (loopback of 0xa5)")
    else:
        tog = out["last_rise"] is not None and out["last_rise"] > cycles - 100
        print(f"{name}: clk_divider={div} length={length}: NEVER DONE in {cycles} cycles: FSM stuck in {out['state']}, {out['rises']} SCK pulses so far, SCK {'still toggling' if tog else 'silent'}  <-- HANG")
    return out["done_at"] is not None

if __name__ == "__main__":
    which = sys.argv[1] if len(sys.argv) > 1 else "all"
    cycles = int(sys.argv[2]) if len(sys.argv) > 2 else 70000
    names = list(SCEN) if which == "all" else [which]
    res = [scenario(n, cycles) for n in names]
    sys.exit(0 if all(res) else 1)
