"""Native replay (real litex.gen.sim) of finding.rd-after-pause: code_8b10b.StreamEncoder.
encoder.ce = pipe_ce, so the two-stage encoder also runs in pipeline steps in which sink.valid is low: whatever is on sink.d/sink.k in an
idle cycle is encoded and moves the running disparity.  The code words handed over with source.valid then no longer form a
disparity-continuous 8b/10b stream.  The consumer is always ready here (no stall needed); only the producer pauses for one cycle.
Run A: D8.5, <pause with 0x07 on sink.d>, D8.5  -> delivered stream breaks the disparity rule.
Run B: same symbols, no pause                   -> delivered stream is fine."""
import sys; sys.path.insert(0, '/verif')
from vf import elab
from migen import *
from litex.gen.sim import run_simulation
from litex.soc.cores.code_8b10b import StreamEncoder

def run(seq):
    d = StreamEncoder(1); out = []
    def tb():
        yield d.source.ready.eq(1)
        for v, dd, k in seq + [(0, 0, 0)] * 4:
            yield d.sink.valid.eq(v); yield d.sink.d.eq(dd); yield d.sink.k.eq(k)
            yield
            if (yield d.source.valid) and (yield d.source.ready): out.append((yield d.source.data))
    run_simulation(d, tb())
    return out

def report(name, words):
    print(name); rd = -1; ok = True      # running disparity of the delivered stream, -1 at start (encoder reset state)
    for w in words:
        n1 = bin(w).count("1"); dsp = 2 * n1 - 10
        legal = dsp == 0 or (dsp == 2 and rd == -1) or (dsp == -2 and rd == +1)
        ok &= legal; rd += dsp
        print(f"   delivered {w:010b}  ones={n1}  running disparity after = {rd:+d}  {'ok' if legal else '<-- breaks the 8b/10b disparity rule (|RD| > 1)'}")
    print("   =>", "stream is disparity-continuous" if ok else "DISCONTINUITY in the delivered stream")

A, B, G = (1, 0xA8, 0), (1, 0xA8, 0), (0, 0x07, 0)
report("A: D8.5, pause (sink.valid=0, sink.d=0x07), D8.5", run([A, G, B]))
report("B: D8.5, D8.5 back to back", run([A, B]))
report("C: D8.5, pause with sink.d=0x00 (D0.0 is neutral), D8.5", run([A, (0, 0, 0), B]))
