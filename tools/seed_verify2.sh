#!/bin/bash
# tools/seed_verify2.sh <prop> <mutant dir (patch.diff, demo.py[, notes.md])> <id> "<tests>"
# like seed_verify.sh but never touches /repo: the change is applied in a scratch worktree and the check runs against it (VERIF_REPO)
set -u
PROP=$1; SRC=$2; ID=$3; TESTS=${4:-}
WT=/tmp/seedwt_$ID
git -C /repo worktree add -q --detach $WT HEAD || exit 9
cd $WT
PYTHONPATH=$WT timeout 900 /venv/bin/python $SRC/demo.py >/tmp/seed_$ID.base.log 2>&1; BASE=$?
git apply $SRC/patch.diff || { echo "patch does not apply"; cd /verif; git -C /repo worktree remove --force $WT; exit 9; }
PYTHONPATH=$WT timeout 900 /venv/bin/python $SRC/demo.py >/tmp/seed_$ID.mut.log 2>&1; MUT=$?
TRES="not run"
if [ -n "$TESTS" ]; then
  PYTHONPATH=$WT /venv/bin/python -m pytest -q -p no:cacheprovider --timeout=900 --junitxml=/tmp/seed_$ID.junit.xml $TESTS >/tmp/seed_$ID.tests.log 2>&1; TRES="exit $? : $(tail -1 /tmp/seed_$ID.tests.log)"
  # the reference is the stable-pass list of the baseline: every stable-pass test of these files must still pass
  REG=$(python3 - <<PY
import json, xml.etree.ElementTree as ET
stable = set(json.load(open("/root/.vp/BASELINE.json"))["stable_pass"])
files = "$TESTS".split()
mods = {(f[:-3] if f.endswith(".py") else f).replace("/", ".") + "." for f in files}
passed = set()
for tc in ET.parse("/tmp/seed_$ID.junit.xml").getroot().iter("testcase"):
    if not any(ch.tag in ("failure", "error", "skipped") for ch in tc):
        cn = tc.get("classname"); mod, cls = cn.rsplit(".", 1); passed.add(f"{mod}.{cls}::{tc.get('name')}")
want = {t for t in stable if any(t.startswith(m) for m in mods)}
print(f"stable-pass tests in these files: {len(want)}, not passing with the patch: {sorted(want - passed)}")
PY
)
  TRES="$TRES ; $REG"
fi
rm -f $WT/sim.vcd
cd /verif
echo "demo unchanged: exit $BASE ; demo with patch: exit $MUT ; tests with patch: $TRES"
if [ "$SRC" != "/verif/seeded/$ID" ]; then mkdir -p /verif/seeded/$ID && cp $SRC/patch.diff $SRC/demo.py /verif/seeded/$ID/ && cp $SRC/notes.md /verif/seeded/$ID/notes.md 2>/dev/null; fi
cp /verif/evidence/$PROP.json /tmp/seed_$ID.evidence.bak 2>/dev/null
VERIF_REPO=$WT ./check $PROP > /tmp/seed_$ID.check.log 2>&1; CRC=$?
cp /tmp/seed_$ID.evidence.bak /verif/evidence/$PROP.json 2>/dev/null
git -C /repo worktree remove --force $WT
grep -E "^VIOLATION|^CHECKER|^UNDEC" /tmp/seed_$ID.check.log | head -6 | cut -c1-220
tail -1 /tmp/seed_$ID.check.log
echo "check exit $CRC"
python3 - <<PY
import json
json.dump(dict(id="$ID", property="$PROP", demo_exit_unchanged=$BASE, demo_exit_with_patch=$MUT, baseline_tests_with_patch="$TRES", tests_run="$TESTS",
  check_cmd="VERIF_REPO=<scratch worktree with the patch> ./check $PROP", check_exit=$CRC, detected=($CRC==1),
  violation_lines=[l.strip()[:300] for l in open("/tmp/seed_$ID.check.log") if l.startswith("VIOLATION")][:10]), open("/verif/seeded/$ID/meta.json","w"), indent=1)
PY
