"""Native replay (litex.gen.sim) for C19 / I2CMaster (litex/soc/cores/i2c.py).
Scenario A: divider left at its reset value 0, START then WRITE 0xA5 issued only when the core reports idle.
Scenario B: divider 3, START, WRITE 0xA5, and a second command write (WRITE) while the first one is still being shifted out.
The open-drain lines are modelled as line = not oe (pull-up, no stretching).  Reported: every cycle in which SDA (as driven by the
master) changes while SCL is and stays high although no start/stop command is being executed (a spurious START/STOP inside a byte),
and the bit values that a slave would sample on the rising SCL edges."""
import sys; sys.path.insert(0, '/verif')
from vf import elab
from migen import *
from migen.fhdl.specials import Tristate
from litex.gen.sim import run_simulation
from litex.soc.cores.i2c import I2CMaster, I2C_XFER_ADDR, I2C_CONFIG_ADDR, I2C_WRITE, I2C_START, I2C_STOP, I2C_IDLE

class Pads:
    def __init__(self): self.scl = Signal(); self.sda = Signal()

def scenario(name, load, overlap):
    d = I2CMaster(Pads()); f = d.get_fragment()
    f.specials = {s for s in f.specials if not isinstance(s, Tristate)}
    f.comb.append(d.scl_t.i.eq(~d.scl_t.oe))            # open drain with pull-up, no stretching: the pad input is the line the master drives
    bus = d.bus; m = d.i2c; log = []; wave = []
    def wb_write(adr, dat):
        yield bus.adr.eq(adr); yield bus.dat_w.eq(dat); yield bus.we.eq(1); yield bus.cyc.eq(1); yield bus.stb.eq(1)
        yield
        while not (yield bus.ack): yield
        yield bus.cyc.eq(0); yield bus.stb.eq(0); yield bus.we.eq(0)
        yield
    def wait_idle():
        for _ in range(400):
            if (yield m.idle): return
            yield
        log.append("never idle")
    def sw():
        yield d.sda_t.i.eq(1)
        if load is not None: yield from wb_write(I2C_CONFIG_ADDR, load)
        yield from wb_write(I2C_XFER_ADDR, I2C_START); yield from wait_idle()
        yield from wb_write(I2C_XFER_ADDR, I2C_WRITE | 0xA5)
        if overlap:
            for _ in range(9): yield
            yield from wb_write(I2C_XFER_ADDR, I2C_WRITE | 0xA5)      # software did not wait for idle
        yield from wait_idle()
        yield from wb_write(I2C_XFER_ADDR, I2C_STOP); yield from wait_idle()
        for _ in range(8): yield
    from litex.gen.sim.core import passive
    @passive
    def line():
        prev = None; c = 0; sampled = []
        while True:
            scl = 1 - (yield d.scl_t.oe); sda = 1 - (yield d.sda_t.oe)
            st = (yield m.fsm.state)
            if prev is not None:
                pscl, psda, pst = prev
                if sda != psda and scl == 1 and pscl == 1:
                    kind = "START" if sda == 0 else "STOP"
                    legal = pst in (m.fsm.encoding["START0"], m.fsm.encoding["STOP2"])
                    log.append(f"cycle {c}: {kind} condition on the bus, fsm state before={pst} -> {'commanded' if legal else 'SPURIOUS (inside a data transfer)'}")
                if sda != psda and scl != pscl: log.append(f"cycle {c}: SCL and SDA change in the same cycle")
                if scl == 1 and pscl == 0: sampled.append(sda)
            wave.append((scl, sda)); prev = (scl, sda, st); c += 1
            log_s[0] = sampled
            yield
    log_s = [None]
    run_simulation(f, [sw(), line()])
    print("==", name)
    for l in log: print("  ", l)
    print("   SDA sampled at the rising SCL edges:", "".join(map(str, log_s[0])), "(expected: 10100101 + ack slot 1, then stop)")
    print("   SCL:", "".join(str(s) for s, _ in wave)); print("   SDA:", "".join(str(s) for _, s in wave))

scenario("A: divider = reset value 0, commands only when idle", None, False)
scenario("B: divider 3, second WRITE written while the first byte is in flight", 3, True)
scenario("C (reference): divider 3, commands only when idle", 3, False)
