"""Native replay (unmodified /repo): the IO/cached rule of SoCBusHandler.add_region is applied to the region being added only, against the IO
regions known at that moment.  An IO region registered AFTER a cached region that lies inside it is accepted (add_region(SoCIORegion) compares IO
regions among themselves only), and SoC.finalize re-checks nothing: the SoC is built with a cached region inside an IO region.
Same order inside the code: SoCBusHandler.__init__ adds reserved_regions, SoC.add_cpu registers the CPU's IO regions later.
run: /verif/.venv/bin/python /verif/tools/replay_io_region_after_cached_region.py      (exit status 1 = defect reproduced)"""
import sys, logging
sys.path.insert(0, "/verif")
from vf import elab
from litex.soc.integration import soc as S
try: import contracts.C13_soc_paths as W
except ImportError: import contracts.C13_soc_paths as W
# stub CPU classes (one wishbone master; `vfx_io2`: IO regions 0x8000_0000+256MiB and 0xe000_0000+512MiB) and the SoCCore builder
logging.disable(logging.CRITICAL)
hit = 0
def show(bus): return {n: (hex(r.origin), hex(r.size), "cached" if r.cached else "uncached") for n, r in bus.regions.items()}, {n: (hex(r.origin), hex(r.size)) for n, r in bus.io_regions.items()}

# 1. handler level, the two orders of the same two requests
b = S.SoCBusHandler()
b.add_region("io0", S.SoCIORegion(origin=0x8000_0000, size=0x8000_0000, cached=False))
try: b.add_region("r", S.SoCRegion(origin=0x9000_0000, size=0x1000, cached=True)); print("IO region first, cached region second: ACCEPTED")
except S.SoCError: elab.restore_stderr(); print("IO region first, cached region second: rejected (SoCError)  [as the rule demands]")
b = S.SoCBusHandler()
try:
    b.add_region("r", S.SoCRegion(origin=0x9000_0000, size=0x1000, cached=True)); b.add_region("io0", S.SoCIORegion(origin=0x8000_0000, size=0x8000_0000, cached=False))
    print("cached region first, IO region second: both ACCEPTED ->", show(b)); hit += 1
except S.SoCError: elab.restore_stderr(); print("cached region first, IO region second: rejected")
# 2. reserved_regions (added by the constructor) and a later IO region
try:
    b = S.SoCBusHandler(reserved_regions={"r": 0x9000_0000}); b.add_region("io0", S.SoCIORegion(origin=0x8000_0000, size=0x8000_0000, cached=False))
    print("reserved region, then IO region over it: both ACCEPTED ->", show(b)); hit += 1
except S.SoCError: elab.restore_stderr(); print("reserved region, then IO region over it: rejected")
# 3. a whole SoC (SoCCore + stub CPU): finalize builds it
with W._MemMapGuard():
    try:
        soc = W._soc("vfx_io2"); W._late_io(soc); soc.finalize(); elab.restore_stderr()
        print("SoCCore(cpu with IO regions) + add_ram(0xa000_0000) + add_region(SoCIORegion 0xa000_0000+256MiB) + finalize: BUILT ->", show(soc.bus))
        print("   property evaluated on the built SoC:", W._soc_holds(soc)); hit += 1
    except S.SoCError: elab.restore_stderr(); print("SoC: rejected")
print("REPRODUCED" if hit == 3 else f"reproduced {hit}/3")
sys.exit(1 if hit else 0)
