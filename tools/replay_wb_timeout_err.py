"""Native replay (real litex.gen.sim simulator, unchanged /repo): wishbone.Timeout arms its WaitTimer with stb & cyc & ~ack - a cycle terminated by ERR does not
reload the timer.  wishbone.InterconnectShared(2 masters, 2 slaves, timeout_cycles=4):
  spurious : the slave terminates the request with ERR in its 4th waiting cycle; the master ends the cycle; in the next cycle the timer is `done`: ack, all-ones data
             and the error pulse (SoC bus-error counter) are produced for a request that no longer exists.
  early    : ERR in the 3rd waiting cycle, the master continues with the next request (back to back, cyc/stb stay up): that request is "timed out" in its 2nd cycle
             (forced ack + all-ones data + error pulse) although its slave would answer one cycle later - a request answered in time is disturbed.
usage: .venv/bin/python tools/replay_wb_timeout_err.py [spurious|early]"""
import sys; sys.path.insert(0, '/verif')
from vf import elab
from migen import *
from litex.gen.sim import run_simulation
from litex.soc.interconnect import wishbone
scen = sys.argv[1] if len(sys.argv) > 1 else "spurious"
M = [wishbone.Interface(data_width=32, adr_width=30) for _ in range(2)]; S = [wishbone.Interface(data_width=32, adr_width=30) for _ in range(2)]
d = wishbone.InterconnectShared(M, [((lambda i: (lambda a: a[28:30] == i))(i), s) for i, s in enumerate(S)], False, 4)
m0, m1 = M; s0, s1 = S
if scen == "spurious":
    sched = {0: [(m0.cyc, 1), (m0.stb, 1), (m0.adr, 0x10)], 3: [(s0.err, 1)], 4: [(s0.err, 0), (m0.cyc, 0), (m0.stb, 0)]}
else:
    sched = {0: [(m0.cyc, 1), (m0.stb, 1), (m0.adr, 0x10)], 2: [(s0.err, 1)], 3: [(s0.err, 0), (m0.adr, 0x20)], 5: [(s0.ack, 1), (s0.dat_r, 0x12345678)], 6: [(s0.ack, 0)]}
cols = [("m0.cyc", m0.cyc), ("m0.stb", m0.stb), ("m0.adr", m0.adr), ("s0.cyc", s0.cyc), ("s0.ack", s0.ack), ("s0.err", s0.err), ("m0.ack", m0.ack), ("m0.err", m0.err), ("m0.dat_r", m0.dat_r), ("error", d.timeout.error)]
rows = []
def gen():
    for sig, v in sched.get(0, []): yield sig.eq(v)
    yield
    for k in range(8):
        r = []
        for _, sig in cols: r.append((yield sig))
        rows.append(r)
        for sig, v in sched.get(k + 1, []): yield sig.eq(v)
        yield
run_simulation(d, gen())
print(f"wishbone.InterconnectShared(2x2, timeout_cycles=4) scenario {scen}")
print("cyc " + " ".join(f"{n:>8}" for n, _ in cols))
for k, r in enumerate(rows): print(f"{k:3d} " + " ".join(f"{v:8x}" for v in r))
ix = {n: i for i, (n, _) in enumerate(cols)}
if scen == "spurious":
    bad = [k for k, r in enumerate(rows) if (r[ix["m0.ack"]] or r[ix["error"]]) and not (r[ix["m0.cyc"]] and r[ix["m0.stb"]])]
    print("cycles with ack/error pulse and no request:", bad)
    print("DEFECT REPRODUCED: forced ack + error pulse for a request that was already terminated by ERR" if bad else "not reproduced")
else:
    bad = [k for k, r in enumerate(rows) if r[ix["error"]] and r[ix["m0.adr"]] == 0x20]
    print("second request (adr 0x20) starts in cycle 3; error pulse / forced ack in cycles:", bad, " data:", [hex(rows[k][ix["m0.dat_r"]]) for k in bad])
    print("DEFECT REPRODUCED: the second request is timed out after 1 waiting cycle (time-out 4); its slave's ack in cycle 5 finds no request" if bad and bad[0] < 3 + 4 else "not reproduced")
