"""Native replay of the C20 findings of contracts/C20_clocks_ext.py: plain calls of the real LiteX helpers on concrete requests.
usage: .venv/bin/python tools/replay_c20_ext.py [nx|gw1n|gw5a|uspmmcm|trion]..."""
import sys, io, contextlib, logging, types
sys.path.insert(0, "/verif")
from vf import elab                                   # py3.12 tracer shim only
from migen import Signal, ClockDomain
logging.disable(logging.CRITICAL)
def quiet(): return contextlib.redirect_stdout(io.StringIO())

def nx():
    from litex.soc.cores.clock.lattice_nx import NXPLL
    for fin, f, m in ((15e6, 401.25e6, 1e-4), (24e6, 148.5e6, 1e-3), (500e6, 6.25e6, 0)):
        with quiet():
            pll = NXPLL(); pll.register_clkin(Signal(), fin); pll.create_clkout(ClockDomain("o"), f, margin=m)
            cfg = pll.compute_config(); pll.do_finalize()
        p = pll.params
        print(f"NXPLL clkin={fin/1e6:g}MHz out={f/1e6:g}MHz margin={m:g}: config={ {k: v for k, v in cfg.items() if 'div' in k or k == 'vco'} }")
        print(f"   phase-detector input clkin/clki_div = {fin/cfg['clki_div']/1e6:g} MHz; declared vco_in_freq_range = {NXPLL.vco_in_freq_range}")
        vco = fin / int(p['p_REF_MMD_DIG']) * (int(p['p_DIVF']) + 1)
        print(f"   emitted instance: REF_MMD_DIG={p['p_REF_MMD_DIG']} DIVF={p['p_DIVF']} DIVA={p['p_DIVA']} -> VCO {vco/1e6:g} MHz (range {NXPLL.vco_out_freq_range}), CLKOP {vco/(int(p['p_DIVA'])+1)/1e6:g} MHz (requested {f/1e6:g})")

def gw1n():
    from litex.soc.cores.clock.gowin_gw1n import GW1NPLL
    def run(title, fin, outs):
        pll = GW1NPLL("GW1N-9C", "GW1NR-LV9QN88PC6/I5"); pll.register_clkin(Signal(), fin)
        for k, (f, m) in enumerate(outs): pll.create_clkout(ClockDomain(f"o{k}"), f, margin=m, with_reset=False)
        print(f"GW1NPLL {title}: clkin={fin/1e6:g}MHz outs={[(f/1e6, m) for f, m in outs]}")
        try:
            cfg = pll.compute_config(); co = fin * cfg["fdiv"] / cfg["idiv"]
            print("   config:", {k: v for k, v in cfg.items() if not k.startswith("CLKOUT")}, "connected:", {k: [n for n in pll.clkouts if pll.clkouts[n][0] is v] for k, v in cfg.items() if k in ("CLKOUT", "CLKOUTP", "CLKOUTD", "CLKOUTD3")})
            print(f"   CLKOUT={co/1e6:g}MHz CLKOUTD={co/cfg['SDIV_SEL']/1e6:g}MHz")
        except Exception as e: print(f"   raised {type(e).__name__}: {e}")
    run("margin relative to the obtained frequency (50 MHz is 1.006 % above 49.502 MHz)", 100e6, [(100e6, 1e-2), (49.502e6, 1e-2)])
    run("same defect, refusal side (396 MHz is within 1 % of 400 MHz)", 12e6, [(400e6, 1e-2)])
    run("CLKOUTD divider 200 > 128", 100e6, [(100e6, 1e-2), (0.5e6, 1e-2)])
    run("reference output chosen by max margin: ZeroDivisionError", 25e6, [(25e6, 1e-2), (50e6, 1e-2)])
    run("same request, other order", 25e6, [(50e6, 1e-2), (25e6, 1e-2)])
    run("reference output chosen by max margin: refusal", 27e6, [(25e6, 1e-2), (50e6, 1e-2)])
    run("same request, other order", 27e6, [(50e6, 1e-2), (25e6, 1e-2)])
    run("two outputs of the same frequency: only the last is connected", 50e6, [(50e6, 1e-2), (50e6, 1e-2)])
    run("FBDIV 64 never tried (idiv 1, fdiv 64, odiv 4: VCO 768 MHz)", 3e6, [(192e6, 1e-3)])

def gw5a():
    from litex.soc.cores.clock.gowin_gw5a import GW5APLL
    for fin, f in ((50e6, 5e6), (27e6, 7e6), (50e6, 7e6)):
        pll = GW5APLL("GW5A-25A", "GW5A-LV25MG121NES"); pll.register_clkin(Signal(), fin); pll.create_clkout(ClockDomain("o"), f, with_reset=False)
        pll.do_finalize()
        print(f"GW5APLL clkin={fin/1e6:g}MHz out={f/1e6:g}MHz: p_ODIV0_SEL={pll.params['p_ODIV0_SEL']} (primitive: 1-128), IDIV={pll.params['p_IDIV_SEL']} FBDIV={pll.params['p_FBDIV_SEL']} MDIV={pll.params['p_MDIV_SEL']}")

def uspmmcm():
    from litex.soc.cores.clock.xilinx_usp import USPMMCM
    pll = USPMMCM(speedgrade=-1); pll.register_clkin(Signal(), 101.005e6); pll.create_clkout(ClockDomain("o"), 100e6, margin=1e-2, with_reset=False, buf=None)
    cfg = pll.compute_config(); fo = 101.005e6 * cfg["clkfbout_mult"] / cfg["divclk_divide"] / cfg["clkout0_divide"]
    print(f"USPMMCM clkin=101.005MHz out=100MHz margin=1e-2: M={cfg['clkfbout_mult']} D={cfg['divclk_divide']} d0={cfg['clkout0_divide']} -> {fo/1e6:.6f} MHz, {abs(fo-100e6)/1e6:.4f} % off (stated margin 1 %)")
    print(f"   note: inherited table clkfbout_mult_frange={pll.clkfbout_mult_frange} is not read by the override (it searches 2.0-128.0 step 0.125)")

def trion():
    from litex.soc.cores.clock.efinix import TRIONPLL
    block = dict(type="PLL", name="pll0", feedback=0, input_freq=97e6, clk_out=[["clk0", 97e6, 0, 0, False]])
    pll = object.__new__(TRIONPLL); pll.name = "pll0"; pll.nclkouts = 1; pll.logger = logging.getLogger("x")
    pll.platform = types.SimpleNamespace(device="T20F256", family="Trion", toolchain=types.SimpleNamespace(ifacewriter=types.SimpleNamespace(get_block=lambda n: block)))
    pll.compute_config()
    fvco = 97e6 / block["N"] * block["M"] * block["O"] * block["CLKOUT0_DIV"]
    print(f"TRIONPLL clkin=97MHz, 97MHz feedback output: M={block['M']} N={block['N']} O={block['O']} C0={block['CLKOUT0_DIV']}: fVCO={fvco/1e6:g}MHz fPLL=fVCO/O={fvco/block['O']/1e6:g}MHz; get_pll_freq_range={TRIONPLL.get_pll_freq_range(None)}")

if __name__ == "__main__":
    todo = sys.argv[1:] or ["nx", "gw1n", "gw5a", "uspmmcm", "trion"]
    for t in todo: globals()[t]()
