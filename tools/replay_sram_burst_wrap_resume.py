"""Native replay (real litex.gen.sim simulator, unchanged /repo) for finding C07 sram-burst wrap-resume:
wishbone.SRAM(bursting=True) returns/overwrites the WRONG word when a Wishbone B4 master inserts a wait state (stb low, cyc
high) inside a wrapping incrementing burst that is longer than the wrap size, at a beat that is not a multiple of the wrap size.

The master below is LiteX's own test master (wishbone.Interface.read/write, one call per beat, adr/cti/bte driven on every
beat exactly as test_wishbone.py::test_sram_burst_wrap does).  Burst: wrap-4 (bte=01) starting at word 1; by B4 table 4-4 the
beat addresses are 1-2-3-0-5-6-7-4.  A single master wait state is inserted after the third beat.
  * with the wait state  : beat 5 (adr=5) returns the content of word 1            -> MISMATCH
  * without the wait state: the same burst returns the content of word 5           -> ok (control experiment)
The SRAM drops adr_latched/adr_counter/adr_counter_offset when stb goes low and re-latches the wrap offset from the address
of the resumed beat, so its block boundary (counted from the resume) no longer coincides with the burst's block boundary."""
import sys; sys.path.insert(0, '/verif')
from vf import elab
from migen import *
from litex.gen.sim import run_simulation
from litex.gen.sim.core import passive
from litex.soc.interconnect import wishbone

def experiment(wait_state, write_burst=False):
    bus = wishbone.Interface(data_width=32, adr_width=30, bursting=True)
    dut = wishbone.SRAM(8 * 4, bus=bus, init=[0xA0 + i for i in range(8)])     # word i holds 0xA0+i
    log = []; got = []
    INC, END = wishbone.CTI_BURST_INCREMENTING, wishbone.CTI_BURST_END
    beats = [1, 2, 3, 0, 5, 6, 7, 4]                                           # B4 table 4-4, wrap-4, start 1
    def master():
        for n, a in enumerate(beats):
            cti = END if n == len(beats) - 1 else INC
            if write_burst: yield from bus.write(a, 0xB0 + a, cti=cti, bte=0b01)
            else: got.append((a, (yield from bus.read(a, cti=cti, bte=0b01))))
            if wait_state and n == 2:                                          # master wait state: stb low for one cycle, cyc stays high
                yield bus.cyc.eq(1); yield bus.stb.eq(0); yield
        yield
        if write_burst:
            for a in range(8): got.append((a, (yield dut.mem[a])))
    @passive
    def monitor():
        c = 0
        while True:
            log.append(dict(c=c, cyc=(yield bus.cyc), stb=(yield bus.stb), we=(yield bus.we), adr=(yield bus.adr), cti=(yield bus.cti), bte=(yield bus.bte),
                            ack=(yield bus.ack), dat_r=hex((yield bus.dat_r))))
            c += 1; yield
    run_simulation(dut, [master(), monitor()])
    return got, log

bad = 0
for ws in (False, True):
    got, log = experiment(ws)
    print(f"--- wrap-4 READ burst 1-2-3-0-5-6-7-4, master wait state after beat 3: {ws}")
    for r in log: print("   ", r)
    for a, v in got:
        ok = v == 0xA0 + a
        if not ok: bad += 1
        print(f"    read beat adr={a}: got {v:#x} expected {0xA0 + a:#x} {'ok' if ok else 'MISMATCH'}")
for ws in (False, True):
    got, log = experiment(ws, write_burst=True)
    print(f"--- wrap-4 WRITE burst (word a := 0xB0+a) 1-2-3-0-5-6-7-4, master wait state after beat 3: {ws}")
    for a, v in got:
        ok = v == 0xB0 + a
        if not ok: bad += 1
        print(f"    memory word {a}: {v:#x} expected {0xB0 + a:#x} {'ok' if ok else 'MISMATCH'}")
print("MISMATCHES:", bad)
