"""Native replay (real litex.gen.sim) of C10 finding.aw/ar.unaligned-start: AXIUpConverter(32->64), full-width INCR write burst of 2 beats
(one whole wide word of data) that starts at address 4 (a 32-bit boundary that is not a 64-bit boundary).
AXI: the burst addresses bytes 4..11 (D0 -> 4..7, D1 -> 8..11).  Exit 1 when the defect shows, 0 otherwise."""
import sys; sys.path.insert(0, '/verif')
from vf import elab
from migen import *
from litex.gen.sim import run_simulation
from litex.soc.interconnect.axi import AXIInterface, AXIUpConverter

a = AXIInterface(data_width=32, address_width=32, id_width=2); c = AXIInterface(data_width=64, address_width=32, id_width=2)
d = AXIUpConverter(a, c)
D0, D1 = 0x11111111, 0x22222222
aw_seen, w_seen = [], []

def send(ep, beats):
    for bt in beats:
        for k, v in bt.items(): yield getattr(ep, k).eq(v)
        yield ep.valid.eq(1)
        for _ in range(50):
            yield
            if (yield ep.ready): break
    yield ep.valid.eq(0)
def recv(ep, fields, out, n):
    yield ep.ready.eq(1)
    for _ in range(60):
        yield
        if (yield ep.valid) and (yield ep.ready):
            row = {}
            for f in fields: row[f] = (yield getattr(ep, f))
            out.append(row)
            if len(out) == n: break

run_simulation(d, [send(a.aw, [dict(addr=4, len=1, size=2, burst=1)]), send(a.w, [dict(data=D0, strb=0xF, last=0), dict(data=D1, strb=0xF, last=1)]),
                   recv(c.aw, ["addr", "len", "size", "burst"], aw_seen, 1), recv(c.w, ["data", "strb", "last"], w_seen, 1)])
print("wide AW:", aw_seen, " wide W:", [{k: hex(v) for k, v in x.items()} for x in w_seen])
# AXI reference slave (A3.4): bytes written by the wide burst
mem = {}
aw = aw_seen[0]; nbytes = 1 << aw["size"]; addr = aw["addr"]
for i, beat in enumerate(w_seen):
    lo = addr if i == 0 else (addr & ~(nbytes - 1)) + i * nbytes; hi = (lo & ~(nbytes - 1)) + nbytes
    for byte in range(lo, hi):
        lane = byte % 8
        if (beat["strb"] >> lane) & 1: mem[byte] = (beat["data"] >> (8 * lane)) & 0xFF
want = {4 + i: (D0 >> (8 * i)) & 0xFF for i in range(4)}; want.update({8 + i: (D1 >> (8 * i)) & 0xFF for i in range(4)})
print("bytes written by the translated burst:", {k: hex(v) for k, v in sorted(mem.items())})
print("bytes the master wrote               :", {k: hex(v) for k, v in sorted(want.items())})
bad = mem != want
print("DEFECT: the translated burst does not transfer the same bytes" if bad else "ok")
sys.exit(1 if bad else 0)
