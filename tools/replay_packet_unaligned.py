"""Native replay (real litex.gen.sim) of the unaligned-header Packetizer / Depacketizer defects (property C16).
Exit 1 when a defect shows, 0 otherwise.  usage: python tools/replay_packet_unaligned.py"""
import sys; sys.path.insert(0, '/verif')
from vf import elab
from migen import *
from litex.gen.sim import run_simulation
from litex.soc.interconnect import stream
from litex.soc.interconnect.packet import Header, HeaderField, Packetizer, Depacketizer
F = {"a": HeaderField(0, 0, 8), "b": HeaderField(1, 0, 16), "c": HeaderField(3, 0, 24)}     # 6-byte header, 32-bit data: 1 full word + 2 bytes
hdr = Header(F, 6, swap_field_bytes=False)
bad = 0

def collect(ep, out, n, ready=lambda c: 1):
    c = 0
    while len(out) < n and c < 200:
        yield ep.ready.eq(ready(c)); yield; c += 1
        if (yield ep.valid) and (yield ep.ready): out.append(((yield ep.data), (yield ep.last)))

# 1. Packetizer: a one-beat packet
def t1():
    d = Packetizer(stream.EndpointDescription([("data", 32)], hdr.get_layout()), stream.EndpointDescription([("data", 32)]), hdr)
    out = []
    def prod():
        yield d.sink.valid.eq(1); yield d.sink.last.eq(1); yield d.sink.data.eq(0x44332211); yield d.sink.a.eq(0xA0); yield d.sink.b.eq(0xB2B1); yield d.sink.c.eq(0xC3C2C1)
        for _ in range(30):
            yield
            if (yield d.sink.ready): yield d.sink.valid.eq(0); return
    run_simulation(d, [prod(), collect(d.source, out, 3)])
    exp = [(0xC1B2B1A0, 0), (0x2211C3C2, 0)]
    print("packetizer one-beat packet:", [(hex(x), l) for x, l in out]); ok = out[:2] == exp and len(out) == 3 and out[2][1] == 1 and out[2][0] & 0xFFFF == 0x4433
    print("  expected header word, merge beat 0x2211c3c2, flush beat low bytes 0x4433 with last ->", "ok" if ok else "DEFECT"); return not ok
# 2. Packetizer: the producer pauses inside a packet and drives other values while valid is low
def t2():
    d = Packetizer(stream.EndpointDescription([("data", 32)], hdr.get_layout()), stream.EndpointDescription([("data", 32)]), hdr)
    out = []
    def prod():
        yield d.sink.a.eq(0xA0); yield d.sink.b.eq(0xB2B1); yield d.sink.c.eq(0xC3C2C1)
        for data, last, pause in [(0x44332211, 0, 2), (0x88776655, 1, 0)]:
            yield d.sink.valid.eq(1); yield d.sink.last.eq(last); yield d.sink.data.eq(data)
            for _w in range(40):
                yield
                if (yield d.sink.ready): break
            for _ in range(pause):
                yield d.sink.valid.eq(0); yield d.sink.data.eq(0xDEADBEEF); yield d.sink.last.eq(1); yield
        yield d.sink.valid.eq(0)
    run_simulation(d, [prod(), collect(d.source, out, 4)])
    exp = [(0xC1B2B1A0, 0), (0x2211C3C2, 0), (0x66554433, 0)]
    print("packetizer pause inside packet:", [(hex(x), l) for x, l in out]); ok = out[:3] == exp and len(out) == 4 and out[3][1] == 1 and out[3][0] & 0xFFFF == 0x8877
    print("  expected ... 0x66554433, flush low bytes 0x8877 with last ->", "ok" if ok else "DEFECT"); return not ok
# 3. Depacketizer: a raw packet whose payload ends inside the merge beat, next packet back to back
def t3():
    d = Depacketizer(stream.EndpointDescription([("data", 32)]), stream.EndpointDescription([("data", 32)], hdr.get_layout()), hdr)
    out = []
    raw = [(0xC1B2B1A0, 0), (0x2211C3C2, 1), (0xD1E2E1F0, 0), (0x6655D3D2, 0), (0x00008877, 1)]
    def prod():
        for data, last in raw:
            yield d.sink.valid.eq(1); yield d.sink.last.eq(last); yield d.sink.data.eq(data)
            for _w in range(40):
                yield
                if (yield d.sink.ready): break
        yield d.sink.valid.eq(0)
    def cons():
        c = 0
        while len(out) < 2 and c < 60:
            yield d.source.ready.eq(1); yield; c += 1
            if (yield d.source.valid) and (yield d.source.ready): out.append(((yield d.source.data), (yield d.source.last), (yield d.source.a)))
    run_simulation(d, [prod(), cons()])
    print("depacketizer short packet then back-to-back packet:", [(hex(x), l, hex(a)) for x, l, a in out])
    ok = len(out) == 2 and out[0][1] == 1 and out[0][0] & 0xFFFF == 0x2211 and out[0][2] == 0xA0 and out[1] == (0x88776655, 1, 0xF0)
    print("  expected (..2211,last,a=0xa0) then (0x88776655,last,a=0xf0) ->", "ok" if ok else "DEFECT"); return not ok
for t in (t1, t2, t3): bad |= t()
sys.exit(1 if bad else 0)
