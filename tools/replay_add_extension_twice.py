"""Native replay (unmodified /repo), OBSERVATION: ConstraintManager.add_extension does not check that the resources it is given are new.  Extending a
platform twice with the same list puts the same resource tuple twice into `available`; two request() calls then grant the same pin to two clients
and get_sig_constraints() lists the pin twice.  (The contract of add_extension assumes an extension of new, pairwise different resources.)
run: /verif/.venv/bin/python /verif/tools/replay_add_extension_twice.py"""
import sys
sys.path.insert(0, "/verif")
from vf import elab
from litex.build.generic_platform import ConstraintManager, Pins

def scenario():
    ext = [("led", 0, Pins("A1"))]
    cm = ConstraintManager([], [])
    cm.add_extension(ext); cm.add_extension(ext)
    a = cm.request("led", 0); b = cm.request("led", 0)
    cons = [(s.name_override, p, i) for s, p, o, i in cm.get_sig_constraints()]
    print("request('led', 0) twice ->", a, b, "distinct signals:", a is not b); print("get_sig_constraints():", cons)
    return a is not b and len(cons) == 2 and cons[0][1] == cons[1][1]

if __name__ == "__main__":
    r = scenario(); print("REPRODUCED" if r else "not reproduced"); sys.exit(0 if r else 1)
