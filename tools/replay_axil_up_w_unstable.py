"""Native replay (real LiteX code, litex.gen.sim): AXILiteUpConverter 32->64 changes slave.w.strb / slave.w.data while slave.w.valid is
high and slave.w.ready is low.  Two AXI4-Lite-legal master behaviours:
  A. pipelined write addresses: write #1 (addr 0x00, low lane), AW accepted, W stalled by the slave; the master then raises the AW of
     write #2 (addr 0x04, high lane) while W #1 is still waiting -> the stalled W beat jumps to the high lane and is accepted there.
  B. W offered before its AW: the beat is presented in the lane left over from the previous write and moves when the AW arrives."""
import sys; sys.path.insert(0, '/verif')
from vf import elab
from migen import *
from litex.gen.sim import run_simulation
from litex.soc.interconnect.axi import AXILiteInterface, AXILiteUpConverter

def build():
    m = AXILiteInterface(data_width=32, address_width=16); s = AXILiteInterface(data_width=64, address_width=16)
    class Top(Module):
        def __init__(self): self.submodules.uc = AXILiteUpConverter(m, s)
    return Top(), m, s

def watch(s, log, n):
    prev = None
    for c in range(n):
        cur = ((yield s.w.valid), (yield s.w.ready), (yield s.w.strb), (yield s.w.data), (yield s.aw.valid), (yield s.aw.ready), (yield s.aw.addr))
        log.append("cycle %d: s.w.valid=%d s.w.ready=%d s.w.strb=%s s.w.data=%#018x | s.aw.valid=%d s.aw.ready=%d s.aw.addr=%#x" % ((c,) + cur[:2] + (format(cur[2], "08b"),) + cur[3:]))
        if prev is not None and prev[0] and not prev[1] and (not cur[0] or cur[2:4] != prev[2:4]):
            log.append("   ^^^ VIOLATION: slave-side W was stalled (valid=1, ready=0) in the previous cycle and its payload changed")
        prev = cur
        yield

def scenario_A():
    d, m, s = build(); log = []
    def master():
        # write #1: AW(0x00) and W together
        yield m.aw.valid.eq(1); yield m.aw.addr.eq(0x00); yield m.w.valid.eq(1); yield m.w.data.eq(0x11111111); yield m.w.strb.eq(0xf)
        yield                                   # cycle 0: slave accepts AW, stalls W
        yield m.aw.valid.eq(0)
        yield                                   # cycle 1: W still stalled, lane from wr_word_r (low) - fine
        yield m.aw.valid.eq(1); yield m.aw.addr.eq(0x04)   # AW of write #2 (legal: AW of the next write may precede the W of the previous one)
        yield                                   # cycle 2: W #1 still stalled -> lane jumps
        yield
    def slave():
        yield s.aw.ready.eq(1); yield s.w.ready.eq(0)
        yield
        yield s.aw.ready.eq(0)
        yield; yield
        yield s.w.ready.eq(1)                   # cycle 3: slave finally takes the W beat of write #1 -- in the HIGH lane
        yield
    run_simulation(d, [master(), slave(), watch(s, log, 5)])
    return log

def scenario_B():
    d, m, s = build(); log = []
    def master():
        yield m.w.valid.eq(1); yield m.w.data.eq(0x22222222); yield m.w.strb.eq(0xf)      # W first (allowed by AXI)
        yield; yield
        yield m.aw.valid.eq(1); yield m.aw.addr.eq(0x0c)                                   # its AW two cycles later: high lane
        yield; yield
    def slave():
        yield s.aw.ready.eq(0); yield s.w.ready.eq(0)
        for _ in range(4): yield
    run_simulation(d, [master(), slave(), watch(s, log, 4)])
    return log

for name, fn in (("A (next AW raised while W of the previous write is stalled)", scenario_A), ("B (W offered before its AW)", scenario_B)):
    print("scenario", name)
    for l in fn(): print("  " + l)
