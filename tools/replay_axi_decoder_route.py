"""Native replay (real litex.gen.sim simulator, unchanged /repo) of the two AXILiteDecoder scenario restrictions on the AXI4 AXIDecoder
(same code):
 1. other-target-while-outstanding: an AW/AR that decodes to another slave while responses are outstanding is not stalled, the locked
    slave accepts it;
 2. w-before-aw: a W beat that precedes its AW is routed by the address that happens to be on the idle AW channel."""
import sys; sys.path.insert(0, '/verif')
from vf import elab
from migen import *
from litex.gen.sim import run_simulation
from litex.gen.sim.core import passive
from litex.soc.interconnect.axi import AXIInterface
from litex.soc.interconnect.axi.axi_full import AXIDecoder
from litex.soc.integration.soc import SoCRegion
class Bus: data_width = 32; address_width = 32
regions = [SoCRegion(origin=0x1000_0000, size=0x1000), SoCRegion(origin=0x2000_0000, size=0x1000)]
def build():
    m = AXIInterface(data_width=32, address_width=32, id_width=1); slaves = [AXIInterface(data_width=32, address_width=32, id_width=1) for _ in range(2)]
    class Top(Module):
        def __init__(self): self.submodules.dec = AXIDecoder(m, [(r.decoder(Bus), s) for r, s in zip(regions, slaves)])
    return Top(), m, slaves
def watcher(slaves, log):
    def w_():
        for s in slaves: yield s.aw.ready.eq(1); yield s.w.ready.eq(1); yield s.ar.ready.eq(1)     # slaves accept everything, answer late (never here)
        c = 0
        while True:
            yield; c += 1
            for j, s in enumerate(slaves):
                if (yield s.aw.valid): log.append((c, f"slave{j} accepts AW", hex((yield s.aw.addr))))
                if (yield s.ar.valid): log.append((c, f"slave{j} accepts AR", hex((yield s.ar.addr))))
                if (yield s.w.valid): log.append((c, f"slave{j} accepts W", hex((yield s.w.data)), "last", (yield s.w.last)))
    return passive(w_)()
# 1 ------------------------------------------------------------------------------------------------------------------------------
d, m, slaves = build(); log = []
def master1():
    for addr in (0x2000_0000, 0x1000_0004):          # first AW to slave 1, then (B still outstanding) AW to slave 0's window
        yield m.aw.addr.eq(addr); yield m.aw.valid.eq(1)
        yield
        while not (yield m.aw.ready): yield
    yield m.aw.valid.eq(0)
    for addr in (0x2000_0000, 0x1000_0004):
        yield m.ar.addr.eq(addr); yield m.ar.valid.eq(1)
        yield
        while not (yield m.ar.ready): yield
    yield m.ar.valid.eq(0); yield; yield
run_simulation(d, [master1(), watcher(slaves, log)])
for l in log: print(l)
bad1 = [l for l in log if l[1].startswith("slave1") and l[2].startswith("0x1000")]
print("1. DEFECT REPRODUCED: request for slave 0's window accepted by the locked slave 1" if bad1 else "1. no defect observed")
# 2 ------------------------------------------------------------------------------------------------------------------------------
d, m, slaves = build(); log = []
def master2():
    yield m.aw.addr.eq(0x1000_0000)                   # idle AW channel (valid low) still shows the previous address (slave 0)
    yield m.w.data.eq(0xDDDD0001); yield m.w.last.eq(1); yield m.w.valid.eq(1)        # W burst (1 beat) first
    yield
    while not (yield m.w.ready): yield
    yield m.w.valid.eq(0); yield
    yield m.aw.addr.eq(0x2000_0008); yield m.aw.valid.eq(1)                           # its AW: slave 1
    yield
    while not (yield m.aw.ready): yield
    yield m.aw.valid.eq(0); yield; yield
run_simulation(d, [master2(), watcher(slaves, log)])
for l in log: print(l)
bad2 = [l for l in log if l[1] == "slave0 accepts W"] and [l for l in log if l[1] == "slave1 accepts AW"]
print("2. DEFECT REPRODUCED: W data delivered to slave 0, its AW to slave 1" if bad2 else "2. no defect observed")
