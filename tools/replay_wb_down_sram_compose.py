"""Native cross-check (real litex.gen.sim, unchanged /repo) of the assume-guarantee link used in contracts/wip_C07_conv_ext.py:
the REAL composition wishbone.DownConverter -> wishbone.SRAM(bursting=True) is driven with random classic / constant / linear
incrementing cycles (random sel, data, master wait states between burst beats, cyc dropped or kept between beats) and compared
with a flat byte memory.  3 geometries x 40 seeds x 60 cycles; prints `errors 0` on the unchanged tree.  Not a proof."""
import sys, random; sys.path.insert(0,'/verif')
from vf import elab
from migen import *
from litex.gen.sim import run_simulation
from litex.soc.interconnect import wishbone
INC, END = 2, 7
def run(seed, dw_from=32, dw_to=8, depth_m=8):
    rnd = random.Random(seed)
    r = dw_from // dw_to
    m = wishbone.Interface(data_width=dw_from, adr_width=8, bursting=True); s = wishbone.Interface(data_width=dw_to, adr_width=8 + r.bit_length() - 1, bursting=True)
    class Top(Module):
        def __init__(self):
            self.submodules.down = wishbone.DownConverter(m, s)
            self.submodules.sram = wishbone.SRAM(depth_m * dw_from // 8, bus=s)
    dut = Top()
    NL = dw_from // 8
    model = [0] * (depth_m * NL); errs = []
    def master():
        for _ in range(60):
            kind = rnd.choice(["classic", "burst", "burst", "const"])
            we = rnd.random() < 0.5
            n = 1 if kind == "classic" else rnd.randint(1, 4)
            a0 = rnd.randrange(depth_m - n + 1) if kind != "const" else rnd.randrange(depth_m)
            bte = 0
            keepcyc = rnd.random() < 0.7
            for i in range(n):
                a = a0 + i if kind == "burst" else a0
                cti = 0 if kind == "classic" else ((INC if kind == "burst" else 1) if i < n - 1 else END)
                sel = rnd.choice([2**NL - 1, rnd.randrange(1, 2**NL), rnd.randrange(2**NL)])
                dat = rnd.getrandbits(dw_from)
                yield m.adr.eq(a); yield m.we.eq(we); yield m.sel.eq(sel); yield m.dat_w.eq(dat); yield m.cti.eq(cti); yield m.bte.eq(bte)
                yield m.cyc.eq(1); yield m.stb.eq(1); yield
                t = 0
                while not (yield m.ack):
                    yield; t += 1
                    if t > 50: errs.append(("hang", seed, a)); return
                if we:
                    for l in range(NL):
                        if sel >> l & 1: model[a * NL + l] = dat >> (8 * l) & 0xff
                else:
                    got = (yield m.dat_r)
                    for l in range(NL):
                        if sel >> l & 1 and (got >> (8 * l) & 0xff) != model[a * NL + l]: errs.append(("read", seed, a, l, hex(got), model[a*NL:(a+1)*NL], kind, i, cti))
                if i < n - 1 and keepcyc:
                    if rnd.random() < 0.3:
                        yield m.stb.eq(0)
                        for _ in range(rnd.randint(1, 2)): yield
                else:
                    yield m.cyc.eq(0); yield m.stb.eq(0)
                    for _ in range(rnd.randint(0, 2)): yield
        yield
    run_simulation(dut, [master()])
    return errs
tot = 0
for geo in ((32, 8), (32, 16), (64, 32)):
    for seed in range(40):
        e = run(seed, *geo)
        if e: print(geo, e[:3]); tot += len(e)
print("errors", tot)
