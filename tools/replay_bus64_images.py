"""Native replay (unmodified /repo): memory images on a 64-bit main bus (SoCCore(bus_data_width=64)).
 1. SoCCore(integrated_rom_init=<file>): the file is packed into 64-bit words but the ROM size is 4*len(words): region and memory hold half of the file.
 2. SoC.init_ram: contents size = 4*len(contents) whatever the bus width: an image twice as large as the region passes the check, the excess words are dropped.
run: /verif/.venv/bin/python /verif/tools/replay_bus64_images.py      (exit status 1 = defect reproduced)"""
import sys, os, tempfile, logging, shutil
sys.path.insert(0, "/verif")
from vf import elab
try: import contracts.C14_more as W
except ImportError: import contracts.C14_more as W
from contracts.C14_exports import P
from litex.soc.integration.soc_core import SoCCore
from litex.soc.integration import export, soc as S
logging.disable(logging.CRITICAL)
hit = 0
d = tempfile.mkdtemp(prefix="replay_b64_"); data = bytes(range(1, 41)); fn = os.path.join(d, "rom.bin"); open(fn, "wb").write(data)
print("== 1. SoCCore(cpu stub, bus_data_width=64, integrated_rom_init='rom.bin' (40 bytes))")
soc = SoCCore(P(), 100e6, cpu_type="vfstub", bus_data_width=64, bus_timeout=64, integrated_rom_size=0x40, integrated_rom_init=fn, integrated_sram_size=0x100, with_uart=False, with_timer=True, ident="", ident_version=False); elab.restore_stderr()
soc.finalize(); elab.restore_stderr()
r = soc.bus.regions["rom"]
print(f"   published rom region: origin {r.origin:#x} size {r.size:#x} ({r.size} bytes); memory {soc.rom.mem.depth} x {soc.rom.mem.width} bit; Memory.init has {len(soc.rom.mem.init)} words")
print("   mem.h:", [l for l in export.get_mem_header(soc.mem_regions).splitlines() if "ROM_" in l])
got = W._readback(soc, soc.cpu.ibus, "little", [("rom", r.origin, len(data))])["rom"]
print("   bytes read at origin+k through the CPU's bus master:", " ".join("--" if x is None else f"{x:02x}" for x in got)); print("   file                                               :", " ".join(f"{x:02x}" for x in data))
hit += got != list(data)
print("== 2. SoC.init_ram on a 0x20-byte RAM")
for dw in (32, 64):
    for nbytes in (32, 40, 64, 72):
        s2 = SoCCore(P(), 100e6, cpu_type=None, bus_data_width=dw, integrated_rom_size=0, integrated_sram_size=0x100, with_uart=False, with_timer=False, ident="", ident_version=False); elab.restore_stderr()
        s2.add_ram("r", origin=0x2000_0000, size=0x20); words = [1] * (nbytes // (dw // 8))
        try: s2.init_ram("r", contents=words); res = f"accepted (Memory depth {s2.r.mem.depth}, init {len(s2.r.mem.init)} words)"; hit += nbytes > 0x20
        except S.SoCError: elab.restore_stderr(); res = "SoCError"
        print(f"   {dw}-bit bus, image of {nbytes} bytes: {res}")
shutil.rmtree(d, ignore_errors=True)
print("REPRODUCED" if hit else "not reproduced"); sys.exit(1 if hit else 0)
