"""Native replay of C01 finding candidates around a slice of a Cat on the LEFT-hand side (litex/gen/fhdl/verilog.py:_ComplexSliceLowerer.visit_Slice,
target context: `a = _Assign(node, slice_proxy)`; inherited from Migen).  `Cat(x, y)[2:7].eq(v)` becomes `slice_proxy[6:2] <= v;` plus
`assign {y, x} = slice_proxy;`: ALL bits of x and y are driven from slice_proxy, whose default / initial / reset value is zero, whereas the simulator
(Evaluator.assign on a _Slice) does a read-modify-write that keeps the other bits.
 (a) comb, x has reset value 5: simulator keeps bits 1:0 of x at 0b01, Verilog drives them to 0
 (b) comb, x.eq(a) before the sliced assignment: simulator keeps a[1:0], Verilog drives 0
 (c) sync, register p with reset value 5: never visible in the Verilog design (p is a wire of slice_proxy, initial value 0)
(without a working name tracer - Python >= 3.11 - the proxy is called `complexslicelowerer` instead of `slice_proxy`)
 (d) sync, the same Cat sliced at two places (one inside p3): p3 is declared wire, assigned in the always block AND continuously driven
run: PYTHONPATH=/repo /venv/bin/python tools/replay_c01_sliced_cat_target.py     exit 0 = defects present, 1 = not reproduced"""
import re
from migen import *
from litex.gen.sim import run_simulation
from litex.gen.fhdl.verilog import convert
def S(n, *a, **k): return Signal(*a, name_override=n, **k)
class A(Module):
    def __init__(self, other):
        self.v = S("v", 5); self.a = S("a", 4); self.x = S("x", 4, reset=0 if other else 5); self.y = S("y", 5)
        self.comb += ([self.x.eq(self.a)] if other else []) + [Cat(self.x, self.y)[2:7].eq(self.v)]
class C(Module):
    def __init__(self):
        self.v = S("v", 5); self.p = S("p", 4, reset=5); self.q = S("q", 5); self.o = S("o", 9)
        self.clock_domains.cd_sys = ClockDomain("sys")
        self.sync += Cat(self.p, self.q)[2:7].eq(self.v); self.comb += self.o.eq(Cat(self.p, self.q))
class E(Module):
    def __init__(self):
        self.v = S("v", 5); self.w = S("w", 3); self.p3 = S("p3", 4); self.q3 = S("q3", 5); self.o = S("o", 9)
        self.clock_domains.cd_sys = ClockDomain("sys")
        self.sync += Case(self.w, {1: Cat(self.p3, self.q3)[3:6].eq(self.v), 2: Cat(self.p3, self.q3)[0:2].eq(self.w)}); self.comb += self.o.eq(Cat(self.p3, self.q3))
ok = []
for other in (False, True):
    d = A(other); seen = []
    def tb():
        yield d.v.eq(0b11111); yield d.a.eq(0b0110); yield
        seen.append(((yield d.x), (yield d.y)))
    run_simulation(d, tb())
    d2 = A(other); txt = convert(d2, ios={d2.v, d2.a, d2.x, d2.y}, name="top").main_source
    body = [l.strip() for l in txt.split("// Combinatorial Logic")[1].split("// Synchronous")[0].splitlines() if l.strip() and not l.startswith("//")]
    print("(b)" if other else "(a)", "simulator (x, y) for v = 0b11111, a = 0b0110:", [(bin(x), bin(y)) for x, y in seen]); print("    emitted:", " | ".join(body))
    # Verilog: slice_proxy = 0 with bits 6:2 = v -> {y, x} = 9'b0_0111_1100 -> x = 0b1100, y = 0b00111
    vx = (0b11111 << 2) & 0xf; print("    Verilog x =", bin(vx), "(bits 1:0 come from slice_proxy's default 0)")
    ok.append(re.search(r"\{y, x\} <?= \w+;", txt) is not None and seen[0][0] != vx)
d = C(); seen = []
def tb():
    seen.append((yield d.o)); yield; seen.append((yield d.o))
run_simulation(d, tb())
d2 = C(); txt = convert(d2, ios={d2.v, d2.o}, name="top").main_source
decl = [l.strip() for l in txt.splitlines() if re.search(r"\b(p|slice_proxy\d*|complexslicelowerer\d*)\b", l) and re.match(r"\s*(reg|wire|assign)", l)]
print("(c) simulator o = Cat(p, q) at power-up and after one clock with v = 0:", [bin(x) for x in seen], "(p holds its reset value 5)"); print("    emitted:", " | ".join(decl))
ok.append(seen[0] & 0xf == 5 and re.search(r"reg\s+\[8:0\] \w+ = 9'd0;", txt) is not None and re.search(r"wire\s+\[3:0\] p;", txt) is not None)
d2 = E(); txt = convert(d2, ios={d2.v, d2.w, d2.o}, name="top").main_source
p3 = [l.strip() for l in txt.splitlines() if re.search(r"\bp3\b", l) and not l.startswith("//")]
print("(d) emitted lines that mention p3:", " | ".join(p3))
ok.append(re.search(r"wire\s+\[3:0\] p3;", txt) is not None and "p3[1:0] <= w;" in txt and re.search(r"assign \{q3, p3\} = \w+;", txt) is not None)
print("reproduced (a, b, c, d):", ok)
raise SystemExit(0 if all(ok) else 1)
