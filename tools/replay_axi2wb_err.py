"""Native replay (real LiteX code): AXI2Wishbone answers RESP_OKAY to a write and to a read whose Wishbone cycle was terminated with ack+err."""
import sys; sys.path.insert(0, '/verif')
from vf import elab
from migen import *
from litex.gen.sim import run_simulation
from litex.gen.sim.core import passive
from litex.soc.interconnect import wishbone
from litex.soc.interconnect.axi import AXIInterface, AXI2Wishbone
ax = AXIInterface(data_width=32, address_width=16, id_width=2); wb = wishbone.Interface(data_width=32, address_width=16)
class Top(Module):
    def __init__(self): self.submodules.br = AXI2Wishbone(ax, wb, 0)
d = Top(); log = []
def master():
    # single-beat write
    yield ax.aw.valid.eq(1); yield ax.aw.addr.eq(0x10); yield ax.aw.len.eq(0); yield ax.aw.size.eq(2); yield ax.aw.burst.eq(1)
    yield ax.w.valid.eq(1); yield ax.w.data.eq(0xdeadbeef); yield ax.w.strb.eq(0xf); yield ax.w.last.eq(1); yield ax.b.ready.eq(1); yield ax.r.ready.eq(1)
    aw_done = w_done = False
    for c in range(30):
        yield
        if (yield ax.aw.ready) and not aw_done: aw_done = True; yield ax.aw.valid.eq(0)
        if (yield ax.w.ready) and not w_done: w_done = True; yield ax.w.valid.eq(0)
        if (yield ax.b.valid): log.append(f"write: B resp={(yield ax.b.resp)} (0 = OKAY, 2 = SLVERR)"); break
    yield
    # single-beat read
    yield ax.ar.valid.eq(1); yield ax.ar.addr.eq(0x10); yield ax.ar.len.eq(0); yield ax.ar.size.eq(2); yield ax.ar.burst.eq(1)
    for c in range(30):
        yield
        if (yield ax.ar.ready): yield ax.ar.valid.eq(0)
        if (yield ax.r.valid): log.append(f"read:  R resp={(yield ax.r.resp)} last={(yield ax.r.last)}"); break
@passive
def slave():
    while True:
        yield wb.ack.eq(0); yield wb.err.eq(0)
        yield
        if (yield wb.cyc) and (yield wb.stb) and not (yield wb.ack):
            log.append(f"wishbone {'write' if (yield wb.we) else 'read'} cycle at word {(yield wb.adr):#x}: slave terminates it with ack+err")
            yield wb.ack.eq(1); yield wb.err.eq(1)
            yield
run_simulation(d, [master(), slave()])
print("\n".join(log))
