"""Native replay (plain CPython, real classes, no proxies) of two completeness defects of lattice_ecp5.ECP5PLL.compute_config with all
four outputs in use (no spare output left to close the feedback loop):

 F1  `if self.nclkouts == self.nclkouts_max and not config["clkfb"]` treats feedback through output 0 like "no feedback output"
     (`not 0` is True): a request whose only possible feedback output is CLKOP (index 0) is refused although a setting exists; the
     same request with outputs 0 and 1 swapped is accepted.
 F2  an output can close the loop only if its FIRST-FIT divider (smallest divider inside the margin) equals clkofb_div; with a margin
     wide enough for two dividers the smaller one is stored and the candidate is rejected: the request is refused, and accepted when
     the margin of that output is TIGHTENED.

Each request is also decided by an independent exhaustive search over the declared ranges (exact rational arithmetic).
usage: .venv/bin/python tools/replay_c20_ecp5_four_outputs.py         (VERIF_REPO=<tree> to replay on another tree)"""
import sys, os, fractions
sys.path.insert(0, os.path.join(os.path.dirname(os.path.abspath(__file__)), ".."))
from vf import elab
from migen import Signal, ClockDomain
from litex.soc.cores.clock.lattice_ecp5 import ECP5PLL
F = fractions.Fraction

def native(fin, outs):
    pll = ECP5PLL(); pll.logger.disabled = True
    pll.register_clkin(Signal(), fin)
    for k, (f, m) in enumerate(outs): pll.create_clkout(ClockDomain(f"o{k}"), f, margin=m, with_reset=False)
    try:
        cfg = pll.compute_config()
        return "returned " + str({k: v for k, v in cfg.items() if "freq" not in k and "phase" not in k})
    except ValueError as e: return f"raised ValueError({e})"

def exists(fin, outs):
    """a setting inside the declared ranges: clki_div, clkfb_div, output dividers, PFD and VCO windows; VCO = pfd*clkfb_div*d_j for the output j
    that closes the loop (all four outputs are requested, so j must be one of them)"""
    fin = F(fin); outs = [(F(f), F(m)) for f, m in outs]; R = ECP5PLL
    for ki in range(*R.clki_div_range):
        pfd = fin / ki
        if not (F(R.pfd_freq_range[0]) <= pfd <= F(R.pfd_freq_range[1])): continue
        for kf in range(*R.clkfb_div_range):
            for j, (fj, mj) in enumerate(outs):
                for dj in range(*R.clko_div_range):
                    vco = pfd * kf * dj
                    if not (F(R.vco_freq_range[0]) <= vco <= F(R.vco_freq_range[1])): continue
                    if abs(vco / dj - fj) > fj * mj: continue
                    ds = []
                    for n, (f, m) in enumerate(outs):
                        if n == j: ds.append(dj); continue
                        c = [d for d in range(*R.clko_div_range) if abs(vco / d - f) <= f * m]
                        if not c: break
                        ds.append(c[0])
                    if len(ds) == len(outs): return dict(clki_div=ki, clkfb_div=kf, feedback_output=j, dividers=ds, vco_MHz=float(vco / 1000000))
    return None

def show(title, fin, outs):
    n = native(fin, outs); e = exists(fin, outs)
    print(f"{title}\n   clkin={fin/1e6:g} MHz outs(MHz, margin)={[(f/1e6, m) for f, m in outs]}\n   real compute_config: {n}\n   independent search : {e}")
    return n.startswith("raised") and e is not None

bad = 0
bad += show("F1  feedback possible through output 0 only", 10e6, [(50e6, 1e-2), (25e6, 1e-2), (12.5e6, 1e-2), (6.25e6, 1e-2)])
show("F1' same request, outputs 0 and 1 swapped (control)", 10e6, [(25e6, 1e-2), (50e6, 1e-2), (12.5e6, 1e-2), (6.25e6, 1e-2)])
bad += show("F2  feedback output 1 with a margin that admits dividers 63, 64, 65", 10e6, [(64e6, 1e-3), (10e6, 2e-2), (32e6, 1e-3), (16e6, 1e-3)])
show("F2' same request, margin of output 1 tightened to 1e-3 (control)", 10e6, [(64e6, 1e-3), (10e6, 1e-3), (32e6, 1e-3), (16e6, 1e-3)])
print(f"{bad} request(s) refused although a setting inside the declared ranges exists")
sys.exit(1 if bad else 0)
