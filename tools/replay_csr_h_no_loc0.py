"""Native replay of the C14 finding `finding.csr.h offsets are relative to the FIRST region, not to the CSR base`:
export.get_csr_header computes every published address as CSR_BASE + (region.origin - origin of the first region in the dict).
SoC.finalize sorts the regions by origin, so this is right as long as some bank sits at location 0 of the CSR space. With every bank
pinned to a location >= 1 (and no controller) the lowest bank is published at CSR_BASE + 0 while the hardware answers at
CSR_BASE + location*paging; JSON/CSV publish the right addresses.
run: PYTHONPATH=/repo /venv/bin/python tools/replay_csr_h_no_loc0.py   (exit 0 = the defect is reproduced)"""
import sys, re, json
from migen import *
from litex.gen import LiteXModule
from litex.build.generic_platform import Pins
from litex.build.sim import SimPlatform
from litex.soc.integration.soc_core import SoCCore
from litex.soc.integration import export
from litex.soc.interconnect.csr import CSRStorage
from litex.soc.interconnect import wishbone
from litex.gen.sim import run_simulation

class P(SimPlatform):
    def __init__(self): SimPlatform.__init__(self, "SIM", [("sys_clk", 0, Pins(1)), ("sys_rst", 0, Pins(1))])
class Per(LiteXModule):
    def __init__(self): self.r = CSRStorage(8, name="r")
soc = SoCCore(P(), 100e6, cpu_type=None, integrated_sram_size=0x100, with_uart=False, with_timer=False, with_ctrl=False, ident="", ident_version=False)
if sys.stderr is None: sys.stderr = sys.__stderr__
soc.aaa = Per(); soc.zzz = Per(); soc.csr.add("aaa", n=5); soc.csr.add("zzz", n=2)
m = wishbone.Interface(data_width=32, address_width=32, addressing="word"); soc.bus.add_master("tb", m)
soc.finalize()
if sys.stderr is None: sys.stderr = sys.__stderr__
csr_base = soc.bus.regions["csr"].origin
hdr = export.get_csr_header(soc.csr_regions, soc.constants, csr_base)
pub = {mm.group(1).lower(): csr_base + int(mm.group(2), 16) for mm in re.finditer(r"#define CSR_(\w+)_R_ADDR \(CSR_BASE \+ (0x[0-9a-f]+)L\)", hdr)}
js = json.loads(export.get_csr_json(soc.csr_regions, soc.constants, soc.mem_regions))
print("hardware regions :", {k: hex(v.origin) for k, v in soc.csr_regions.items()})
print("csr.h publishes  :", {k: hex(v) for k, v in pub.items()})
print("csr.json         :", {k: hex(v["addr"]) for k, v in js["csr_registers"].items() if k.endswith("_r")})
seen = {}
def tb():
    for name, per in (("zzz", soc.zzz), ("aaa", soc.aaa)):
        yield m.adr.eq(pub[name] >> 2); yield m.dat_w.eq(0xa5); yield m.sel.eq(0xf); yield m.we.eq(1); yield m.cyc.eq(1); yield m.stb.eq(1); yield
        for _ in range(40):
            if (yield m.ack): break
            yield
        yield m.cyc.eq(0); yield m.stb.eq(0); yield m.we.eq(0); yield; yield
        seen[name] = (yield per.r.storage)
run_simulation(soc, tb())
print("after a bus write of 0xa5 to the address csr.h publishes:", {k: hex(v) for k, v in seen.items()})
wrong = [k for k, v in seen.items() if v != 0xa5]
print("DEFECT REPRODUCED: registers not reached at their published csr.h address:" if wrong else "no defect", wrong)
raise SystemExit(0 if wrong else 1)
