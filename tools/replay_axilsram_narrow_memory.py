"""Native replay (real LiteX code): AXILiteSRAM given a Memory narrower than the bus (admitted by `assert mem.width <= bus_data_width`)."""
import sys, traceback; sys.path.insert(0, '/verif')
from vf import elab
from migen import *
from litex.gen.sim import run_simulation
from litex.soc.interconnect.axi import AXILiteInterface, AXILiteSRAM
for ro in (False, True):
    try:
        ax = AXILiteInterface(data_width=32, address_width=32)
        d = AXILiteSRAM(Memory(16, 4, init=[0x1111, 0x2222, 0x3333, 0x4444]), read_only=ro, bus=ax)
        out = []
        def gen(): out.append((yield from ax.read(4)))
        run_simulation(d, gen())
        print(f"read_only={ro}: elaborates; read(4) -> data {out[0][0]:#x} resp {out[0][1]}")
    except Exception as e:
        t = [x for x in traceback.extract_tb(e.__traceback__) if "/litex/" in x.filename][-1]
        print(f"read_only={ro}: constructor raises {type(e).__name__} at {t.filename}:{t.lineno}: {t.line}")
