import sys; sys.path.insert(0,'/verif')
from vf import elab
import importlib, z3
mod = importlib.import_module(sys.argv[1]); h = getattr(mod, sys.argv[2])(*eval(sys.argv[3], vars(mod))); h.use_auto=False
names = list(h.hints)
inv = [h.hints[n] for n in names]
# init check
for n in names:
    s = z3.Solver(); s.add(*h.base()); s.add(*h.init_eqs()); s.add(z3.Not(h.hints[n]))
    if s.check() != z3.unsat: print("INIT FAILS", n)
for n in names:
    s = z3.Solver(); s.set("timeout", 60000); s.add(*h.base()); s.add(*inv); s.add(z3.Not(h.primed(h.hints[n])))
    r = s.check(); print(n, r)
    if r == z3.sat and (len(sys.argv) < 5 or sys.argv[4] == n):
        m = s.model()
        def ev(x): return m.eval(x, model_completion=True)
        for k,g in h.ghosts.items():
            if g[0].size() <= 64: print("  ghost", k, ev(g[0]), "->", ev(g[2]))
        for sg in h.ts.state:
            if sg.nbits <= 64: print("  reg", str(h.v(sg)), ev(h.v(sg)), "->", ev(h.n(sg)))
        for i in h.ts.inputs:
            if i.nbits <= 64: print("  in", str(h.v(i)), ev(h.v(i)))
        if len(sys.argv) < 5: break
