"""Native replay of a C01 finding candidate: a READ-ONLY memory port declared No-Change.  The simulator accepts it (migen MemoryToArray: "NO_CHANGE without
write capability reduces to READ_FIRST"); litex/gen/fhdl/memory.py prints `if (!<we>)` for every No-Change port and raises on port.we = None.
run: PYTHONPATH=/repo /venv/bin/python tools/replay_c01_no_change_read_only.py     exit 0 = defect present (convert raises), 1 = not reproduced"""
from migen import *
from migen.fhdl.specials import Memory, NO_CHANGE
from litex.gen.sim import run_simulation
from litex.gen.fhdl.verilog import convert
class D(Module):
    def __init__(self):
        self.mem = Memory(8, 4, init=[1, 2, 3, 4]); self.p = self.mem.get_port(mode=NO_CHANGE); self.specials += self.mem, self.p; self.clock_domains.cd_sys = ClockDomain("sys")
d = D(); seen = []
def tb():
    yield d.p.adr.eq(2); yield; yield
    seen.append((yield d.p.dat_r))
run_simulation(d, tb()); print("simulator: read of address 2 ->", seen)
d2 = D()
try:
    convert(d2, ios={d2.p.adr, d2.p.dat_r, d2.cd_sys.clk, d2.cd_sys.rst}, name="top"); print("convert() succeeded"); raise SystemExit(1)
except TypeError as e:
    print("convert() raised TypeError:", e); raise SystemExit(0 if seen == [3] else 1)
