"""Native replay of the C01 finding `finding.multiclock-memory-read-first`:
a memory with ports in two clock domains. The REAL simulator keeps the declared Write-First mode (address register + transparent read),
the REAL printer rewrites every port to Read-First (data register loaded at the port's own clock edge only).
Scenario: port A (clock `sys`) has registered address 0; port B (clock `rd`) then writes address 0 while `sys` does not tick any more.
  simulator : A.dat_r follows the write (prints the new word)
  Verilog   : `mem_dat0` is assigned only inside `always @(posedge sys_clk)`, so A.dat_r keeps the old word (shown from the emitted text).
run:  PYTHONPATH=/repo /venv/bin/python tools/replay_c01_multiclock_mem.py"""
import re
from migen import *
from litex.gen.sim import run_simulation
from litex.gen.fhdl.verilog import convert

class D(Module):
    def __init__(self):
        mem = Memory(8, 4, init=[1, 2, 3, 4]); self.specials += mem
        self.pa = mem.get_port(write_capable=True, clock_domain="sys"); self.pb = mem.get_port(write_capable=True, clock_domain="rd")
        self.specials += self.pa, self.pb

d = D(); seen = {}
def sys_side():
    yield d.pa.adr.eq(0); yield; yield
    seen["before"] = (yield d.pa.dat_r)
    for _ in range(6): yield
    seen["after (no access on port A in between)"] = (yield d.pa.dat_r)
def rd_side():
    for _ in range(4): yield
    yield d.pb.adr.eq(0); yield d.pb.dat_w.eq(0x55); yield d.pb.we.eq(1); yield
    yield d.pb.we.eq(0); yield
run_simulation(d, {"sys": sys_side(), "rd": rd_side()}, clocks={"sys": 10, "rd": 10})
print("simulator: port A reads", seen)
d2 = D(); f = d2.get_fragment()
for n in ("sys", "rd"): f.clock_domains.append(ClockDomain(n))
ios = {d2.pa.adr, d2.pa.dat_r, d2.pa.we, d2.pa.dat_w, d2.pb.adr, d2.pb.dat_r, d2.pb.we, d2.pb.dat_w} | {cd.clk for cd in f.clock_domains} | {cd.rst for cd in f.clock_domains}
txt = convert(f, ios=ios, name="top").main_source
blk = txt[txt.index("// Memory"):]
print(blk[:blk.index("endmodule")])
m = re.search(r"always @\(posedge (\w+)\) begin(?:(?!always).)*?mem_dat0 <= mem\[", blk, re.S)
print("Verilog: mem_dat0 (= port A read data) is loaded only at posedge", m.group(1), "-> keeps the old word 1 after the rd-domain write; simulator shows 0x55")
assert seen["before"] == 1
differs = seen["after (no access on port A in between)"] != 1
print("DIFFERS" if differs else "same")
raise SystemExit(0 if differs else 1)
