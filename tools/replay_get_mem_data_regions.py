"""Native replay (no verification machinery): litex.soc.integration.common.get_mem_data with a dict of regions whose base is
(1) not a multiple of the word size, (2) shares a word with the preceding file, (3) lies below `offset`.
Prints the image the unmodified function publishes and the image a flat byte layout (file byte k at address base-offset+k) gives.
  /verif/.venv/bin/python /verif/tools/replay_get_mem_data_regions.py"""
import os, sys, tempfile, shutil
sys.path.insert(0, os.environ.get("VERIF_REPO", "/repo"))
from litex.soc.integration.common import get_mem_data

def flat(files, offset, bpw=4):
    size = max(b + len(d) - offset for b, d in files); img = bytearray(-(-size // bpw) * bpw)
    for b, d in files: img[b - offset:b - offset + len(d)] = d
    return [int.from_bytes(img[j:j + bpw], "little") for j in range(0, len(img), bpw)]

d = tempfile.mkdtemp()
try:
    A = bytes([0x11, 0x22, 0x33, 0x44, 0x55]); B = bytes([0xaa, 0xbb])
    pa = os.path.join(d, "a.bin"); open(pa, "wb").write(A)
    pb = os.path.join(d, "b.bin"); open(pb, "wb").write(B)
    h = lambda ws: [f"0x{w:08x}" for w in ws]
    print("(1) {a.bin: '0x2'}, data_width=32, little, offset=0   (a.bin = 11 22 33 44 55)")
    print("    published:", h(get_mem_data({pa: "0x2"}, 32, "little", offset=0)))
    print("    expected :", h(flat([(2, A)], 0)), " (byte 0x11 belongs at address 2 = word 0 lane 2)")
    print("(2) {a.bin: '0x0', b.bin: '0x6'}   (b.bin = aa bb)")
    print("    published:", h(get_mem_data({pa: "0x0", pb: "0x6"}, 32, "little", offset=0)))
    print("    expected :", h(flat([(0, A), (6, B)], 0)), " (a.bin's byte 0x55 at address 4 is cleared, b.bin lands at 4..5 instead of 6..7)")
    print("(3) {a.bin: '0x0', b.bin: '0x10'}, offset=8   (a.bin lies below the memory base)")
    try: print("    published:", h(get_mem_data({pa: "0x0", pb: "0x10"}, 32, "little", offset=8)), " (a.bin was written through negative list indices, i.e. at the END of the image; b.bin then overwrote part of it)")
    except Exception as e: print("    raised", type(e).__name__, e)
    print("    expected : rejection (assertion), as for the other unusable inputs")
finally:
    shutil.rmtree(d, ignore_errors=True)
