"""Native replay of a C01 finding candidate: litex/gen/fhdl/expression.py:_generate_operator returns `s1 or s2` as the signedness of EVERY binary
operator, also of the comparisons, whose result is one unsigned bit in FHDL and in Verilog.  A comparison with a signed operand is thus taken for signed
and a signed sibling is not wrapped in $signed({1'd0, ..}); IEEE 1364-2005 5.5.1 then evaluates the parent operator unsigned (the comparison result is an
unsigned operand): the sibling is ZERO-extended where the simulator sign-extends it.  Inherited from Migen's printer.
run: PYTHONPATH=/repo /venv/bin/python tools/replay_c01_comparison_signedness.py     exit 0 = defect present, 1 = not reproduced"""
from migen import *
from litex.gen.sim import run_simulation
from litex.gen.fhdl.verilog import convert
class D(Module):
    def __init__(self):
        self.a = Signal((4, True), name_override="a"); self.b = Signal((4, True), name_override="b"); self.c = Signal((4, True), name_override="c")
        self.y = Signal((8, True), name_override="y"); self.e = Signal(name_override="e")
        self.comb += [self.y.eq((self.a < self.b) + self.c), self.e.eq((self.a < self.b) == self.c)]
d = D(); seen = []
def tb():
    yield d.a.eq(0); yield d.b.eq(1); yield d.c.eq(-1); yield
    seen.append(((yield d.y), (yield d.e)))
run_simulation(d, tb())
d2 = D(); txt = convert(d2, ios={d2.a, d2.b, d2.c, d2.y, d2.e}, name="top").main_source
lines = [l for l in txt.splitlines() if l.startswith("assign")]
print("a = 0, b = 1, c = -1: simulator (y, e) =", seen[0], " [1 + -1 = 0; 1 == -1 is false]")
print("emitted:", " | ".join(lines))
# IEEE-1364: (a < b) is a 1-bit unsigned operand -> the + and the == are unsigned -> c = 4'b1111 is zero-extended: y = 1 + 15 = 16 ; e: 4'b0001 == 4'b1111 false
# (e differs for a 1-bit signed c; shown by the check on all shapes)
vy = (1 + 15) & 0xff
print("Verilog: (a < b) is unsigned, so c is zero-extended: y =", vy)
unwrapped = any("(a < b) + c" in l for l in lines)
raise SystemExit(0 if unwrapped and seen[0][0] != vy else 1)
