"""Native replay (unmodified /repo): what a SoC publishes in csr.json does not survive export.load_csr_json / Builder.add_json (the documented way to
publish the registers of a sub-SoC in the csr.h of an outer SoC).
 1. MockCSR.size gets the JSON `size` (bus WORDS); the exporters read it as BITS: multi-word registers shrink to one word, later registers move down.
 2. a register is put into every region whose name is a prefix of the text before its last '_' (regions `dev` and `dev_phy`, LiteX's own uart / uart_phy).
 3. MockCSR.type is read by no exporter: read-only registers get write accessors.
 4. get_csr_header prints MockCSRRegion addresses relative to the first region of the outer SoC as if they were absolute: negative numbers when the
    outer CSR base is not 0 (every SoC with a CPU).
run: /verif/.venv/bin/python /verif/tools/replay_csr_json_roundtrip.py      (exit status 1 = defect reproduced)"""
import sys, os, json, re, tempfile, io, contextlib, logging, shutil
sys.path.insert(0, "/verif")
from vf import elab
try: import contracts.C14_more as W
except ImportError: import contracts.C14_more as W
from contracts.C14_exports import P
from litex.soc.integration.soc_core import SoCCore
from litex.soc.integration.builder import Builder
from litex.soc.integration import export
logging.disable(logging.CRITICAL)
hit = 0
d = tempfile.mkdtemp(prefix="replay_json_")
def roundtrip(soc, origin=0, name=""):
    txt = export.get_csr_json(soc.csr_regions, soc.constants, soc.mem_regions); fn = os.path.join(d, f"sub{len(os.listdir(d))}.json"); open(fn, "w").write(txt)
    return json.loads(txt), fn, export.load_csr_json(fn, origin=origin, name=name)
def defines(txt): return [l for l in txt.splitlines() if re.match(r"#define CSR_\w+_ADDR ", l)]

print("== 1. multi-word registers (sub-SoC: a=40 bit, b=9, k=128, c=8, d=33, e=64 bit on a 32-bit CSR bus)")
soc = W._soc_rt("multi-word"); js, fn, (regs, consts, mems) = roundtrip(soc)
hdr = export.get_csr_header(regs, consts, csr_base=0)
for l in defines(hdr):
    m = re.match(r"#define CSR_(\w+)_ADDR (0x[0-9a-f]+)L", l); n = m.group(1).lower()
    if n.startswith("periph_"):
        pub = int(m.group(2), 16); hw = js["csr_registers"][n]["addr"]
        print(f"   {n:12s} hardware/JSON {hw:#06x} ({js['csr_registers'][n]['size']} words)   csr.h after the round trip {pub:#06x}" + ("   <-- wrong" if pub != hw else ""))
        hit += pub != hw

print("== 2. region names dev / dev_phy")
soc = W._soc_rt("prefix"); js, fn, (regs, consts, mems) = roundtrip(soc)
print("   source regions :", {n: [c.name for c in r.obj] for n, r in soc.csr.regions.items()})
print("   after load     :", {n: [c.name for c in r.obj] for n, r in regs.items()})
hdr = export.get_csr_header(regs, consts, csr_base=0)
for l in defines(hdr): print("   " + l + "      (hardware: %#x)" % js["csr_registers"][re.match(r"#define CSR_(\w+)_ADDR", l).group(1).lower()]["addr"])
hit += len(defines(hdr)) != len(js["csr_registers"])

print("== 3. read-only registers after the round trip")
soc = W._soc_rt("single-word"); js, fn, (regs, consts, mems) = roundtrip(soc)
hdr = export.get_csr_header(regs, consts, csr_base=0)
ro = [n for n, v in js["csr_registers"].items() if v["type"] == "ro"]
w = [n for n in ro if f"static inline void {n}_write(" in hdr]
print("   published ro:", ro, "  write accessors generated for:", w); hit += bool(w)
print("   re-exported JSON types:", {n: v["type"] for n, v in json.loads(export.get_csr_json(regs, consts, mems))["csr_registers"].items() if n in ro})

print("== 4. Builder.add_json(file, origin=0x30000000, name='sub') on an outer SoC with a CPU (CSR base 0xf0000000)")
import contracts.C14_mem_exports as ME
outer = SoCCore(P(), 100e6, cpu_type="vfstub", integrated_rom_size=0x40, integrated_rom_init=[1, 2], integrated_sram_size=0x100, with_uart=False, with_timer=True, ident="", ident_version=False); elab.restore_stderr()
outer.finalize(); elab.restore_stderr()
bld = Builder(outer, output_dir=os.path.join(d, "out"), compile_software=False, compile_gateware=False); bld.add_json(fn, origin=0x3000_0000, name="sub")
with contextlib.redirect_stdout(io.StringIO()): bld._generate_includes(with_bios=False)
txt = open(os.path.join(d, "out", "software", "include", "generated", "csr.h")).read()
for l in txt.splitlines():
    if re.match(r"#define CSR_(SUB_DEVA\w*|CTRL_SCRATCH)_(ADDR|BASE) ", l) or l.startswith("#define CSR_BASE "): print("   " + l)
print("   hardware: sub_deva_x at 0x30000000 + %#x" % js["csr_registers"]["deva_x"]["addr"])
hit += "ADDR -0x" in txt
shutil.rmtree(d, ignore_errors=True)
print("REPRODUCED" if hit else "not reproduced"); sys.exit(1 if hit else 0)
