#!/bin/bash
# tools/seedq.sh <prop> <k> <id> : queue one round-5 verification (serialised by a lock so that solver budgets are not squeezed)
( flock 9; /verif/tools/seed_r5.sh "$@" > /tmp/sr5_$3.log 2>&1 ) 9>/tmp/seedq.lock &
