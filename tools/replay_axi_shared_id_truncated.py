"""Native replay (real litex.gen.sim simulator, unchanged /repo): AXIInterconnectShared / AXICrossbar build their internal AXIInterface
(`shared`, `access_m_s`) with the default id_width=1, so with masters/slaves that use id_width > 1 the AWID/ARID seen by the slave and
the BID/RID returned to the master are truncated to one bit: the master cannot match the response to the request it issued.
usage: .venv/bin/python tools/replay_axi_shared_id_truncated.py [shared|crossbar]"""
import sys; sys.path.insert(0, '/verif')
from vf import elab
from migen import *
from litex.gen.sim import run_simulation
from litex.gen.sim.core import passive
from litex.soc.interconnect.axi import AXIInterface
from litex.soc.interconnect.axi.axi_full import AXIInterconnectShared, AXICrossbar
from litex.soc.integration.soc import SoCRegion
topo = sys.argv[1] if len(sys.argv) > 1 else "shared"
IDW = 2
class Bus: data_width = 32; address_width = 32
masters = [AXIInterface(data_width=32, address_width=32, id_width=IDW) for _ in range(2)]
slaves  = [AXIInterface(data_width=32, address_width=32, id_width=IDW) for _ in range(2)]
regions = [SoCRegion(origin=0x1000_0000, size=0x1000), SoCRegion(origin=0x2000_0000, size=0x1000)]
class Top(Module):
    def __init__(self):
        cls = AXIInterconnectShared if topo == "shared" else AXICrossbar
        self.submodules.ic = cls(masters, [(r.decoder(Bus), s) for r, s in zip(regions, slaves)], False, None)
d = Top(); m = masters[0]; log = []
def master():
    # one single-beat write with AWID=2, then one single-beat read with ARID=3, both to slave 0
    yield m.aw.valid.eq(1); yield m.aw.addr.eq(0x1000_0010); yield m.aw.id.eq(2); yield m.aw.len.eq(0)
    yield m.w.valid.eq(1); yield m.w.data.eq(0xAABBCCDD); yield m.w.strb.eq(0xF); yield m.w.last.eq(1); yield m.b.ready.eq(1)
    aw_done = w_done = False
    for c in range(20):
        yield
        if (yield m.aw.ready) and not aw_done: aw_done = True; yield m.aw.valid.eq(0)
        if (yield m.w.ready) and not w_done: w_done = True; yield m.w.valid.eq(0)
        if (yield m.b.valid): log.append(("master0 got B", "BID", (yield m.b.id), "issued AWID", 2)); break
    yield; yield m.ar.valid.eq(1); yield m.ar.addr.eq(0x1000_0020); yield m.ar.id.eq(3); yield m.r.ready.eq(1)
    ar_done = False
    for c in range(20):
        yield
        if (yield m.ar.ready) and not ar_done: ar_done = True; yield m.ar.valid.eq(0)
        if (yield m.r.valid): log.append(("master0 got R", "RID", (yield m.r.id), "issued ARID", 3)); break
def slave_(s, j):
    # legal AXI4 slave: accepts everything; answers each request with the ID it received
    yield s.aw.ready.eq(1); yield s.w.ready.eq(1); yield s.ar.ready.eq(1)
    awid = None; wlast = False
    while True:
        yield
        if (yield s.aw.valid): awid = (yield s.aw.id); log.append((f"slave{j} AW", hex((yield s.aw.addr)), "AWID", awid))
        if (yield s.w.valid) and (yield s.w.last): wlast = True
        if (yield s.ar.valid):
            arid = (yield s.ar.id); log.append((f"slave{j} AR", hex((yield s.ar.addr)), "ARID", arid))
            yield s.ar.ready.eq(0)
            yield s.r.valid.eq(1); yield s.r.last.eq(1); yield s.r.id.eq(3)     # a slave that keeps full IDs answers RID=3
            yield
            while not (yield s.r.ready): yield
            yield s.r.valid.eq(0); yield s.ar.ready.eq(1)
        if awid is not None and wlast:
            yield s.b.valid.eq(1); yield s.b.id.eq(2)                           # BID=2 as issued
            yield
            while not (yield s.b.ready): yield
            yield s.b.valid.eq(0); awid = None; wlast = False
run_simulation(d, [master()] + [passive(slave_)(s, j) for j, s in enumerate(slaves)])
for l in log: print(l)
bad = [l for l in log if l[0].startswith("master0") and l[2] != l[4]] + [l for l in log if l[0].startswith("slave") and l[3] not in (2, 3)]
print("DEFECT REPRODUCED: IDs truncated to 1 bit" if bad else "no defect observed")
