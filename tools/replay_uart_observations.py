"""Native replay (litex.gen.sim) of the two behaviours of litex.soc.cores.uart.UART that contracts/C19_uart.py states exactly and judges as NOT defects:
 A. silent RX overrun: RS232PHYRX ignores `ready`; a byte delivered while rxfull is 1 is dropped - also when software pops in that very cycle -
    the stored bytes are untouched and no status bit records the loss   (ens.rx.overrun-drops-only-new / ens.rx.overrun-queue, cover.rx.overrun+pop)
 B. txempty latency: in the cycle after a byte entered the empty TX FIFO, txempty still reads 1 although the byte is queued (ens.txempty)."""
import sys; sys.path.insert(0, '/verif')
from vf import elab
from migen import *
from litex.gen.sim import run_simulation
from contracts.C19_uart import _top, BIT

def scenario_a():
    d, pads = _top(BIT // 4, 2, 2, True, stub_rx=True)          # receiver replaced by a free source: delivery pulses when we want them
    src = d.phy.source; u = d.c; log = []
    def gen():
        for byte in (0x11, 0x22, 0x33):                          # depth 2 buffered = 3 bytes
            yield src.valid.eq(1); yield src.data.eq(byte); yield
            yield src.valid.eq(0); yield; yield
        log.append(("rxfull", (yield u._rxfull.status), "rxempty", (yield u._rxempty.status)))
        # 4th byte delivered while full, software reads rxtx (rx_fifo_rx_we: read pops) in the same cycle
        yield src.valid.eq(1); yield src.data.eq(0x44); yield d.bus.adr.eq(0); yield d.bus.re.eq(1); yield
        yield src.valid.eq(0); yield d.bus.re.eq(0); yield
        log.append(("read", hex((yield d.bus.dat_r))))
        for _ in range(4):                                       # drain
            yield; yield
            if (yield u._rxempty.status): break
            yield d.bus.re.eq(1); yield; yield d.bus.re.eq(0); yield
            log.append(("read", hex((yield d.bus.dat_r))))
        log.append(("rxempty", (yield u._rxempty.status)))
    run_simulation(d, gen())
    print("A (overrun with simultaneous pop): delivered 0x11 0x22 0x33 0x44 ->", log, " => 0x44 lost, nothing flags it")

def scenario_b():
    d, pads = _top(BIT // 4, 2, 2, False)
    u = d.c; log = []
    def gen():
        yield pads.rx.eq(1)
        yield d.bus.adr.eq(0); yield d.bus.dat_w.eq(0x55); yield d.bus.we.eq(1); yield
        yield d.bus.we.eq(0)
        for c in range(3):
            yield
            log.append((f"cycle write+{c + 1}", "txempty", (yield u._txempty.status)))
    run_simulation(d, gen())
    print("B (txempty latency): byte written at cycle t ->", log)

if __name__ == "__main__":
    scenario_a(); scenario_b()
