#!/usr/bin/env python3
"""adds to every seeded/<id>/meta.json: which property it breaks, the title, and what the change needs in order to manifest (taken from the
author's notes.md: the paragraph(s) headed / starting with Trigger, Needed to manifest, needs ...)"""
import json, os, re
root = os.path.join(os.path.dirname(os.path.dirname(os.path.abspath(__file__))), "seeded")
for i in sorted(os.listdir(root)):
    d = os.path.join(root, i); mp = os.path.join(d, "meta.json")
    if not os.path.isdir(d): continue
    m = json.load(open(mp)) if os.path.exists(mp) else dict(id=i)
    notes = open(os.path.join(d, "notes.md")).read() if os.path.exists(os.path.join(d, "notes.md")) else ""
    title = re.sub(r"^(C\d\d\w* */ *)?(change \d+|[mM]\d+) *[-–—:] *", "", notes.split("\n", 1)[0].lstrip("# ").strip())
    paras = re.split(r"\n\s*\n", notes)
    need = [p.strip() for p in paras if re.search(r"(?i)\b(needed to manifest|trigger|needs? (something|to)|to manifest|manifests? only|only (shows|when|if))\b", p)]
    m.setdefault("id", i); m["property"] = m.get("property") or i.split("-")[0]; m["breaks_property"] = i.split("-")[0]; m["title"] = title
    m["needs_to_manifest"] = " ".join(" ".join(need[:2]).split())[:1200] or "see notes.md"
    json.dump(m, open(mp, "w"), indent=1)
print("enriched", len(os.listdir(root)))
