"""Native replay: SVD export of a SoC built with csr_ordering='little'.
The SVD names the bus words of a multi-word CSR <NAME>{n-1} ... <NAME>0 in ascending address order ("Bits 32-39" first) whatever the ordering;
with csr_ordering='little' the bank decodes <name>0 (least significant word) at the lowest address.  Same root cause as the csr.h accessors.
  /verif/.venv/bin/python /verif/tools/replay_svd_little_order.py"""
import sys; sys.path.insert(0, '/verif')
import io, contextlib, re
from vf import elab                                   # py3.12 tracer shim only
from contracts.C14_exports import build                # SoCCore(cpu_type=None, csr_ordering=...) + a peripheral with a 40-bit CSRStorage `a`
from litex.soc.integration import export
soc, _ = build(ordering="little")
with contextlib.redirect_stdout(io.StringIO()): svd = export.get_csr_svd(soc)
blk = svd[svd.index("<name>PERIPH</name>"):]
base = int(re.search(r"<baseAddress>(0x[0-9A-F]+)", blk).group(1), 16)
print("SVD (published):")
for mm in list(re.finditer(r"<name>(A\d)</name>\s*<description><!\[CDATA\[(.*?)\]\]></description>\s*<addressOffset>(0x[0-9a-f]+)", blk))[:2]:
    print(f"   {base + int(mm.group(3), 16):#06x}: {mm.group(1)}  -  {mm.group(2)}")
print("hardware (simple CSRs of the bank in address order):")
name, csrs, mapaddr, rmap = [b for b in soc.csr_bankarray.banks if b[0] == "periph"][0]
a = [c for c in csrs if c.name == "a"][0]
for j, sc in enumerate(a.get_simple_csrs()):
    print(f"   {base + 4 * j:#06x}: {sc.name.upper()}  -  {sc.size} bits")
