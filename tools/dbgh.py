import sys; sys.path.insert(0,'/verif')
from vf import elab
import importlib, z3
mod = importlib.import_module(sys.argv[1]); h = getattr(mod, sys.argv[2])(*eval(sys.argv[3], vars(mod))); h.use_auto=False
h.houdini()
name = sys.argv[4]; extra = sys.argv[5:]
cand = h.hints[name]
inv = h.inv + [cand] + [h.hints[n] for n in extra]
s = z3.Solver(); s.add(*h.base()); s.add(*inv); s.add(z3.Not(h.primed(cand)))
print(s.check()); m = s.model()
def ev(x): return m.eval(x, model_completion=True)
for k,g in h.ghosts.items():
    if g[0].size() <= 16: print("ghost", k, ev(g[0]), "->", ev(g[2]))
for sg in h.ts.state:
    if sg.nbits <= 8: print("reg", str(h.v(sg)), ev(h.v(sg)), "->", ev(h.n(sg)))
for i in h.ts.inputs:
    if i.nbits <= 4: print("in", str(h.v(i)), ev(h.v(i)))
