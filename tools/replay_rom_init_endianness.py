"""Native replay: SoCCore(integrated_rom_init=<file name>) with a big-endian CPU.
soc_core.py converts the file with get_mem_data(endianness="little")  ("FIXME: Depends on CPU"), so the ROM image is little-endian whatever
the CPU is.  Here: the real LM32 class (big-endian; only its Verilog source lookup is stubbed because pythondata-cpu-lm32 is not installed).
  /verif/.venv/bin/python /verif/tools/replay_rom_init_endianness.py"""
import sys; sys.path.insert(0, '/verif')
import os, tempfile
from vf import elab                                   # py3.12 tracer shim only
from litex.build.generic_platform import Pins
from litex.build.sim import SimPlatform
from litex.soc.integration.soc_core import SoCCore
from litex.soc.integration.common import get_mem_data
from litex.soc.cores.cpu.lm32.core import LM32
LM32.add_sources = staticmethod(lambda platform, variant: None)

class P(SimPlatform):
    def __init__(self): SimPlatform.__init__(self, "SIM", [("sys_clk", 0, Pins(1)), ("sys_rst", 0, Pins(1))])

f = os.path.join(tempfile.mkdtemp(), "rom.bin")
data = bytes([0x11, 0x22, 0x33, 0x44, 0x55, 0x66, 0x77, 0x88]); open(f, "wb").write(data)
soc = SoCCore(P(), 100e6, cpu_type="lm32", integrated_rom_size=0x100, integrated_rom_init=f, integrated_sram_size=0x100, with_uart=False, with_timer=False, ident="", ident_version=False)
elab.restore_stderr()
print("CPU endianness                         :", soc.cpu.endianness)
print("file bytes                             :", data.hex(" "))
print("ROM Memory.init built by SoCCore       :", [f"0x{w:08x}" for w in soc.rom.mem.init])
print("image a big-endian CPU needs           :", [f"0x{w:08x}" for w in get_mem_data(f, data_width=32, endianness=soc.cpu.endianness)])
w0 = soc.rom.mem.init[0]
print("byte the big-endian CPU reads at address 0 (lane 3, bits 31:24):", f"0x{(w0 >> 24) & 0xff:02x}", " - the file has", f"0x{data[0]:02x}")
