"""Native replay (unmodified LiteX, no proxies) of the counterexample to C13 clause `alloc.post.extent-inside-the-IO-region`
(contracts/C13_alloc_proofs.py): before /repo commit 2c93834 SoCBusHandler.alloc_region searched the IO region's POWER-OF-TWO window
[origin, origin + size_pow2), while C13 asks that an automatically allocated uncached region lies inside an IO region (its declared
extent [origin, origin + size)); add_region(origin=None) makes no further check.

  A. IO region of non-power-of-two size (litex/soc/cores/cpu/openc906: io_regions = {0x9000_0000: 0x3000_0000}, also rocket, neorv32,
     zynq7000, eos_s3): the search window reaches 0xD000_0000, so a request is granted at 0xC000_0000 - entirely OUTSIDE the IO region
     (check_region_is_io(granted) is False: the CPU treats the address as cacheable memory).
  B. IO region whose origin is not aligned on the candidate's rounded size: [origin, origin+size) is inside the IO region but the decoded
     power-of-two window (what the bus decoder selects) extends beyond the IO region's end.  OBSERVATION only (not a listed finding): the
     contract proves the decoded window inside the IO region under the condition "IO origin aligned on its power-of-two size".
usage: .venv/bin/python tools/replay_alloc_region_io.py        exit code 1 if scenario A reproduces"""
import sys
sys.path.insert(0, "/verif")
from vf import elab
from litex.soc.integration.soc import SoCBusHandler, SoCRegion, SoCIORegion, SoCError

def scenario(title, io, requests, what="extent"):
    bus = SoCBusHandler(standard="wishbone", data_width=32, address_width=32); elab.restore_stderr()
    bus.add_region("io", SoCIORegion(origin=io[0], size=io[1], cached=False))
    ior = bus.io_regions["io"]
    print(f"{title}\n  IO region  [0x{ior.origin:08x}, 0x{ior.origin + ior.size:08x})   size_pow2 0x{ior.size_pow2:08x}")
    bad = False
    for k, sz in enumerate(requests):
        try:
            bus.add_region(f"r{k}", SoCRegion(origin=None, size=sz, cached=False))
        except SoCError:
            elab.restore_stderr(); print(f"  r{k} size 0x{sz:x}: SoCError"); continue
        r = bus.regions[f"r{k}"]
        declared_in = ior.origin <= r.origin and r.origin + r.size <= ior.origin + ior.size
        window_in = ior.origin <= r.origin and r.origin + r.size_pow2 <= ior.origin + ior.size
        print(f"  r{k} size 0x{sz:x}: granted [0x{r.origin:08x}, +0x{r.size:x}) decoded window [0x{r.origin:08x}, 0x{r.origin + r.size_pow2:08x})"
              f"  check_region_is_io={bus.check_region_is_io(r)}  declared-extent-inside-IO={declared_in}  decoded-window-inside-IO={window_in}")
        if not (declared_in if what == "extent" else window_in): bad = True
    return bad

if __name__ == "__main__":
    a = scenario("A. non-power-of-two IO region size (openc906 numbers)", (0x9000_0000, 0x3000_0000), [0x1000_0000, 0x1000_0000, 0x1000_0000, 0x0800_0000])
    b = scenario("B. IO region origin not aligned on the candidate's rounded size", (0x1800, 0x4000), [0x1400, 0x1400], what="window")
    print("A (granted extent outside the IO region):", "REPRODUCED" if a else "not reproduced")
    print("B (observation: decoded window beyond an unaligned IO region):", "seen" if b else "not seen")
    sys.exit(1 if a else 0)
