#!/usr/bin/env python3
"""Replay of the BusSynchronizer product-model witnesses of contracts/wip_C05_bussync_proof.py (C05).

  .venv/bin/python tools/replay_bussync_model.py <variant> [W] [timeout] [Ri]

variant: no-extra-flop | three-flop-data-path | no-assumption | assumption-without-the-sampling-instant-clause |
         time-out-one-below-the-bound-of-theorem-B (needs Ri, timeout = 4*Ri+5) | real (the unchanged model under the assumption: no torn word expected)

The script searches a path from reset to 'o holds a non-reset word that was never on i at an i edge' in the two-clock product model of the
REAL fragment (VERIF_REPO selects a scratch copy), prints the scheduler script (which clock ticks, value of i, per-bit resolution masks of
the first synchroniser flops) and RE-EXECUTES it concretely through the step relation, independent of the solver's model.
It also runs the real two-clock simulator (litex.gen.sim) against the model to show that the model is the real code."""
import sys, os
sys.path.insert(0, os.path.dirname(os.path.dirname(os.path.abspath(__file__))))
import contracts.wip_C05_bussync_proof as m

def main():
    what = sys.argv[1] if len(sys.argv) > 1 else "no-extra-flop"
    W = int(sys.argv[2]) if len(sys.argv) > 2 else 2
    T = int(sys.argv[3]) if len(sys.argv) > 3 else 8
    Ri = int(sys.argv[4]) if len(sys.argv) > 4 else None
    assume = True; drift = None
    if what in m.SURGERY: M = m.Model(W, T, surgery=m.SURGERY[what])
    elif what == "no-assumption": M = m.Model(W, T); assume = False
    elif what == "assumption-without-the-sampling-instant-clause": M = m.Model(W, T, sampling_clause=False)
    elif what == "time-out-one-below-the-bound-of-theorem-B": M = m.Model(W, T); assume = False; drift = Ri
    else: M = m.Model(W, T)
    if what not in m.SURGERY:
        n, mism, both, fired = m.cosim(M)
        print(f"co-simulation with litex.gen.sim: {n} values compared, {both} simultaneous edges, {fired} time-out caused requests, mismatches: {mism}")
    k, script, _ = m.bmc(M, M.bad, 45, assume, drift, t_limit=1800)
    if k is None:
        print(f"no path to a torn word within 45 scheduler steps ({script})"); return 0
    torn, rows = M.replay(script)
    for r in rows:
        a = r["after"]
        print(f'{r["step"]:3d} {"I" if r["tick_i"] else " "}{"O" if r["tick_o"] else " "} i={r["i"]:<3d} resolve-new-bits={r["meta"]}  ->  req {a["ping.toggle_i"]}{a["ping.m0"]}{a["ping.toggle_o"]}{a["ping.toggle_o_r"]} ping_o={a["ping_o"]} '
              f'ack {a["pong.toggle_i"]}{a["pong.m0"]}{a["pong.toggle_o"]}{a["pong.toggle_o_r"]} count={a["count"]} ibuffer={a["ibuffer"]} d0={a["d0"]} obuffer={a["obuffer"]} o={a["o"]}')
    print("words on i at i edges:", sorted({r["i"] for r in rows if r["tick_i"]}))
    print("TORN WORD: o == %d after step %d was never on i" % (torn[1], torn[0]) if torn else "replay did not confirm a torn word")
    return 1 if torn else 0
sys.exit(main())
