#!/bin/bash
# tools/seed_round.sh <round> <prop>... : queue both changes of each property of a round under the next free ids
R=$1; shift
for P in "$@"; do
  for K in 1 2; do
    [ -f /tmp/mut_${P}${R}/m$K/patch.diff ] || { echo "$P m$K missing"; continue; }
    N=1; while [ -e /verif/seeded/$P-m$N ] || [ -e /tmp/sr5_$P-m$N.log ]; do N=$((N+1)); done
    : > /tmp/sr5_$P-m$N.log
    ROUND=$R /verif/tools/seedq.sh $P $K $P-m$N; echo "queued $P m$K as $P-m$N"
  done
done
