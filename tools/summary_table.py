#!/usr/bin/env python3
"""markdown table of the committed evidence files: per property level, cases, obligations discharged, bounded, known findings reported, wall time"""
import json, glob, os
root = os.path.dirname(os.path.dirname(os.path.abspath(__file__)))
print("| id | level | cases | obligations discharged | bounded (not counted) | known findings reported | functions under contract | wall s |\n|---|---|---|---|---|---|---|---|")
for f in sorted(glob.glob(os.path.join(root, "evidence", "C*.json"))):
    e = json.load(open(f)); c = e["coverage"]
    print(f"| {e['property_id']} | {e['level']} | {c.get('cases')} | {c.get('discharged')}/{c.get('obligations')} | {c.get('bounded_obligations')} | {len(c.get('known_findings_reported', []))} | {len(c.get('functions_under_contract', []))} | {e['wall_s']} |")
