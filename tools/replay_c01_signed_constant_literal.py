"""Native replay of a C01 finding candidate: litex/gen/fhdl/expression.py:_generate_constant prints a SIGNED non-negative Constant as the unsigned
literal <n>'d<v> but reports it as signed.  _generate_operator therefore does not wrap a signed neighbour, and by IEEE 1364-2005 5.5.1 ("if any operand
is unsigned, the result is unsigned") the operator is evaluated unsigned: the signed signal is zero-extended / compared as unsigned.
(Migen printed 4'sd3 for such a constant.)  The REAL Evaluator is executed; the Verilog value is the IEEE-1364 value of the printed text.
run: PYTHONPATH=/repo /venv/bin/python tools/replay_c01_signed_constant_literal.py     exit 0 = defect present, 1 = not reproduced"""
from migen import *
from litex.gen.sim.core import Evaluator
from litex.gen.fhdl.expression import _generate_expression
from litex.gen.fhdl.namer import build_signal_namespace
x = Signal((3, True), name_override="x"); y = Signal(8, name_override="y"); K = Constant(3, (4, True))
ns = build_signal_namespace({x, y}); bad = 0
for label, expr, vlog in (("x < K", x < K, lambda xv: int((xv & 0x7) < 3)),                # unsigned comparison at 4 bits: x zero-extended
                          ("x + K", x + K, lambda xv: ((xv & 0x7) + 3) & 0xff),            # unsigned addition at 8 bits: x zero-extended
                          ("Mux(1, x, K)", Mux(1, x, K), lambda xv: xv & 0x7)):
    text = _generate_expression(ns, expr)[0]
    ev = Evaluator({}, {}); ev.signal_values[x] = -1; ev.execute([y.eq(expr)]); sim = ev.modifications[y]
    v = vlog(-1); print(f"{label:14s} printed as {text:22s} x = -1: simulator y = {sim}, Verilog y = {v}")
    bad += ("'sd" not in text) and sim != v
raise SystemExit(0 if bad == 3 else 1)
