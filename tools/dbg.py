import sys, os; sys.path.insert(0,'/verif')
from vf import elab
import importlib, time
m=importlib.import_module(sys.argv[1]); h=getattr(m,sys.argv[2])(*eval(sys.argv[3], vars(m)))
if len(sys.argv)>4: h.use_auto = sys.argv[4]=="auto"
t=time.time(); r=h.run(case_id="dbg", replay_dir="/tmp/rp"); print(h.summary(), round(time.time()-t,1))
print("dropped hand hints:", [d for d in h.dropped if not d[0].startswith("auto:")])
print("kept hand:", [k for k in h.kept if not k.startswith("auto:")])
for x in r:
    if x['status'] not in ('proved','ok') or x['secs']>2: print({k:v for k,v in x.items() if k!='tb'})
