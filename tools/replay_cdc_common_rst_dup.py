"""Native replay (real litex.gen.sim, two clocks, the simulator's own lowering of AsyncResetSynchronizer and MultiReg) of the C05 finding
'stream.ClockDomainCrossing(with_common_rst=True) delivers more words than were ever written around a short reset pulse'.

Design under test: the unchanged stream.ClockDomainCrossing([("data", 8)], "a", "b", depth=4, with_common_rst=True) below two clock
domains a and b whose reset inputs are driven by the test bench.
Schedule: the producer (domain a) writes ONE word (0x5A); the consumer (domain b) keeps source.ready = 1 for the whole run and counts a
delivery at every b edge at which source.valid = 1 and its own ResetSignal(b) is low; after the word has been delivered, ONE domain's reset
is pulsed for exactly one period of its own clock.
Expected (no duplication): 1 word delivered in total.  Observed: printed per run; exit 1 when any run delivers more words than were written.
A control run without reset pulse is included (must deliver exactly 1 word)."""
import sys; sys.path.insert(0, '/verif')
from vf import elab
from migen import *
from litex.gen import LiteXModule
from litex.gen.sim import run_simulation
from litex.soc.interconnect import stream

def run(clocks, pulse, n_b_cycles=60):
    class Top(LiteXModule):
        def __init__(self):
            self.clock_domains.cd_a = ClockDomain("a")
            self.clock_domains.cd_b = ClockDomain("b")
            self.cdc = stream.ClockDomainCrossing([("data", 8)], cd_from="a", cd_to="b", depth=4, with_common_rst=True)
    d = Top(); c = d.cdc
    written, delivered, log = [], [], []
    state = dict(first_delivery=False, t_b=0)
    def producer():
        for _ in range(4): yield
        yield c.sink.valid.eq(1); yield c.sink.data.eq(0x5A); yield
        while not (yield c.sink.ready): yield
        written.append(0x5A)
        yield c.sink.valid.eq(0)
        for _ in range(200):
            if state["first_delivery"]: break
            yield
        for _ in range(3): yield
        if pulse == "a":
            log.append(f"  b-cycle {state['t_b']:3}: ResetSignal(a) raised for one a period")
            yield d.cd_a.rst.eq(1); yield
            yield d.cd_a.rst.eq(0); yield
        for _ in range(40): yield
    def consumer():
        yield c.source.ready.eq(1)
        pulsed = False; wait = None
        for t in range(n_b_cycles):
            state["t_b"] = t
            v = (yield c.source.valid); rb = (yield d.cd_b.rst)
            if v and not rb:
                delivered.append((yield c.source.data))
                log.append(f"  b-cycle {t:3}: source.valid=1 ready=1 rst_b=0 -> word 0x{delivered[-1]:02x} taken (delivery #{len(delivered)})")
                if not state["first_delivery"]: state["first_delivery"] = True; wait = 4
            if pulse == "b" and wait is not None and not pulsed:
                wait -= 1
                if wait == 0:
                    pulsed = True
                    log.append(f"  b-cycle {t:3}: ResetSignal(b) raised for one b period")
                    yield d.cd_b.rst.eq(1); yield
                    yield d.cd_b.rst.eq(0)
                    continue
            yield
    # the simulator only clocks domains named in `clocks`: the internal domains from<duid>/to<duid>, whose clk is a comb copy of
    # ClockSignal(a)/ClockSignal(b), get the same period and phase as a/b
    f = d.get_fragment(); clocks = dict(clocks)
    for cd in f.clock_domains:
        if cd.name.startswith("from"): clocks[cd.name] = clocks["a"]
        if cd.name.startswith("to"): clocks[cd.name] = clocks["b"]
    run_simulation(f, {"a": [producer()], "b": [consumer()]}, clocks=clocks)
    return written, delivered, log

RUNS = [("control: no reset pulse, a=10 b=10(phase 3)", {"a": (10, 0), "b": (10, 3)}, None),
        ("one-period pulse of ResetSignal(a) (cd_from), a=10 b=10(phase 3)", {"a": (10, 0), "b": (10, 3)}, "a"),
        ("one-period pulse of ResetSignal(a) (cd_from), a=20 b=6 (read side faster)", {"a": (20, 0), "b": (6, 1)}, "a"),
        ("one-period pulse of ResetSignal(b) (cd_to), a=20 b=6 (read side faster)", {"a": (20, 0), "b": (6, 1)}, "b"),
        ("one-period pulse of ResetSignal(b) (cd_to), a=10 b=10(phase 3)", {"a": (10, 0), "b": (10, 3)}, "b")]
repro = False; control_ok = True
for name, clocks, pulse in RUNS:
    w, dl, log = run(clocks, pulse)
    print(f"{name}\n  clocks {clocks}")
    for l in log: print(l)
    verdict = "as expected" if len(dl) == len(w) else ("MORE WORDS DELIVERED THAN WRITTEN" if len(dl) > len(w) else "fewer words delivered than written")
    print(f"  expected: {len(w)} word(s) delivered (written: {[hex(x) for x in w]});  observed: {len(dl)} delivered {[hex(x) for x in dl]}  -> {verdict}\n")
    if pulse is None: control_ok = len(dl) == len(w) == 1
    elif len(dl) > len(w): repro = True
if not control_ok:
    print("CONTROL RUN WRONG: the harness is not trustworthy"); sys.exit(3)
print("REPRODUCED on the real simulator" if repro else "not reproduced")
sys.exit(1 if repro else 0)
