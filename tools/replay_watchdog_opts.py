"""Native replay (real litex.gen.sim, real CSRBank) of the Watchdog finding candidates of contracts/wip_C19_pwm.py.
A  finding.reset_delay0.reset-only-on-timeout   Watchdog(crg_rst=..., reset_delay=0) - the constructor default: crg_rst is 1 in every cycle from
                                                reset on, with the watchdog never enabled (WaitTimer(0).done is the constant 1).  Control: reset_delay=2.
B  finding.event-only-at-zero                   time-out in IRQ mode, then disable -> cycles=100 -> feed -> re-enable (reset mode): the wdt event is raised
                                                (and with reset_delay=1 crg_rst pulses) in the first enabled cycle although remaining == 100."""
import sys; sys.path.insert(0, '/verif')
from vf import elab
from migen import *
from litex.gen import LiteXModule
from litex.gen.sim import run_simulation
from litex.soc.cores.watchdog import Watchdog
from litex.soc.interconnect import csr_bus

class Top(LiteXModule):
    def __init__(self, delay):
        self.rst = Signal()
        self.w = Watchdog(8, crg_rst=self.rst, reset_delay=delay)
        self.bus = csr_bus.Interface(data_width=32, address_width=14)
        self.bank = csr_bus.CSRBank(self.w.get_csrs(), address=0, bus=self.bus)

FEED, EN, RSTMODE = 1 << 0, 1 << 8, 1 << 16
def harness(delay):
    d = Top(delay); w = d.w; log = []
    idx = {c.name: i for i, c in enumerate(d.bank.simple_csrs)}
    def wr(name, val):
        yield d.bus.adr.eq(idx[name]); yield d.bus.dat_w.eq(val); yield d.bus.we.eq(1); yield
        yield d.bus.we.eq(0)
    def obs(tag):
        log.append((tag, dict(enable=(yield w.enable), remaining=(yield w._remaining.status), execute=(yield w.execute), wdt_trigger=(yield w.ev.wdt.trigger), crg_rst=(yield d.rst))))
    return d, w, log, wr, obs

print("A  no bus access at all")
for delay in (0, 2):
    d, w, log, wr, obs = harness(delay)
    def tb():
        for i in range(4):
            yield from obs(f"cycle {i}"); yield
    run_simulation(d, tb())
    print(f"   reset_delay={delay}:", [(t, r["enable"], r["crg_rst"]) for t, r in log], "(tag, enable, crg_rst)")

print("B  reset_delay=1")
d, w, log, wr, obs = harness(1)
def tb():
    yield from wr("cycles0", 3)
    yield from wr("control0", FEED | EN)                 # IRQ mode
    for i in range(6): yield
    yield from obs("timed out        ")
    yield from wr("control0", 0)                          # disable
    yield from wr("cycles0", 100)
    yield from wr("control0", FEED)                       # feed while disabled
    yield; yield from obs("disabled and fed ")
    yield from wr("control0", EN | RSTMODE)               # re-enable, reset mode
    for i in range(4):
        yield from obs(f"re-enabled +{i}    "); yield
run_simulation(d, tb())
for l in log: print("  ", *l)
