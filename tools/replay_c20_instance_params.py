"""Native replays (no symbolic machinery) of the two clauses of contracts/C20_instance_params.py that fail on the unchanged tree.
Run: /verif/.venv/bin/python /verif/tools/replay_c20_instance_params.py          (exit 1 when a defect reproduces)"""
import sys, io, contextlib, logging
logging.disable(logging.CRITICAL)
from migen import Signal, ClockDomain
from litex.soc.cores.clock import lattice_nx, xilinx_s6
bad = 0

# 1. NXPLL: the phase of a configuration is truncated to whole VCO periods (PHIx is the constant "0")
def nx(phase):
    with contextlib.redirect_stdout(io.StringIO()):
        pll = lattice_nx.NXPLL()
        pll.register_clkin(Signal(), 100e6)
        pll.create_clkout(ClockDomain("a"), 400e6, phase=phase, margin=0)          # VCO 800 MHz, divider 2
        cfg = pll.compute_config(); pll.do_finalize()
    return cfg, {k: pll.params[k] for k in ("p_DIVA", "p_DELA", "p_PHIA")}
c0, p0 = nx(0); c90, p90 = nx(90)
print(f"NXPLL clkin 100 MHz, out 400 MHz: config phase 0  -> clko0_div={c0['clko0_div']} clko0_phase={c0['clko0_phase']}  instance {p0}")
print(f"NXPLL clkin 100 MHz, out 400 MHz: config phase 90 -> clko0_div={c90['clko0_div']} clko0_phase={c90['clko0_phase']} instance {p90}")
div = c90["clko0_div"]; realized = (int(p90["p_DELA"]) - int(p90["p_DIVA"]) + int(p90["p_PHIA"]) / 8) * 360 / div
print(f"  phase carried by the instance: (DELA-DIVA+PHIA/8)*360/div = {realized:g} degrees, configuration says {c90['clko0_phase']}; fine step available: {360/div/8:g} degrees")
if p0 == p90 and c0["clko0_phase"] != c90["clko0_phase"]:
    print("  DEFECT reproduced: two configurations that differ in clko0_phase (0 / 90) give the same instance parameters"); bad = 1

# 2. S6DCM: create_clkout(phase=...) is accepted, returned as clkout0_phase, and never placed on DCM_CLKGEN
def dcm(phase):
    pll = xilinx_s6.S6DCM(speedgrade=-1)
    pll.register_clkin(Signal(), 50e6)
    pll.create_clkout(ClockDomain("a"), 75e6, phase=phase, buf=None, with_reset=False)
    cfg = pll.compute_config(); pll.do_finalize()
    return cfg, {k: v for k, v in pll.params.items() if k.startswith("p_")}
c0, p0 = dcm(0); c90, p90 = dcm(90)
print(f"S6DCM clkin 50 MHz, out 75 MHz: config clkout0_phase={c0['clkout0_phase']} -> {p0}")
print(f"S6DCM clkin 50 MHz, out 75 MHz: config clkout0_phase={c90['clkout0_phase']} -> {p90}")
if p0 == p90 and c90["clkout0_phase"] == 90:
    print("  DEFECT reproduced: the configuration carries clkout0_phase=90, the instance is the one of phase 0 (no error, no warning)"); bad = 1

# ---- side observations made while writing the contract (other clauses of C20; no obligation of C20_instance_params.py depends on them)
from litex.soc.cores.clock import lattice_ecp5, gowin_gw5a
def ecp5(outs, fin=10e6):
    pll = lattice_ecp5.ECP5PLL(); pll.register_clkin(Signal(), fin)
    for k, f in enumerate(outs): pll.create_clkout(ClockDomain(f"o{k}"), f, margin=1e-2, with_reset=False)
    try: c = pll.compute_config(); return {k: v for k, v in c.items() if "div" in k or k == "clkfb"}
    except ValueError as e: return f"refused: {e}"
a, b = ecp5([10e6, 25e6, 25e6, 25e6]), ecp5([25e6, 25e6, 25e6, 10e6])
print("ECP5PLL clkin 10 MHz, outputs 10,25,25,25 MHz:", a); print("ECP5PLL clkin 10 MHz, outputs 25,25,25,10 MHz:", b)
if isinstance(a, str) and isinstance(b, dict):
    print("  SIDE DEFECT (completeness): with 4 outputs `not config['clkfb']` also rejects feedback through output 0 - the request is refused although the reordered one is served"); bad = 1
pll = gowin_gw5a.GW5APLL("GW5A-25A", "GW5A-LV25MG121NES"); pll.register_clkin(Signal(), 50e6)
pll.create_clkout(ClockDomain("a"), 100e6, phase=89, margin=1e-2, with_reset=False)
c = pll.compute_config(); od = c["odiv0"]; carried = (c["pe0"] + c["pe0_fine"] / 8) * 360 / od
print(f"GW5APLL clkin 50 MHz, out 100 MHz phase 89: odiv0={od} pe0={c['pe0']} pe0_fine={c['pe0_fine']} -> {carried:g} degrees")
if abs(carried - 89) > 360 / od / 8:
    print("  SIDE DEFECT (compute_config): pe = int(p*odiv/360) but pe_fine = round(p*odiv*8/360) % 8 - when the fine part rounds up to 8 the coarse part is not incremented (45 instead of 90 degrees)"); bad = 1
sys.exit(bad)
