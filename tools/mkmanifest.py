#!/usr/bin/env python3
"""regenerates MANIFEST.json from vf/props.py (CLAIMS / NOT_APPLICABLE) and validates it against the schema"""
import json, os, sys
ROOT = os.path.dirname(os.path.dirname(os.path.abspath(__file__)))
sys.path.insert(0, ROOT)
from vf.props import CLAIMS, NOT_APPLICABLE, ENGINES
checks = []
for pid, c in sorted(CLAIMS.items()):
    checks.append(dict(property_id=pid, quick_cmd=f"./check {pid} --tier quick", thorough_cmd=f"./check {pid} --tier thorough",
                       evidence_file=f"/verif/evidence/{pid}.json", replay_cmd_template=f"./check {pid} --replay {{path}}",
                       engine=c["engine"], level_claimed=dict(category=c["level"], text=c["text"], design_ref=c["design_ref"]),
                       level_note=c["note"], technique=c["technique"]))
m = dict(version=1, setup_cmd="./setup.sh",
         hooks=dict(guard="LITEX_VERIF", enable="no source hooks are needed: contracts are sidecar files under /verif/contracts, extraction uses the public objects built by the real constructors; checks set LITEX_VERIF=1 for uniformity",
                    baseline_off_cmd="cd /repo && env -u LITEX_VERIF /venv/bin/python -m pytest -ra -q -p no:cacheprovider --timeout=900 --continue-on-collection-errors",
                    source_commits=[], add_only=True),
         engines=ENGINES, checks=checks,
         notes="Contract-based deductive verification of the real LiteX code: FHDL fragments built by the real constructors (E1 fhdl2smt + hwcontract), real Python functions on symbolic proxies (E3 pysym), emitted Verilog under an IEEE-1364 specification function (E4). See DESIGN.md. Exit codes: 0 held, 1 violation, 2 undecided, 3 checker fault.",
         not_applicable=[dict(property_id=p, reason=r) for p, r in sorted(NOT_APPLICABLE.items()) if p not in CLAIMS])
json.dump(m, open(os.path.join(ROOT, "MANIFEST.json"), "w"), indent=1)
try:
    import jsonschema
    jsonschema.validate(m, json.load(open("/root/.vp/MANIFEST.schema.json")))
    print("MANIFEST.json valid;", len(checks), "checks,", len(m["not_applicable"]), "not_applicable")
except ImportError:
    print("jsonschema not available; written unvalidated")
