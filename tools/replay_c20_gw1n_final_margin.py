"""Native replay (plain CPython, real classes) of a completeness defect of gowin_gw1n.GW1NPLL.compute_config (inherited by GW2APLL):
after the search has selected the best (idiv, fdiv, odiv) the helper re-checks every output with
    if diff_f > r_freq*margin: raise ValueError("Can't obtain requested frequency ...")
i.e. against margin * OBTAINED frequency, while the search (and the property: 'met within its stated margin') use margin * REQUESTED
frequency.  When the best reachable frequency is BELOW the request by more than margin*obtained but not more than margin*requested,
the request is refused although the selected setting satisfies it.
usage: .venv/bin/python tools/replay_c20_gw1n_final_margin.py        (VERIF_REPO=<tree> to replay on another tree)"""
import sys, os, fractions
sys.path.insert(0, os.path.join(os.path.dirname(os.path.abspath(__file__)), ".."))
from vf import elab
from migen import Signal, ClockDomain
from litex.soc.cores.clock.gowin_gw1n import GW1NPLL
from litex.soc.cores.clock.gowin_gw2a import GW2APLL
F = fractions.Fraction
ODIV = [2, 4, 8, 16, 32, 48, 64, 80, 96, 112, 128]

def native(cls, device, fin, f, m):
    pll = cls("dev", device); pll.logger.disabled = True
    pll.register_clkin(Signal(), fin); pll.create_clkout(ClockDomain("o"), f, margin=m, with_reset=False)
    try:
        c = pll.compute_config(); return pll, "returned idiv=%d fdiv=%d odiv=%d" % (c["idiv"], c["fdiv"], c["odiv"])
    except ValueError as e: return pll, f"raised ValueError({e})"

def exists(pll, fin, f, m):
    fin, f, m = F(fin), F(f), F(m)
    for idiv in range(1, 64):
        pfd = fin / idiv
        if not (F(pll.pfd_freq_range[0]) <= pfd <= F(pll.pfd_freq_range[1])): continue
        for fdiv in range(1, 64):
            out = fin * fdiv / idiv
            if abs(out - f) > f * m: continue
            for odiv in ODIV:
                if F(pll.vco_freq_range[0]) <= out * odiv <= F(pll.vco_freq_range[1]):
                    return dict(idiv=idiv, fdiv=fdiv, odiv=odiv, out_MHz=float(out / 1000000), vco_MHz=float(out * odiv / 1000000), off_request_percent=float(abs(out - f) / f * 100))
    return None

bad = 0
for cls, device, fin, f, m in ((GW1NPLL, "GW1NR-LV9QN88PC6/I5", 3e6, 99.995e6, 1e-2), (GW2APLL, "GW2A-LV18PG256C8/I7", 3e6, 99.995e6, 1e-2),
                               (GW1NPLL, "GW1NR-LV9QN88PC6/I5", 3e6, 98.1e6, 1e-2)):
    pll, n = native(cls, device, fin, f, m); e = exists(pll, fin, f, m)
    print(f"{cls.__name__}({device}) clkin={fin/1e6:g} MHz out={f/1e6:g} MHz margin={m}\n   real compute_config: {n}\n   independent search : {e}")
    if n.startswith("raised") and e is not None: bad += 1
print(f"{bad} request(s) refused although a setting inside the ranges meets the request within its stated margin")
sys.exit(1 if bad else 0)
