"""Native replay (unmodified /repo): SoCBusHandler.add_region range-checks nothing for a FIXED-origin region; a region that lies entirely beyond
2**address_width is accepted, SoC.finalize builds it (no SoCError), its decoder can never match, and the region is listed in soc.bus.regions
(from where the memory map is exported).
run: /verif/.venv/bin/python /verif/tools/replay_add_region_outside_address_space.py"""
import sys, logging
sys.path.insert(0, "/verif")
from vf import elab
from migen import *
from litex.gen import *
from litex.gen.sim import run_simulation
from litex.build.generic_platform import Pins
from litex.build.sim import SimPlatform
from litex.soc.integration.soc_core import SoCCore
from litex.soc.integration import soc as S
logging.disable(logging.CRITICAL)

class P(SimPlatform):
    def __init__(self): SimPlatform.__init__(self, "SIM", [("sys_clk", 0, Pins(1)), ("sys_rst", 0, Pins(1))])

def scenario():
    # handler level
    bus = S.SoCBusHandler(address_width=32); elab.restore_stderr()
    try: bus.add_region("far", S.SoCRegion(origin=0x1_0000_0000, size=0x1000))
    except S.SoCError: elab.restore_stderr(); print("add_region raised SoCError (rejected)"); return False
    g = bus.regions["far"]
    print(f"handler: 32-bit bus accepted region origin=0x{g.origin:x} size=0x{g.size:x} (end 0x{g.origin + g.size:x} > 2**32 = 0x{2**32:x})")
    # the decoder of that region never matches
    class D(Module):
        def __init__(self):
            self.a = Signal(30); self.hit = Signal()
            self.comb += self.hit.eq(g.decoder(bus)(self.a))
    d = D(); seen = []
    def gen():
        for adr in (0x0, 0x1, 0x3fffffff, (0x1_0000_0000 >> 2) & 0x3fffffff, 0x100):
            yield d.a.eq(adr); yield
            seen.append((adr, (yield d.hit)))
    run_simulation(d, gen())
    print("decoder(word address) ->", [(hex(a), h) for a, h in seen])
    # SoC level: a RAM at that origin is built
    soc = SoCCore(P(), 100e6, cpu_type=None, integrated_rom_size=0, integrated_sram_size=0x100, with_uart=False, with_timer=False, ident="", ident_version=False)
    elab.restore_stderr()
    try:
        soc.add_ram("far", origin=0x1_0000_0000, size=0x1000); soc.finalize(); elab.restore_stderr()
    except S.SoCError:
        elab.restore_stderr(); print("SoC rejected the region (SoCError)"); return False
    print("SoC.finalize succeeded; bus.regions:", {k: (hex(v.origin), hex(v.size)) for k, v in soc.bus.regions.items()}, "slaves:", list(soc.bus.slaves))
    return g.origin + g.size > 2**32 and not any(h for _, h in seen) and "far" in soc.bus.slaves

if __name__ == "__main__":
    r = scenario(); print("REPRODUCED" if r else "not reproduced"); sys.exit(0 if r else 1)
