import sys; sys.path.insert(0,'/verif')
from vf import elab
from migen import *
from litex.gen.sim import run_simulation
from litex.soc.interconnect.axi import AXILiteInterface, AXILiteDownConverter
m = AXILiteInterface(data_width=32, address_width=16); s = AXILiteInterface(data_width=16, address_width=16)
class Top(Module):
    def __init__(self): self.submodules.dc = AXILiteDownConverter(m, s)
d = Top()
log = []
def master():
    yield m.aw.valid.eq(1); yield m.aw.addr.eq(0x10); yield m.w.valid.eq(1); yield m.w.data.eq(0xAABBCCDD); yield m.w.strb.eq(0b1100); yield m.b.ready.eq(1)
    for c in range(40):
        yield
        if (yield m.aw.ready): 
            yield m.aw.valid.eq(0); yield m.w.valid.eq(0)
        if (yield m.b.valid): log.append(("master B at cycle", c, (yield m.b.resp))); return
    log.append(("master never got B in 40 cycles",))

def slave_():
    # legal AXI-Lite slave: AW/W ready permanently high; B one cycle after it has both
    yield s.aw.ready.eq(1); yield s.w.ready.eq(1)
    got_aw = got_w = False
    while True:
        yield
        if (yield s.aw.valid) and (yield s.aw.ready): got_aw = True; log.append(("slave AW", hex((yield s.aw.addr))))
        if (yield s.w.valid) and (yield s.w.ready): got_w = True; log.append(("slave W", hex((yield s.w.data)), bin((yield s.w.strb))))
        if got_aw and got_w:
            yield s.b.valid.eq(1)
            while not (yield s.b.ready): yield
            yield; yield s.b.valid.eq(0); got_aw = got_w = False
from litex.gen.sim.core import passive
slave = passive(slave_)
run_simulation(d, [master(), slave()])
print(log)
