#!/usr/bin/env python3
"""prints a markdown table of the seeded changes given as ids (from /verif/seeded/<id>/meta.json + notes.md): title, detected, first obligations"""
import json, os, re, sys
root = os.path.join(os.path.dirname(os.path.dirname(os.path.abspath(__file__))), "seeded")
ids = sys.argv[1:] or sorted(os.listdir(root))
print("| change | what it does | check exit | first obligation(s) reported |\n|---|---|---|---|")
for i in ids:
    d = os.path.join(root, i)
    try: m = json.load(open(os.path.join(d, "meta.json")))
    except Exception: m = {}
    t = ""
    try: t = open(os.path.join(d, "notes.md")).readline().strip().lstrip("# ").strip()
    except Exception: pass
    t = re.sub(r"^(C\d\d\w* */ *)?[mM]\d+ *[-–—:] *", "", t)
    obl = []
    for l in m.get("violation_lines", [])[:2]:
        mm = re.search(r"obligation=(.*?)(?: no-failing-input-found)?$", l)
        if mm: obl.append("`" + mm.group(1)[:90] + "`")
    print(f"| {i} | {t[:150]} | {m.get('check_exit', '?')} | {'; '.join(obl)} |")
