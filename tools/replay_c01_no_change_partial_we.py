"""Native replay of a C01 finding candidate: a No-Change memory port with a write granularity (multi-bit write enable).
Simulator (migen MemoryToArray): `If(~port.we, port.dat_r.eq(storage[port.adr]))` - the bitwise complement is used as a truth value, so the read data is
refreshed unless ALL enable bits are set.  Emitted Verilog (litex/gen/fhdl/memory.py): `if (!we) mem_dat0 <= mem[adr];` - refreshed only when NO enable bit
is set.  With a partial write (we = 0b01) the simulated dat_r follows the addressed word, the Verilog data register keeps its value.
run: PYTHONPATH=/repo /venv/bin/python tools/replay_c01_no_change_partial_we.py     exit 0 = defect present, 1 = not reproduced"""
from migen import *
from migen.fhdl.specials import Memory, NO_CHANGE
from litex.gen.sim import run_simulation
from litex.gen.fhdl.verilog import convert
class D(Module):
    def __init__(self):
        self.mem = Memory(8, 4, init=[0x11, 0x22, 0x33, 0x44]); self.p = self.mem.get_port(write_capable=True, mode=NO_CHANGE, we_granularity=4); self.specials += self.mem, self.p; self.clock_domains.cd_sys = ClockDomain("sys")
d = D(); seen = []
def tb():
    yield d.p.adr.eq(1); yield d.p.we.eq(0); yield; yield
    seen.append(("read adr 1, we=00", hex((yield d.p.dat_r))))
    yield d.p.adr.eq(2); yield d.p.we.eq(0b01); yield d.p.dat_w.eq(0xff); yield; yield
    seen.append(("adr 2, we=01 (partial write)", hex((yield d.p.dat_r))))
    yield d.p.adr.eq(3); yield d.p.we.eq(0b11); yield; yield
    seen.append(("adr 3, we=11 (full write)", hex((yield d.p.dat_r))))
run_simulation(d, tb())
print("simulator dat_r:", seen)
d2 = D(); io = {d2.p.adr, d2.p.dat_r, d2.p.we, d2.p.dat_w, d2.cd_sys.clk, d2.cd_sys.rst}
txt = convert(d2, ios=io, name="top").main_source
body = txt.split("// Port 0")[1].split("endmodule")[0]
print("emitted port logic:"); print(body)
print("Verilog: `if (!we)` is false for we = 2'b01, the data register keeps 0x22 during the partial write; the simulator shows", seen[1][1])
import re
raise SystemExit(0 if re.search(r"if \(!\w+\)\n\t\tmem_dat0 <= ", txt) and seen[0][1] == "0x22" and seen[1][1] != "0x22" else 1)
