#!/bin/bash
# tools/seedrq.sh <prop> <id> : re-run the check against an already stored seeded change (after strengthening), serialised
P=$1; ID=$2
TESTS=$(python3 -c "import json;print(json.load(open('/verif/seeded/$ID/meta.json')).get('tests_run',''))" 2>/dev/null)
( flock 9; cd /verif && tools/seed_verify2.sh $P /verif/seeded/$ID $ID "$TESTS" > /tmp/sr5_$ID.log 2>&1 ) 9>/tmp/seedq.lock &
