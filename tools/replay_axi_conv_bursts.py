"""Native replay (real litex.gen.sim, real AXIUpConverter/AXIDownConverter) of the C10 burst-type / narrow-transfer clauses of contracts/C10_conv_ext.py.

An AXI master issues ONE write burst and ONE read burst (type, start address, len, size) through the real converter; on the other side sits an AXI slave
model that implements the AMBA burst address rules (A3.4.1: FIXED / INCR / WRAP, byte lanes of each transfer) on a byte memory and logs every byte it
writes / returns, in order.  The same slave model applied DIRECTLY to the master's burst gives the reference log.  "The same bytes are transferred in
the same order" <=> the two logs are equal (reads: the bytes the master sees in the active lanes of each beat equal the memory bytes at the beat's addresses)
and the translated burst is AXI-legal.

  python tools/replay_axi_conv_bursts.py <scenario> | all | list
Exit status: 1 when the scenario shows the defect, 0 otherwise (`all`: 1 when any outcome differs from the recorded expectation)."""
import sys; sys.path.insert(0, '/verif')
from vf import elab
from migen import *
from litex.gen.sim import run_simulation
from litex.soc.interconnect.axi import AXIInterface, AXIUpConverter, AXIDownConverter

FIXED, INCR, WRAP = 0, 1, 2
NAMES = {0: "FIXED", 1: "INCR", 2: "WRAP", 3: "RESERVED"}

# ---- AMBA A3.4.1 -------------------------------------------------------------------------------------
def beat_addr(addr, blen, size, burst, n):
    nb = 1 << size; aligned = addr & ~(nb - 1)
    if burst == FIXED: return addr
    if burst == INCR: return addr if n == 0 else aligned + n * nb
    total = (blen + 1) * nb; base = addr & ~(total - 1)
    return base + ((aligned - base + n * nb) % total)
def active_bytes(addr, blen, size, burst, n):
    """byte addresses transferred by beat n (A3.4.3: from the beat address up to the next size boundary)"""
    a = beat_addr(addr, blen, size, burst, n); nb = 1 << size
    return list(range(a, (a & ~(nb - 1)) + nb))
def legal(addr, blen, size, burst, bus_bytes):
    why = []
    nb = 1 << size
    if nb > bus_bytes: why.append(f"size {nb} bytes exceeds the {bus_bytes}-byte bus")
    if burst == 3: why.append("reserved burst type")
    if burst == WRAP and blen + 1 not in (2, 4, 8, 16): why.append(f"WRAP burst of {blen + 1} transfers (AXI: 2, 4, 8 or 16)")
    if burst == WRAP and addr % nb: why.append(f"WRAP start {addr:#x} not aligned to the transfer size {nb}")
    if burst == FIXED and blen > 15: why.append(f"FIXED burst of {blen + 1} transfers (AXI: at most 16)")
    if burst == INCR and ((addr & ~(nb - 1)) & 4095) + (blen + 1) * nb > 4096: why.append("INCR burst crosses a 4KB boundary")
    return why

def mem_byte(a): return (a * 7 + 3) & 0xFF                      # initial memory content (reads)
def wr_byte(beat, lane): return ((beat + 1) * 0x10 + lane) & 0xFF  # what the master writes: depends on beat and lane, so a misplaced byte shows

# ---- one scenario --------------------------------------------------------------------------------------
def run(kind, dw_from, dw_to, burst, addr, blen, size, verbose=True):
    a = AXIInterface(data_width=dw_from, address_width=32, id_width=2); c = AXIInterface(data_width=dw_to, address_width=32, id_width=2)
    d = (AXIUpConverter if kind == "up" else AXIDownConverter)(a, c)
    bf, bt = dw_from // 8, dw_to // 8
    log = dict(aw=None, ar=None, writes=[], outside=[], rbeats=[], rseen=[])
    # reference: the slave model applied directly to the master's bursts
    ref_writes = []; ref_reads = []
    for n in range(blen + 1):
        for byte in active_bytes(addr, blen, size, burst, n):
            ref_writes.append((byte, wr_byte(n, byte % bf))); ref_reads.append((n, byte, mem_byte(byte)))
    def master_w():
        yield a.aw.addr.eq(addr); yield a.aw.len.eq(blen); yield a.aw.size.eq(size); yield a.aw.burst.eq(burst); yield a.aw.valid.eq(1)
        for _ in range(100):
            yield
            if (yield a.aw.ready): break
        yield a.aw.valid.eq(0)
    def master_wdata():
        for n in range(blen + 1):
            data = 0; strb = 0
            for byte in active_bytes(addr, blen, size, burst, n):
                lane = byte % bf; data |= wr_byte(n, lane) << (8 * lane); strb |= 1 << lane
            yield a.w.data.eq(data); yield a.w.strb.eq(strb); yield a.w.last.eq(int(n == blen)); yield a.w.valid.eq(1)
            for _ in range(100):
                yield
                if (yield a.w.ready): break
        yield a.w.valid.eq(0)
    def master_r():
        yield a.ar.addr.eq(addr); yield a.ar.len.eq(blen); yield a.ar.size.eq(size); yield a.ar.burst.eq(burst); yield a.ar.valid.eq(1)
        for _ in range(100):
            yield
            if (yield a.ar.ready): break
        yield a.ar.valid.eq(0); yield a.r.ready.eq(1)
        for _ in range(400):
            yield
            if (yield a.r.valid):
                log["rseen"].append(((yield a.r.data), (yield a.r.last)))
                if (yield a.r.last): break
    def slave_w():
        yield c.aw.ready.eq(1)
        for _ in range(100):
            yield
            if (yield c.aw.valid): break
        log["aw"] = dict(addr=(yield c.aw.addr), len=(yield c.aw.len), size=(yield c.aw.size), burst=(yield c.aw.burst))
        yield c.aw.ready.eq(0); yield c.w.ready.eq(1)
        q = log["aw"]; n = 0
        for _ in range(600):
            yield
            if (yield c.w.valid):
                data, strb, last = (yield c.w.data), (yield c.w.strb), (yield c.w.last)
                if q["burst"] != 3:
                    ba = beat_addr(q["addr"], q["len"], q["size"], q["burst"], n); word = ba & ~(bt - 1)
                    act = set(active_bytes(q["addr"], q["len"], q["size"], q["burst"], n))
                    for lane in range(bt):
                        if (strb >> lane) & 1:
                            log["writes"].append((word + lane, (data >> (8 * lane)) & 0xFF))        # the slave writes where the strobes are
                            if word + lane not in act: log["outside"].append((n, word + lane))        # ... a strobe outside the transfer's byte lanes is a protocol error
                n += 1
                if last: break
        log["wbeats"] = n
        yield c.w.ready.eq(0)
    def slave_r():
        yield c.ar.ready.eq(1)
        for _ in range(100):
            yield
            if (yield c.ar.valid): break
        log["ar"] = q = dict(addr=(yield c.ar.addr), len=(yield c.ar.len), size=(yield c.ar.size), burst=(yield c.ar.burst))
        yield c.ar.ready.eq(0)
        for n in range(q["len"] + 1):
            ba = beat_addr(q["addr"], q["len"], q["size"], min(q["burst"], 2), n); word = ba & ~(bt - 1)
            act = set(active_bytes(q["addr"], q["len"], q["size"], min(q["burst"], 2), n))
            data = 0
            for lane in range(bt):
                if word + lane in act: data |= mem_byte(word + lane) << (8 * lane)                    # only the transfer's byte lanes carry memory data, the others are 0xEE
                else: data |= 0xEE << (8 * lane)
            yield c.r.data.eq(data); yield c.r.last.eq(int(n == q["len"])); yield c.r.valid.eq(1)
            for _ in range(100):
                yield
                if (yield c.r.ready): break
        yield c.r.valid.eq(0)
    run_simulation(d, [master_w(), master_wdata(), master_r(), slave_w(), slave_r()])
    problems = []
    for chn, busb in (("aw", bt), ("ar", bt)):
        q = log[chn]
        if q is None: problems.append(f"{chn}: no translated request"); continue
        for w in legal(q["addr"], q["len"], q["size"], q["burst"], busb): problems.append(f"translated {chn.upper()} is not AXI-legal: {w}")
    if log["writes"] != ref_writes: problems.append("write: the byte sequence seen by the memory differs from the master's burst")
    if log["outside"]: problems.append(f"write: strobes outside the byte lanes of the translated transfer (beat, byte address): {log['outside'][:6]}")
    # reads: beat k of the master's burst must show, in its active lanes, the memory bytes of its addresses
    got_reads = []
    for n, (data, last) in enumerate(log["rseen"]):
        if n > blen: break
        for byte in active_bytes(addr, blen, size, burst, n): got_reads.append((n, byte, (data >> (8 * (byte % bf))) & 0xFF))
    if len(log["rseen"]) != blen + 1: problems.append(f"read: {len(log['rseen'])} data beats delivered for a burst of {blen + 1}")
    if got_reads != ref_reads: problems.append("read: the bytes delivered in the active lanes differ from the memory bytes at the burst's addresses")
    if verbose:
        fmt = lambda q: f"addr={q['addr']:#x} len={q['len']} size={q['size']} burst={NAMES[q['burst']]}" if q else "none"
        print(f"  master burst  : addr={addr:#x} len={blen} size={size} burst={NAMES[burst]}   ({'Up' if kind == 'up' else 'Down'}Converter {dw_from}->{dw_to})")
        print(f"  translated AW : {fmt(log['aw'])}\n  translated AR : {fmt(log['ar'])}")
        show = lambda l: " ".join(f"{a_:#x}:{v:02x}" for a_, v in l[:40]) + (" ..." if len(l) > 40 else "")
        print(f"  memory writes, master's burst on a slave of its own width : {show(ref_writes)}")
        print(f"  memory writes, translated burst                            : {show(log['writes'])}")
        showr = lambda l: " ".join(f"b{n}@{a_:#x}:{v:02x}" for n, a_, v in l[:24]) + (" ..." if len(l) > 24 else "")
        print(f"  read bytes expected : {showr(ref_reads)}")
        print(f"  read bytes delivered: {showr(got_reads)}")
        for p in problems: print("  DEFECT:", p)
        if not problems: print("  ok: same bytes, same order, legal translated bursts")
    return problems

SCEN = {   # name: (kind, dw_from, dw_to, burst, addr, len, size, defect expected on the unchanged tree, clause)
 "down-fixed-2beats":     ("down", 64, 32, FIXED, 0x10, 1, 3, True,  "finding.a?.fixed-multibeat (AXIDownConverter)"),
 "down-fixed-single":     ("down", 64, 32, FIXED, 0x10, 0, 3, False, "ens.a?.beat-address@fixed-single (control)"),
 "down-wrap4":            ("down", 64, 32, WRAP,  0x30, 3, 3, False, "ens.a?.beat-address@wrap (control)"),
 "down-wrap16":           ("down", 64, 32, WRAP,  0x40, 15, 3, True, "finding.a?.wrap-len-illegal (AXIDownConverter)"),
 "down-incr":             ("down", 64, 32, INCR,  0x18, 2, 3, False, "ens.a?.beat-address@incr (control)"),
 "down-narrow-single":    ("down", 128, 32, INCR, 0x28, 0, 3, False, "ens.a?.beat-address@narrow-single (control)"),
 "down-narrow-burst":     ("down", 64, 32, INCR,  0x0, 1, 2, True,  "finding.a?.narrow / finding.a?.narrow-beat-address (listed narrow-burst defect)"),
 "up-fixed-2beats":       ("up", 32, 64, FIXED, 0x8, 1, 2, True,  "finding.a?.fixed-multibeat (AXIUpConverter)"),
 "up-fixed-single":       ("up", 32, 64, FIXED, 0x8, 0, 2, True,  "write: ens.aw.beat-address@fixed-single (same bytes); read: finding.ar.surplus-read-beats (2 beats for 1)"),
 "up-single-read-at-8":   ("up", 32, 64, INCR,  0x8, 0, 2, True,  "finding.ar.surplus-read-beats (AXIUpConverter: single-beat read at a wide-word boundary)"),
 "up-incr-3beats":        ("up", 32, 64, INCR,  0x8, 2, 2, True,  "finding.ar.surplus-read-beats (3 beats asked, 4 delivered); write: addresses ok, the 4 extra bytes are the listed finding.w.partial-word-strobes"),
 "up-wrap2":              ("up", 32, 64, WRAP,  0x8, 1, 2, True,  "finding.a?.wrap-short (AXIUpConverter)"),
 "up-wrap4":              ("up", 32, 64, WRAP,  0x18, 3, 2, False, "ens.a?.beat-address@wrap (control)"),
 "up-wrap4-unaligned":    ("up", 32, 64, WRAP,  0x14, 3, 2, True,  "finding.a?.unaligned-start-any-burst"),
 "up-single-at-4":        ("up", 32, 64, INCR,  0x4, 0, 2, True,  "finding.a?.unaligned-start-any-burst (a plain 32-bit access at address 4)"),
 "up-incr-aligned":       ("up", 32, 64, INCR,  0x8, 3, 2, False, "ens.a?.beat-address@incr (control)"),
 "up-narrow-burst":       ("up", 32, 64, INCR,  0x0, 3, 1, True,  "finding.a?.narrow-lanes (AXIUpConverter)"),
}

if __name__ == "__main__":
    arg = sys.argv[1] if len(sys.argv) > 1 else "list"
    if arg == "list":
        for k, v in SCEN.items(): print(f"{k:22s} {v[8]}")
        sys.exit(0)
    names = list(SCEN) if arg == "all" else [arg]
    bad = 0; unexpected = 0
    for nm in names:
        kind, f_, t_, bu, ad, le, sz, exp, clause = SCEN[nm]
        print(f"[{nm}] {clause}")
        pr = run(kind, f_, t_, bu, ad, le, sz)
        if pr: bad += 1
        if bool(pr) != exp: unexpected += 1; print(f"  UNEXPECTED: recorded expectation on the unchanged tree was {'DEFECT' if exp else 'ok'}")
    sys.exit((1 if unexpected else 0) if arg == "all" else (1 if bad else 0))
