"""Native replays (unmodified LiteX, real simulator, no proxies) of the finding candidates of contracts/wip_C12_gather.py (property C12).

  A. SoCCSRHandler.address_map keys a CSR memory by  owner name + "_" + memory name  and a register bank by the owner name alone: the bank of a
     module called `a_b` and the memory `b` of a module called `a` (also memories a/b_c and a_b/c) get the SAME key, add(use_loc_if_exists=True)
     silently hands out the same page, CSRBankArray builds both slaves on that page: one bus write to the register's published address also
     overwrites a memory word, reads are the OR of both.                          (clause address_map.finding.different-objects=>different-pages)
  B. A bank with more register words than one page (paging/4 words) is accepted by CSRBank / CSRBankArray / the SoC: the words beyond the page can
     never be selected, and the address the SoC publishes for them (page base + 4*index) is a word of the NEXT bank: a write there changes
     another peripheral's register.                                                (clause finding.every-register-word-of-a-bank-is-selectable)
  C. CSRField(reset=v) with v >= 2**size is accepted and get_reset ORs it into the neighbouring field's reset bits.
                                                                                   (clause finding.field-reset-value-fits-its-field-or-is-rejected)
  D. CSRField(pulse=True, reset=1): the field signal idles at 1 and goes low for one cycle when 0 is written (the comb default of the field
     signal is its reset value).                                                   (clause finding.pulse(..).idles-at-0-and-lasts-one-cycle)
  Observations (outside the contract's environment / the property text, not claimed as findings):
  E. an object stored under two attribute names is gathered twice;  F. CSRConstant(n=...) makes get_constants(sort=True) return reserved CSR
     objects among the constants (SoC.finalize would read constant.value of a CSR).
usage: .venv/bin/python tools/replay_csr_array_addressing.py [A|B|C|D|E|F]...      exit code 1 if any of A-D reproduces"""
import sys
sys.path.insert(0, "/verif")
from vf import elab                      # import path of /repo (or VERIF_REPO) + tracer shim for Python 3.12; nothing else
from migen import *
from litex.gen.sim import run_simulation
from litex.soc.interconnect.csr import *
from litex.soc.interconnect import csr_bus
from litex.soc.integration import soc as SOC

def A():
    class ModA(Module, AutoCSR):
        def __init__(self): self.b = Memory(8, 16, name="b")
    class ModAB(Module, AutoCSR):
        def __init__(self): self.reg = CSRStorage(8, name="reg")
    class Top(Module):
        def __init__(self):
            self.submodules.a = ModA(); self.submodules.a_b = ModAB()
            self.hnd = SOC.SoCCSRHandler(data_width=8, address_width=14, alignment=32, paging=0x800, ordering="big"); elab.restore_stderr()
            self.bus = csr_bus.Interface(data_width=8, address_width=14)
            self.submodules.array = csr_bus.CSRBankArray(self, self.hnd.address_map, data_width=8, address_width=14, paging=0x800)
            self.submodules.ic = csr_bus.Interconnect(self.bus, self.array.get_buses())
    d = Top(); obs = {}
    bank_page = [m for n, c, m, r in d.array.banks][0]; mem_page = [m for n, mem, m, r in d.array.srams][0]
    print(f"A. SoCCSRHandler.locs = {dict(d.hnd.locs)}   bank 'a_b' on page {bank_page}, memory a.b on page {mem_page}")
    def gen():
        yield from d.bus.write((bank_page << 9) | 0, 0xA5); yield
        obs["reg"] = (yield d.a_b.reg.storage); obs["mem0"] = (yield d.a.b[0])
    run_simulation(d, gen())
    print(f"   one bus write of 0xA5 to the register's address: a_b.reg = {obs['reg']:#x}, memory a.b[0] = {obs['mem0']:#x}")
    return bank_page == mem_page and obs["mem0"] == 0xA5

def B(busw=8, paging=0x400, nregs=9, regbits=256):
    class Big(Module, AutoCSR):
        def __init__(self):
            for i in range(nregs): setattr(self, f"r{i}", CSRStorage(regbits, name=f"r{i}"))
    class Small(Module, AutoCSR):
        def __init__(self): self.v = CSRStorage(8, name="v", reset=0x11)
    class Top(Module):
        def __init__(self):
            self.submodules.big = Big(); self.submodules.small = Small()
            self.hnd = SOC.SoCCSRHandler(data_width=busw, address_width=14, alignment=32, paging=paging, ordering="big"); elab.restore_stderr()
            self.bus = csr_bus.Interface(data_width=busw, address_width=14)
            self.submodules.array = csr_bus.CSRBankArray(self, self.hnd.address_map, data_width=busw, address_width=14, paging=paging)
            self.submodules.ic = csr_bus.Interconnect(self.bus, self.array.get_buses())
    d = Top(); ap = paging // 4; obs = {}
    banks = {n: (m, r) for n, c, m, r in d.array.banks}
    nwords = len(banks["big"][1].simple_csrs); target = banks["big"][0] * ap + ap
    print(f"B. bank 'big': {nwords} register words, page holds {ap}; pages {dict((n, m) for n, (m, r) in banks.items())}; elaboration raised nothing")
    def gen():
        yield from d.bus.write(target, 0xEE); yield
        obs["big.r8"] = (yield d.big.r8.storage); obs["small.v"] = (yield d.small.v.storage)
    run_simulation(d, gen())
    print(f"   write 0xEE to word {target} (= word {ap} of bank 'big', the most significant byte of r8, published at base + {4 * ap:#x}): big.r8 = {obs['big.r8']:#x}, small.v = {obs['small.v']:#x} (reset 0x11)")
    return nwords > ap and obs["small.v"] == 0xEE and obs["big.r8"] == 0

def C():
    try:
        st = CSRStorage(name="x", fields=[CSRField("a", size=1, reset=5), CSRField("b", size=3, reset=0)])
    except Exception as e:
        print("C. rejected:", type(e).__name__, e); return False
    rv = st.storage.reset.value
    print(f"C. fields a(size 1, reset 5), b(size 3, reset 0): accepted; register reset = {rv:#x}; reset of field b's bits [3:1] = {(rv >> 1) & 7} (declared 0)")
    return ((rv >> 1) & 7) != 0

def D():
    class Top(Module):
        def __init__(self):
            self.ctrl = CSRStorage(name="ctrl", fields=[CSRField("cfg", size=4, reset=3), CSRField("fire", size=1, pulse=True, reset=1)])
            self.bus = csr_bus.Interface(data_width=8, address_width=14)
            self.submodules.bank = csr_bus.CSRBank([self.ctrl], address=0, bus=self.bus)
    d = Top(); log = []
    def gen():
        for t in range(3): log.append((yield d.ctrl.fields.fire)); yield
        yield from d.bus.write(0, 0x03)
        for t in range(4): log.append((yield d.ctrl.fields.fire)); yield
    run_simulation(d, gen())
    print(f"D. pulse field `fire` (reset=1), cycle by cycle, only write is 0x03 (fire=0) after cycle 2: {log}")
    return log[:3] == [1, 1, 1] and 0 in log[3:] and log[-1] == 1

def E():
    class M(Module, AutoCSR):
        def __init__(self): self.r = CSRStorage(8, name="r"); self.alias = self.r
    names = [c.name for c in M().get_csrs()]
    print("E. register stored under two attribute names: get_csrs() ->", names); return len(names) == 2
def F():
    class M(Module, AutoCSR):
        def __init__(self): self.c0 = CSRConstant(5, name="c0", n=2)
    got = [(type(c).__name__, c.name) for c in M().get_constants(sort=True)]
    print("F. CSRConstant(n=2): get_constants(sort=True) ->", got); return any(t == "CSR" for t, _ in got)

if __name__ == "__main__":
    which = [a for a in sys.argv[1:]] or list("ABCDEF")
    rc = 0
    for w in which:
        r = globals()[w]()
        print(f"   {w}: {'REPRODUCED' if r else 'not reproduced'}")
        if r and w in "ABCD": rc = 1
    sys.exit(rc)
