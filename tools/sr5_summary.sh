#!/bin/bash
for f in /tmp/sr5_*.log; do n=$(basename $f .log); n=${n#sr5_}; printf "%-8s viol=%-3s " $n $(grep -c "^VIOLATION" $f); grep "^demo unchanged" $f | sed 's/demo unchanged: exit \([0-9]*\) ; demo with patch: exit \([0-9]*\).*not passing with the patch: \(.*\)/base=\1 mut=\2 regress=\3/' | cut -c1-80 | tr '\n' ' '; grep "check exit" $f | tr '\n' ' '; echo; done
