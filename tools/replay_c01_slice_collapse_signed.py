"""Native replay of a C01 finding candidate: _ComplexSliceLowerer.visit_Slice (litex/gen/fhdl/verilog.py) returns the sliced operand itself when the
slice covers all its bits (`if start == 0 and len(node) == length: return NodeTransformer.visit(self, node)`).  A slice is UNSIGNED in FHDL; when the
operand is a signed Signal (directly, as a Cat element or as a Replicate operand) the emitted expression is the signed signal: Verilog sign-extends it
into a wider target (IEEE 1364-2005 5.5.1/5.5.4: the right-hand side is signed, so it is sign-extended to the width of the left-hand side) and compares it
as signed, the simulator zero-extends / compares unsigned.
run: PYTHONPATH=/repo /venv/bin/python tools/replay_c01_slice_collapse_signed.py     exit 0 = defect present, 1 = not reproduced"""
import re
from migen import *
from litex.gen.sim import run_simulation
from litex.gen.fhdl.verilog import convert
class D(Module):
    def __init__(self):
        self.s = Signal((4, True), name_override="s"); self.t = Signal(3, name_override="t"); self.u = Signal(4, name_override="u")
        self.y = Signal(8, name_override="y"); self.y3 = Signal(8, name_override="y3"); self.z = Signal(8, name_override="z"); self.c = Signal(name_override="c")
        self.comb += [self.y3.eq(self.s[0:4]), self.y.eq(Cat(self.s, self.t)[0:4]), self.z.eq(Replicate(self.s, 2)[4:8]), self.c.eq(Cat(self.t, self.s)[3:7] < self.u)]
d = D(); seen = []
def tb():
    for sv, uv in ((-1, 3), (-8, 9), (5, 3)):
        yield d.s.eq(sv); yield d.u.eq(uv); yield
        seen.append(dict(s=sv, u=uv, y3=(yield d.y3), y=(yield d.y), z=(yield d.z), c=(yield d.c)))
run_simulation(d, tb())
print("simulator:")
for r in seen: print("  ", r)
d2 = D(); txt = convert(d2, ios={d2.s, d2.t, d2.u, d2.y, d2.y3, d2.z, d2.c}, name="top").main_source
lines = [l for l in txt.splitlines() if l.startswith("assign") or re.match(r"\s*(input|output)", l)]
print("emitted Verilog:"); print("\n".join("   " + l for l in lines))
collapsed = "assign y = s;" in txt and "assign y3 = s;" in txt and re.search(r"input\s+wire\s+signed\s+\[3:0\] s", txt) is not None
# IEEE-1364 reading of `assign y = s;` with `input wire signed [3:0] s`, `output wire [7:0] y`: y = sign-extension of s
vl = [dict(s=r["s"], y3=r["s"] & 0xff, y=r["s"] & 0xff, c=int(r["s"] < r["u"])) for r in seen]
print("Verilog (sign extension of the signed net s into the 8-bit y; signed comparison s < $signed({1'd0, u})):")
for r in vl: print("  ", r)
differs = any(a["y"] != b["y"] or a["c"] != b["c"] for a, b in zip(seen, vl))
print("slice collapsed to the signed operand:", collapsed, "; values differ:", differs)
raise SystemExit(0 if collapsed and differs else 1)
