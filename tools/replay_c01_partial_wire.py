"""Native replay of a C01 defect (repaired by a `fix:` commit, see known_findings.json):
a combinatorial signal whose ONLY assignment is `Cat(c[0], c[3]).eq(a)` was emitted as `wire [3:0] c; assign {c[3], c[0]} = a;`
(_use_wire only excluded a plain slice on the left, not a concatenation of slices): bits c[2:1] are then undriven (high impedance) in Verilog
while the simulator gives them the signal's reset value.
run: PYTHONPATH=/repo /venv/bin/python tools/replay_c01_partial_wire.py   exit 0 = the Verilog text leaves bits undriven (defect present), 1 = all bits driven"""
import re, sys
from migen import *
from litex.gen.sim import run_simulation
from litex.gen.fhdl.verilog import convert
class D(Module):
    def __init__(self):
        self.a = Signal(2, name_override="a"); self.c = Signal(4, reset=0b0110, name_override="c"); self.o = Signal(4, name_override="o")
        self.comb += Cat(self.c[0], self.c[3]).eq(self.a)
        self.comb += self.o.eq(self.c)
d = D(); seen = []
def tb():
    for v in range(4):
        yield d.a.eq(v); yield
        seen.append((v, (yield d.o)))
run_simulation(d, tb())
print("simulator (a, o):", seen, " -> bits 2:1 of c hold the reset value 0b11")
d2 = D(); txt = convert(d2, ios={d2.a, d2.o}, name="top").main_source
lines = [l for l in txt.splitlines() if re.search(r"\bc\b", l) and not l.startswith("//")]
print("\n".join(lines))
decl_wire = any(re.match(r"\s*wire\s+\[3:0\]\s+c;", l) for l in lines)
drives_all = any(re.search(r"\bc <= ", l) or re.match(r"\s*assign c = ", l) for l in lines)
print("c declared as wire:", decl_wire, "; some statement drives all of c:", drives_all)
raise SystemExit(0 if decl_wire and not drives_all else 1)
