"""Native replay (unmodified /repo): SoCCSRHandler.address_map mangles a CSR memory's name as module + "_" + memory.name_override and reuses an existing
location of that name (use_loc_if_exists=True).  A module `a` with a CSR memory `b` and another module `a_b` with CSRs therefore get the SAME CSR page,
and SoCCSRHandler.add_region (no checks) silently replaces one csr region by the other.
run: /verif/.venv/bin/python /verif/tools/replay_csr_name_mangling_collision.py"""
import sys, logging
sys.path.insert(0, "/verif")
from vf import elab
from migen import *
from litex.gen import *
from litex.build.generic_platform import Pins
from litex.build.sim import SimPlatform
from litex.soc.integration.soc_core import SoCCore
from litex.soc.integration import soc as S
from litex.soc.interconnect.csr import *
logging.disable(logging.CRITICAL)

class P(SimPlatform):
    def __init__(self): SimPlatform.__init__(self, "SIM", [("sys_clk", 0, Pins(1)), ("sys_rst", 0, Pins(1))])
class WithMem(LiteXModule):
    def __init__(self):
        self.mem = Memory(32, 16, name="b"); self.specials += self.mem
    def get_memories(self): return [self.mem]
class WithCSR(LiteXModule):
    def __init__(self): self.r = CSRStorage(8, name="r")

def scenario():
    # handler level
    h = S.SoCCSRHandler(); elab.restore_stderr()
    class M: name_override = "b"
    p_mem  = h.address_map("a", M)          # client 1: memory b of module a
    p_bank = h.address_map("a_b", None)     # client 2: CSR bank of module a_b
    print(f"handler: address_map('a', memory b) -> page {p_mem};  address_map('a_b', None) -> page {p_bank};  locs = {h.locs}")
    hit1 = p_mem == p_bank
    # SoC level
    soc = SoCCore(P(), 100e6, cpu_type=None, integrated_rom_size=0, integrated_sram_size=0x100, with_uart=False, with_timer=False, ident="", ident_version=False)
    elab.restore_stderr()
    soc.a = WithMem(); soc.a_b = WithCSR()
    try:
        soc.finalize(); elab.restore_stderr()
    except S.SoCError:
        elab.restore_stderr(); print("SoC.finalize raised SoCError (rejected)"); return False
    banks = [(n, m) for n, _, m, _ in soc.csr_bankarray.banks]; srams = [(n + "_" + mem.name_override, m) for n, mem, m, _ in soc.csr_bankarray.srams]
    print("SoC: banks (name, page):", banks); print("SoC: srams (name, page):", srams)
    print("SoC: csr.locs:", soc.csr.locs); print("SoC: csr.regions:", {k: hex(v.origin) for k, v in soc.csr.regions.items()})
    pages = [m for _, m in banks + srams]
    hit2 = len(pages) != len(set(pages))
    print("same CSR page granted to two clients:", hit2, "| csr regions recorded:", len(soc.csr.regions), "for", len(banks) + len(srams), "clients")
    return hit1 and hit2

if __name__ == "__main__":
    r = scenario(); print("REPRODUCED" if r else "not reproduced"); sys.exit(0 if r else 1)
