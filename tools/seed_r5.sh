#!/bin/bash
# tools/seed_r5.sh <prop> <k: 1|2> <new id> ["tests"]  - confirm and check one round-5 seeded change delivered in /tmp/mut_<prop>r5/m<k>
P=$1; K=$2; ID=$3; TESTS=${4:-}
declare -A T=( [C01]="test" [C02]="test" [C03]="test/test_stream.py test/test_gearbox.py test/test_packet.py" [C04]="test/test_stream.py test/test_gearbox.py test/test_packet.py" [C05]="test/test_stream.py test/test_clock_domain_crossing.py"
 [C06]="test/test_wishbone.py test/test_integration.py" [C07]="test/test_wishbone.py" [C08]="test/test_axi_lite.py test/test_axi.py" [C09]="test/test_axi_lite.py test/test_axi.py test/test_ahb.py" [C10]="test/test_axi.py" [C11]="test/test_axi_lite.py test/test_wishbone.py test/test_axi.py"
 [C12]="test/test_csr.py" [C13]="test/test_integration.py" [C14]="test/test_integration.py test/test_csr.py" [C15]="test/test_csr.py test/test_timer.py" [C16]="test/test_packet.py test/test_packet2.py" [C17]="test/test_code_8b10b.py test/test_stream.py" [C18]="test/test_ecc.py" [C19]="test/test_spi.py test/test_timer.py test/test_i2c.py" [C20]="test/test_clock.py" )
[ -z "$TESTS" ] && { TESTS=""; for t in ${T[$P]}; do [ -e /repo/$t ] && TESTS="$TESTS $t"; done; }
cd /verif && tools/seed_verify2.sh $P /tmp/mut_${P}${ROUND:-r5}/m$K $ID "$TESTS"
