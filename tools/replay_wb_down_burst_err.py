"""Native replay (real litex.gen.sim simulator, unchanged /repo) of two observations on wishbone.DownConverter (C07 extension,
contracts/wip_C07_conv_ext.py):

 1  err  : a slave that terminates a sub-access with `err` (Wishbone B4: abnormal cycle termination, instead of ack).
           DownConverter never drives master.err and does not advance: the same sub-access is presented again; the master cycle
           is not terminated for as long as the slave keeps answering err (the master hangs).  Control: the same slave behind an
           UpConverter / directly: the master sees err in the same cycle.
 2  wait : a master wait state (stb low, cyc high) between two beats of a linear incrementing burst.  DownConverter gates
           slave.cyc with master.stb, so cyc falls on the slave side right after a transferred beat tagged cti=010: the slave-side
           burst is left open (no 111 beat) and the following beats form a new burst.  (Data are still transferred correctly.)

usage: replay_wb_down_burst_err.py [1|2]      (default: both)"""
import sys; sys.path.insert(0, '/verif')
from vf import elab
from migen import *
from litex.gen.sim import run_simulation
from litex.gen.sim.core import passive
from litex.soc.interconnect import wishbone

INC, END = wishbone.CTI_BURST_INCREMENTING, wishbone.CTI_BURST_END

def err_experiment(kind, err_adr=5, ncycles=40):
    """slave: a python process answering ack to every sub-access except `err_adr`, which it terminates with err"""
    if kind == "down":
        m = wishbone.Interface(data_width=32, adr_width=8); s = wishbone.Interface(data_width=16, adr_width=9)
        dut = wishbone.DownConverter(m, s); madr = err_adr >> 1
    elif kind == "up":
        m = wishbone.Interface(data_width=16, adr_width=9); s = wishbone.Interface(data_width=32, adr_width=8)
        dut = wishbone.UpConverter(m, s); madr = err_adr << 1
    log = []; result = {}
    @passive
    def slave():
        while True:
            yield s.ack.eq(0); yield s.err.eq(0)
            if (yield s.cyc) and (yield s.stb) and not (yield s.ack) and not (yield s.err):
                if (yield s.adr) == err_adr: yield s.err.eq(1)
                else: yield s.ack.eq(1)
            yield
    def master():
        yield m.adr.eq(madr); yield m.we.eq(0); yield m.sel.eq(2**len(m.sel) - 1); yield m.cyc.eq(1); yield m.stb.eq(1)
        for c in range(ncycles):
            yield
            log.append(dict(c=c, m_cyc=(yield m.cyc), m_stb=(yield m.stb), m_ack=(yield m.ack), m_err=(yield m.err),
                            s_cyc=(yield s.cyc), s_stb=(yield s.stb), s_adr=(yield s.adr), s_ack=(yield s.ack), s_err=(yield s.err)))
            if (yield m.ack) or (yield m.err):
                result["terminated"] = ("ack" if (yield m.ack) else "err", c); break
        yield m.cyc.eq(0); yield m.stb.eq(0); yield
    run_simulation(dut, [master(), slave()])
    return result, log

def wait_experiment(wait_state):
    m = wishbone.Interface(data_width=32, adr_width=8, bursting=True); s = wishbone.Interface(data_width=16, adr_width=9, bursting=True)
    dut = wishbone.DownConverter(m, s)
    log = []; mem = {}
    @passive
    def slave():      # zero-wait-state memory model (combinational ack is emulated by answering in the next cycle)
        while True:
            yield s.ack.eq(0)
            if (yield s.cyc) and (yield s.stb) and not (yield s.ack):
                if (yield s.we): mem[(yield s.adr)] = (yield s.dat_w)
                yield s.dat_r.eq(mem.get((yield s.adr), 0)); yield s.ack.eq(1)
            yield
    def beat(adr, dat, cti):
        yield m.adr.eq(adr); yield m.dat_w.eq(dat); yield m.sel.eq(0xf); yield m.we.eq(1); yield m.cti.eq(cti); yield m.cyc.eq(1); yield m.stb.eq(1)
        yield
        while not (yield m.ack): yield
    def master():
        yield from beat(4, 0x11112222, INC)
        if wait_state:
            yield m.stb.eq(0); yield                     # master wait state: stb low, cyc stays high
        yield from beat(5, 0x33334444, END)
        yield m.cyc.eq(0); yield m.stb.eq(0); yield; yield
    @passive
    def monitor():
        c = 0
        while True:
            log.append(dict(c=c, m_cyc=(yield m.cyc), m_stb=(yield m.stb), m_adr=(yield m.adr), m_cti=(yield m.cti), m_ack=(yield m.ack),
                            s_cyc=(yield s.cyc), s_stb=(yield s.stb), s_adr=(yield s.adr), s_cti=(yield s.cti), s_ack=(yield s.ack)))
            c += 1; yield
    run_simulation(dut, [master(), slave(), monitor()])
    return log, mem

which = sys.argv[1:] or ["1", "2"]
bad = 0
if "1" in which:
    for kind in ("up", "down"):
        res, log = err_experiment(kind)
        print(f"--- 1 err: read through {kind}-converter of a word whose (sub-)access the slave terminates with err")
        for r in log[:8]: print("   ", r)
        if len(log) > 8: print(f"    ... ({len(log)} cycles simulated)")
        if "terminated" in res: print(f"    master cycle terminated by {res['terminated'][0]} in cycle {res['terminated'][1]}")
        else:
            nerr = sum(1 for r in log if r["s_err"] and r["s_cyc"] and r["s_stb"])
            print(f"    master cycle NOT terminated after {len(log)} cycles; the slave terminated the sub-access with err {nerr} times; m.err never raised  -> HANG"); bad += 1
if "2" in which:
    for ws in (False, True):
        log, mem = wait_experiment(ws)
        print(f"--- 2 wait: 2-beat linear incrementing write burst (cti 010, 111) 32->16, master wait state between the beats: {ws}")
        for r in log: print("   ", r)
        # slave-side check: cyc must not fall while the last transferred slave beat was tagged 010 and the master still asserts cyc
        open_ = False
        for r in log:
            if open_ and not r["s_cyc"] and r["m_cyc"]:
                print(f"    cycle {r['c']}: slave-side cyc low while the slave-side burst is open (last transferred beat tagged 010) and master cyc is high -> burst left open"); bad += 1
            if r["s_cyc"] and r["s_stb"] and r["s_ack"]: open_ = r["s_cti"] == INC
            elif not r["s_cyc"]: open_ = False
        print("    slave memory:", {a: hex(v) for a, v in sorted(mem.items())})
print("observations reproduced:", bad)
