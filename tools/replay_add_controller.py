"""Native replay (unmodified /repo): SoCBusHandler.add_controller - the documented alias of add_master - can never be called:
it forwards with `self.add_master(self, name=name, master=controller)`, i.e. passes the handler as the positional `name` AND `name=` as a keyword.
run: /verif/.venv/bin/python /verif/tools/replay_add_controller.py      (exit status 1 = defect reproduced)"""
import sys, logging, inspect
sys.path.insert(0, "/verif")
from vf import elab
from litex.soc.integration import soc as S
from litex.soc.interconnect import wishbone
logging.disable(logging.CRITICAL)

print("source:", inspect.getsource(S.SoCBusHandler.add_controller).strip().splitlines()[-1].strip())
hit = 0
for kw in (dict(name="dma", controller=True), dict(controller=True), dict(name="dma"), {}):
    bus = S.SoCBusHandler()
    if "controller" in kw: kw["controller"] = wishbone.Interface(data_width=32, address_width=32, addressing="word")
    try:
        bus.add_controller(**kw); print(f"add_controller({', '.join(kw)}) -> granted, masters = {list(bus.masters)}")
    except S.SoCError: elab.restore_stderr(); print(f"add_controller({', '.join(kw)}) -> SoCError")
    except TypeError as e: hit += 1; print(f"add_controller({', '.join(kw)}) -> TypeError: {e}")
bus = S.SoCBusHandler(); bus.add_master(name="dma", master=wishbone.Interface(data_width=32, address_width=32, addressing="word"))
print("reference: add_master(name='dma', master=<wishbone>) -> granted, masters =", list(bus.masters))
print("REPRODUCED: every call shape of add_controller raises TypeError" if hit == 4 else "not reproduced")
sys.exit(1 if hit == 4 else 0)
