"""Native replay (real litex.gen.sim) of C10 finding.w.id-latency: AXIUpConverter(32->64), AXI3 (WID).  Burst 1 (WID=1, two beats) is followed back
to back by burst 2 (WID=2).  The wide beat that packs burst 1 must carry WID=1, also while it is stalled.  Exit 1 when the defect shows."""
import sys; sys.path.insert(0, '/verif')
from vf import elab
from migen import *
from litex.gen.sim import run_simulation
from litex.soc.interconnect.axi import AXIInterface, AXIUpConverter

a = AXIInterface(data_width=32, address_width=32, id_width=2, version="axi3"); c = AXIInterface(data_width=64, address_width=32, id_width=2, version="axi3")
d = AXIUpConverter(a, c)
seen = []
def send(ep, beats):
    for bt in beats:
        for k, v in bt.items(): yield getattr(ep, k).eq(v)
        yield ep.valid.eq(1)
        for _ in range(50):
            yield
            if (yield ep.ready): break
    yield ep.valid.eq(0)
def watch():
    # the wide slave stalls for 3 cycles after the wide beat appears, then accepts; every cycle with wvalid is recorded
    stall = 0
    for _ in range(40):
        yield
        if (yield c.w.valid):
            seen.append(dict(id=(yield c.w.id), data=(yield c.w.data), ready=(yield c.w.ready)))
            stall += 1
            if stall == 3: yield c.w.ready.eq(1)
            if (yield c.w.ready): yield c.w.ready.eq(0); stall = 0
        if len([s for s in seen if s["ready"]]) == 2: break
run_simulation(d, [send(a.w, [dict(data=0x11111111, strb=0xF, id=1, last=0), dict(data=0x22222222, strb=0xF, id=1, last=1),
                              dict(data=0x33333333, strb=0xF, id=2, last=0), dict(data=0x44444444, strb=0xF, id=2, last=1)]), watch()])
for s in seen: print("wvalid: data=%#018x wid=%d wready=%d" % (s["data"], s["id"], s["ready"]))
first = [s for s in seen if s["data"] == 0x2222222211111111]
bad = any(s["id"] != 1 for s in first)
print("DEFECT: the wide beat packing burst 1 (WID=1) is offered with WID %s" % sorted({s["id"] for s in first}) if bad else "ok")
sys.exit(1 if bad else 0)
