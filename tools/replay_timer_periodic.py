"""Native replay (real litex.gen.sim, real CSRBank) of finding.periodic.period-equals-reload (contracts/wip_C19_pwm.py).
Timer in the documented periodic set-up (load = 0, reload = N, enable): the cycles in which the count is zero (ev.zero.trigger) are N + 1 apart;
timer.py documents `reload` as "the Timer's period in clock cycles".  Control: one-shot (load = N, reload = 0) reaches zero exactly N cycles
after the first enabled cycle."""
import sys; sys.path.insert(0, '/verif')
from vf import elab
from migen import *
from litex.gen import LiteXModule
from litex.gen.sim import run_simulation
from litex.soc.cores.timer import Timer
from litex.soc.interconnect import csr_bus

def run(load, reload_, n=24):
    class Top(LiteXModule):
        def __init__(self):
            self.t = Timer(8)
            self.bus = csr_bus.Interface(data_width=32, address_width=14)
            self.bank = csr_bus.CSRBank(self.t.get_csrs(), address=0, bus=self.bus)
    d = Top(); t = d.t; zeros = []; first_en = []
    idx = {c.name: i for i, c in enumerate(d.bank.simple_csrs)}
    def wr(name, val):
        yield d.bus.adr.eq(idx[name]); yield d.bus.dat_w.eq(val); yield d.bus.we.eq(1); yield
        yield d.bus.we.eq(0)
    def tb():
        yield from wr("load0", load); yield from wr("reload0", reload_); yield from wr("en0", 1)
        for c in range(n):
            if (yield t._en.storage) and not first_en: first_en.append(c)
            if (yield t._en.storage) and (yield t.ev.zero.trigger): zeros.append(c)
            yield
    run_simulation(d, tb())
    return first_en[0], zeros

for N in (1, 4, 7):
    fe, zs = run(0, N)
    print(f"periodic load=0 reload={N}: zero cycles {zs}  spacing {sorted(set(b - a for a, b in zip(zs, zs[1:])))}  (documented period: {N})")
fe, zs = run(5, 0, 14)
print(f"one-shot load=5 reload=0: first enabled cycle {fe}, first zero cycle {zs[0]}  -> {zs[0] - fe} cycles (documented duration: 5)")
