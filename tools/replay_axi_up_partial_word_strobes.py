"""Native replay (real litex.gen.sim) of C10 finding.w.partial-word-strobes: AXIUpConverter(32->64) W channel.  Burst 1: two beats (one whole
wide word, all strobes).  Burst 2: a single-beat write (last on the first beat of a wide word).  The wide beat of burst 2 must not strobe the
byte lanes 4..7 that the master never wrote.  Exit 1 when the defect shows, 0 otherwise."""
import sys; sys.path.insert(0, '/verif')
from vf import elab
from migen import *
from litex.gen.sim import run_simulation
from litex.soc.interconnect.axi import AXIInterface, AXIUpConverter

a = AXIInterface(data_width=32, address_width=32, id_width=2); c = AXIInterface(data_width=64, address_width=32, id_width=2)
d = AXIUpConverter(a, c)
w_seen = []
def send(ep, beats):
    for bt in beats:
        for k, v in bt.items(): yield getattr(ep, k).eq(v)
        yield ep.valid.eq(1)
        for _ in range(50):
            yield
            if (yield ep.ready): break
    yield ep.valid.eq(0)
def recv(ep, fields, out, n):
    yield ep.ready.eq(1)
    for _ in range(60):
        yield
        if (yield ep.valid) and (yield ep.ready):
            row = {}
            for f in fields: row[f] = (yield getattr(ep, f))
            out.append(row)
            if len(out) == n: break
run_simulation(d, [send(a.w, [dict(data=0xAAAAAAAA, strb=0xF, last=0), dict(data=0xBBBBBBBB, strb=0xF, last=1), dict(data=0xCCCCCCCC, strb=0xF, last=1)]),
                   recv(c.w, ["data", "strb", "last"], w_seen, 2)])
print("wide W beats:", [{k: hex(v) for k, v in x.items()} for x in w_seen])
second = w_seen[1]
bad = (second["strb"] >> 4) != 0
print("second wide beat (single-beat burst 0xCCCCCCCC): strb = %#x, upper lanes carry %#x" % (second["strb"], second["data"] >> 32))
print("DEFECT: stale strobes/data of the previous burst in the lanes the master did not write" if bad else "ok")
sys.exit(1 if bad else 0)
