"""Native replay (real litex.gen.sim simulator, unchanged /repo) of AXILiteInterconnectShared / AXIInterconnectShared built WITH timeout_cycles.
The AXI(-Lite) time-out sits on the shared bus between arbiter and decoder; in its RESPOND state it overrides aw/w/ar.ready and b/r.valid of the shared bus
only - the decoder still shows the request to the selected slave and still hands b/r.ready to it.  Three legal schedules:
  several   : two writes outstanding; the second AW stalls behind a slow (not dead) slave and is timed out; the slave's B for the first write arrives while
              the time-out answers: one B handshake at the master, both responses consumed -> the request counters stay at 1, the write grant is locked
              for ever (the other master is never served).
  pause     : AW alone is offered (W follows later - legal), the address is unmapped; the time-out absorbs the AW and, because neither AW nor W is offered in
              the next cycle, sends the SLVERR B before the W was handed over; the late W stalls, is timed out again: two B (and two error pulses) for one write.
  lateaccept: a slow slave raises ar.ready exactly in the cycle the time-out absorbs the AR; the master gets the SLVERR R, the slave answers the AR later:
              an R nobody waits for - it is delivered as the response of the next read (wrong data), whose own R is then left over.
usage: .venv/bin/python tools/replay_axi_shared_timeout.py [lite|full] [several|pause|lateaccept]"""
import sys; sys.path.insert(0, '/verif')
from vf import elab
from migen import *
from litex.gen.sim import run_simulation
from litex.soc.interconnect.axi import AXIInterface, AXILiteInterface, AXILiteInterconnectShared
from litex.soc.interconnect.axi.axi_full import AXIInterconnectShared
from litex.soc.integration.soc import SoCRegion
kind = sys.argv[1] if len(sys.argv) > 1 else "lite"; scen = sys.argv[2] if len(sys.argv) > 2 else "several"
full = kind == "full"; T = 4
class Bus: data_width = 32; address_width = 32
mkif = (lambda: AXIInterface(data_width=32, address_width=32, id_width=1)) if full else (lambda: AXILiteInterface(data_width=32, address_width=32))
M = [mkif(), mkif()]; S = [mkif(), mkif()]
regions = [SoCRegion(origin=0x1000_0000, size=0x1000), SoCRegion(origin=0x2000_0000, size=0x1000)]
d = (AXIInterconnectShared if full else AXILiteInterconnectShared)(M, [(r.decoder(Bus), s) for r, s in zip(regions, S)], False, T)
m0, m1 = M; s0, s1 = S
last = lambda ep: [(ep.last, 1)] if full else []
# schedule: cycle -> list of (signal, value); values persist
if scen == "several":
    sched = {0: [(m0.b.ready, 1), (m1.b.ready, 1), (m0.aw.addr, 0x1000_0000), (m0.aw.valid, 1), (m0.w.data, 0x11111111), (m0.w.valid, 1), (s0.aw.ready, 1), (s0.w.ready, 1)] + last(m0.w),
             1: [(m0.aw.addr, 0x1000_0004), (m0.w.data, 0x22222222), (s0.aw.ready, 0), (s0.w.ready, 0)],            # write 1 accepted in cycle 0; write 2 offered, slave busy
             7: [(m0.aw.valid, 0), (m0.w.valid, 0), (s0.b.valid, 1), (s0.b.resp, 0)],                               # cycle 6: AW2/W2 absorbed; cycle 7: slave answers write 1 (OKAY)
             8: [(s0.b.valid, 0), (m1.aw.addr, 0x2000_0000), (m1.aw.valid, 1), (m1.w.valid, 1), (s1.aw.ready, 1), (s1.w.ready, 1)] + last(m1.w)}   # master 1 wants slave 1
    N = 24
elif scen == "pause":
    sched = {0: [(m0.b.ready, 1), (m0.aw.addr, 0x7000_0000), (m0.aw.valid, 1)],                                     # unmapped address, AW first
             6: [(m0.aw.valid, 0)],                                                                                 # absorbed in cycle 5
             7: [(m0.w.data, 0x33333333), (m0.w.valid, 1)] + last(m0.w),                                            # the W of the same write, one cycle later
             13: [(m0.w.valid, 0)]}                                                                                 # absorbed in cycle 12
    N = 20
else:
    sched = {0: [(m0.r.ready, 1), (m0.ar.addr, 0x1000_0000), (m0.ar.valid, 1)],
             5: [(s0.ar.ready, 1)],                                                                                 # slow slave: ready in the very cycle the time-out absorbs the AR
             6: [(s0.ar.ready, 0), (m0.ar.valid, 0)],
             8: [(m0.ar.addr, 0x1000_0008), (m0.ar.valid, 1), (s0.ar.ready, 1)],                                    # next read, accepted at once
             9: [(m0.ar.valid, 0), (s0.ar.ready, 0), (s0.r.valid, 1), (s0.r.data, 0xAAAA0000)] + last(s0.r),        # slave answers the FIRST AR (data of address 0)
             10: [(s0.r.data, 0xBBBB0008)],                                                                         # then the second one
             11: [(s0.r.valid, 0)]}
    N = 16
arb = d.arbiter
cols = [("err", d.timeout.error), ("wRSP", d.timeout.wr_fsm.ongoing("RESPOND")), ("rRSP", d.timeout.rd_fsm.ongoing("RESPOND")), ("gW", arb.rr_write.grant), ("wcnt", arb.wr_lock.counter), ("rcnt", arb.rd_lock.counter),
        ("m0.awv", m0.aw.valid), ("m0.awr", m0.aw.ready), ("m0.wv", m0.w.valid), ("m0.wr", m0.w.ready), ("m0.bv", m0.b.valid), ("m0.bresp", m0.b.resp),
        ("m1.awv", m1.aw.valid), ("m1.awr", m1.aw.ready), ("s0.awv", s0.aw.valid), ("s0.awr", s0.aw.ready), ("s0.bv", s0.b.valid), ("s0.brdy", s0.b.ready),
        ("m0.arv", m0.ar.valid), ("m0.arr", m0.ar.ready), ("m0.rv", m0.r.valid), ("m0.rresp", m0.r.resp), ("m0.rdata", m0.r.data), ("s0.arv", s0.ar.valid), ("s0.arr", s0.ar.ready), ("s0.rv", s0.r.valid), ("s0.rrdy", s0.r.ready)]
rows = []
def gen():
    for sig, v in sched.get(0, []): yield sig.eq(v)
    yield
    for k in range(N):
        r = []
        for _, sig in cols: r.append((yield sig))
        rows.append(r)
        for sig, v in sched.get(k + 1, []): yield sig.eq(v)
        yield
run_simulation(d, gen())
print(f"{d.__class__.__name__}(2x2, timeout_cycles={T}) scenario {scen}")
print("cyc " + " ".join(f"{n:>8}" for n, _ in cols))
for k, r in enumerate(rows): print(f"{k:3d} " + " ".join(f"{v:8x}" for v in r))
ix = {n: i for i, (n, _) in enumerate(cols)}
col = lambda n: [r[ix[n]] for r in rows]
b_m0 = [k for k, r in enumerate(rows) if r[ix["m0.bv"]] and True]      # m0.b.ready is 1 throughout in the write scenarios
if scen == "several":
    print("B handshakes at master 0 (cycle, resp):", [(k, rows[k][ix["m0.bresp"]]) for k in b_m0], " B handshakes at slave 0:", [k for k, r in enumerate(rows) if r[ix["s0.bv"]] and r[ix["s0.brdy"]]])
    print("write counter of the arbiter at the end:", rows[-1][ix["wcnt"]], "; master 1 ever accepted:", any(col("m1.awr")), "; write grant at the end:", rows[-1][ix["gW"]])
    ok = len(b_m0) == 1 and rows[-1][ix["wcnt"]] == 1 and not any(col("m1.awr"))
    print("DEFECT REPRODUCED: two writes accepted from master 0, one B delivered, counter stuck at 1, master 1 starved" if ok else "not reproduced")
elif scen == "pause":
    print("B handshakes at master 0 (cycle, resp):", [(k, rows[k][ix["m0.bresp"]]) for k in b_m0], "; W handshakes at master 0:", [k for k, r in enumerate(rows) if r[ix["m0.wv"]] and r[ix["m0.wr"]]], "; error pulses:", [k for k, v in enumerate(col("err")) if v])
    wk = [k for k, r in enumerate(rows) if r[ix["m0.wv"]] and r[ix["m0.wr"]]]
    ok = len(b_m0) == 2 and wk and b_m0[0] < wk[0]
    print("DEFECT REPRODUCED: SLVERR B delivered before the W beat was handed over, and a second B/error pulse for the same write" if ok else "not reproduced")
else:
    rk = [(k, r[ix["m0.rresp"]], hex(r[ix["m0.rdata"]])) for k, r in enumerate(rows) if r[ix["m0.rv"]]]
    print("R handshakes at master 0 (cycle, resp, data):", rk, "; AR handshakes at slave 0:", [k for k, r in enumerate(rows) if r[ix["s0.arv"]] and r[ix["s0.arr"]]], "; at master 0:", [k for k, r in enumerate(rows) if r[ix["m0.arv"]] and r[ix["m0.arr"]]])
    ok = len(rk) >= 2 and rk[0][1] == 2 and rk[1][2] == "0xaaaa0000"
    print("DEFECT REPRODUCED: the read of address 0x10000008 is answered with the data the slave returned for the timed-out read of 0x10000000" if ok else "not reproduced")
