"""Native replay (real litex.gen.sim) of finding.change-back-to-back: gpio._GPIOIRQ in Change mode.
A pin change that coincides with the acknowledge of an earlier event must be retained (C15).  It is, unless the pin also changed in the
cycle before: the change pulse (in ^ in_d) then stays high for two cycles, EventSourceProcess(rising) sees no new edge, and the
acknowledge wins.  Run A: two changes in consecutive cycles, the second coinciding with the clear -> pending ends 0 (lost).
Run B (control): only the change coinciding with the clear -> pending ends 1 (retained)."""
import sys; sys.path.insert(0, '/verif')
from vf import elab
from migen import *
from litex.gen import LiteXModule
from litex.gen.sim import run_simulation
from litex.soc.interconnect import csr_bus
from litex.soc.cores.gpio import GPIOIn

def run(pulse):
    class Top(LiteXModule):
        def __init__(self):
            self.pads = Signal(1)
            self.g = GPIOIn(self.pads, with_irq=True)
            self.bus = csr_bus.Interface(data_width=32, address_width=14)
            self.bank = csr_bus.CSRBank(self.g.get_csrs(), address=0, bus=self.bus)
    d = Top(); g = d.g; ev = g.ev; src = ev.i0
    idx = {c.name: i for i, c in enumerate(d.bank.simple_csrs)}
    log = []
    def wr(name, val):
        yield d.bus.adr.eq(idx[name]); yield d.bus.dat_w.eq(val); yield d.bus.we.eq(1); yield
        yield d.bus.we.eq(0)
    def tb():
        yield from wr("mode0", 1)            # Change mode
        yield from wr("ev_enable0", 1)
        yield d.pads.eq(1)                   # change #1: 0 -> 1
        for _ in range(6): yield
        assert (yield src.pending) == 1 and (yield ev.irq) == 1
        # software acknowledges: bus write in cycle W, clear strobe in cycle W+1.  The pad is pulsed so that the synchronised level
        # (2 flops) changes in W (run A only) and in W+1 (both runs)
        yield d.pads.eq(0 if pulse else 1); yield                        # -> synchronised level changes in W-1 (run A only)
        yield d.pads.eq(1 if pulse else 0); yield                        # -> synchronised level changes (back) in W
        yield d.bus.adr.eq(idx["ev_pending"]); yield d.bus.dat_w.eq(1); yield d.bus.we.eq(1); yield   # bus write in W-1, clear strobe in W
        yield d.bus.we.eq(0)
        for c in range(5):
            log.append(dict(level=(yield g._in.status), trigger=(yield src.trigger), clear=(yield src.clear), pending=(yield src.pending), irq=(yield ev.irq)))
            yield
    run_simulation(d, tb())
    return log

for name, pulse in (("A: changes in two consecutive cycles, 2nd coincides with the clear", True), ("B: control, single change coinciding with the clear", False)):
    log = run(pulse)
    print(name)
    for i, r in enumerate(log): print("   cycle", i, r)
    print("   final pending =", log[-1]["pending"], "(change lost)" if log[-1]["pending"] == 0 else "(change retained)")
