"""Replay of the C05 finding 'stream.Monitor(clock_domain != sys): a CSR read can return a latched count that never existed'.

PART 1 - NATIVE (real litex.gen.sim, two clocks, the simulator's own lowering of MultiReg): the unchanged stream.Monitor(clock_domain="mon",
with_tokens=True) behind the real CSRBank; sys and mon edges coincide (same period and phase, the worst case); tokens flow every mon cycle;
software writes the latch CSR and then reads the tokens CSR on every following sys cycle.
  What the real simulator CAN show (the hazard condition): the source register _count_latched changes in more than one bit at an instant
  that is also a rising sys edge, i.e. exactly when the first flop of the plain multi-bit MultiReg samples it, and the status word reaches
  the CSR read register with no gating and no 'latch done' indication (the read simply returns the old count until the new one appears).
  What it CANNOT show: litex.gen.sim has no metastability / per-bit resolution model - a flop clocked while its input changes takes the
  complete old word - so a torn word can never be observed natively.  (Expected natively: every word read is a word _count_latched held.)
PART 2 - MODEL LEVEL: the witness of contracts/C05_cdc_struct.py (two-clock product model of the same real fragment, every first synchroniser
  flop resolving each bit to the old or the new value of its source when both change in the same instant) is recomputed and its schedule
  printed: expected 'every word read was held by _count_latched', observed a word that was never held.
exit 1: hazard condition observed natively AND torn read found in the model;  exit 0 otherwise."""
import sys; sys.path.insert(0, '/verif')
from vf import elab
from migen import *
from migen.genlib.cdc import MultiReg
from litex.gen import LiteXModule
from litex.gen.sim import run_simulation
from litex.soc.interconnect import stream, csr_bus

W = 8
class Top(LiteXModule):
    def __init__(self):
        self.endpoint = stream.Endpoint([("data", 8)])
        self.mon = stream.Monitor(self.endpoint, count_width=W, clock_domain="mon", with_tokens=True)
        self.bus = csr_bus.Interface(data_width=32, address_width=14)
        self.bank = csr_bus.CSRBank(self.mon.get_csrs(), address=0, bus=self.bus)
d = Top()
idx = {c.name: i for i, c in enumerate(d.bank.simple_csrs)}
f = d.get_fragment()
mr = [s for s in f.specials if isinstance(s, MultiReg) and len(s.i) == W][0]
latched, status = mr.i, d.mon._tokens.status
rows = []
def sys_tb():
    for _ in range(7): yield                                    # let 7 tokens be counted (0b111)
    yield d.bus.adr.eq(idx["latch"]); yield d.bus.dat_w.eq(1); yield d.bus.we.eq(1); yield       # software: latch
    yield d.bus.we.eq(0); yield d.bus.adr.eq(idx["tokens"])                                        # software: read tokens on every cycle from now on
    for t in range(10):
        rows.append(dict(sys_cycle_after_latch_write=t, count_latched=(yield latched), status=(yield status), bus_dat_r=(yield d.bus.dat_r)))
        yield
def mon_tb():
    yield d.endpoint.valid.eq(1); yield d.endpoint.ready.eq(1)
    for _ in range(30): yield
run_simulation(f, {"sys": [sys_tb()], "mon": [mon_tb()]}, clocks={"sys": (10, 0), "mon": (10, 0)})
print("PART 1 - native run, sys and mon edges coincide; latch CSR written, then tokens CSR read on every sys cycle")
held = {0}; hazard = None; torn_native = False
for i, r in enumerate(rows):
    held.add(r["count_latched"])
    note = ""
    if i and bin(r["count_latched"] ^ rows[i - 1]["count_latched"]).count("1") > 1 and hazard is None:
        hazard = (rows[i - 1]["count_latched"], r["count_latched"])
        note = f"  <- _count_latched {hazard[0]:#05b} -> {hazard[1]:#05b}: {bin(hazard[0] ^ hazard[1]).count('1')} bits change at an instant that is a rising sys edge (first MultiReg flop samples it)"
    if r["bus_dat_r"] not in held: torn_native = True; note += "  <- TORN WORD"
    print("  ", r, note)
print(f"   hazard condition (multi-bit change of the source coincident with the sampling edge, ungated CSR read): {'OBSERVED' if hazard else 'not observed'}")
print(f"   expected natively: every word read is a word _count_latched held;  observed: {'a torn word' if torn_native else 'no torn word (the simulator has no per-bit resolution model)'}")

print("\nPART 2 - model-level witness (two-clock product model with per-bit old/new resolution of the first synchroniser flops)")
from contracts.C05_cdc_struct import c_monitor_witness
r = [x for x in c_monitor_witness()["results"] if x["kind"] == "finding-witness"][0]
print("  ", r["name"]); print("  ", r["info"])
for w in (r.get("witness") or []): print("     ", w)
model = r["status"] == "violated"
if model:
    vals = sorted({w["count_latched"] for w in r["witness"]})
    print(f"   expected: bus_dat_r in the set of words _count_latched held {vals};  observed: bus_dat_r = {r['witness'][-1]['bus_dat_r']} at the last step")
print("\nRESULT:", "torn read reproduced at MODEL level, hazard condition reproduced NATIVELY (a native tear is impossible: no metastability model in litex.gen.sim)" if (model and hazard) else "not reproduced")
sys.exit(1 if (model and hazard) else 0)
