#!/bin/bash
# tools/seed_verify.sh <prop> <mutant dir (with patch.diff, demo.py)> <id> "<tests>"
# 1. confirms in a scratch worktree: demo passes without, fails with the patch; listed baseline tests pass with the patch
# 2. stores it under /verif/seeded/<id>/ ; 3. applies it to /repo, runs ./check <prop>, undoes it
set -u
PROP=$1; SRC=$2; ID=$3; TESTS=${4:-}
WT=/tmp/seedwt_$ID
git -C /repo worktree add -q --detach $WT HEAD || exit 9
cd $WT
PYTHONPATH=$WT /venv/bin/python $SRC/demo.py >/tmp/seed_$ID.base.log 2>&1; BASE=$?
git apply $SRC/patch.diff || { echo "patch does not apply"; git -C /repo worktree remove --force $WT; exit 9; }
PYTHONPATH=$WT /venv/bin/python $SRC/demo.py >/tmp/seed_$ID.mut.log 2>&1; MUT=$?
TRES="not run"
if [ -n "$TESTS" ]; then
  PYTHONPATH=$WT /venv/bin/python -m pytest -q -p no:cacheprovider $TESTS >/tmp/seed_$ID.tests.log 2>&1; TRES="exit $? : $(tail -1 /tmp/seed_$ID.tests.log)"
fi
cd /verif
git -C /repo worktree remove --force $WT
echo "demo unchanged: exit $BASE ; demo with patch: exit $MUT ; tests with patch: $TRES"
mkdir -p /verif/seeded/$ID && cp $SRC/patch.diff $SRC/demo.py /verif/seeded/$ID/ && cp $SRC/notes.md /verif/seeded/$ID/notes.md 2>/dev/null
git -C /repo apply $SRC/patch.diff || { echo "cannot apply to /repo"; exit 9; }
cp /verif/evidence/$PROP.json /tmp/seed_$ID.evidence.bak 2>/dev/null
./check $PROP > /tmp/seed_$ID.check.log 2>&1; CRC=$?
git -C /repo checkout -- .
# the evidence file must describe the unchanged tree: restore it
cp /tmp/seed_$ID.evidence.bak /verif/evidence/$PROP.json 2>/dev/null
grep -E "^VIOLATION|^CHECKER|^UNDEC" /tmp/seed_$ID.check.log | head -8
tail -1 /tmp/seed_$ID.check.log
echo "check exit $CRC"
python3 - <<PY
import json
json.dump(dict(id="$ID", property="$PROP", demo_exit_unchanged=$BASE, demo_exit_with_patch=$MUT, baseline_tests_with_patch="$TRES", tests_run="$TESTS",
  check_cmd="./check $PROP", check_exit=$CRC, detected=($CRC==1),
  violation_lines=[l.strip() for l in open("/tmp/seed_$ID.check.log") if l.startswith("VIOLATION")][:10]), open("/verif/seeded/$ID/meta.json","w"), indent=1)
PY
