#!/bin/bash
# runs every claimed check (quick by default) on the current /repo tree; prints one summary line per property
cd "$(dirname "$0")/.."
TIER=${1:-quick}
[ -x .venv/bin/python ] || ./setup.sh >/dev/null 2>&1
for p in $(.venv/bin/python -c "import json; print(' '.join(c['property_id'] for c in json.load(open('MANIFEST.json'))['checks']))"); do
  ./check $p --tier $TIER > /tmp/runall_$p.log 2>&1; rc=$?
  echo "$p exit=$rc $(tail -1 /tmp/runall_$p.log | cut -c1-160)"
done
