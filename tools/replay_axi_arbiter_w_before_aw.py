"""Native replay (real litex.gen.sim simulator, unchanged /repo): AXIArbiter (and AXILiteArbiter, same code) keeps the write grant only while
AWs are outstanding (wr_lock) or a write channel is currently valid.  AXI4 allows a master to send W data before its AW.  Master 0 sends its
(single beat, WLAST) data first, pauses one cycle, then sends its AW; in the idle cycle the grant moves to master 1, whose AW and W follow.
A legal in-order slave pairs the n-th AW with the n-th W burst: master 1's address is written with master 0's data and vice versa.
usage: .venv/bin/python tools/replay_axi_arbiter_w_before_aw.py [full|lite]"""
import sys; sys.path.insert(0, '/verif')
from vf import elab
from migen import *
from litex.gen.sim import run_simulation
from litex.gen.sim.core import passive
from litex.soc.interconnect.axi import AXIInterface, AXILiteInterface, AXILiteArbiter
from litex.soc.interconnect.axi.axi_full import AXIArbiter
kind = sys.argv[1] if len(sys.argv) > 1 else "full"
full = kind == "full"
mkif = (lambda: AXIInterface(data_width=32, address_width=32, id_width=1)) if full else (lambda: AXILiteInterface(data_width=32, address_width=32))
masters = [mkif(), mkif()]; t = mkif()
class Top(Module):
    def __init__(self): self.submodules.arb = (AXIArbiter if full else AXILiteArbiter)(masters, t)
d = Top(); log = []; mem = {}
def send(ep, **fields):
    """present one transfer on a channel and hold it until ready (AXI source rule)"""
    for k, v in fields.items(): yield getattr(ep, k).eq(v)
    yield ep.valid.eq(1)
    yield
    while not (yield ep.ready): yield
    yield ep.valid.eq(0)
def master0():
    m = masters[0]; yield m.b.ready.eq(1)
    yield from send(m.w, data=0xAAAA0000, strb=0xF, **({"last": 1} if full else {}))     # data first (legal: no AW->W ordering rule)
    yield                                                                                 # one idle cycle
    yield
    yield from send(m.aw, addr=0x10)                                                      # then the address
    for _ in range(10):
        yield
def master1():
    m = masters[1]; yield m.b.ready.eq(1)
    yield; yield                                                                          # starts two cycles later: AW and W together
    yield m.w.data.eq(0xBBBB1111); yield m.w.strb.eq(0xF); yield m.w.valid.eq(1)
    if full: yield m.w.last.eq(1)
    yield m.aw.addr.eq(0x20); yield m.aw.valid.eq(1)
    aw = w = False
    for _ in range(12):
        yield
        if not aw and (yield m.aw.ready): aw = True; yield m.aw.valid.eq(0)
        if not w and (yield m.w.ready): w = True; yield m.w.valid.eq(0)
def slave_():
    # legal AXI4(-Lite) slave: always ready for AW and W; pairs the n-th AW with the n-th W (burst); one B per pair
    yield t.aw.ready.eq(1); yield t.w.ready.eq(1)
    aws, ws = [], []; cyc = 0
    while True:
        yield; cyc += 1
        if (yield t.aw.valid): aws.append((yield t.aw.addr)); log.append((cyc, "target AW", hex(aws[-1]), "grant", (yield d.arb.rr_write.grant)))
        if (yield t.w.valid): ws.append((yield t.w.data)); log.append((cyc, "target W ", hex(ws[-1]), "grant", (yield d.arb.rr_write.grant)))
        if aws and ws:
            a, w_ = aws.pop(0), ws.pop(0); mem[a] = w_; log.append((cyc, "slave writes", hex(a), "<-", hex(w_)))
            yield t.b.valid.eq(1)
            yield
            while not (yield t.b.ready): yield
            yield t.b.valid.eq(0)
run_simulation(d, [master0(), master1(), passive(slave_)()])
for l in log: print(l)
print("memory:", {hex(a): hex(v) for a, v in mem.items()}, " intended: {0x10: 0xaaaa0000, 0x20: 0xbbbb1111}")
print("DEFECT REPRODUCED: write address/data pairs of two masters mixed" if mem != {0x10: 0xAAAA0000, 0x20: 0xBBBB1111} else "no defect observed")
