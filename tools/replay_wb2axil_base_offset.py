"""Native replay (real LiteX code): Wishbone2AXILite / Wishbone2AXI subtract base_address//4 from wishbone.adr regardless of data width and addressing.
Expected AXI byte address = (Wishbone byte address) - base_address."""
import sys; sys.path.insert(0, '/verif')
from vf import elab
from migen import *
from litex.gen.sim import run_simulation
from litex.soc.interconnect import wishbone
from litex.soc.interconnect.axi import AXILiteInterface, AXIInterface, Wishbone2AXILite, Wishbone2AXI

def run(dw, addressing, base, wb_byte_addr, full):
    wb = wishbone.Interface(data_width=dw, address_width=16, addressing=addressing)
    ax = (AXIInterface(data_width=dw, address_width=16, id_width=1) if full else AXILiteInterface(data_width=dw, address_width=16))
    class Top(Module):
        def __init__(self): self.submodules.br = (Wishbone2AXI if full else Wishbone2AXILite)(wb, ax, base_address=base)
    d = Top(); seen = []
    sh = (dw // 8).bit_length() - 1
    def gen():
        yield wb.adr.eq(wb_byte_addr >> sh if addressing == "word" else wb_byte_addr); yield wb.cyc.eq(1); yield wb.stb.eq(1); yield wb.we.eq(1); yield wb.sel.eq(2**(dw // 8) - 1); yield wb.dat_w.eq(0x55)
        for _ in range(4):
            yield
            if (yield ax.aw.valid): seen.append((yield ax.aw.addr)); break
    run_simulation(d, gen())
    got = seen[0] if seen else None
    exp = (wb_byte_addr - base) & 0xffff
    print(f"{'Wishbone2AXI' if full else 'Wishbone2AXILite'}(dw={dw},{addressing},base={base:#x}): wishbone byte address {wb_byte_addr:#x} -> aw.addr {got:#x}, expected {exp:#x} {'OK' if got == exp else 'WRONG'}")

run(32, "word", 0x400, 0x800, False)
run(64, "word", 0x400, 0x800, False)
run(32, "byte", 0x400, 0x800, False)
run(64, "word", 0x400, 0x800, True)
