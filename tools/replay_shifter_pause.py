"""Native replay (real litex.gen.sim) of finding.shifter-pause: stream.Shifter(dw=8), shift=4, consumer always ready.
Documented function ("accumulate current/last sink.data, select output data based on shift"): out(k) = bits [4, 12) of {data(k+1), data(k)}.
Run A: tokens 0xA1, 0xB2 back to back          -> first output 0x2A  (= 0xA1 >> 4 | low nibble of 0xB2 << 4)
Run B: 0xA1, one idle cycle (valid=0, data=0xFF), 0xB2 -> first output 0xFA: the upper nibble is the idle cycle's sink.data, not a token's."""
import sys; sys.path.insert(0, '/verif')
from vf import elab
from migen import *
from litex.gen.sim import run_simulation
from litex.soc.interconnect.stream import Shifter

def run(seq):
    d = Shifter(8); out = []
    def tb():
        yield d.source.ready.eq(1); yield d.shift.eq(4)
        for v, dd, last in seq + [(0, 0, 0)] * 4:
            yield d.sink.valid.eq(v); yield d.sink.data.eq(dd); yield d.sink.last.eq(last)
            yield
            if (yield d.source.valid) and (yield d.source.ready): out.append(((yield d.source.data), (yield d.source.last)))
    run_simulation(d, tb())
    return out

for name, seq in (("A: 0xA1, 0xB2(last) back to back", [(1, 0xA1, 0), (1, 0xB2, 1)]),
                  ("B: 0xA1, idle cycle (valid=0, sink.data=0xFF), 0xB2(last)", [(1, 0xA1, 0), (0, 0xFF, 0), (1, 0xB2, 1)])):
    out = run(seq)
    print(name); print("   delivered:", [(hex(x), f"last={l}") for x, l in out])
    print("   first token", "OK (0x2a)" if out[0][0] == 0x2A else f"CORRUPTED: {out[0][0]:#04x}, expected 0x2a (upper nibble must be the low nibble of the successor 0xB2)")
