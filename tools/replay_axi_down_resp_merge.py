"""Native replay (real litex.gen.sim) of C10 finding.r.resp-merge: AXIDownConverter(64->32) R channel.  The slave answers the first narrow beat of
a wide word with SLVERR and the second with OKAY; the master must see an error on the wide beat.  Exit 1 when the defect shows, 0 otherwise."""
import sys; sys.path.insert(0, '/verif')
from vf import elab
from migen import *
from litex.gen.sim import run_simulation
from litex.soc.interconnect.axi import AXIInterface, AXIDownConverter

a = AXIInterface(data_width=64, address_width=32, id_width=2); c = AXIInterface(data_width=32, address_width=32, id_width=2)
d = AXIDownConverter(a, c)
r_seen = []
def send(ep, beats):
    for bt in beats:
        for k, v in bt.items(): yield getattr(ep, k).eq(v)
        yield ep.valid.eq(1)
        for _ in range(50):
            yield
            if (yield ep.ready): break
    yield ep.valid.eq(0)
def recv(ep, fields, out, n):
    yield ep.ready.eq(1)
    for _ in range(60):
        yield
        if (yield ep.valid) and (yield ep.ready):
            row = {}
            for f in fields: row[f] = (yield getattr(ep, f))
            out.append(row)
            if len(out) == n: break
run_simulation(d, [send(c.r, [dict(data=0xDEADBEEF, resp=2, id=1, last=0), dict(data=0x12345678, resp=0, id=1, last=1)]),
                   recv(a.r, ["data", "resp", "id", "last"], r_seen, 1)])
print("wide R beat:", [{k: hex(v) for k, v in x.items()} for x in r_seen])
bad = r_seen[0]["resp"] < 2
print("DEFECT: SLVERR on the first narrow beat is dropped, the master sees resp=%d" % r_seen[0]["resp"] if bad else "ok")
sys.exit(1 if bad else 0)
