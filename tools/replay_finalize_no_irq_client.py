"""Native replay (unmodified /repo): SoC.finalize raises ValueError (max() of an empty sequence) for a SoC whose CPU has an interrupt input while no
interrupt has been granted (CPU without reserved interrupts - e.g. vexriscv, the default - and no timer / UART / other interrupt source):
    self.add_config("CPU_INTERRUPTS", max(self.irq.locs.values()) + 1)
run: /verif/.venv/bin/python /verif/tools/replay_finalize_no_irq_client.py      (exit status 1 = defect reproduced)"""
import sys, logging
sys.path.insert(0, "/verif")
from vf import elab
try: import contracts.C13_soc_paths as W
except ImportError: import contracts.C13_soc_paths as W          # stub CPU `vfstub`: one wishbone master, a 32-line interrupt input, interrupts = {}, no reserved interrupts
from litex.soc.integration import soc as S
logging.disable(logging.CRITICAL)
hit = 0
for with_timer in (True, False):
    with W._MemMapGuard():
        soc = W._soc("vfstub", with_timer=with_timer)
        try: soc.finalize(); elab.restore_stderr(); print(f"with_timer={with_timer}: irq.locs = {soc.irq.locs} -> built, CONFIG_CPU_INTERRUPTS = {soc.constants.get('CONFIG_CPU_INTERRUPTS')}")
        except S.SoCError: elab.restore_stderr(); print(f"with_timer={with_timer}: SoCError")
        except ValueError as e: print(f"with_timer={with_timer}: irq.locs = {soc.irq.locs} -> finalize raised ValueError: {e}"); hit += 1
print("REPRODUCED" if hit else "not reproduced"); sys.exit(1 if hit else 0)
