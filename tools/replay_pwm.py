"""Native replay (real litex.gen.sim, real constructors, real Verilog back end) of the PWM finding candidates of contracts/wip_C19_pwm.py.
A  finding.period0.output-low          PWM(period=0, width=2, enable=1): output high in every cycle (min(width, 0) = 0 high cycles expected);
                                       control: period=5, width=2 gives the 2-of-5 waveform, visible one cycle after the frame position.
                                       Also prints the comparison the Verilog back end emits for `counter < period - 1` (32-bit context there).
B  finding.ch1.count-needs-ch0         MultiChannelPWM(2), period 5, channel 1 enabled with width 2: with channel 0 enabled the pad shows 2-of-5,
                                       with channel 0 disabled the shared counter stays 0 and pad 1 is stuck high.
C  finding.struct.synchroniser-clock-domain   PWM(clock_domain="pwm"): clock domain of the MultiReg synchronisers and of the registers in the Verilog text."""
import sys; sys.path.insert(0, '/verif')
from vf import elab
from migen import *
from migen.genlib.cdc import MultiReg
from litex.gen import LiteXModule
from litex.gen.sim import run_simulation
from litex.soc.cores.pwm import PWM, MultiChannelPWM

def wave(period, width, n=12):
    d = PWM(with_csr=False); out = []
    def tb():
        yield d.enable.eq(1); yield d.width.eq(width); yield d.period.eq(period)
        for _ in range(n):
            yield; out.append(((yield d.counter), (yield d.pwm)))
    run_simulation(d, tb()); return out

print("A  (counter, pwm) per cycle after enable")
print("   period=5 width=2:", wave(5, 2))
print("   period=0 width=2:", wave(0, 2))
print("   period=0 width=0:", wave(0, 0, 6))
from litex.gen.fhdl.verilog import convert
class VTop(LiteXModule):
    def __init__(self, cd="sys", **kw):
        self.cd_sys = ClockDomain("sys")
        if cd != "sys": self.cd_pwm = ClockDomain(cd)
        self.p = PWM(clock_domain=cd, **kw)
d = VTop(with_csr=False); p = d.p
txt = str(convert(d, ios={p.enable, p.width, p.period, p.reset, p.pwm, d.cd_sys.clk, d.cd_sys.rst}))
print("   Verilog:", [l.strip() for l in txt.splitlines() if "period" in l and "<" in l])

print("B  pads (bit k = channel k) per cycle; period=5, ch0 width=1, ch1 width=2, ch1 enabled")
class Top(LiteXModule):
    def __init__(self):
        self.pads = Signal(2); self.p = MultiChannelPWM(self.pads)
for en0 in (1, 0):
    d = Top(); out = []
    def tb():
        p = d.p       # CSRs are not collected into a bank here: the storages are the programming interface
        yield p.channel0._period.storage.eq(5); yield p.channel0._width.storage.eq(1); yield p.channel0._enable.storage.eq(en0)
        yield p.channel1._width.storage.eq(2);  yield p.channel1._enable.storage.eq(1)
        for _ in range(12):
            yield; out.append(((yield p.channel0.counter), (yield d.pads)))
    run_simulation(d, tb())
    print(f"   channel0.enable={en0}: (counter, pads) =", out)

print("C  PWM(clock_domain='pwm')")
d = PWM(clock_domain="pwm")
f = d.get_fragment()
print("   sync domains of the core:", sorted(k for k, v in f.sync.items() if v))
print("   MultiReg output domains :", [(sp.odomain, sp.n) for sp in f.specials if isinstance(sp, MultiReg)])
d = VTop("pwm"); p = d.p
txt = str(convert(d, ios={p._enable.storage, p._width.storage, p._period.storage, p.reset, p.pwm, d.cd_sys.clk, d.cd_sys.rst, d.cd_pwm.clk, d.cd_pwm.rst}))
import re
blk = None; shown = set()
for l in txt.splitlines():
    m = re.match(r"\s*always @\(posedge (\w+)\)", l)
    if m: blk = m.group(1)
    m = re.match(r"\s*(\w+)\s*<=", l)
    if m and blk and m.group(1) not in shown and not shown.add(m.group(1)): print(f"   Verilog: register {m.group(1):28s} clocked by {blk}")
