"""vlogsem prototype: parse the Verilog subset LiteX emits and build a transition system in z3 (IEEE 1364-2005 semantics)."""
import re, z3


from . import vexpr
from .vexpr import P as EP, selfdet, ev, ev_self, ext

class VParseError(Exception): pass

TOK = re.compile(r"\s*(?:(\d+)'d(\d+)|(\$signed|\$readmemh|\$display|\$finish)|(\"[^\"]*\")|([A-Za-z_][A-Za-z0-9_$]*)|(<<<|>>>|<<|>>|<=|>=|==|!=|@|[-+*&|^~!<>?:(){}\[\],;=#.])|(\d+))")
def strip_comments(src):
    src = re.sub(r"/\*.*?\*/", "", src, flags=re.S)
    src = re.sub(r"//[^\n]*", "", src)
    src = re.sub(r"\(\* .*? \*\)", "", src)      # attributes
    src = re.sub(r"`timescale[^\n]*", "", src)
    return src
def lex(s):
    out, i = [], 0; s = s.strip()
    while i < len(s):
        m = TOK.match(s, i)
        if not m: raise VParseError(s[i:i + 40])
        i = m.end()
        if m.group(1): out.append(("lit", int(m.group(1)), int(m.group(2))))
        elif m.group(3): out.append(("sys", m.group(3)))
        elif m.group(4): out.append(("str", m.group(4)[1:-1]))
        elif m.group(5): out.append(("id", m.group(5)))
        elif m.group(6): out.append(("op", m.group(6)))
        else: out.append(("num", int(m.group(7))))
    return out

class Module:
    def __init__(self):
        self.name = None; self.ports = {}; self.nets = {}      # name -> dict(kind wire/reg, width, signed, init)
        self.mems = {}                                          # name -> dict(width, depth, init file)
        self.assigns = []                                       # (lhs, rhs)
        self.comb = []                                          # statement lists of always @(*)
        self.sync = []                                          # (clk, stmts)

class Parser(EP):
    """statement/module level on top of the expression parser"""
    def kw(self, *names):
        tk = self.peek(); return tk[0] == "id" and tk[1] in names
    def eat_kw(self, name):
        tk = self.peek()
        if not (tk[0] == "id" and tk[1] == name): raise VParseError(f"expected {name} got {tk} at {self.i}")
        self.i += 1
    def eat_id(self):
        tk = self.peek()
        if tk[0] != "id": raise VParseError(f"expected identifier got {tk}")
        self.i += 1; return tk[1]
    def primary(self):           # `signed`: the expression lexer called it ("signed",)
        tk = self.peek()
        if tk == ("sys", "$signed"):
            self.i += 1; self.eat("("); a = self.expr(); self.eat(")"); return ("signed", a)
        return EP.primary(self)
    def range_opt(self):
        if self.isop("["):
            self.eat("["); hi = self.const(); self.eat(":"); lo = self.const(); self.eat("]"); return hi - lo + 1
        return 1
    def module(self):
        m = Module(); self.eat_kw("module"); m.name = self.eat_id(); self.eat("(")
        while not self.isop(")"):
            direction = self.eat_id(); kind = self.eat_id()      # input wire / output reg / output wire / inout wire
            signed = False
            if self.kw("signed"): self.eat_kw("signed"); signed = True
            w = self.range_opt(); name = self.eat_id()
            m.ports[name] = direction; m.nets[name] = dict(kind=kind, width=w, signed=signed, init=None)
            if self.isop(","): self.eat(",")
        self.eat(")"); self.eat(";")
        while not self.kw("endmodule"):
            self.item(m)
        return m
    def item(self, m):
        if self.kw("wire", "reg"):
            kind = self.eat_id(); signed = False
            if self.kw("signed"): self.eat_kw("signed"); signed = True
            w = self.range_opt(); name = self.eat_id()
            if self.isop("["):        # memory
                self.eat("["); lo = self.const(); self.eat(":"); hi = self.const(); self.eat("]")
                m.mems[name] = dict(width=w, depth=hi - lo + 1, init=None); self.eat(";"); return
            init = None
            if self.isop("="): self.eat("="); init = self.expr()
            self.eat(";"); m.nets[name] = dict(kind=kind, width=w, signed=signed, init=init); return
        if self.kw("assign"):
            self.eat_kw("assign"); lhs = self.postfix(); self.eat("="); rhs = self.expr(); self.eat(";"); m.assigns.append((lhs, rhs)); return
        if self.kw("initial"):
            self.eat_kw("initial"); self.eat_kw("begin")
            tk = self.eat_any(); assert tk == ("sys", "$readmemh"), tk
            self.eat("("); f = self.eat_any(); self.eat(","); mem = self.eat_id(); self.eat(")"); self.eat(";"); self.eat_kw("end")
            m.mems[mem]["init"] = f[1]; return
        if self.kw("always"):
            self.eat_kw("always"); self.eat("@"); self.eat("(")
            if self.isop("*"):
                self.eat("*"); self.eat(")"); m.comb.append(self.stmt()); return
            self.eat_kw("posedge"); clk = self.eat_id(); self.eat(")"); m.sync.append((clk, self.stmt())); return
        raise VParseError(f"unexpected {self.peek()} at {self.i}")
    def eat_any(self): tk = self.peek(); self.i += 1; return tk
    def stmt(self):
        if self.kw("begin"):
            self.eat_kw("begin"); body = []
            while not self.kw("end"): body.append(self.stmt())
            self.eat_kw("end"); return ("block", body)
        if self.kw("if"):
            self.eat_kw("if"); self.eat("("); c = self.expr(); self.eat(")"); t = self.stmt(); f = ("block", [])
            if self.kw("else"): self.eat_kw("else"); f = self.stmt()
            return ("if", c, t, f)
        if self.kw("case"):
            self.eat_kw("case"); self.eat("("); t = self.expr(); self.eat(")"); arms = []; default = None
            while not self.kw("endcase"):
                if self.kw("default"): self.eat_kw("default"); self.eat(":"); default = self.stmt()
                else:
                    kexpr = self.expr(); self.eat(":"); arms.append((kexpr, self.stmt()))
            self.eat_kw("endcase"); return ("case", t, arms, default)
        if self.peek()[0] == "sys":        # $display / $finish
            while not self.isop(";"): self.i += 1
            self.eat(";"); return ("block", [])
        lhs = self.lvalue()
        tk = self.eat_any()
        if tk not in (("op", "<="), ("op", "=")): raise VParseError(f"expected assignment got {tk}")
        rhs = self.expr(); self.eat(";")
        return ("nba" if tk[1] == "<=" else "ba", lhs, rhs)
    def lvalue(self):
        # identifier with optional memory index (expression) and bit/part select, or concatenation
        if self.isop("{"):
            self.eat("{"); items = [self.lvalue()]
            while self.isop(","): self.eat(","); items.append(self.lvalue())
            self.eat("}"); return ("lcat", items)
        name = self.eat_id(); sels = []
        while self.isop("["):
            self.eat("[")
            if self.peek()[0] == "num":
                hi = self.const(); lo = hi
                if self.isop(":"): self.eat(":"); lo = self.const()
                self.eat("]"); sels.append(("bits", hi, lo))
            else:
                e = self.expr(); self.eat("]"); sels.append(("index", e))
        return ("lv", name, sels)
    def postfix(self):
        # rvalue: allow memory read  m[expr]
        a = self.primary()
        while self.isop("["):
            save = self.i; self.eat("[")
            if self.peek()[0] == "num":
                nxt = self.t[self.i + 1] if self.i + 1 < len(self.t) else None
                if nxt in (("op", "]"), ("op", ":")):
                    hi = self.const(); lo = hi
                    if self.isop(":"): self.eat(":"); lo = self.const()
                    self.eat("]"); a = ("sel", a, hi, lo); continue
            e = self.expr(); self.eat("]"); a = ("memrd", a, e)
        return a

def parse_module(src):
    toks = lex(strip_comments(src)); p = Parser(toks); return p.module()

# ---- semantics -------------------------------------------------------------------------------------------
class VTS:
    """transition system of a parsed module: z3 var per net (current value), comb equations, next-state per clock"""
    def __init__(self, m, data_files=None):
        self.m = m; self.var = {n: z3.BitVec(f"v_{n}", d["width"]) for n, d in m.nets.items()}
        self.memvar = {n: [z3.BitVec(f"v_{n}[{i}]", d["width"]) for i in range(d["depth"])] for n, d in m.mems.items()}
        self.env = {n: (self.var[n], d["width"], d["signed"]) for n, d in m.nets.items()}
        self.comb_eq = {}; self.next = {}; self.mem_next = {}; self.init = {}; self.mem_init = {}
        partial = {}                      # net -> [(hi, lo, value)] : continuous assignments to part selects
        for lhs, rhs in m.assigns:
            if lhs[0] == "cat":
                # assign {a, b[3:2], c} = rhs : msb-first list of whole nets and constant part selects
                items = []
                for x in lhs[1]:
                    if x[0] == "id": items.append((x[1], m.nets[x[1]]["width"] - 1, 0, True))
                    else:
                        assert x[0] == "sel" and x[1][0] == "id", lhs; items.append((x[1][1], x[2], x[3], False))
                total = sum(hi - lo + 1 for _, hi, lo, _ in items); val = self.assign_val(total, rhs); off = total
                for n, hi, lo, whole in items:
                    w = hi - lo + 1; off -= w; piece = z3.Extract(off + w - 1, off, val)
                    if whole:
                        # the per-target sim printer repeats an `assign {a, b} = e;` once per target: identical drivers of one net are one driver
                        assert n not in self.comb_eq or z3.simplify(self.comb_eq[n]).eq(z3.simplify(piece)), f"{n} driven twice (by different expressions)"
                        self.comb_eq[n] = piece
                    else: partial.setdefault(n, []).append((hi, lo, piece))
                continue
            if lhs[0] == "sel" and lhs[1][0] == "id":
                partial.setdefault(lhs[1][1], []).append((lhs[2], lhs[3], self.assign_val(lhs[2] - lhs[3] + 1, rhs))); continue
            assert lhs[0] == "id", lhs
            w = m.nets[lhs[1]]["width"]; self.comb_eq[lhs[1]] = self.assign_val(w, rhs)
        self.undriven = {}                # net -> bit positions of a wire that no continuous assignment drives (high impedance: any value)
        for n, parts in partial.items():
            assert n not in self.comb_eq, f"{n} driven twice"
            w = m.nets[n]["width"]; bits = [None] * w
            for hi, lo, piece in parts:
                for k in range(lo, hi + 1):
                    assert bits[k] is None, f"{n}[{k}] driven twice"; bits[k] = z3.Extract(k - lo, k - lo, piece)
            free = [k for k in range(w) if bits[k] is None]
            if free: self.undriven[n] = free
            zz = z3.BitVec(f"z_{n}", w)
            bits = [b_ if b_ is not None else z3.Extract(k, k, zz) for k, b_ in enumerate(bits)]
            self.comb_eq[n] = z3.Concat(*reversed(bits)) if w > 1 else bits[0]
        for st in m.comb:
            saved = dict(self.env)
            pend = {}; self.exec(st, pend, {}, None)
            self.env = saved
            for n, e in pend.items():
                assert n not in self.comb_eq, f"{n} driven twice"; self.comb_eq[n] = e
        for clk, st in m.sync:
            # several always blocks of one clock (one per memory port) write the same memory: their non-blocking updates are composed in
            # source order (colliding writes of different blocks are a race in IEEE 1364; callers exclude collisions)
            pend, mpend = {}, dict(self.mem_next.get(clk, {}))
            saved = dict(self.env)
            self.exec(st, pend, mpend, None)
            self.env = saved
            d = self.next.setdefault(clk, {})
            for n, e in pend.items(): assert n not in d; d[n] = e
            dm = self.mem_next.setdefault(clk, {})
            for (n, i), e in mpend.items(): dm[(n, i)] = e
        for n, d in m.nets.items():
            if d["init"] is not None: self.init[n] = z3.simplify(self.assign_val(d["width"], d["init"]))
        for n, d in m.mems.items():
            words = [0] * d["depth"]
            if d["init"] and data_files:
                for i, line in enumerate(data_files[d["init"]].split()): words[i] = int(line, 16)
            self.mem_init[n] = words
    # expressions: extend vexpr with memory reads
    def memrd(self, e):
        name = e[1][1]; idx = self.ev_self(e[2]); words = self.memvar[name]
        r = words[-1]
        for i in reversed(range(len(words) - 1)): r = z3.If(idx == z3.BitVecVal(i, idx.size()), words[i], r) if i < (1 << idx.size()) else r
        return r
    def subst_mem(self, e):
        """replace memrd nodes by fresh env entries so that vexpr can size/evaluate them"""
        if not isinstance(e, tuple): return e
        if e[0] == "memrd":
            val = self.memrd(e); key = f"__memrd{len(self.env)}"; self.env[key] = (val, val.size(), False); return ("id", key)
        return tuple(self.subst_mem(x) if isinstance(x, tuple) else ([self.subst_mem(y) for y in x] if isinstance(x, list) else x) for x in e)
    def ev_self(self, e): return ev_self(self.subst_mem(e), self.env)
    def assign_val(self, w, rhs):
        rhs = self.subst_mem(rhs); sw, ss = selfdet(rhs, self.env); W = max(w, sw)
        return z3.Extract(w - 1, 0, ev(rhs, self.env, W, ss))
    def exec(self, st, pend, mpend, cond):
        k = st[0]
        if k == "block":
            for s in st[1]: self.exec(s, pend, mpend, cond)
        elif k == "if":
            c = self.ev_self(st[1]); cb = c != z3.BitVecVal(0, c.size())
            self.exec(st[2], pend, mpend, cb if cond is None else z3.And(cond, cb))
            self.exec(st[3], pend, mpend, z3.Not(cb) if cond is None else z3.And(cond, z3.Not(cb)))
        elif k == "case":
            items = [self.subst_mem(a) for a, _ in st[2]]; t = self.subst_mem(st[1])
            sizes = [selfdet(x, self.env) for x in [t] + items]; W = max(w for w, _ in sizes); S = all(s for _, s in sizes)
            tv = ev(t, self.env, W, S); notprev = []
            for (a, body), ia in zip(st[2], items):
                ck = tv == ev(ia, self.env, W, S); cc = z3.And(*(notprev + [ck]))
                self.exec(body, pend, mpend, cc if cond is None else z3.And(cond, cc)); notprev.append(z3.Not(ck))
            if st[3] is not None:
                cc = z3.And(*notprev) if notprev else z3.BoolVal(True)
                self.exec(st[3], pend, mpend, cc if cond is None else z3.And(cond, cc))
        elif k == "nba":
            self.do_assign(st[1], st[2], pend, mpend, cond)
        elif k == "ba":
            # blocking assignment: later statements of the same block read the new value (IEEE 1364 9.2.1)
            self.do_assign(st[1], st[2], pend, mpend, cond)
            lhs = st[1]
            if lhs[0] == "lv" and lhs[1] in self.m.nets:
                d_ = self.m.nets[lhs[1]]; self.env[lhs[1]] = (pend[lhs[1]], d_["width"], d_["signed"])
        else:
            raise VParseError(f"unsupported statement {k}")
    def do_assign(self, lhs, rhs, pend, mpend, cond):
        if lhs[0] == "lcat":
            items = lhs[1]; widths = []
            for it in items:
                _, nme, sels = it
                if sels: widths.append(sels[0][1] - sels[0][2] + 1)
                else: widths.append(self.m.nets[nme]["width"])
            total = sum(widths); val = self.assign_val(total, rhs); off = total
            for it, w in zip(items, widths):
                off -= w; key = f"__lcat{len(self.env)}"; self.env[key] = (z3.Extract(off + w - 1, off, val), w, False)
                self.do_assign(it, ("id", key), pend, mpend, cond)
            return
        _, name, sels = lhs
        if name in self.m.mems:
            assert sels and sels[0][0] == "index"
            idx = self.ev_self(sels[0][1]); w = self.m.mems[name]["width"]; hi, lo = w - 1, 0
            if len(sels) > 1: _, hi, lo = sels[1]
            val = self.assign_val(hi - lo + 1, rhs)
            for i in range(self.m.mems[name]["depth"]):
                if i >= (1 << idx.size()): break
                ci = idx == z3.BitVecVal(i, idx.size()); cc = ci if cond is None else z3.And(cond, ci)
                old = mpend.get((name, i), self.memvar[name][i])
                parts = ([z3.Extract(w - 1, hi + 1, old)] if hi < w - 1 else []) + [val] + ([z3.Extract(lo - 1, 0, old)] if lo > 0 else [])
                new = z3.Concat(*parts) if len(parts) > 1 else parts[0]
                mpend[(name, i)] = z3.If(cc, new, old)
            return
        w = self.m.nets[name]["width"]; old = pend.get(name, self.var[name])
        if not sels:
            new = self.assign_val(w, rhs)
        else:
            _, hi, lo = sels[0]; val = self.assign_val(hi - lo + 1, rhs)
            parts = ([z3.Extract(w - 1, hi + 1, old)] if hi < w - 1 else []) + [val] + ([z3.Extract(lo - 1, 0, old)] if lo > 0 else [])
            new = z3.Concat(*parts) if len(parts) > 1 else parts[0]
        pend[name] = new if cond is None else z3.If(cond, new, old)
