"""pysym prototype: real CPython functions on z3-backed proxies; exhaustive path exploration; loop cutting and builtin
redirection by a mechanical AST rewrite of the function's current source; symbolic sequences/maps of records."""
import ast, inspect, textwrap, builtins, z3

POW2_FUNCS = set()      # names of uninterpreted functions a contract uses for 2**k (registered by the contract module)
class PathEnd(Exception): pass
class Unsupported(Exception): pass

class Ctx:
    def __init__(self, decisions=()):
        self.decisions = list(decisions); self.pos = 0; self.pc = []; self.solver = z3.Solver(); self.k = 0
        self.solver.set("timeout", 10000)     # feasibility queries only: a timeout is 'unknown', which KEEPS the path (sound), it never decides an obligation
        self.obligations = []     # (name, status, model)
    def fresh(self, name, sort=None):
        self.k += 1; return z3.Const(f"{name}!{self.k}", sort if sort is not None else z3.IntSort())
    def feasible(self, *extra): return self.solver.check(*self.pc, *extra) != z3.unsat   # unknown is not infeasible: never drop a path silently
    def assume(self, c):
        c = tobool(c); self.pc.append(c)
        if not self.feasible(): raise PathEnd()
    def branch(self, cond):
        if self.pos < len(self.decisions): d = self.decisions[self.pos]
        else:
            t_ok, f_ok = self.feasible(cond), self.feasible(z3.Not(cond))
            if t_ok and f_ok: d = True
            elif t_ok: d = "T"
            elif f_ok: d = "F"
            else: raise PathEnd()
            self.decisions.append(d)
        self.pos += 1
        r = d in (True, "T"); self.pc.append(cond if r else z3.Not(cond)); return r
    def check(self, name, cond):
        cond = tobool(cond)
        s = z3.Solver(); s.set("timeout", 20000); s.add(*self.pc); s.add(z3.Not(cond)); r = s.check()
        if r == z3.unknown:          # a loaded machine must not flip a verdict: one long retry (fresh solver, other seed)
            s = z3.Solver(); s.set("timeout", 160000); s.set("random_seed", 7); s.add(*self.pc); s.add(z3.Not(cond)); r = s.check()
        self.obligations.append((name, "proved" if r == z3.unsat else ("FAILED" if r == z3.sat else "unknown"), s.model() if r == z3.sat else None))
CTX = None

def tobool(x):
    if isinstance(x, SymBool): return x.t
    if isinstance(x, z3.BoolRef): return x
    return z3.BoolVal(bool(x))
def toint(x):
    if isinstance(x, SymInt): return x.t
    if isinstance(x, z3.ArithRef): return x
    if isinstance(x, bool): return z3.IntVal(int(x))
    if isinstance(x, int): return z3.IntVal(x)
    if isinstance(x, SymBool): return z3.If(x.t, 1, 0)
    return None

class SymBool:
    def __init__(self, t): self.t = t
    def __bool__(self): return CTX.branch(self.t)
    def __and__(self, o): return SymBool(z3.And(self.t, tobool(o)))
    __rand__ = __and__
    def __or__(self, o): return SymBool(z3.Or(self.t, tobool(o)))
    __ror__ = __or__
    def __invert__(self): return SymBool(z3.Not(self.t))
    def __eq__(self, o): return SymBool(self.t == tobool(o))
    def __ne__(self, o): return SymBool(self.t != tobool(o))
    __hash__ = None
    def __format__(self, spec): return f"<{self.t}>"
    __str__ = __repr__ = lambda self: f"<{self.t}>"

class SymInt:
    def __init__(self, t): self.t = t
    def _bin(op):
        def f(self, o):
            ot = toint(o)
            return NotImplemented if ot is None else SymInt(op(self.t, ot))
        def r(self, o):
            ot = toint(o)
            return NotImplemented if ot is None else SymInt(op(ot, self.t))
        return f, r
    __add__, __radd__ = _bin(lambda a, b: a + b); __sub__, __rsub__ = _bin(lambda a, b: a - b)
    __mul__, __rmul__ = _bin(lambda a, b: a * b); __mod__, __rmod__ = _bin(lambda a, b: a % b)
    __floordiv__, __rfloordiv__ = _bin(lambda a, b: a / b)
    def _cmp(op):
        def f(self, o):
            ot = toint(o)
            return NotImplemented if ot is None else SymBool(op(self.t, ot))
        return f
    __lt__ = _cmp(lambda a, b: a < b); __le__ = _cmp(lambda a, b: a <= b); __gt__ = _cmp(lambda a, b: a > b)
    __ge__ = _cmp(lambda a, b: a >= b); __eq__ = _cmp(lambda a, b: a == b); __ne__ = _cmp(lambda a, b: a != b)
    def __hash__(self): return id(self)
    def __bool__(self): return CTX.branch(self.t != 0)
    def __neg__(self): return SymInt(-self.t)
    def __format__(self, spec): return f"<{self.t}>"
    __str__ = __repr__ = lambda self: f"<{self.t}>"
    def __and__(self, o):
        # only masks of the form 2**k - 1 with concrete k are linear:  x & (2**k-1) == x % 2**k
        if isinstance(o, int) and not isinstance(o, bool) and o >= 0 and (o & (o + 1)) == 0: return SymInt(self.t % (o + 1))
        if isinstance(o, int) and not isinstance(o, bool) and o < 0 and ((-o) & (-o - 1)) == 0: return SymInt(self.t - self.t % (-o))     # x & -(2**k) == x & ~(2**k - 1)
        if isinstance(o, SymInt) and getattr(o, "_inv_of", None) is not None:
            # x & ~(p - 1) for a p the contract knows to be a power of two (an application of one of POW2_FUNCS, e.g. the uninterpreted pow2(k)
            # standing for 2**k): clears the low bits, x - x mod p, for every Python int x
            p = z3.simplify(o._inv_of + 1)
            if z3.is_app(p) and p.decl().name() in POW2_FUNCS: return SymInt(self.t - self.t % p)
        raise Unsupported("bitwise & on symbolic int")
    __rand__ = __and__
    def __invert__(self):
        r = SymInt(-self.t - 1); r._inv_of = self.t; return r
    def __rshift__(self, k):
        # x >> k for a concrete k >= 0 is floor(x / 2**k) for every Python int; z3's integer division by a positive constant is that floor
        if isinstance(k, int) and not isinstance(k, bool) and k >= 0: return SymInt(self.t / (1 << k))
        raise Unsupported("shift of a symbolic int by a symbolic amount")
    def __lshift__(self, k):
        if isinstance(k, int) and not isinstance(k, bool) and k >= 0: return SymInt(self.t * (1 << k))
        raise Unsupported("shift of a symbolic int by a symbolic amount")

# ---- symbolic sequences of records -------------------------------------------------------------------
class SymRecordSeq:
    """sequence of unknown length of records; field f of element i is the uninterpreted function f(i)"""
    def __init__(self, name, fields, cls=None):
        self.name = name; self.len = z3.Int(f"{name}.len"); self.cls = cls
        self.fn = {f: z3.Function(f"{name}.{f}", z3.IntSort(), z3.BoolSort() if srt == "bool" else z3.IntSort()) for f, srt in fields.items()}
        self.sorts = fields
    def elem(self, idx): return SymRecord(self, toint(idx))
class SymRecord:
    def __init__(self, seq, idx): object.__setattr__(self, "_seq", seq); object.__setattr__(self, "_idx", idx)
    def __getattr__(self, f):
        seq = object.__getattribute__(self, "_seq")
        if f in seq.fn:
            t = seq.fn[f](object.__getattribute__(self, "_idx"))
            return SymBool(t) if seq.sorts[f] == "bool" else SymInt(t)
        raise AttributeError(f)
class SymKey:
    def __init__(self, seq, idx): self.seq, self.idx = seq, idx
    def __format__(self, spec): return f"<key {self.idx}>"
    __str__ = __repr__ = lambda self: f"<key {self.idx}>"
class SymDict:
    """dict view over a SymRecordSeq (insertion order = index order) plus concretely added items"""
    def __init__(self, seq): self.seq = seq; self.extra = []     # extra: list of (key, value) appended after the symbolic prefix
    def keys(self): return SymKeys(self)
    def values(self): return SymKeys(self, values=True)
    def items(self): return SymKeys(self, items=True)
    def total_len(self): return SymInt(self.seq.len + len(self.extra))
    def at(self, idx):
        """(key, value) at symbolic position idx"""
        it = toint(idx)
        # position within the symbolic prefix or one of the concrete extras: fork
        for j, (k, v) in enumerate(self.extra):
            if SymBool(it == self.seq.len + j): return k, v
        CTX.assume(z3.And(it >= 0, it < self.seq.len))
        return SymKey(self.seq, it), self.seq.elem(it)
    def __getitem__(self, key):
        if isinstance(key, SymKey): return self.seq.elem(key.idx)
        for k, v in self.extra:
            if k is key or (isinstance(k, str) and isinstance(key, str) and k == key): return v
        raise KeyError(key)
    def __setitem__(self, key, value): self.extra.append((key, value))
    def __contains__(self, key):
        if any(k == key for k, _ in self.extra if isinstance(k, str)): return True
        return bool(SymBool(CTX.fresh("present", z3.BoolSort())))
class SymKeys:
    def __init__(self, d, values=False, items=False, start=0): self.d, self.values, self.items, self.start = d, values, items, start
    def __contains__(self, key): return key in self.d
    def get(self, idx):
        k, v = self.d.at(idx)
        return (k, v) if self.items else (v if self.values else k)
class SymList:
    """list(...) of a SymKeys view, with symbolic slicing [a:]"""
    def __init__(self, view, start=0): self.view, self.start = view, start
    def __getitem__(self, i):
        if isinstance(i, slice):
            assert i.stop is None and i.step is None
            return SymList(self.view, self.start + i.start)
        return self.view.get(self.start + i)
    def length(self): return self.view.d.total_len() - self.start

# ---- AST rewrite ---------------------------------------------------------------------------------------
class VC:
    """run-time support object referenced as __vc by rewritten code"""
    def __init__(self, loops): self.loops = loops; self.iters = {}
    def len(self, x):
        if isinstance(x, SymDict): return x.total_len()
        if isinstance(x, SymList): return x.length()
        return builtins.len(x)
    def list(self, x=()):
        if isinstance(x, SymKeys): return SymList(x)
        if isinstance(x, SymList): return x
        return builtins.list(x)
    # loop cutting
    def loop_begin(self, lid, frame_locals):
        sp = self.loops[lid]
        if "inv" in sp: CTX.check(f"loop{lid}.init", sp["inv"](frame_locals))
        hv = {}
        for n, kind in sp.get("havoc", {}).items():
            hv[n] = SymBool(CTX.fresh(n, z3.BoolSort())) if kind == "bool" else SymInt(CTX.fresh(n))
        L2 = dict(frame_locals); L2.update(hv)
        if "inv" in sp: CTX.assume(sp["inv"](L2))
        return hv
    def loop_end(self, lid, frame_locals):
        sp = self.loops[lid]
        if "inv" in sp: CTX.check(f"loop{lid}.step", sp["inv"](frame_locals))
        raise PathEnd()
    def for_begin(self, lid, iterable, frame_locals):
        """for over a symbolic sequence: havoc position; returns state object"""
        sp = self.loops[lid]; pos_name = sp["pos"]
        st = {"it": iterable}
        L0 = dict(frame_locals); L0[pos_name] = SymInt(z3.IntVal(0))
        if "inv" in sp: CTX.check(f"loop{lid}.init", sp["inv"](L0))
        hv = {pos_name: SymInt(CTX.fresh(pos_name))}
        for n, kind in sp.get("havoc", {}).items():
            hv[n] = SymBool(CTX.fresh(n, z3.BoolSort())) if kind == "bool" else SymInt(CTX.fresh(n))
        L2 = dict(frame_locals); L2.update(hv)
        CTX.assume(hv[pos_name] >= 0); CTX.assume(hv[pos_name] <= self.len(iterable))
        if "inv" in sp: CTX.assume(sp["inv"](L2))
        st["hv"] = hv; st["pos"] = hv[pos_name]
        return st
    def for_more(self, lid, st): return bool(st["pos"] < self.len(st["it"]))
    def for_item(self, lid, st): return st["it"][st["pos"]]
    def for_end(self, lid, st, frame_locals):
        sp = self.loops[lid]; L2 = dict(frame_locals); L2[sp["pos"]] = st["pos"] + 1
        if "inv" in sp: CTX.check(f"loop{lid}.step", sp["inv"](L2))
        raise PathEnd()

class Rewriter(ast.NodeTransformer):
    def __init__(self, loops): self.loops = loops; self.n = -1
    def visit_Call(self, node):
        node = self.generic_visit(node)
        if isinstance(node.func, ast.Name) and node.func.id in ("len", "list"):
            node.func = ast.Attribute(value=ast.Name(id="__vc", ctx=ast.Load()), attr=node.func.id, ctx=ast.Load())
        return node
    def _lid(self): self.n += 1; return self.n
    def visit_While(self, node):
        lid = self._lid(); node = self.generic_visit(node)
        if lid not in self.loops: return node
        hv = list(self.loops[lid].get("havoc", {}))
        pre = ast.parse(f"__hv{lid} = __vc.loop_begin({lid}, locals())\n" + "\n".join(f'{n} = __hv{lid}["{n}"]' for n in hv)).body
        w = ast.parse("while True:\n    if not (__COND__): break\n    pass\n").body[0]
        w.body[0].test = ast.UnaryOp(op=ast.Not(), operand=node.test)
        end = ast.parse(f"__vc.loop_end({lid}, locals())").body
        w.body = [w.body[0]] + self._fix_continue(node.body, f"__vc.loop_end({lid}, locals())") + end
        return pre + [w]
    def visit_For(self, node):
        lid = self._lid(); node = self.generic_visit(node)
        if lid not in self.loops: return node
        sp = self.loops[lid]; hv = list(sp.get("havoc", {}))
        pre = ast.parse(f"__st{lid} = __vc.for_begin({lid}, __IT__, locals())\n" + "\n".join(f'{n} = __st{lid}["hv"]["{n}"]' for n in hv)).body
        pre[0].value.args[1] = node.iter
        w = ast.parse(f"while True:\n    if not __vc.for_more({lid}, __st{lid}): break\n    __T__ = __vc.for_item({lid}, __st{lid})\n").body[0]
        w.body[1].targets = [node.target]
        endsrc = f"__vc.for_end({lid}, __st{lid}, locals())"
        w.body = w.body[:2] + self._fix_continue(node.body, endsrc) + ast.parse(endsrc).body
        return pre + [w]
    def _fix_continue(self, body, endsrc):
        class C(ast.NodeTransformer):
            def visit_For(s, n): return n
            def visit_While(s, n): return n
            def visit_Continue(s, n): return ast.parse(endsrc).body
        out = []
        for st in body:
            r = C().visit(st); out += r if isinstance(r, list) else [r]
        return out

def rewrite(fn, loops, vc):
    src = textwrap.dedent(inspect.getsource(fn)); tree = ast.parse(src)
    tree = Rewriter(loops).visit(tree); ast.fix_missing_locations(tree)
    g = dict(fn.__globals__); g["__vc"] = vc
    exec(compile(tree, f"<pysym:{fn.__qualname__}>", "exec"), g)
    return g[fn.__name__], ast.unparse(tree)

def explore(fn, max_paths=2000):
    """fn(ctx) runs one path; returns (paths, obligations)"""
    global CTX
    stack = [[]]; obligations = []; paths = 0
    while stack:
        dec = stack.pop(); CTX = Ctx(dec)
        try:
            fn(CTX); paths += 1
        except PathEnd:
            pass
        obligations += CTX.obligations
        d = CTX.decisions
        for i in range(len(dec), len(d)):
            if d[i] is True: stack.append(d[:i] + [False])
        if paths > max_paths: raise Unsupported("path budget")
    return paths, obligations
