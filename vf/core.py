"""Runner: collects the cases of a property's contract modules, runs them in a process pool, applies the known-findings
file, writes evidence/<id>.json and decides the exit code.
exit 0 all discharged (listed known findings allowed) · 1 violation · 2 undecided · 3 checker fault"""
import fnmatch, glob, importlib, json, os, sys, time, traceback
import concurrent.futures as cf
import multiprocessing as mp

ROOT = os.path.dirname(os.path.dirname(os.path.abspath(__file__)))
PROVED, OK, VIOLATED, NOINPUT, UNKNOWN, VACUOUS, FAULT, BOUNDED_OK = \
    "proved", "ok", "violated", "failed-no-input", "unknown", "vacuous", "checker-fault", "bounded-ok"
GOOD = (PROVED, OK, BOUNDED_OK)

class Case:
    """one unit of work: fn(*args) -> dict(results=[obligation dicts], functions=[...], assumptions=[...], samples=[...])
    or simply a list of obligation dicts, or a HwCheck (run by the worker)."""
    def __init__(self, cid, fn, *args, tier="quick", timeout=420, **kw):
        self.cid, self.fn, self.args, self.kw, self.tier, self.timeout = cid, fn, args, kw, tier, timeout

def load_contracts(prop):
    mods = []
    if os.environ.get("VERIF_MODULE"):          # development mode (./check Cxx --module contracts.wip_x): one module, evidence to a scratch dir
        return [importlib.import_module(os.environ["VERIF_MODULE"])]
    for path in sorted(glob.glob(os.path.join(ROOT, "contracts", f"{prop}_*.py"))):
        name = "contracts." + os.path.basename(path)[:-3]
        mods.append(importlib.import_module(name))
    return mods

def _norm(cid, ret, prop):
    from .hw import HwCheck
    extra = dict(functions=[], assumptions=[], samples=[])
    if isinstance(ret, HwCheck):
        h = ret
        results = list(getattr(h, "pre_results", [])) + list(h.run(case_id=cid, replay_dir=os.path.join(ROOT, "replays", prop)))   # pre_results: structural postconditions checked at elaboration
        extra["assumptions"] = list(h.assumption_notes)
        extra["functions"] = list(getattr(h, "functions", []))
        extra["hints"] = dict(kept=len(getattr(h, "kept", [])), total=len(h.hints), houdini_s=round(getattr(h, "houdini_secs", 0), 2))
        ret = results
    elif isinstance(ret, dict):
        for k in extra: extra[k] = ret.get(k, [])
        ret = ret["results"]
    return dict(cid=cid, results=ret, **extra)

def _worker(prop, modname, cid):
    t0 = time.time()
    try:
        mod = importlib.import_module(modname)
        tier = os.environ.get("VERIF_TIER", "quick")
        case = [c for c in mod.cases(tier) if c.cid == cid][0]
        ret = case.fn(*case.args, **case.kw)
        out = _norm(cid, ret, prop)
    except Exception as e:
        if sys.stderr is None: sys.stderr = sys.__stderr__
        if type(e).__name__ in ("Unsupported", "SidecarMismatch"):
            # the code under contract has a shape the sidecar (loop invariants keyed by loop ordinal, engine subset) does not apply to: undecided, not a checker fault
            return dict(cid=cid, results=[dict(name="sidecar", kind="ensures", status=UNKNOWN, secs=0, backend="", info=f"{type(e).__name__}: {e}")], functions=[], assumptions=[], samples=[], wall_s=round(time.time() - t0, 2))
        out = dict(cid=cid, results=[dict(name="harness", kind="harness", status=FAULT, secs=0, backend="",
                                          info=f"{type(e).__name__}: {e}", tb=traceback.format_exc()[-2000:])],
                   functions=[], assumptions=[], samples=[])
    out["wall_s"] = round(time.time() - t0, 2)
    return out

def _child(conn, prop, modname, cid):
    try:
        import ctypes, signal
        ctypes.CDLL("libc.so.6").prctl(1, signal.SIGKILL)          # PR_SET_PDEATHSIG: never outlive the runner
    except Exception: pass
    try:
        out = _worker(prop, modname, cid)
        try: conn.send(out)
        except Exception as e:      # unpicklable detail in a result: keep the verdicts, drop the detail
            slim = dict(out); slim["results"] = [{k: (v if isinstance(v, (str, int, float, bool, type(None))) else str(v)[:2000]) for k, v in r.items()} for r in out["results"]]
            slim["samples"] = []; conn.send(slim)
    finally:
        conn.close()

def _run_pool(prop, todo, jobs):
    """one forked process per case, at most `jobs` at a time; a case that exceeds its wall-clock limit is killed and reported as UNDECIDED
    (never a violation, never a proof) so that a check cannot hang"""
    ctx = mp.get_context("fork")
    scale = float(os.environ.get("VERIF_TIMEOUT_SCALE", "1")) * (6 if os.environ.get("VERIF_TIER") == "thorough" else 1)      # thorough cases are bigger geometries
    pending = list(todo); running = {}; outs = []
    while pending or running:
        while pending and len(running) < jobs:
            mn, cid, to = pending.pop(0)
            rx, tx = ctx.Pipe(duplex=False)
            p = ctx.Process(target=_child, args=(tx, prop, mn, cid), daemon=False); p.start(); tx.close()
            running[p.pid] = (p, rx, cid, time.time(), (to or 600) * scale)
        time.sleep(0.02)
        for pid, (p, rx, cid, t0, to) in list(running.items()):
            got = None
            try:
                if rx.poll(): got = rx.recv()
            except (EOFError, OSError): got = None
            if got is not None:
                outs.append(got); p.join(5); rx.close(); del running[pid]; continue
            if not p.is_alive():
                try:
                    if rx.poll(): got = rx.recv()
                except (EOFError, OSError): got = None
                outs.append(got if got is not None else dict(cid=cid, results=[dict(name="harness", kind="harness", status=FAULT, secs=0, backend="", info=f"worker died (exit code {p.exitcode})")],
                                                                 functions=[], assumptions=[], samples=[], wall_s=round(time.time() - t0, 2)))
                rx.close(); del running[pid]; continue
            if time.time() - t0 > to:
                p.kill(); p.join(5); rx.close(); del running[pid]
                outs.append(dict(cid=cid, results=[dict(name="time-limit", kind="ensures", status=UNKNOWN, secs=round(to, 1), backend="", info=f"case stopped after its wall-clock limit of {to:.0f}s: undecided")],
                                 functions=[], assumptions=[], samples=[], wall_s=round(time.time() - t0, 2)))
    return outs

def load_known(prop):
    p = os.path.join(ROOT, "known_findings.json")
    if not os.path.exists(p): return []
    return [k for k in json.load(open(p)) if k.get("property") == prop]

def run_property(prop, tier, meta, only=None, jobs=None):
    """meta: dict(level=..., functions=[...], assumptions=[...], trusted_base=[...], explanation=...)"""
    t0 = time.time()
    os.environ["VERIF_TIER"] = tier
    seed = int(os.environ.get("VERIF_SEED", "0"))
    mods = load_contracts(prop)
    todo = []
    for m in mods:
        for c in m.cases(tier):
            if only and not any(fnmatch.fnmatch(c.cid, o) for o in only): continue
            todo.append((m.__name__, c.cid, c.timeout))
        for k in ("FUNCTIONS", "ASSUMPTIONS", "TRUSTED"):
            meta.setdefault(k.lower(), [])
            meta[k.lower()] += list(getattr(m, k, []))
    jobs = jobs or int(os.environ.get("VERIF_JOBS", "14"))
    outs = _run_pool(prop, todo, jobs)
    outs.sort(key=lambda o: o["cid"])
    return finish(prop, tier, seed, meta, outs, t0, len(todo))

def finish(prop, tier, seed, meta, outs, t0, ncases):
    known = load_known(prop)
    open_k = [k for k in known if k.get("status", "open") == "open"]
    obligations = 0; discharged = 0; bounded = 0; viol = []; undec = []; faults = []; kf_lines = []; gone = []
    backends = {}; solver_s = 0.0; samples = []; per_case = []
    seen_known = set()
    for o in outs:
        per = dict(case=o["cid"], wall_s=o.get("wall_s"), obligations=[])
        for r in o["results"]:
            oid = f'{o["cid"]}/{r["name"]}'
            st = r["status"]; kind = r.get("kind", "")
            solver_s += r.get("secs", 0) or 0
            per["obligations"].append(dict(id=oid, kind=kind, status=st, backend=r.get("backend", ""), secs=r.get("secs", 0)))
            match = [k for k in open_k if fnmatch.fnmatch(oid, k["obligation"])]
            if kind == "finding-witness":
                # expected to fail on the unchanged tree; listed => KNOWN-FINDING line; not failing any more => GONE
                if st in (VIOLATED, NOINPUT):
                    if match:
                        kf_lines.append((match[0], oid, r)); seen_known.add(match[0]["obligation"])
                    else:
                        viol.append((oid, r))
                elif st == PROVED: gone.append(oid)
                elif st == FAULT: faults.append((oid, r))
                else: undec.append((oid, r))
                continue
            if kind in ("extraction", "harness", "vacuity", "cover"):
                if st in GOOD: pass
                elif st == UNKNOWN: undec.append((oid, r))
                else: faults.append((oid, r))
                if kind in ("extraction", "harness"): continue
            obligations += 1
            if st in (PROVED, OK):
                discharged += 1; backends[r.get("backend", "")] = backends.get(r.get("backend", ""), 0) + 1
                if len(samples) < 6 and kind in ("ensures", "ensures-seq", "respond", "pysym", "vc"):
                    samples.append(dict(obligation=oid, kind=kind, backend=r.get("backend", ""), secs=r.get("secs", 0), **({"formula": r["formula"]} if "formula" in r else {})))
            elif st == BOUNDED_OK: bounded += 1; obligations -= 1
            elif st in (VIOLATED, NOINPUT):
                if match: kf_lines.append((match[0], oid, r)); seen_known.add(match[0]["obligation"]); obligations -= 1
                else: viol.append((oid, r))
            elif st == UNKNOWN:
                if (oid, r) not in undec: undec.append((oid, r))
            elif st in (FAULT, VACUOUS):
                if (oid, r) not in faults: faults.append((oid, r))
        per_case.append(per)
        samples += [s for s in o.get("samples", [])][:2]
    lines = []
    for k, oid, r in kf_lines:
        lines.append(f'KNOWN-FINDING: property={prop} {oid}: {k["what"]}')
    for oid in gone:
        lines.append(f'KNOWN-FINDING-GONE: property={prop} {oid} no longer fails')
    for oid, r in viol:
        rp = r.get("replay") or _write_generic_replay(prop, oid, r)
        tail = " no-failing-input-found" if r["status"] == NOINPUT else ""
        lines.append(f'VIOLATION property={prop} replay={rp} obligation={oid}{tail}' if not tail else f'VIOLATION property={prop} replay={rp} obligation={oid} no-failing-input-found')
    for oid, r in undec: lines.append(f'UNDECIDED property={prop} obligation={oid} {r.get("info", "")}')
    for oid, r in faults: lines.append(f'CHECKER-FAULT property={prop} obligation={oid} {r.get("status")} {r.get("info", "")} {r.get("tb", "")}')
    if obligations == 0 and not viol: faults.append(("none", dict(status=FAULT, info="zero obligations generated"))); lines.append(f"CHECKER-FAULT property={prop} zero obligations")
    functions = sorted(set(meta.get("functions", []) + [f for o in outs for f in o.get("functions", [])]))
    assumptions = list(dict.fromkeys(meta.get("assumptions", []) + [a for o in outs for a in o.get("assumptions", [])]))
    level = meta.get("level", "proof")
    cov = dict(obligations=obligations, discharged=discharged, checker_cmd=f"./check {prop} --tier {tier}",
               trusted_base=meta.get("trusted", []) or ["z3 5.1 / z3 4.8.12 / cvc5 1.0.3", "vf/fhdl2smt.py symbolic evaluator (co-simulated against litex.gen.sim every run)"],
               functions_under_contract=functions, cases=ncases, bounded_obligations=bounded,
               backends=backends, solver_s=round(solver_s, 2), samples=samples[:8] or [dict(note="no sample recorded")],
               known_findings_reported=[f"{oid}" for _, oid, _ in kf_lines], undecided=[o for o, _ in undec], checker_faults=[o for o, _ in faults],
               per_case=per_case, explanation=meta.get("explanation", ""),
               evaluations=obligations + bounded, distinct_nontrivial=discharged + bounded,
               rule="one evaluation = one named proof obligation generated from /repo's current source at one parameterisation; non-trivial = discharged by a solver (vacuity, cover and co-simulation guards not counted)")
    for k in ("programs", "disagreements_checked"):
        if k in meta: cov[k] = meta[k]
    ev = dict(property_id=prop, tier=tier, seed=seed, level=level, coverage=cov, assumptions=assumptions,
              wall_s=round(time.time() - t0, 2), violations=len(viol))
    evdir = os.environ.get("VERIF_EVIDENCE_DIR") or os.path.join(ROOT, "evidence")
    os.makedirs(evdir, exist_ok=True)
    with open(os.path.join(evdir, f"{prop}.json"), "w") as f: json.dump(ev, f, indent=1, default=str)
    for l in lines: print(l)
    print(f"{prop} [{tier}]: {discharged}/{obligations} obligations discharged, {bounded} bounded, {len(kf_lines)} known findings, "
          f"{len(viol)} violations, {len(undec)} undecided, {len(faults)} faults, {ncases} cases, {time.time() - t0:.1f}s")
    if viol: return 1
    if faults: return 3
    if undec: return 2
    return 0

def _write_generic_replay(prop, oid, r):
    d = os.path.join(ROOT, "replays", prop); os.makedirs(d, exist_ok=True)
    fn = os.path.join(d, "".join(ch if ch.isalnum() or ch in "._-" else "_" for ch in oid) + ".json")
    with open(fn, "w") as f: json.dump(dict(obligation=oid, result=r), f, indent=1, default=str)
    return fn
