"""Prototype: mechanical loop cutting of a real function's current source (AST rewrite) + execution on proxies."""
import ast, inspect, textwrap, z3
from . import symx
from .symx import SymInt, SymBool, PathEnd

class SymReal(SymInt):   # reuse operator plumbing; terms are z3 Reals
    def __truediv__(self, o):  return SymReal(self.t / _r(o))
    def __rtruediv__(self, o): return SymReal(_r(o) / self.t)
    def __abs__(self): return SymReal(z3.If(self.t >= 0, self.t, -self.t))
def _r(x):
    if isinstance(x, SymInt): return z3.ToReal(x.t) if x.t.sort() == z3.IntSort() else x.t
    return z3.RealVal(x)
# patch SymInt to promote to real on true division and mixed ops
def _mk(op):
    def f(self, o):
        a, b = _r(self), _r(o); return SymReal(op(a, b))
    def r(self, o):
        a, b = _r(o), _r(self); return SymReal(op(a, b))
    return f, r
for name, op in [("add", lambda a,b:a+b), ("sub", lambda a,b:a-b), ("mul", lambda a,b:a*b), ("truediv", lambda a,b:a/b)]:
    f, r = _mk(op); setattr(SymInt, f"__{name}__", f); setattr(SymInt, f"__r{name}__", r)
def _cmp(op):
    def f(self, o): return SymBool(op(_r(self), _r(o)))
    return f
for name, op in [("lt", lambda a,b:a<b), ("le", lambda a,b:a<=b), ("gt", lambda a,b:a>b), ("ge", lambda a,b:a>=b), ("eq", lambda a,b:a==b), ("ne", lambda a,b:a!=b)]:
    setattr(SymInt, f"__{name}__", _cmp(op))
SymInt.__abs__ = lambda self: SymReal(z3.If(_r(self) >= 0, _r(self), -_r(self)))
SymInt.__hash__ = lambda self: id(self)

class VC:
    def __init__(self, specs): self.specs = specs; self.obl = []; self.k = 0
    def fresh(self, kind, name):
        self.k += 1
        if kind == "bool": return SymBool(z3.Bool(f"{name}!{self.k}"))
        if kind == "int":  return SymInt(z3.Int(f"{name}!{self.k}"))
        return SymReal(z3.Real(f"{name}!{self.k}"))
    def begin(self, lid, iterable, L):
        sp = self.specs[lid]
        self.check(lid, L, "init")
        hv = {n: self.fresh(k, n) for n, k in sp.get("havoc", {}).items()}
        L2 = dict(L); L2.update(hv)
        if "inv" in sp: symx.CTX.assume(sp["inv"](L2))
        return hv
    def check(self, lid, L, what):
        sp = self.specs[lid]
        if "inv" in sp:
            b = sp["inv"](L)
            t = b.t if isinstance(b, SymBool) else z3.BoolVal(bool(b))
            s = z3.Solver(); s.add(*symx.CTX.pc); s.add(z3.Not(t))
            self.obl.append((f"loop{lid}.{what}", s.check()))
    def more(self, lid):
        return bool(SymBool(z3.Bool(f"more{lid}!{self._n()}")))
    def _n(self): self.k += 1; return self.k
    def elem(self, lid, iterable, L):
        return self.specs[lid]["elem"](self, iterable, L)
    def cut(self): raise PathEnd()

class Cutter(ast.NodeTransformer):
    def __init__(self, specs): self.specs = specs; self.n = -1
    def visit_For(self, node):
        self.n += 1; lid = self.n
        node = self.generic_visit(node)
        if lid not in self.specs: return node
        havoc = list(self.specs[lid].get("havoc", {}))
        src = f"""
__hv = __vc.begin({lid}, None, locals())
{chr(10).join(f'{n} = __hv["{n}"]' for n in havoc) or 'pass'}
while True:
    if not __vc.more({lid}): break
    __TARGET__ = __vc.elem({lid}, None, locals())
    __BODY__
    __vc.check({lid}, locals(), "step"); __vc.cut()
"""
        new = ast.parse(textwrap.dedent(src)).body
        w = new[-1]
        assign = w.body[1]; assign.targets = [node.target]
        body = []
        for st in node.body: body.append(st)
        w.body = [w.body[0], assign] + body + w.body[3:]
        class C(ast.NodeTransformer):   # continue -> check+cut (only at this loop level)
            def visit_For(s, n): return n
            def visit_While(s, n): return n
            def visit_Continue(s, n):
                return ast.parse(f'__vc.check({lid}, locals(), "step"); __vc.cut()').body
        w.body = [C().visit(b) if i >= 2 else b for i, b in enumerate(w.body)]
        flat = []
        for b in w.body: flat += b if isinstance(b, list) else [b]
        w.body = flat
        return new

class MathShim:
    """stands for the `math` module in a rewritten function: concrete arguments go to the real module; proxies get contracts
    (over-approximations: they can only make a proof fail, never pass wrongly).
    gcd(a, b) on proxies: a fresh g >= 0 with a == g*ka, b == g*kb (maximality is not asserted)."""
    def __getattr__(self, name):
        import math
        return getattr(math, name)
    def gcd(self, *args):
        import math
        if all(isinstance(a, int) for a in args): return math.gcd(*args)
        k = [0]
        def fresh(n):
            MathShim._n = getattr(MathShim, "_n", 0) + 1; return z3.Int(f"{n}!m{MathShim._n}")
        g = fresh("gcd"); symx.CTX.assume(SymBool(g >= 0))
        for a in args:
            at = a.t if isinstance(a, SymInt) else z3.IntVal(int(a))
            if at.sort() != z3.IntSort(): raise TypeError("gcd of a non-integer proxy")
            ka = fresh("gcdk"); symx.CTX.assume(SymBool(at == g * ka))
            symx.CTX.assume(SymBool(z3.Implies(at != 0, g >= 1)))
        return SymInt(g)

def rewrite(fn, specs, vc, extra_globals=None):
    src = textwrap.dedent(inspect.getsource(fn))
    tree = ast.parse(src)
    tree = Cutter(specs).visit(tree); ast.fix_missing_locations(tree)
    g = dict(fn.__globals__); g["__vc"] = vc
    import math as _math
    for k_, v_ in list(g.items()):
        if v_ is _math: g[k_] = MathShim()
    if extra_globals: g.update(extra_globals)
    exec(compile(tree, f"<cut:{fn.__qualname__}>", "exec"), g)
    return g[fn.__name__], ast.unparse(tree)
