import argparse, json, os, sys
ROOT = os.path.dirname(os.path.dirname(os.path.abspath(__file__)))
sys.path.insert(0, ROOT)
def main():
    ap = argparse.ArgumentParser()
    ap.add_argument("prop"); ap.add_argument("--tier", default=os.environ.get("VERIF_TIER", "quick"))
    ap.add_argument("--only", action="append"); ap.add_argument("--replay"); ap.add_argument("--jobs", type=int); ap.add_argument("--module")
    a = ap.parse_args()
    os.environ["VERIF_TIER"] = a.tier
    if a.only and not a.module:
        os.environ.setdefault("VERIF_EVIDENCE_DIR", "/tmp/verif_dev_evidence/only")      # a run restricted with --only does not describe the whole check: never overwrite evidence/<id>.json
    if a.module:
        os.environ["VERIF_MODULE"] = a.module
        os.environ.setdefault("VERIF_EVIDENCE_DIR", f"/tmp/verif_dev_evidence/{a.module}")
    from vf import elab, core
    from vf.props import META
    if a.replay:
        from vf import replaycli
        sys.exit(replaycli.run(a.prop, a.replay))
    meta = dict(META.get(a.prop, {}))
    rc = core.run_property(a.prop, a.tier, meta, only=a.only, jobs=a.jobs)
    sys.exit(rc)
main()
