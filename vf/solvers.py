"""Solver portfolio.  First definite answer wins: z3 5.x Python API, then (on unknown) /usr/bin/z3 4.8.12 and /usr/bin/cvc5
on the SMT-LIB dump.  Only the API returns models; a CLI `sat` without model is reported as ('sat', None)."""
import os, subprocess, tempfile, time, z3

Z3_OLD = "/usr/bin/z3"
CVC5 = "/usr/bin/cvc5"

def _cli(cmd, path, timeout_s):
    try:
        p = subprocess.run(cmd + [path], capture_output=True, text=True, timeout=timeout_s + 2)
        out = p.stdout.strip().splitlines()
        return out[0].strip() if out else "unknown"
    except subprocess.TimeoutExpired:
        return "unknown"

def solve(constraints, timeout_ms=20000, order=("api", "z3old", "cvc5"), want_model=True, cli_timeout_s=None):
    """returns (status, model|None, backend, seconds); status in sat/unsat/unknown"""
    t0 = time.time()
    smt2 = None
    last = ("unknown", None, "none")
    for be in order:
        if be == "api":
            s = z3.Solver(); s.set("timeout", int(timeout_ms)); s.add(*constraints)
            r = s.check()
            if r == z3.unsat: return "unsat", None, "z3-%s(api)" % z3.get_version_string(), time.time() - t0
            if r == z3.sat: return "sat", s.model(), "z3-%s(api)" % z3.get_version_string(), time.time() - t0
            continue
        if smt2 is None:
            s = z3.Solver(); s.add(*constraints)
            fd, smt2 = tempfile.mkstemp(suffix=".smt2", prefix="vf_"); os.close(fd)
            with open(smt2, "w") as f:
                f.write("(set-logic ALL)\n")
                f.write(s.to_smt2())
        ts = cli_timeout_s or max(1, int(timeout_ms / 1000))
        if be == "z3old":
            r = _cli([Z3_OLD, "-T:%d" % ts], smt2, ts)
            name = "z3-4.8.12(cli)"
        else:
            r = _cli([CVC5, "--tlimit=%d" % (ts * 1000)], smt2, ts)
            name = "cvc5-1.0.3(cli)"
        if r in ("sat", "unsat"):
            last = (r, None, name)
            break
    if smt2:
        try: os.unlink(smt2)
        except OSError: pass
    return last[0], last[1], last[2], time.time() - t0
