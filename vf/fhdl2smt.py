"""E1 front end: FHDL fragment -> z3 transition system with the exact (unbounded-int) semantics of litex.gen.sim.core.
Every expression value is a signed bit-vector carrying a static interval [lo,hi] and is evaluated at a width that
provably holds the exact integer, so nothing is truncated before assignment (as in Evaluator.eval/assign/execute, which
this file transcribes clause by clause).  The fragment is the object built by the real constructors in /repo; the same
lowering passes as Simulator.__init__ are applied to a shallow copy of it."""
import collections, z3
from migen.fhdl.structure import *
from migen.fhdl.structure import (_Value, _Statement, _Operator, _Slice, _ArrayProxy, _Assign, _Fragment)
from migen.fhdl.bitcontainer import value_bits_sign
from migen.fhdl.tools import list_targets, list_signals, insert_resets, lower_specials, list_special_ios
from migen.fhdl.simplify import MemoryToArray
from migen.fhdl.specials import _MemoryLocation
from migen.genlib.resetsync import AsyncResetSynchronizer

def sbits(v):  # bits needed to represent int v in two's complement signed
    return (v.bit_length() if v >= 0 else (-v - 1).bit_length()) + 1

class V:
    __slots__ = ("t", "lo", "hi", "w")
    def __init__(self, t, lo, hi):
        self.t, self.lo, self.hi = t, lo, hi
        self.w = t.size()
    @staticmethod
    def const(c):
        w = sbits(c)
        return V(z3.BitVecVal(c, w), c, c)
    def ext(self, w):
        if w == self.w: return self.t
        if w < self.w:  return z3.Extract(w-1, 0, self.t)
        return z3.SignExt(w - self.w, self.t)
    def fit(self, lo, hi):
        """re-wrap with tighter/looser bounds"""
        w = max(sbits(lo), sbits(hi))
        return V(self.ext(w), lo, hi)

def mk(t_fn, lo, hi, *ops):
    w = max(sbits(lo), sbits(hi), *[o.w for o in ops])
    t = t_fn(*[o.ext(w) for o in ops])
    w2 = max(sbits(lo), sbits(hi))
    if w2 < w: t = z3.Extract(w2-1, 0, t)
    return V(t, lo, hi)

def b2v(b):  # z3 Bool -> V in [0,1]
    return V(z3.If(b, z3.BitVecVal(1, 2), z3.BitVecVal(0, 2)), 0, 1)

def nonzero(v):
    return v.t != z3.BitVecVal(0, v.w)

def low_bits(v, n):
    """two's complement low n bits as unsigned BV(n)"""
    return v.ext(max(n, v.w)) if max(n, v.w) == n else z3.Extract(n-1, 0, v.t)

def from_bits(bv, signed):
    n = bv.size()
    if signed:
        return V(z3.SignExt(1, bv), -(1 << (n-1)), (1 << (n-1)) - 1) if False else V(bv, -(1 << (n-1)), (1 << (n-1)) - 1)
    return V(z3.ZeroExt(1, bv), 0, (1 << n) - 1)

class Env:
    """read environment: maps Signal -> z3 BV(nbits) raw bits"""
    def __init__(self, read):
        self.read = read

class Unsupported(Exception):
    """a construct outside what the transcription models: the case is UNDECIDED (never a verdict)"""

class Sem:
    def __init__(self, clock_domains, replaced_memories):
        self.cds = clock_domains
        self.mems = replaced_memories

    # ---- expressions (mirror Evaluator.eval) ----
    def eval(self, node, rd, post=None):
        if isinstance(node, Constant):
            return V.const(node.value)
        if isinstance(node, Signal):
            if post is not None and node in post:
                return from_bits(post[node], node.signed)
            return from_bits(rd(node), node.signed)
        if isinstance(node, _Operator):
            ops = [self.eval(o, rd, post) for o in node.operands]
            op = node.op
            if op == "-":
                if len(ops) == 1:
                    a, = ops
                    return mk(lambda x: -x, -a.hi, -a.lo, V(a.ext(a.w+1), a.lo, a.hi))
                a, b = ops
                return mk(lambda x, y: x - y, a.lo - b.hi, a.hi - b.lo, a, b)
            if op == "m":
                c, a, b = ops
                lo, hi = min(a.lo, b.lo), max(a.hi, b.hi)
                w = max(sbits(lo), sbits(hi))
                return V(z3.If(nonzero(c), a.ext(w), b.ext(w)), lo, hi)
            if op == "~":
                a, = ops
                return mk(lambda x: ~x, -a.hi - 1, -a.lo - 1, a)
            if op == "+":
                a, b = ops
                return mk(lambda x, y: x + y, a.lo + b.lo, a.hi + b.hi, a, b)
            if op == "*":
                a, b = ops
                c = [a.lo*b.lo, a.lo*b.hi, a.hi*b.lo, a.hi*b.hi]
                return mk(lambda x, y: x * y, min(c), max(c), a, b)
            if op in ("&", "|", "^"):
                a, b = ops
                w = max(a.w, b.w)
                f = {"&": lambda x, y: x & y, "|": lambda x, y: x | y, "^": lambda x, y: x ^ y}[op]
                if a.lo >= 0 and b.lo >= 0:
                    if op == "&": lo, hi = 0, min(a.hi, b.hi)
                    else:         lo, hi = 0, (1 << max(a.hi.bit_length(), b.hi.bit_length())) - 1
                elif op == "&" and (a.lo >= 0 or b.lo >= 0):
                    lo, hi = 0, (a.hi if a.lo >= 0 else b.hi)
                    if a.lo >= 0 and b.lo >= 0: hi = min(a.hi, b.hi)
                else:
                    lo, hi = -(1 << (w-1)), (1 << (w-1)) - 1
                return mk(f, lo, hi, a, b)
            if op == ">>>":
                a, b = ops
                assert b.lo >= 0, "negative shift"
                lo = a.lo >> b.lo if a.lo >= 0 else a.lo >> b.lo
                lo = min(a.lo >> b.lo, a.lo >> b.hi); hi = max(a.hi >> b.lo, a.hi >> b.hi)
                return mk(lambda x, y: x >> y, lo, hi, a, b)  # z3 >> on BitVec is arithmetic
            if op == "<<<":
                a, b = ops
                assert b.lo >= 0 and b.hi < 4096, "shift too wide"
                c = [a.lo << b.lo, a.lo << b.hi, a.hi << b.lo, a.hi << b.hi]
                return mk(lambda x, y: x << y, min(c), max(c), a, b)
            cmpf = {"<": lambda x, y: x < y, "<=": lambda x, y: x <= y, "==": lambda x, y: x == y,
                    "!=": lambda x, y: x != y, ">": lambda x, y: x > y, ">=": lambda x, y: x >= y}
            if op in cmpf:
                a, b = ops
                w = max(a.w, b.w)
                return b2v(cmpf[op](a.ext(w), b.ext(w)))
            raise NotImplementedError(op)
        if isinstance(node, _Slice):
            v = self.eval(node.value, rd, post)
            n = node.stop - node.start
            if n <= 0: return V.const(0)                      # empty slice: the real Evaluator sums over an empty bit range
            bits = z3.Extract(node.stop - 1, node.start, v.ext(max(v.w, node.stop)))
            return from_bits(bits, False)
        if isinstance(node, Cat):
            parts = []
            for e in node.l:
                nb = len(e)
                if nb == 0: continue
                parts.append(low_bits(self.eval(e, rd, post), nb))
            if not parts: return V.const(0)
            bits = z3.Concat(*reversed(parts)) if len(parts) > 1 else parts[0]
            return from_bits(bits, False)
        if isinstance(node, Replicate):
            nb = len(node.v)
            b = low_bits(self.eval(node.v, rd, post), nb)
            bits = z3.Concat(*([b]*node.n)) if node.n > 1 else b
            return from_bits(bits, False)
        if isinstance(node, _ArrayProxy):
            k = self.eval(node.key, rd, post)
            ch = [self.eval(c, rd, post) for c in node.choices]
            lo, hi = min(c.lo for c in ch), max(c.hi for c in ch)
            w = max(sbits(lo), sbits(hi))
            r = ch[-1].ext(w)
            for i in reversed(range(len(ch) - 1)):
                r = z3.If(k.t == z3.BitVecVal(i, k.w), ch[i].ext(w), r)
            if k.lo < 0:
                # Evaluator: choices[min(len - 1, key)] - a negative key is a Python negative index (-1 = last element); below -len the simulator raises
                if k.lo < -len(ch): raise Unsupported(f"Array key may be below -{len(ch)}: the simulator raises IndexError there")
                for j in range(max(k.lo, -len(ch)), 0):
                    r = z3.If(k.t == z3.BitVecVal(j, k.w), ch[j].ext(w), r)
            return V(r, lo, hi)
        if isinstance(node, ClockSignal):
            return self.eval(self.cds[node.cd].clk, rd, post)
        if isinstance(node, ResetSignal):
            rst = self.cds[node.cd].rst
            if rst is None:
                assert node.allow_reset_less
                return V.const(0)
            return self.eval(rst, rd, post)
        raise NotImplementedError(type(node))

    # ---- assignment (mirror Evaluator.assign); mods: Signal -> BV(nbits); guarded by path cond ----
    def assign(self, node, value, rd, mods, cond):
        if isinstance(node, Signal):
            new = low_bits(value, node.nbits)
            old = mods.get(node)
            if old is None: old = rd(node)   # "unmodified" == keep (handled by caller semantics)
            mods[node] = new if cond is None else z3.If(cond, new, old)
            return
        if isinstance(node, Cat):
            shift = 0
            for e in node.l:
                nb = len(e)
                part = from_bits(z3.Extract(shift + nb - 1, shift, value.ext(max(value.w, shift + nb))), False)
                self.assign(e, part, rd, mods, cond)
                shift += nb
            return
        if isinstance(node, _Slice):
            full = self.eval(node.value, rd, mods)   # postcommit read
            nb = len(node.value)
            fb = low_bits(full, max(nb, node.stop))
            W = fb.size()
            vb = low_bits(value, node.stop - node.start)
            pieces = []
            if node.stop < W: pieces.append(z3.Extract(W-1, node.stop, fb))
            pieces.append(vb)
            if node.start > 0: pieces.append(z3.Extract(node.start-1, 0, fb))
            nv = z3.Concat(*pieces) if len(pieces) > 1 else pieces[0]
            signed = value_bits_sign(node.value)[1]
            self.assign(node.value, from_bits(nv, False), rd, mods, cond)
            return
        if isinstance(node, _ArrayProxy):
            k = self.eval(node.key, rd, None)
            n = len(node.choices)
            if k.lo < -n: raise Unsupported(f"Array key may be below -{n}: the simulator raises IndexError there")
            for i, c in enumerate(node.choices):
                if i < n - 1: ci = k.t == z3.BitVecVal(i, k.w)
                elif k.lo >= 0: ci = z3.UGE(k.t, z3.BitVecVal(i, k.w)) if k.hi >= i else z3.BoolVal(False)
                else:           ci = (k.t >= z3.BitVecVal(i, k.w)) if k.hi >= i else z3.BoolVal(False)           # signed comparison: the key may be negative
                if k.lo < 0 and i - n >= k.lo: ci = z3.Or(ci, k.t == z3.BitVecVal(i - n, k.w))                  # Python negative index: key -1 selects the last element, ...
                cc = ci if cond is None else z3.And(cond, ci)
                self.assign(c, value, rd, mods, cc)
            return
        raise NotImplementedError(type(node))

    def execute(self, stmts, rd, mods, cond=None):
        for s in stmts:
            if isinstance(s, _Assign):
                self.assign(s.l, self.eval(s.r, rd, None), rd, mods, cond)
            elif isinstance(s, If):
                c = self.eval(s.cond, rd, None)
                nb = len(s.cond)
                cb = low_bits(c, nb) != z3.BitVecVal(0, nb)
                self.execute(s.t, rd, mods, cb if cond is None else z3.And(cond, cb))
                self.execute(s.f, rd, mods, z3.Not(cb) if cond is None else z3.And(cond, z3.Not(cb)))
            elif isinstance(s, Case):
                nb, sg = value_bits_sign(s.test)
                t = low_bits(self.eval(s.test, rd, None), nb)
                notprev = []
                for k, v in s.cases.items():
                    if isinstance(k, Constant):
                        kb = z3.BitVecVal(k.value, nb)  # truncation of k.value to nb bits matches _truncate compare iff k fits
                        ck = t == kb
                        # Evaluator: k.value == _truncate(test, nb, sg)  -> k.value must lie in the truncated range
                        if sg:
                            if not (-(1 << (nb-1)) <= k.value < (1 << (nb-1))): ck = z3.BoolVal(False)
                        elif not (0 <= k.value < (1 << nb)): ck = z3.BoolVal(False)
                        cc = z3.And(*(notprev + [ck]))
                        self.execute(v, rd, mods, cc if cond is None else z3.And(cond, cc))
                        notprev.append(z3.Not(ck))
                if "default" in s.cases:
                    cc = z3.And(*notprev) if notprev else z3.BoolVal(True)
                    self.execute(s.cases["default"], rd, mods, cc if cond is None else z3.And(cond, cc))
            elif isinstance(s, collections.abc.Iterable):
                self.execute(s, rd, mods, cond)
            elif isinstance(s, (Display, Finish)):
                pass
            else:
                raise NotImplementedError(type(s))

def copy_fragment(f):
    """shallow copy: statement objects shared (never mutated by the lowering passes), containers fresh"""
    return _Fragment(list(f.comb), {k: list(v) for k, v in f.sync.items()}, set(f.specials), list(f.clock_domains))

def signame(s):
    n = s.name_override or (s.backtrace[-1][0] if getattr(s, "backtrace", None) else None) or "sig"
    return f"{n}#{s.duid}"

class TS:
    """Transition system extracted from a module."""
    def __init__(self, module, inputs=()):
        f0 = module if isinstance(module, _Fragment) else module.get_fragment()
        self.f0 = f0
        f = copy_fragment(f0)
        self.f = f
        self.orig_signals = set(list_signals(f0))
        for sp in f0.specials:
            try: self.orig_signals |= set(sp.list_ios(True, True, True))
            except Exception: pass
        mta = MemoryToArray(); mta.transform_fragment(None, f)
        from litex.gen.sim.core import DummyAsyncResetSynchronizer
        f, lowered = lower_specials({AsyncResetSynchronizer: DummyAsyncResetSynchronizer}, f)
        self.f = f
        if f.specials: raise NotImplementedError(f"unsupported specials {f.specials}")
        for cdn in f.sync:
            if cdn not in f.clock_domains:
                f.clock_domains.append(ClockDomain(name=cdn, reset_less=True))
        insert_resets(f)
        self.sem = Sem(f.clock_domains, mta.replacements)
        self.mems = mta.replacements
        self.comb_targets = list_targets(f.comb)
        self.sync_targets = {cd: list_targets(st) for cd, st in f.sync.items()}
        allsync = set().union(*self.sync_targets.values()) if self.sync_targets else set()
        assert not (allsync & self.comb_targets), "signal driven by comb and sync"
        sigs = list_signals(f)
        for arr in self.mems.values(): sigs |= set(arr)
        self.signals = sigs
        self.state = sorted(allsync, key=lambda s: s.duid)
        self.inputs = list(inputs)
        self.var = {}
        for s in sigs | set(self.inputs):
            self.var[s] = z3.BitVec(signame(s), s.nbits)
        # constants: undriven, non-input
        self.consts = [s for s in sigs if s not in allsync and s not in self.comb_targets and s not in self.inputs]
        self._build()

    def rd(self, s):
        if s not in self.var:
            self.var[s] = z3.BitVec(signame(s), s.nbits)
            self.consts.append(s)
        return self.var[s]

    def _build(self):
        f = self.f
        # comb equations: each comb target == result of executing all comb statements with default reset
        mods = {}
        rd0 = lambda s: z3.BitVecVal(s.reset.value, s.nbits) if s in self.comb_targets else self.rd(s)
        # default: comb targets return to reset if nothing assigns; reads see committed values (self.rd)
        class R:  # read committed values, but 'old' for unassigned comb target = reset
            pass
        def rd_comb_old(s): return self.rd(s)
        # execute with reads from committed values; initial mods = reset for comb targets
        for t in self.comb_targets:
            mods[t] = z3.BitVecVal(t.reset.value & ((1 << t.nbits) - 1), t.nbits)
        self.sem.execute(f.comb, self.rd, mods)
        self.comb_eq = {t: mods[t] for t in self.comb_targets}
        # sync next-state per domain
        self.next = {}
        for cd, st in f.sync.items():
            m = {}
            self.sem.execute(st, self.rd, m)
            self.next[cd] = m
        self.const_eq = [self.rd(s) == z3.BitVecVal(s.reset.value & ((1 << s.nbits) - 1), s.nbits) for s in self.consts]

    def comb_constraints(self):
        return [self.var[t] == e for t, e in self.comb_eq.items()] + \
               [self.rd(s) == z3.BitVecVal(s.reset.value & ((1 << s.nbits) - 1), s.nbits) for s in self.consts]

    def init_constraints(self):
        return [self.var[s] == z3.BitVecVal(s.reset.value & ((1 << s.nbits) - 1), s.nbits) for s in self.state]
