"""3.12-aware replacement for migen.fhdl.tracer.get_var_name (harness-side shim, no repo edit)."""
import dis, functools
import migen.fhdl.tracer as T
@functools.lru_cache(maxsize=None)
def _instrs(code):
    ins = [i for i in dis.get_instructions(code) if i.opname != "CACHE"]
    return ins, {i.offset: n for n, i in enumerate(ins)}
_CALLS = {"CALL", "CALL_KW", "CALL_FUNCTION_EX", "CALL_FUNCTION", "CALL_FUNCTION_KW", "CALL_METHOD", "PRECALL"}
_SKIP  = {"LOAD_GLOBAL", "LOAD_ATTR", "LOAD_FAST", "LOAD_DEREF", "COPY", "DUP_TOP", "BUILD_LIST", "LOAD_FAST_CHECK", "LOAD_FAST_AND_CLEAR", "PUSH_NULL", "LOAD_NAME"}
def get_var_name(frame):
    ins, idx = _instrs(frame.f_code)
    n = idx.get(frame.f_lasti)
    if n is None or ins[n].opname not in _CALLS:
        return None
    n += 1
    while n < len(ins):
        op = ins[n].opname
        if op in ("STORE_NAME", "STORE_ATTR", "STORE_FAST", "STORE_DEREF", "STORE_GLOBAL"):
            return ins[n].argval
        if op in _SKIP:
            n += 1
            continue
        return None
    return None
def install():
    T.get_var_name = get_var_name
