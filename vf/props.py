"""per-property evidence metadata (level, explanation); functions/assumptions come from the contract modules"""
META = {
 "C03": dict(level="proof", explanation="STREAM-REFINE contracts on the real stream.py modules: ghost token queue, head/cap/idle postconditions, bounded presentation, per parameterisation, all inputs/schedules, unbounded time by induction"),
 "C15": dict(level="proof", explanation="one-step postconditions over all trigger and CSR-write valuations on the real EventManager/EventSource*/SharedIRQ behind a real CSRBank"),
 "C11": dict(level="proof", explanation="ghost wait counters against the real WaitTimer/Timeout/AXI(Lite)Timeout: forced termination exactly at expiry, transparency before, recovery after; fault point and schedule universally quantified"),
 "C18": dict(level="proof", explanation="combinational postconditions of encoder+decoder with a symbolic error vector, all data words, all single and double flip positions, per data width"),
 "C17": dict(level="proof", explanation="multi-cycle postconditions from an arbitrary register state of the real 8b/10b encoder/decoder pipelines"),
 "C12": dict(level="proof", explanation="one-step postconditions of the real CSR bank against a layout spec function, all inputs and register states"),
 "C06": dict(level="proof", explanation="per-cycle routing/ownership/response postconditions on the real Wishbone arbiter, decoder, shared interconnect and crossbar with real SoCRegion decoders"),
 "C07": dict(level="proof", explanation="symbolic-address (tracked byte) contracts on the real wishbone.SRAM and transaction-translation contracts on the real converters, remapper and CSR bridge"),
 "C16": dict(level="proof", explanation="layout/round-trip postconditions of Header, packet-level ghost contracts on Packetizer/Depacketizer/PacketFIFO, atomicity invariants on Arbiter/Dispatcher"),
 "C10": dict(level="proof", explanation="AXIBurst2Beat against the AMBA address formula (spec function) with a ghost beat index; converter address-channel translation postconditions"),
 "C04": dict(level="proof", explanation="hold-until-ready two-cycle postcondition and bounded-response (progress) obligations from every invariant state of the real stream/packet modules"),
}

ENGINES = [
 dict(name="E1 fhdl2smt+hwcontract", path="vf/fhdl2smt.py, vf/hw.py", serves_properties=["C03", "C04", "C06", "C07", "C08", "C09", "C10", "C11", "C12", "C15", "C16", "C17", "C18", "C19"],
      kind_free_text="FHDL fragment of the real module -> z3 transition system with the simulator's exact semantics; ghost state, assumptions, Houdini-filtered invariants, per-cycle/multi-cycle postconditions, bounded response, covers; counterexamples replayed on the real litex.gen.sim simulator"),
]
_HW_NOTE = ("Trusted: z3/cvc5; the 300-line symbolic evaluator vf/fhdl2smt.py (co-simulated against the real simulator on every run; every counterexample replayed on the real simulator); "
            "meta-lemmas and environment assumptions listed in the evidence file. Proofs are per elaborated parameterisation (grid), for all inputs/schedules and unbounded time.")
CLAIMS = {
 "C03": dict(engine="E1 fhdl2smt+hwcontract", level="proof", design_ref="DESIGN.md §3 C03",
             text="Every stream element of the grid is proved, for all inputs and all valid/ready schedules and unbounded time (inductive invariant), to present at its source exactly the head of a ghost queue fed by its sink handshakes (transformed by the element's documented function), never to accept beyond capacity and to present within a bounded number of cycles.",
             note=_HW_NOTE, technique="contract-based deductive verification: ghost-queue refinement contracts on the real FHDL, inductive invariants (Houdini), SMT (z3/cvc5)"),
 "C04": dict(engine="E1 fhdl2smt+hwcontract", level="proof", design_ref="DESIGN.md §3 C04",
             text="Hold-until-ready is a two-cycle postcondition proved from every invariant state under the producer-holds assumption; absence of deadlock/livelock is proved in bounded-response form (N cooperating cycles always move a token) for each element and for 2-3 element compositions through the real Pipeline.",
             note=_HW_NOTE + " Unbounded 'eventually' is replaced by bounded response.", technique="contract-based deductive verification: two-cycle postconditions and bounded-response obligations over inductive invariants, SMT (z3/cvc5)"),
}
def _hw(design_ref, text, extra="", technique="contract-based deductive verification: ghost-state contracts on the real FHDL, inductive invariants (Houdini), SMT (z3/cvc5)"):
    return dict(engine="E1 fhdl2smt+hwcontract", level="proof", design_ref=design_ref, text=text, note=_HW_NOTE + (" " + extra if extra else ""), technique=technique)
CLAIMS["C15"] = _hw("DESIGN.md §3 C15", "irq == OR(pending&enable); set / keep / clear / same-cycle race / isolation / level / status clauses are one-step postconditions proved over all trigger and CSR-write valuations for every source mix of the grid, behind a real CSRBank; SharedIRQ == OR.")
CLAIMS["C11"] = _hw("DESIGN.md §3 C11", "Ghost wait counters against the real WaitTimer, wishbone.Timeout (alone and inside InterconnectShared with arbitrary silent slaves / unmapped addresses), AXILiteTimeout, AXITimeout and the SoC error counter: termination with the error indication exactly at expiry, transparency before expiry, reload after; fault point and schedule universally quantified.",
                    "AXI(-Lite) time-outs proved for single-outstanding masters; listed known findings: accepted-then-silent slaves, crossbars ignoring timeout_cycles.")
CLAIMS["C18"] = _hw("DESIGN.md §3 C18", "For every data width of the grid the real encoder and decoder are composed with a symbolic error vector; no-error, single-flip (symbolic position, parity bit included), double-flip (two symbolic positions) and checking-disabled obligations are discharged for all data words by SMT; geometry functions checked exhaustively over k=1..128.",
                    technique="contract-based deductive verification: combinational postconditions on the real FHDL for all data words and symbolic flip positions, SMT portfolio (z3 4.8.12 / z3 5.1 / cvc5)")
CLAIMS["C17"] = _hw("DESIGN.md §3 C17", "Round trip, code-word weight / running-disparity transitions, invalid detection, run length <= 5 and comma freedom are multi-cycle postconditions of the real Encoder+Decoder proved from an arbitrary register state for all 256 data and 12 control symbols, both disparities, 1-4 words, both bit orders; stalls by clock-enable frame obligations.",
                    technique="contract-based deductive verification: multi-cycle postconditions from an arbitrary state of the real FHDL pipelines, SMT (z3)")
CLAIMS["C12"] = _hw("DESIGN.md §3 C12", "Per-cycle write / read / strobe / frame / atomic-commit / device-write / field / uniqueness postconditions of the real CSRBank and CSR classes against a layout spec function, for all bus and device input valuations and all register states, on a grid of register sets x bus width x ordering x paging; csr_bus.Interconnect(Shared) read path; fixed-location placement as a labelled bounded stand-in.",
                    "_sort_gathered_items is only checked by exhaustive small-scope enumeration (bounded, not counted as proved); CSR SRAM windows not covered yet.")
CLAIMS["C06"] = _hw("DESIGN.md §3 C06", "Mutual exclusion, ownership until the master drops cyc, routing by the real SoCRegion.decoder window (and to no slave when nothing matches), forwarding, ack/err only to the owner, one termination per request, read data of the answering slave and bounded fairness of the round-robin are per-cycle postconditions proved for all request patterns and slave latencies on a grid of shared/crossbar interconnects; each decoder is proved equal to its power-of-two window over all addresses.",
                    "Known finding: Decoder(register=True) returns stale-select read data when a slave acknowledges in the first cycle.")
CLAIMS["C07"] = _hw("DESIGN.md §3 C07", "wishbone.SRAM (classic cycles; read-only; init) by the symbolic-address method: a rigid arbitrary byte is tracked by a ghost and every acknowledged read of it returns the ghost, writes change it iff selected, one ack per cycle; Down/UpConverter, Converter, Remapper and Wishbone2CSR by transaction-translation contracts (exact sub-access address/data/select mapping, skip of unselected lanes, read-data assembly, exactly one ack / one CSR access).",
                    "Cache, SRAM burst cycles and converter burst tags are not covered (tier 2); meta-lemmas M3/M5 are paper arguments.")
CLAIMS["C16"] = _hw("DESIGN.md §3 C16", "Header.encode/decode against a bit-level layout spec and as inverses (all field values); Packetizer and Depacketizer (aligned headers) emit/consume exactly the prescribed header words then pass the payload through; PacketFIFO releases only complete packets with that packet's parameters; Arbiter and Dispatcher never change grant/destination inside a started packet (selector changes mid-packet are free inputs).",
                    "Unaligned (residue) packetizer/depacketizer modes are not covered.")
CLAIMS["C10"] = _hw("DESIGN.md §3 C10", "AXIBurst2Beat: with address, len, size and burst type all symbolic, the beat address (at transfer-size granularity) equals the AMBA formula of the ghost beat index, first/last mark n==0/n==len, exactly len+1 beats, request consumed once with the last beat, stalled beats held. AXIUp/DownConverter: translated AW/AR transfer the same bytes from the same aligned address for INCR full-width bursts; side bands.",
                    "Known findings: down-converter len overflow, narrow bursts, R side band not held.")
_NYB = "check not built yet in this session (see DESIGN.md build order); will be claimed when its contracts are committed"
NOT_APPLICABLE = {p: _NYB for p in ["C%02d" % i for i in range(1, 21)]}
