"""Elaboration of real LiteX modules from the /repo working tree (or VERIF_REPO=<scratch copy>) with
 - the 3.12 tracer shim (names as on a supported interpreter; harness side, no /repo edit),
 - capture of __init__/do_finalize locals so that contracts can name internal registers (hints only)."""
import os, sys
REPO = os.environ.get("VERIF_REPO", "/repo")
if REPO not in sys.path[:1]:
    sys.path.insert(0, REPO)
os.environ.setdefault("LITEX_VERIF", "1")
from . import shim312
shim312.install()
import logging
logging.disable(logging.CRITICAL)      # litex.soc.integration.soc logs the whole SoC hierarchy at INFO

_CAP = {}
_KEEP = []   # keep instances alive so that id() keys stay unique
def _prof(frame, event, arg):
    if event == "return":
        co = frame.f_code
        if co.co_name in ("__init__", "do_finalize") or co.co_name.startswith("build_"):
            slf = frame.f_locals.get("self")
            if slf is not None:
                d = _CAP.setdefault(id(slf), {})
                d.update(frame.f_locals)
                _KEEP.append(slf)

class capture:
    def __enter__(self):
        self._old = sys.getprofile(); sys.setprofile(_prof); return self
    def __exit__(self, *a):
        sys.setprofile(self._old)

def locals_of(obj):
    """locals of obj's constructor frames (merged over the class hierarchy)"""
    return _CAP.get(id(obj), {})

def L(obj, name, default=None):
    return locals_of(obj).get(name, default)

def mk(cls, *a, **k):
    with capture():
        return cls(*a, **k)

def restore_stderr():
    """SoCError.__init__ sets sys.stderr = None"""
    if sys.stderr is None:
        sys.stderr = sys.__stderr__
