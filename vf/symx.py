"""Prototype: exhaustive path exploration of real CPython functions with z3-backed int proxies."""
import z3, itertools
class PathEnd(Exception): pass
class Ctx:
    def __init__(self):
        self.decisions = []; self.pos = 0; self.pc = []; self.solver = z3.Solver(); self.n = 0
    def fresh_int(self, name):
        self.n += 1; return SymInt(z3.Int(f"{name}"))
    def assume(self, b):
        b = b.t if isinstance(b, SymBool) else z3.BoolVal(bool(b))
        self.pc.append(b)
        if self.solver.check(*self.pc) == z3.unsat: raise PathEnd()          # unknown is NOT infeasible: the path is kept
    def branch(self, cond):
        # follow recorded decision if any, else try True first
        if self.pos < len(self.decisions):
            d = self.decisions[self.pos]
        else:
            t_ok = self.solver.check(*self.pc, cond) != z3.unsat                 # unknown counts as feasible (never drop a path silently)
            f_ok = self.solver.check(*self.pc, z3.Not(cond)) != z3.unsat
            if t_ok and f_ok: d = True; self.decisions.append(True)
            elif t_ok: d = "T"; self.decisions.append("T")
            elif f_ok: d = "F"; self.decisions.append("F")
            else: raise PathEnd()
        self.pos += 1
        r = d in (True, "T")
        self.pc.append(cond if r else z3.Not(cond))
        return r
CTX = None
def _t(x):
    if isinstance(x, SymInt): return x.t
    if isinstance(x, bool): return z3.IntVal(int(x))
    if isinstance(x, int): return z3.IntVal(x)
    return NotImplemented
class SymBool:
    def __init__(self, t): self.t = t
    def __bool__(self): return CTX.branch(self.t)
    def __and__(self, o): return SymBool(z3.And(self.t, o.t if isinstance(o, SymBool) else z3.BoolVal(bool(o))))
    def __or__(self, o):  return SymBool(z3.Or(self.t, o.t if isinstance(o, SymBool) else z3.BoolVal(bool(o))))
    def __invert__(self): return SymBool(z3.Not(self.t))
class SymInt:
    def __init__(self, t): self.t = t
    def _b(op):
        def f(self, o):
            ot = _t(o)
            if ot is NotImplemented: return NotImplemented
            return SymInt(op(self.t, ot))
        def r(self, o):
            ot = _t(o)
            if ot is NotImplemented: return NotImplemented
            return SymInt(op(ot, self.t))
        return f, r
    __add__, __radd__ = _b(lambda a, b: a + b)
    __sub__, __rsub__ = _b(lambda a, b: a - b)
    __mul__, __rmul__ = _b(lambda a, b: a * b)
    __mod__, __rmod__ = _b(lambda a, b: a % b)
    __floordiv__, __rfloordiv__ = _b(lambda a, b: a / b)
    def _c(op):
        def f(self, o):
            ot = _t(o)
            if ot is NotImplemented: return NotImplemented
            return SymBool(op(self.t, ot))
        return f
    __lt__ = _c(lambda a, b: a < b); __le__ = _c(lambda a, b: a <= b)
    __gt__ = _c(lambda a, b: a > b); __ge__ = _c(lambda a, b: a >= b)
    __eq__ = _c(lambda a, b: a == b); __ne__ = _c(lambda a, b: a != b)
    __hash__ = None
    def __bool__(self): return CTX.branch(self.t != 0)
    def __format__(self, spec): return f"<sym:{self.t}>"
    def __str__(self): return f"<sym:{self.t}>"
    __repr__ = __str__
def explore(fn):
    """run fn(ctx) over all feasible paths; fn returns list of (name, z3 bool obligation) to prove under pc"""
    global CTX
    stack = [[]]; results = []; paths = 0
    while stack:
        dec = stack.pop()
        CTX = Ctx(); CTX.decisions = list(dec)
        try:
            out = fn(CTX); paths += 1
            for name, ob in out:
                s = z3.Solver(); s.add(*CTX.pc); s.add(z3.Not(ob))
                r = s.check()
                results.append((name, r, s.model() if r == z3.sat else None))
        except PathEnd:
            pass
        # schedule alternatives: for each new two-way decision beyond len(dec), flip
        d = CTX.decisions
        for i in range(len(dec), len(d)):
            if d[i] is True:
                stack.append(d[:i] + [False])
    return paths, results
