"""fast DAG-aware helpers (z3.z3util.get_vars walks expressions as trees and prints every node)"""
import z3
def get_vars(e):
    seen = set(); out = {}
    stack = [e]
    while stack:
        x = stack.pop()
        i = x.get_id()
        if i in seen: continue
        seen.add(i)
        if z3.is_const(x):
            if x.decl().kind() == z3.Z3_OP_UNINTERPRETED: out[i] = x
            continue
        if z3.is_app(x): stack.extend(x.children())
        elif z3.is_quantifier(x): stack.append(x.body())
    return list(out.values())
