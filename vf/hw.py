"""hwcontract: contracts on real LiteX hardware modules (E1).  One HwCheck = one module instance at one parameterisation.
Ghost state, environment assumptions, invariant candidates (Houdini-filtered, hand-written + generated), per-cycle
postconditions, multi-cycle postconditions, bounded response, covers (BMC from reset), witness search + replay on the
REAL litex.gen.sim simulator, random co-simulation of the extraction against the real simulator."""
import json, os, random, time, z3
from .fhdl2smt import TS, copy_fragment, signame
from . import solvers
from .zutil import get_vars

class Unsupported(Exception): pass
class SidecarMismatch(Exception):
    """the code under contract no longer has the internal shape (register, loop) a sidecar hint refers to: the case is UNDECIDED, not a checker fault"""

def K(val, width):
    """width-checked constant (never silently truncates)"""
    if not (0 <= val < (1 << width)): raise ValueError(f"constant {val} does not fit {width} bits")
    return z3.BitVecVal(val, width)
def zx(x, w):
    if x.size() > w: raise ValueError("zx narrows")
    return x if x.size() == w else z3.ZeroExt(w - x.size(), x)
def sx(x, w):
    if x.size() > w: raise ValueError("sx narrows")
    return x if x.size() == w else z3.SignExt(w - x.size(), x)
def b(x):   # 1-bit BV -> Bool
    if x.size() != 1: raise ValueError("b() on non 1-bit")
    return x == z3.BitVecVal(1, 1)
def bv1(cond): return z3.If(cond, z3.BitVecVal(1, 1), z3.BitVecVal(0, 1))
def eqc(x, val): return x == K(val, x.size())
def _w(x, val): return max(x.size(), val.bit_length() + 1)
def ult(x, val): return z3.ULT(zx(x, _w(x, val)), K(val, _w(x, val)))
def ule(x, val): return z3.ULE(zx(x, _w(x, val)), K(val, _w(x, val)))
def ugt(x, val): return z3.UGT(zx(x, _w(x, val)), K(val, _w(x, val)))
def uge(x, val): return z3.UGE(zx(x, _w(x, val)), K(val, _w(x, val)))
def cat(*parts):
    """Concat, msb first; tolerates a single part"""
    parts = [p for p in parts if p is not None]
    return z3.Concat(*parts) if len(parts) > 1 else parts[0]
def ext(x, hi, lo): return z3.Extract(hi, lo, x)
def AND(*a): return z3.And(*a) if a else z3.BoolVal(True)
def OR(*a): return z3.Or(*a) if a else z3.BoolVal(False)
def NOT(a): return z3.Not(a)
def IMP(a, c): return z3.Implies(a, c)
def ITE(c, a, d): return z3.If(c, a, d)

PROVED, OK, VIOLATED, NOINPUT, UNKNOWN, VACUOUS, FAULT, BOUNDED_OK = \
    "proved", "ok", "violated", "failed-no-input", "unknown", "vacuous", "checker-fault", "bounded-ok"

def res(name, kind, status, secs=0.0, backend="", **info):
    d = dict(name=name, kind=kind, status=status, secs=round(secs, 3), backend=backend)
    d.update(info); return d

class HwCheck:
    def __init__(self, name, dut, inputs, clock="sys", timeout_ms=None, ts=None):
        self.name = name; self.dut = dut; self.clock = clock
        self.ts = ts if ts is not None else TS(dut, inputs=list(inputs)); self.var = self.ts.var
        self.nxt = self.ts.next.get(clock, {}) if clock is not None else {}
        self.ghosts = {}     # name -> [var, init_int, next_expr]
        self.assumes = []; self.hints = {}; self.ensures = {}; self.responds = {}; self.covers = {}; self.seqs = {}
        self.findings = {}   # name -> (clause expected to FAIL on the unchanged tree, description)
        tier = os.environ.get("VERIF_TIER", "quick")
        self.timeout_ms = timeout_ms or (20000 if tier == "quick" else 120000)
        self.rigid = set(); self.consts_decl = {}
        self.results = []; self.assumption_notes = []
        self.use_auto = False; self.auto_width = 8
        self.bmc_depth = 16; self.bmc_time = 60
        self.cosim_cycles = 24
        self.skip_cosim = False       # designs the single-clock co-simulation cannot drive (several clock domains): stated in the case's assumptions
        self.input_constraints = []   # for cosim/replay random stimulus (callables: dict->bool) unused by proofs
    # ---- terms
    def v(self, sig): return self.ts.rd(sig)
    def n(self, sig):
        """value of sig in the next cycle: registers -> next-state term; comb outputs -> their function of next state and
        fresh next-cycle inputs; constants -> themselves; free inputs have no next value"""
        if sig in self.nxt: return self.nxt[sig]
        for cd, nx in self.ts.next.items():
            if sig in nx: return nx[sig]
        if sig in self.ts.comb_targets: return self.primed(self.v(sig))
        if sig in self.ts.inputs: raise ValueError(f"n() of a free input {sig!r}")
        return self.v(sig)
    def inline_next(self, sig):
        """value of a comb output in the next cycle (same next-cycle inputs are NOT assumed: inputs become fresh)"""
        return self.primed(self.v(sig))
    def const(self, name, width):
        """rigid symbolic constant (same value in every cycle), e.g. the tracked address of the symbolic-address method"""
        c = z3.BitVec(f"c_{name}", width); self.rigid.add(str(c)); self.consts_decl[name] = c; return c
    def ghost(self, name, width, init=0):
        var = z3.BitVec(f"g_{name}", width); self.ghosts[name] = [var, init, None]; return var
    def ghost_next(self, var, expr):
        for g in self.ghosts.values():
            if g[0] is var or g[0].eq(var):
                if expr.size() != g[0].size(): raise ValueError(f"ghost width mismatch {g[0]}: {expr.size()} vs {g[0].size()}")
                g[2] = expr; return
        raise KeyError(str(var))
    def view(self, name, expr):
        """a named slice/function of ghosts offered to the candidate generator like a ghost (e.g. one field of a queued token)"""
        if not hasattr(self, "ghost_views"): self.ghost_views = []
        self.ghost_views.append((name, expr))
    def prev(self, name, expr, init=0):
        """ghost register holding last cycle's value of expr"""
        g = self.ghost("prev_" + name, expr.size(), init); self.ghost_next(g, expr); return g
    def assume(self, e, note=None):
        self.assumes.append(e)
        if note: self.assumption_notes.append(note)
    def hint(self, name, e): self.hints[name] = e
    def ensure(self, name, e): self.ensures[name] = e
    def finding(self, name, e, what):
        """clause that is expected to be VIOLATED on the unchanged tree (a listed known finding); reported as such"""
        self.findings[name] = (e, what)
    def respond(self, name, cooperate, progress, n, start=None): self.responds[name] = (cooperate, progress, n, start)
    def cover(self, name, e, depth=12): self.covers[name] = (e, depth)
    def ensure_seq(self, name, fn, steps=2):
        """multi-cycle postcondition from an arbitrary Inv state: fn(at) -> z3 Bool where at(expr, k) is expr in cycle k"""
        self.seqs[name] = (fn, steps)
    # ---- machinery
    def _pairs(self):
        ps = [(self.v(s), self.n(s)) for s in self.ts.state]
        for nme, g in self.ghosts.items():
            if g[2] is None: raise ValueError(f"ghost {nme} has no next")
            ps.append((g[0], g[2]))
        return ps
    def _comb_inline_map(self):
        """comb target var -> expression over state / input / constant vars only (acyclic designs); None if cyclic"""
        if getattr(self, "_cim", None) is not None: return self._cim
        eqs = {str(self.ts.var[t]): (self.ts.var[t], e) for t, e in self.ts.comb_eq.items()}
        done = {}; visiting = set()
        def go(n):
            if n in done: return done[n]
            if n in visiting: raise Unsupported(f"combinational cycle through {n}")
            visiting.add(n)
            var, e = eqs[n]
            deps = [x for x in get_vars(e) if str(x) in eqs]
            sub = [(x, go(str(x))) for x in deps]
            r = z3.substitute(e, *sub) if sub else e
            visiting.discard(n); done[n] = r
            return r
        self._cim = (eqs, go)
        return self._cim
    def inline_comb(self, e):
        eqs, go = self._comb_inline_map()
        vs = [x for x in get_vars(e) if str(x) in eqs]
        if not vs: return e
        return z3.substitute(e, *[(x, go(str(x))) for x in vs])
    def primed(self, e):
        """e in the next cycle: comb outputs are inlined to functions of state/inputs first; state and ghosts are
        replaced by their next-state terms, inputs by fresh unconstrained next-cycle inputs (sound, possibly stronger)"""
        e = self.inline_comb(e)
        invars = {str(self.v(i)) for i in self.ts.inputs}
        sub = list(self._pairs())
        for x in get_vars(e):
            if str(x) in invars: sub.append((x, z3.Const(str(x) + "'", x.sort())))
        return z3.substitute(e, *sub)
    def base(self): return self.ts.comb_constraints() + self.assumes
    def _ginit(self, g):
        """ghost initial value: an int, or a z3 term over rigid constants (e.g. initial memory content at the tracked address)"""
        return K(g[1], g[0].size()) if isinstance(g[1], int) else g[1]
    def init_eqs(self):
        return self.ts.init_constraints() + [g[0] == self._ginit(g) for g in self.ghosts.values()]
    def _solve(self, cs, timeout_ms=None, order=None):
        order = order or getattr(self, "solver_order", ("api", "z3old", "cvc5"))
        st, m, be, secs = solvers.solve(cs, timeout_ms or self.timeout_ms, order=order)
        if st == "sat" and m is None:
            # a CLI back end answered sat: ask the API for a model (counterexamples are needed for replay)
            st2, m2, be2, s2 = solvers.solve(cs, 4 * (timeout_ms or self.timeout_ms), order=("api",))
            if st2 == "sat": return st2, m2, be + "+" + be2, secs + s2
            if st2 == "unsat": return "unknown", None, be + " vs " + be2 + " DISAGREE", secs + s2
        if st == "unknown" and timeout_ms is None and not getattr(self, "no_long_retry", False):
            # every back end ran out of its budget (typically a loaded machine): one long retry so that verdicts do not flip with the load
            st2, m2, be2, s2 = solvers.solve(cs, 8 * self.timeout_ms, order=("api",))
            if st2 in ("sat", "unsat"): return st2, m2, be2 + "(long retry)", secs + s2
        return st, m, be, secs
    def _allvars(self, extra=()):
        vs = {}
        def add(e):
            for x in get_vars(e): vs[str(x)] = x
        for c in self.base() + list(extra): add(c)
        for a, e in self._pairs(): add(a); add(e)
        for c in self.init_eqs(): add(c)
        return [vs[k] for k in sorted(vs)]
    def _at(self, allvars):
        rigid = self.rigid
        names = {str(x) for x in allvars if str(x) not in rigid}
        cache = {}
        def at(e, k):
            # substitute only the variables that occur in e (the per-call cost of z3.substitute grows with the number of pairs)
            m = cache.setdefault(k, {}); pairs = []
            for x in get_vars(e):
                n = str(x)
                if n not in names: continue
                c = m.get(n)
                if c is None: c = m[n] = z3.Const(f"{n}@{k}", x.sort())
                pairs.append((x, c))
            return z3.substitute(e, *pairs) if pairs else e
        return at
    # ---- generated invariant candidates
    def auto_hints(self, max_width=8):
        regs = [(f"r:{signame(s)}", self.v(s)) for s in self.ts.state if s.nbits <= max_width]
        ghosts = [(n, g[0]) for n, g in self.ghosts.items() if g[0].size() <= max_width + 1]
        ghosts += [(n, e) for n, e in getattr(self, "ghost_views", []) if e.size() <= max_width + 1]
        H = self.hints.setdefault
        for rn, r in regs:
            for gn, g in ghosts:
                if r.size() <= g.size(): H(f"auto:{rn}=={gn}", zx(r, g.size()) == g)
                if r.size() == 1 and g.size() == 1: H(f"auto:{rn}==~{gn}", r == ~g)
        ones = [(rn, r) for rn, r in regs if r.size() == 1] + [(gn, g) for gn, g in ghosts if g.size() == 1]
        for an, a in ones:
            for bn, b_ in ones:
                if an != bn:
                    H(f"auto:{an}->{bn}", z3.Implies(a == K(1, 1), b_ == K(1, 1)))
                    H(f"auto:{an}->!{bn}", z3.Implies(a == K(1, 1), b_ == K(0, 1)))
        small = [(rn, r) for rn, r in regs if 1 < r.size() <= 3] + [(gn, g) for gn, g in ghosts if 1 < g.size() <= 3]
        for an, a in ones:
            for bn, b_ in small:
                H(f"auto:{an}->{bn}==0", z3.Implies(a == K(1, 1), b_ == K(0, b_.size())))
        lits = [(an, a == K(1, 1)) for an, a in ones] + [("!" + an, a == K(0, 1)) for an, a in ones]
        for rn, r in regs:
            for gn, g in ghosts:
                if r.size() <= g.size():
                    for ln, l in lits: H(f"auto:{ln}->{rn}=={gn}", z3.Implies(l, zx(r, g.size()) == g))
        for gn, g in ghosts:
            if 1 < g.size() <= 2:
                for kv in range(1 << g.size()):
                    for ln, l in lits:
                        for bn, b_ in ones:
                            H(f"auto:{ln}&{gn}=={kv}->{bn}", z3.Implies(z3.And(l, g == K(kv, g.size())), b_ == K(1, 1)))
        vals = []
        for bn, b_ in small:
            for kv in range(1 << b_.size()): vals.append((f"{bn}=={kv}", b_ == K(kv, b_.size())))
        for vn, vl in vals:
            for an, a in ones:
                H(f"auto:{vn}->{an}", z3.Implies(vl, a == K(1, 1))); H(f"auto:{vn}->!{an}", z3.Implies(vl, a == K(0, 1)))
                H(f"auto:{an}->{vn}", z3.Implies(a == K(1, 1), vl))
            for rn, r in regs:
                for gn, g in ghosts:
                    if r.size() <= g.size() and (r.size() > 3 or len(vals) * len(regs) * len(ghosts) < 4000): H(f"auto:{vn}->{rn}=={gn}", z3.Implies(vl, zx(r, g.size()) == g))
        if len(lits) <= 24:
            for i, (l1n, l1) in enumerate(lits):
                for l2n, l2 in lits[i + 1:]:
                    for bn, b_ in ones: H(f"auto:{l1n}&{l2n}->{bn}", z3.Implies(z3.And(l1, l2), b_ == K(1, 1)))
        return len(self.hints)
    def houdini(self):
        cands = dict(self.hints); dropped = []
        t0 = time.time()
        # initiation: one combined query, eliminate by model
        initc = self.init_eqs() + self.base()       # assumptions (environment of cycle 0, rigid constants) hold in the initial cycle too
        while cands:
            st, m, _, _ = self._solve(initc + [z3.Not(z3.And(*cands.values()))], order=("api",))
            if st not in ("sat", "unsat"): st, m, _, _ = self._solve(initc + [z3.Not(z3.And(*cands.values()))], timeout_ms=8 * self.timeout_ms, order=("api",))
            if st == "unsat": break
            if st != "sat": raise Unsupported("houdini(init): solver unknown")
            bad = [k for k, e in cands.items() if not z3.is_true(m.eval(e, model_completion=True))]
            if not bad: raise Unsupported("houdini(init): no falsified candidate in model")
            for k in bad: dropped.append((k, "init")); del cands[k]
        primed_all = {}
        for k, e in list(cands.items()):
            try: primed_all[k] = self.primed(e)
            except Unsupported: dropped.append((k, "comb-cycle")); del cands[k]
        while cands:
            inv = list(cands.values())
            q = self.base() + inv + [z3.Not(z3.And(*[primed_all[k] for k in cands]))]
            st, m, _, _ = self._solve(q, order=("api",))
            if st not in ("sat", "unsat"): st, m, _, _ = self._solve(q, timeout_ms=8 * self.timeout_ms, order=("api",))      # a loaded machine must not flip a verdict: one long retry
            if st == "unsat": break
            if st != "sat": raise Unsupported("houdini(step): solver unknown")
            bad = [k for k in cands if not z3.is_true(m.eval(primed_all[k], model_completion=True))]
            if not bad: raise Unsupported("houdini(step): no falsified candidate in model")
            for k in bad: dropped.append((k, "step")); del cands[k]
        self.inv = list(cands.values()); self.kept = list(cands); self.dropped = dropped
        self.houdini_secs = time.time() - t0
        return cands
    # ---- BMC from reset
    def bmc(self, bad, depth, time_cap=None):
        time_cap = time_cap or self.bmc_time
        allvars = self._allvars([bad]); at = self._at(allvars)
        s = z3.Solver(); t0 = time.time()
        # cone of influence over ghosts: only ghosts that `bad` or the assumptions (transitively) read are unrolled
        need = set(); todo = [bad] + self.assumes
        gby = {str(g[0]): g for g in self.ghosts.values()}
        while todo:
            e = todo.pop()
            for x in get_vars(e):
                n = str(x)
                if n in gby and n not in need: need.add(n); todo.append(gby[n][2])
        pairs = [(a, e) for a, e in self._pairs() if not (str(a) in gby and str(a) not in need)]
        for c in self.ts.init_constraints() + [g[0] == self._ginit(g) for g in self.ghosts.values() if str(g[0]) in need]: s.add(at(c, 0))
        basec = self.base()
        for k in range(depth + 1):
            for c in basec: s.add(at(c, k))
            if k > 0:
                for a, e in pairs: s.add(at(a, k) == at(e, k - 1))
            left = time_cap - (time.time() - t0)
            if left <= 0: return None, None
            s.set("timeout", int(max(1, left) * 1000))
            s.push(); s.add(at(bad, k))
            r = s.check()
            if r == z3.sat:
                m = s.model()
                trace = [[m.eval(at(self.v(i), j), model_completion=True).as_long() for i in self.ts.inputs] for j in range(k + 1)]
                consts = {n: m.eval(c, model_completion=True).as_long() for n, c in self.consts_decl.items()}
                return k, dict(inputs=[signame(i) for i in self.ts.inputs], trace=trace, consts=consts)
            s.pop()
        return None, None
    def kinduction(self, g, k):
        """g holds in cycle k of every run that starts in an Inv state and satisfies g in cycles 0..k-1 (Inv kept as
        lemma on cycle 0 only; sound because Inv is inductive and g is proved from reset by the base case below)"""
        allvars = self._allvars([g]); at = self._at(allvars); pairs = self._pairs(); basec = self.base()
        cs = [at(c, 0) for c in self.inv]
        for j in range(k + 1):
            cs += [at(c, j) for c in basec]
            if j > 0: cs += [at(a, j) == at(e, j - 1) for a, e in pairs]
            if j > 0: cs += [at(c, j) for c in self.inv]
            if j < k: cs.append(at(g, j))
        st, _, be, secs = self._solve(cs + [z3.Not(at(g, k))])
        if st != "unsat": return False
        # base case: g holds in cycles 0..k-1 from reset
        cs = [at(c, 0) for c in self.init_eqs()]
        for j in range(k):
            cs += [at(c, j) for c in basec]
            if j > 0: cs += [at(a, j) == at(e, j - 1) for a, e in pairs]
        st, _, _, _ = self._solve(cs + [z3.Not(z3.And(*[at(g, j) for j in range(k)]))])
        return st == "unsat"
    # ---- real-simulator replay / co-simulation
    def _sim_watch(self, names):
        """map z3 var names -> readable handle in the real simulator: a Signal, or (Memory, index)"""
        bysig = {}
        for s, var in self.ts.var.items(): bysig[str(var)] = s
        mem_of = {}
        for mem, arr in self.ts.mems.items():
            for i, sig in enumerate(arr): mem_of[sig] = (mem, i)
        out = {}
        for n in names:
            s = bysig.get(n)
            if s is None: continue
            out[n] = mem_of.get(s, s)
        return out
    def real_sim(self, trace, watch_names):
        """drive the input trace into the real litex.gen.sim simulator (fresh shallow copy of the original fragment);
        rows[k][name] = value seen in cycle k (state s_k, inputs u_k)"""
        from litex.gen.sim import run_simulation
        from migen.fhdl.structure import Constant
        ins = self.ts.inputs
        watch = self._sim_watch(watch_names)
        rows = []
        saved = [(i, i.reset) for i in ins]
        try:
            for i, val in zip(ins, trace[0]):
                i.reset = Constant(val - (1 << i.nbits) if i.signed and val >> (i.nbits - 1) else val, (i.nbits, i.signed))     # the simulator starts from reset.value as it stands: keep it inside the signal's range
            def gen():
                for k in range(len(trace)):
                    vals = {}
                    for n, hnd in watch.items():
                        if isinstance(hnd, tuple): vals[n] = (yield hnd[0][hnd[1]])
                        else: vals[n] = (yield hnd)
                    rows.append(vals)
                    if k + 1 < len(trace):
                        for i, val in zip(ins, trace[k + 1]): yield i.eq(val)
                    yield
            clocks = {self.clock: 10} if self.clock else {"sys": 10}
            for k_, cdn in enumerate(sorted(c for c in self.ts.next if c not in clocks)): clocks[cdn] = 14 + 4 * k_      # other clock domains of the design run too (the generator follows self.clock)
            run_simulation(copy_fragment(self.ts.f0), {next(iter(clocks)): [gen()]} if len(clocks) > 1 else gen(), clocks=clocks)
        finally:
            for i, r in saved: i.reset = r
        return rows
    def replay(self, clause, wit):
        """evaluate `clause` cycle by cycle on the REAL simulator's values with ghosts advanced on those concrete values.
        returns (first cycle where clause is false | None, log)"""
        trace = wit["trace"]
        exprs = [clause] + [g[2] for g in self.ghosts.values()] + self.assumes
        allv = {}
        for e in exprs:
            for x in get_vars(e): allv[str(x)] = x
        rows = self.real_sim(trace, list(allv))
        consts = {f"c_{n}": val for n, val in wit.get("consts", {}).items()}
        ghost = self._ghost_init_values(consts)
        first_bad = None; log = []; assume_bad = None
        for k, vals in enumerate(rows):
            sub = []
            for n, x in allv.items():
                if n in vals: sub.append((x, z3.BitVecVal(vals[n] & ((1 << x.size()) - 1), x.size())))
                elif n in ghost: sub.append((x, z3.BitVecVal(ghost[n], x.size())))
                elif n in consts: sub.append((x, z3.BitVecVal(consts[n], x.size())))
            holds = z3.simplify(z3.substitute(clause, *sub))
            for a in self.assumes:
                if z3.is_false(z3.simplify(z3.substitute(a, *sub))) and assume_bad is None: assume_bad = k
            log.append((k, str(holds)))
            if z3.is_false(holds) and first_bad is None: first_bad = k
            newg = {}
            for g in self.ghosts.values():
                val = z3.simplify(z3.substitute(g[2], *sub))
                newg[str(g[0])] = val.as_long() if z3.is_bv_value(val) else None
            if any(v_ is None for v_ in newg.values()):
                log.append((k, "ghost not concrete")); break
            ghost = newg
        return first_bad, dict(log=log, assume_violated_at=assume_bad)
    def _ghost_init_values(self, consts):
        out = {}
        for g in self.ghosts.values():
            if isinstance(g[1], int): out[str(g[0])] = g[1]
            else:
                sub = [(c, z3.BitVecVal(consts.get(str(c), 0), c.size())) for c in get_vars(g[1])]
                val = z3.simplify(z3.substitute(g[1], *sub)) if sub else z3.simplify(g[1])
                out[str(g[0])] = val.as_long()
        return out
    def cosim(self, cycles=None, seed=0, trace=None):
        """random co-simulation: real simulator vs concrete evaluation of the extracted equations; returns #mismatches"""
        cycles = len(trace) if trace is not None else (cycles or self.cosim_cycles)
        rnd = random.Random(seed)
        ins = self.ts.inputs
        # random inputs that satisfy the assumptions are not needed: extraction equality must hold for ALL inputs
        if trace is None: trace = [[rnd.getrandbits(i.nbits) if rnd.random() < 0.7 else rnd.choice([0, (1 << i.nbits) - 1]) for i in ins] for _ in range(cycles)]
        mem_sigs = set()
        for arr in self.ts.mems.values(): mem_sigs |= set(arr)
        # signals created by our own lowering (MemoryToArray address registers, lowered specials) do not exist in the
        # real simulator's copy: compare original signals and memory cells only
        obs = [s for s in list(self.ts.comb_targets) + self.ts.state if s in self.ts.var and (s in self.ts.orig_signals or s in mem_sigs)]
        names = [str(self.ts.var[s]) for s in obs]
        rows = self.real_sim(trace, names)
        state = {s: s.reset.value & ((1 << s.nbits) - 1) for s in self.ts.state}
        mism = []; compared = 0
        comb = self.ts.comb_constraints()
        for k in range(cycles):
            s = z3.Solver(); s.add(*comb)
            for sg, val in state.items(): s.add(self.v(sg) == z3.BitVecVal(val, sg.nbits))
            for i, val in zip(ins, trace[k]): s.add(self.v(i) == z3.BitVecVal(val, i.nbits))
            if s.check() != z3.sat: mism.append((k, "comb equations unsatisfiable")); break
            m = s.model()
            for sg, n in zip(obs, names):
                if n not in rows[k]: continue
                real = rows[k][n] & ((1 << sg.nbits) - 1)
                mine = m.eval(self.v(sg), model_completion=True).as_long()
                compared += 1
                if real != mine: mism.append((k, n, real, mine))
            if mism: break
            nstate = {}
            for sg in self.ts.state:
                e = None
                for cd, nx in self.ts.next.items():
                    if sg in nx: e = nx[sg]
                nstate[sg] = m.eval(e, model_completion=True).as_long() if e is not None else state[sg]
            state = nstate
        return compared, mism
    def _quick_ok(self):
        for g in list(self.ensures.values()):
            st, _, _, _ = self._solve(self.base() + self.inv + [z3.Not(g)], order=("api",))
            if st != "unsat": return False
        pairs = self._pairs(); basec = self.base()
        for name, (fn, steps) in self.seqs.items():
            at = self._at(self._allvars())
            cs = [at(c, 0) for c in self.inv]
            for k in range(steps):
                cs += [at(c, k) for c in basec]
                if k > 0: cs += [at(a, k) == at(e, k - 1) for a, e in pairs]
            st, _, _, _ = self._solve(cs + [z3.Not(fn(at))], order=("api",))
            if st != "unsat": return False
        for name, (coop, prog, n, start) in self.responds.items():
            at = self._at(self._allvars([coop, prog] + ([start] if start is not None else [])))
            cs = [at(c, 0) for c in self.inv]
            if start is not None: cs.append(at(start, 0))
            for k in range(n):
                cs += [at(c, k) for c in basec] + [at(coop, k), z3.Not(at(prog, k))]
                if k > 0: cs += [at(a, k) == at(e, k - 1) for a, e in pairs]
            st, _, _, _ = self._solve(cs, order=("api",))
            if st != "unsat": return False
        return True
    # ---- the obligations
    def run(self, case_id=None, replay_dir=None):
        out = self.results; cid = case_id or self.name
        try:
            # phase 1: hand-written hints only; phase 2 (only if a postcondition is not provable, e.g. after a harmless
            # rename made a hint unavailable): add the mechanically generated candidates
            self.houdini()
            if self.use_auto and not self._quick_ok():
                self.auto_hints(self.auto_width); self.houdini()
        except Unsupported as e:
            out.append(res("houdini", "invariant", UNKNOWN, info=str(e))); return out
        # extraction validated against the real simulator (checker fault if it differs, never a violation)
        t0 = time.time()
        try:
            if self.skip_cosim: raise StopIteration
            compared, mism = self.cosim(seed=int(os.environ.get("VERIF_SEED", "0")))
            out.append(res("cosim", "extraction", OK if not mism else FAULT, time.time() - t0, "litex.gen.sim", compared=compared, mismatches=[str(x) for x in mism[:3]]))
        except StopIteration: pass
        except Exception as e:
            out.append(res("cosim", "extraction", FAULT, time.time() - t0, "litex.gen.sim", info=f"{type(e).__name__}: {e}"))
        st, _, be, t = self._solve(self.base() + self.inv)
        out.append(res("sat(assume∧inv)", "vacuity", OK if st == "sat" else (VACUOUS if st == "unsat" else UNKNOWN), t, be))
        st, _, be, t = self._solve(self.init_eqs() + self.base() + [z3.Not(z3.And(*self.inv))]) if self.inv else ("unsat", None, "trivial", 0.0)
        out.append(res("init", "initiation", PROVED if st == "unsat" else (UNKNOWN if st == "unknown" else NOINPUT), t, be, hints_kept=len(self.kept), hints_total=len(self.hints)))
        # consecution is what Houdini established; re-check once as a named obligation
        if self.inv:
            st, _, be, t = self._solve(self.base() + self.inv + [z3.Not(z3.And(*[self.primed(e) for e in self.inv]))])
            out.append(res("step", "consecution", PROVED if st == "unsat" else (UNKNOWN if st == "unknown" else NOINPUT), t, be))
        for name, g in self.ensures.items():
            out.append(self._ensure(name, g, cid, replay_dir))
        for name, (g, what) in self.findings.items():
            r = self._ensure(name, g, cid, replay_dir)
            r["kind"] = "finding-witness"; r["what"] = what
            out.append(r)
        pairs = self._pairs(); basec = self.base()
        for name, (coop, prog, n, start) in self.responds.items():
            allvars = self._allvars([coop, prog] + ([start] if start is not None else [])); at = self._at(allvars)
            cs = [at(c, 0) for c in self.inv]
            if start is not None: cs.append(at(start, 0))
            for k in range(n):
                cs += [at(c, k) for c in basec] + [at(coop, k), z3.Not(at(prog, k))]
                if k > 0: cs += [at(a, k) == at(e, k - 1) for a, e in pairs] + [at(c, k) for c in self.inv]
            st, m, be, t = self._solve(cs)
            if st == "sat":
                # witness from reset: a BMC prefix followed by n cooperative cycles without progress, replayed on the real simulator
                def fn(at_, coop=coop, prog=prog, n=n, start=start):
                    w = [z3.And(at_(coop, k), z3.Not(at_(prog, k))) for k in range(n)]
                    if start is not None: w.append(at_(start, 0))
                    return z3.Not(z3.And(*w))
                r = self._seq_witness(name, fn, n, cid, replay_dir, t, be)
                r["kind"] = "respond"; r["bound"] = n
                out.append(r)
            else:
                out.append(res(name, "respond", PROVED if st == "unsat" else UNKNOWN, t, be, bound=n))
        for name, (fn, steps) in self.seqs.items():
            allvars = self._allvars(); at = self._at(allvars)
            goal = fn(at)
            cs = [at(c, 0) for c in self.inv]
            for k in range(steps):
                cs += [at(c, k) for c in basec]
                if k > 0: cs += [at(a, k) == at(e, k - 1) for a, e in pairs] + [at(c, k) for c in self.inv]
            st, m, be, t = self._solve(cs + [z3.Not(goal)])
            if st == "sat":
                # witness from reset: the same goal shifted along a BMC prefix
                out.append(self._seq_witness(name, fn, steps, cid, replay_dir, t, be))
            else:
                out.append(res(name, "ensures-seq", PROVED if st == "unsat" else UNKNOWN, t, be, steps=steps))
        for name, (e, depth) in self.covers.items():
            cap = self.bmc_time * (6 if os.environ.get("VERIF_TIER") == "thorough" else 2)
            t0 = time.time(); k, wit = self.bmc(e, depth, time_cap=cap)
            # a cover search that ran out of its time budget is undecided, not vacuous (vacuous = the whole depth was explored without reaching the event)
            timed_out = wit is None and time.time() - t0 >= cap
            out.append(res(name, "cover", OK if wit is not None else (UNKNOWN if timed_out else VACUOUS), time.time() - t0, "z3(bmc)", depth=k, **({"info": "cover search ran out of time"} if timed_out else {})))
        return out
    def _write_replay(self, replay_dir, cid, name, payload):
        if not replay_dir: return None
        os.makedirs(replay_dir, exist_ok=True)
        fn = os.path.join(replay_dir, (cid + "__" + name).replace("/", "_").replace(" ", "").replace("(", "_").replace(")", "_").replace(",", "_").replace("=", "-") + ".json")
        with open(fn, "w") as f: json.dump(payload, f, indent=1, default=str)
        return fn
    def _ensure(self, name, g, cid, replay_dir):
        st, m, be, t = self._solve(self.base() + self.inv + [z3.Not(g)])
        if st == "unsat": return res(name, "ensures", PROVED, t, be)
        if st == "unknown": return res(name, "ensures", UNKNOWN, t, be)
        t0 = time.time()
        k, wit = self.bmc(z3.Not(g), self.bmc_depth)
        if wit is not None:
            first_bad, info = self.replay(g, wit)
            payload = dict(case=cid, obligation=name, kind="ensures", depth=k, witness=wit, real_simulator=dict(first_failing_cycle=first_bad, **info), clause=str(g)[:4000])
            if first_bad is None:
                fn = self._write_replay(replay_dir, cid, name, payload)
                return res(name, "ensures", FAULT, t + time.time() - t0, be, info="BMC witness does not reproduce on the real simulator", replay=fn)
            fn = self._write_replay(replay_dir, cid, name, payload)
            return res(name, "ensures", VIOLATED, t + time.time() - t0, be, depth=k, replay=fn, first_failing_cycle=first_bad)
        for kk in (2, 4):
            try:
                if self.kinduction(g, kk): return res(name, "ensures", PROVED, t + time.time() - t0, be + f"+{kk}-induction")
            except Exception: break
        cti = {str(d): str(m[d]) for d in m.decls()} if m is not None else {}
        payload = dict(case=cid, obligation=name, kind="ensures", verdict="no-failing-input-found", cti=cti, clause=str(g)[:4000],
                       solver=be, note="counterexample to induction from an Inv state; no trace from reset within BMC budget")
        fn = self._write_replay(replay_dir, cid, name, payload)
        return res(name, "ensures", NOINPUT, t + time.time() - t0, be, replay=fn)
    def _seq_witness(self, name, fn, steps, cid, replay_dir, t, be):
        t0 = time.time()
        allvars = self._allvars(); at0 = self._at(allvars); pairs = self._pairs(); basec = self.base()
        s = z3.Solver()
        for c in self.init_eqs(): s.add(at0(c, 0))
        depth = self.bmc_depth
        for k in range(depth + steps):
            for c in basec: s.add(at0(c, k))
            if k > 0:
                for a, e in pairs: s.add(at0(a, k) == at0(e, k - 1))
            if k + 1 >= steps:
                off = k + 1 - steps
                goal = fn(lambda e, j: at0(e, j + off))
                s.push(); s.add(z3.Not(goal)); s.set("timeout", int(self.bmc_time * 1000))
                if time.time() - t0 > self.bmc_time: s.pop(); break
                if s.check() == z3.sat:
                    m = s.model()
                    trace = [[m.eval(at0(self.v(i), j), model_completion=True).as_long() for i in self.ts.inputs] for j in range(k + 1)]
                    wit = dict(inputs=[signame(i) for i in self.ts.inputs], trace=trace, consts={n: m.eval(c, model_completion=True).as_long() for n, c in self.consts_decl.items()}, window_start=off)
                    # replay: evaluate the multi-cycle clause on the real simulator's rows
                    ok_real = self._replay_seq(fn, wit, off)
                    payload = dict(case=cid, obligation=name, kind="ensures-seq", depth=k, witness=wit, real_simulator=dict(clause_false=ok_real is False))
                    fnm = self._write_replay(replay_dir, cid, name, payload)
                    if ok_real is False:
                        return res(name, "ensures-seq", VIOLATED, t + time.time() - t0, be, depth=k, replay=fnm)
                    return res(name, "ensures-seq", FAULT, t + time.time() - t0, be, info="seq witness does not reproduce on the real simulator", replay=fnm)
                s.pop()
        payload = dict(case=cid, obligation=name, kind="ensures-seq", verdict="no-failing-input-found", solver=be)
        fnm = self._write_replay(replay_dir, cid, name, payload)
        return res(name, "ensures-seq", NOINPUT, t + time.time() - t0, be, replay=fnm)
    def _replay_seq(self, fn, wit, off):
        trace = wit["trace"]
        names = {}
        def collect(e, j):
            for x in get_vars(e): names[str(x)] = x
            return e
        fn(collect)
        gexprs = [g[2] for g in self.ghosts.values()]
        for e in gexprs:
            for x in get_vars(e): names[str(x)] = x
        rows = self.real_sim(trace, list(names))
        consts = {f"c_{n}": val for n, val in wit.get("consts", {}).items()}
        ghost = self._ghost_init_values(consts)
        subs = []
        for k, vals in enumerate(rows):
            sub = []
            for n, x in names.items():
                if n in vals: sub.append((x, z3.BitVecVal(vals[n] & ((1 << x.size()) - 1), x.size())))
                elif n in ghost: sub.append((x, z3.BitVecVal(ghost[n], x.size())))
                elif n in consts: sub.append((x, z3.BitVecVal(consts[n], x.size())))
            subs.append(sub)
            newg = {}
            for g in self.ghosts.values():
                val = z3.simplify(z3.substitute(g[2], *sub))
                if not z3.is_bv_value(val): return None
                newg[str(g[0])] = val.as_long()
            ghost = newg
        def atc(e, j):
            if j + off >= len(subs): return e
            return z3.substitute(e, *subs[j + off])
        val = z3.simplify(fn(atc))
        if z3.is_false(val): return False
        if z3.is_true(val): return True
        return None
    def ok(self): return all(r["status"] in (PROVED, OK) for r in self.results)
    def summary(self):
        bad = [(r["name"], r["status"]) for r in self.results if r["status"] not in (PROVED, OK)]
        return f"{self.name}: {len(self.results) - len(bad)}/{len(self.results)} ok, hints kept {len(getattr(self, 'kept', []))}/{len(self.hints)}" + (f" BAD: {bad}" if bad else "")
