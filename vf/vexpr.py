"""Prototype: IEEE 1364-2005 expression semantics (sizing/sign, §5.4-5.5) for the subset LiteX prints -> z3 bit-vectors."""
import re, z3
TOK = re.compile(r"\s*(?:(\d+)'d(\d+)|(\$signed)|([A-Za-z_][A-Za-z0-9_$]*)|(<<<|>>>|<<|>>|<=|>=|==|!=|[-+*&|^~<>?:(){}\[\],]))")
def lex(s):
    out, i = [], 0
    s = s.strip()
    while i < len(s):
        m = TOK.match(s, i)
        if not m: raise SyntaxError(s[i:i+20])
        i = m.end()
        if m.group(1): out.append(("lit", int(m.group(1)), int(m.group(2))))
        elif m.group(3): out.append(("signed",))
        elif m.group(4): out.append(("id", m.group(4)))
        else: out.append(("op", m.group(5)))
    return out
# AST: ("lit", w, v) ("id", n) ("un", op, a) ("bin", op, a, b) ("tern", c, a, b) ("cat", [..]) ("rep", n, a) ("sel", a, hi, lo) ("signed", a)
class P:
    def __init__(self, toks): self.t, self.i = toks, 0
    def peek(self): return self.t[self.i] if self.i < len(self.t) else ("eof",)
    def eat(self, *op):
        tk = self.peek()
        if op and not (tk[0] == "op" and tk[1] in op): raise SyntaxError(f"expected {op} got {tk}")
        self.i += 1; return tk
    def isop(self, *op): tk = self.peek(); return tk[0] == "op" and tk[1] in op
    def expr(self): return self.tern()
    def tern(self):
        c = self.binary(0)
        if self.isop("?"):
            self.eat("?"); a = self.tern(); self.eat(":"); b = self.tern(); return ("tern", c, a, b)
        return c
    LEVELS = [["|"], ["^"], ["&"], ["==", "!="], ["<", "<=", ">", ">="], ["<<", ">>", "<<<", ">>>"], ["+", "-"], ["*"]]
    def binary(self, lvl):
        if lvl == len(self.LEVELS): return self.unary()
        a = self.binary(lvl + 1)
        while self.isop(*self.LEVELS[lvl]):
            op = self.eat()[1]; b = self.binary(lvl + 1); a = ("bin", op, a, b)
        return a
    def unary(self):
        if self.isop("~", "-", "+", "!"):
            op = self.eat()[1]; return ("un", op, self.unary())
        return self.postfix()
    def postfix(self):
        a = self.primary()
        while self.isop("["):
            self.eat("["); hi = self.const()
            lo = hi
            if self.isop(":"): self.eat(":"); lo = self.const()
            self.eat("]"); a = ("sel", a, hi, lo)
        return a
    def const(self):
        tk = self.eat()
        # bare decimal index appears as id? our lexer has no bare numbers: handle via regex fallback
        raise SyntaxError(tk)
    def primary(self):
        tk = self.peek()
        if tk[0] == "lit": self.i += 1; return ("lit", tk[1], tk[2])
        if tk[0] == "id": self.i += 1; return ("id", tk[1])
        if tk[0] == "signed":
            self.i += 1; self.eat("("); a = self.expr(); self.eat(")"); return ("signed", a)
        if self.isop("("):
            self.eat("("); a = self.expr(); self.eat(")"); return a
        if self.isop("{"):
            self.eat("{")
            # replication {n{...}} : n is a bare number
            first = self.expr_or_num()
            if isinstance(first, int):
                self.eat("{"); a = self.expr(); self.eat("}"); self.eat("}"); return ("rep", first, a)
            items = [first]
            while self.isop(","): self.eat(","); items.append(self.expr())
            self.eat("}"); return ("cat", items)
        raise SyntaxError(tk)
    def expr_or_num(self):
        tk = self.peek()
        if tk[0] == "num": self.i += 1; return tk[1]
        return self.expr()
# bare numbers: extend lexer
TOK = re.compile(r"\s*(?:(\d+)'d(\d+)|(\$signed)|([A-Za-z_][A-Za-z0-9_$]*)|(<<<|>>>|<<|>>|<=|>=|==|!=|[-+*&|^~!<>?:(){}\[\],])|(\d+))")
def lex(s):
    out, i = [], 0; s = s.strip()
    while i < len(s):
        m = TOK.match(s, i)
        if not m: raise SyntaxError(s[i:i+20])
        i = m.end()
        if m.group(1): out.append(("lit", int(m.group(1)), int(m.group(2))))
        elif m.group(3): out.append(("signed",))
        elif m.group(4): out.append(("id", m.group(4)))
        elif m.group(5): out.append(("op", m.group(5)))
        else: out.append(("num", int(m.group(6))))
    return out
def _const(self):
    tk = self.peek()
    if tk[0] != "num": raise SyntaxError(tk)
    self.i += 1; return tk[1]
P.const = _const
def parse(s):
    p = P(lex(s)); e = p.expr()
    if p.peek()[0] != "eof": raise SyntaxError(p.peek())
    return e

# ---- sizing: self-determined (width, signed) -------------------------------------------------------
ARITH = {"+", "-", "*", "&", "|", "^"}
CMP = {"<", "<=", ">", ">=", "==", "!="}
SHIFT = {"<<", ">>", "<<<", ">>>"}
def selfdet(e, env):
    k = e[0]
    if k == "lit": return e[1], False
    if k == "id": return env[e[1]][1], env[e[1]][2]
    if k == "signed": return selfdet(e[1], env)[0], True
    if k == "un": return (1, False) if e[1] == "!" else selfdet(e[2], env)
    if k == "bin":
        op = e[1]
        if op in ARITH:
            (wa, sa), (wb, sb) = selfdet(e[2], env), selfdet(e[3], env); return max(wa, wb), sa and sb
        if op in CMP: return 1, False
        if op in SHIFT: return selfdet(e[2], env)
    if k == "tern":
        (wa, sa), (wb, sb) = selfdet(e[2], env), selfdet(e[3], env); return max(wa, wb), sa and sb
    if k == "cat": return sum(selfdet(x, env)[0] for x in e[1]), False
    if k == "rep": return e[1] * selfdet(e[2], env)[0], False
    if k == "sel": return e[2] - e[3] + 1, False
    raise NotImplementedError(e)
def ext(bv, w, signed):
    n = bv.size()
    if w == n: return bv
    if w < n: return z3.Extract(w - 1, 0, bv)
    return z3.SignExt(w - n, bv) if signed else z3.ZeroExt(w - n, bv)
def ev(e, env, W, S):
    """evaluate e in a context of width W and signedness S (already includes e's own self-determined type)"""
    k = e[0]
    if k == "lit": return ext(z3.BitVecVal(e[2], e[1]), W, False)   # unsized-signless 'd literal is unsigned
    if k == "id":
        bv, w, s = env[e[1]]; return ext(bv, W, S and s if False else (s and S))
    if k == "signed":
        w, _ = selfdet(e[1], env); inner = ev_self(e[1], env); return ext(inner, W, S)   # $signed: operand self-determined, result signed
    if k == "un":
        if e[1] == "!":
            a = ev_self(e[2], env); return ext(z3.If(a == 0, z3.BitVecVal(1, 1), z3.BitVecVal(0, 1)), W, False)
        a = ev(e[2], env, W, S); return {"~": lambda x: ~x, "-": lambda x: -x, "+": lambda x: x}[e[1]](a)
    if k == "bin":
        op = e[1]
        if op in ARITH:
            a, b = ev(e[2], env, W, S), ev(e[3], env, W, S)
            return {"+": a + b, "-": a - b, "*": a * b, "&": a & b, "|": a | b, "^": a ^ b}[op]
        if op in CMP:
            (wa, sa), (wb, sb) = selfdet(e[2], env), selfdet(e[3], env); w = max(wa, wb); s = sa and sb
            a, b = ev(e[2], env, w, s), ev(e[3], env, w, s)
            if s: r = {"<": a < b, "<=": a <= b, ">": a > b, ">=": a >= b, "==": a == b, "!=": a != b}[op]
            else: r = {"<": z3.ULT(a, b), "<=": z3.ULE(a, b), ">": z3.UGT(a, b), ">=": z3.UGE(a, b), "==": a == b, "!=": a != b}[op]
            return ext(z3.If(r, z3.BitVecVal(1, 1), z3.BitVecVal(0, 1)), W, False)
        if op in SHIFT:
            a = ev(e[2], env, W, S); b = ev_self(e[3], env)          # shift amount self-determined, always unsigned
            amt = ext(b, max(W, b.size()), False); aw = ext(a, amt.size(), False)
            if op in ("<<", "<<<"): r = aw << amt
            elif op == ">>": r = z3.LShR(aw, amt)
            else: r = (ext(a, amt.size(), True) >> amt) if S else z3.LShR(aw, amt)
            if op == ">>>" and S and amt.size() > W: r = ext(a, amt.size(), True) >> amt
            return z3.Extract(W - 1, 0, r)
    if k == "tern":
        c = ev_self(e[1], env); a, b = ev(e[2], env, W, S), ev(e[3], env, W, S)
        return z3.If(c != 0, a, b)
    if k in ("cat", "rep", "sel"):
        return ext(ev_self(e, env), W, False)
    raise NotImplementedError(e)
def ev_self(e, env):
    k = e[0]
    if k == "cat":
        parts = [ev_self(x, env) for x in e[1]]; return z3.Concat(*parts) if len(parts) > 1 else parts[0]
    if k == "rep":
        a = ev_self(e[2], env); return z3.Concat(*([a] * e[1])) if e[1] > 1 else a
    if k == "sel":
        a = ev_self(e[1], env); return z3.Extract(e[2], e[3], a)
    w, s = selfdet(e, env); return ev(e, env, w, s)
def assign(lhs_w, rhs, env):
    """value stored in an lhs of width lhs_w:  context width = max(lhs_w, selfdet(rhs)), sign from rhs only"""
    w, s = selfdet(rhs, env); W = max(w, lhs_w)
    return z3.Extract(lhs_w - 1, 0, ev(rhs, env, W, s))
