"""C01: generated Verilog behaves exactly like the simulated FHDL design.
E4 vlogsem: a specification function (IEEE 1364-2005 expression sizing/sign rules, always/assign semantics for the emitted subset)
maps the text returned by the REAL printer to SMT terms.
 1. constructor lemma: for every node kind x operand shapes x target shapes the statement y.eq(expr) is printed by the real printer
    and its Verilog value is proved equal, for ALL operand values, to the simulator semantics (fhdl2smt, itself co-simulated against
    the real Evaluator); narrow instances are additionally compared exhaustively with the REAL Evaluator.
 2. per-design translation validation: convert()'s text and the FHDL transition system are proved equal as Mealy machines under the
    name map ns.get_name (equal initial state; for all states and inputs equal outputs and next state)."""
import itertools, time, re, z3
from vf import elab
from vf.elab import mk
from vf.fhdl2smt import TS, Sem, V, copy_fragment, from_bits, low_bits
from vf import vexpr
from vf.vlog import parse_module, VTS, VParseError
from vf.hw import res, HwCheck
from migen import *
from migen.fhdl.structure import _Assign, _Operator, _Fragment as _FragmentT
from migen.fhdl.specials import Memory, WRITE_FIRST, READ_FIRST, NO_CHANGE
from migen.fhdl.tools import list_clock_domains, list_signals
from litex.gen.sim.core import Evaluator
from litex.gen.fhdl.expression import _generate_expression
from litex.gen.fhdl.namer import build_signal_namespace
from litex.gen.fhdl.verilog import convert, _ieee_1800_2017_verilog_reserved_keywords as KW
from vf.core import Case as VCase, PROVED, VIOLATED, NOINPUT, UNKNOWN, BOUNDED_OK, OK, VACUOUS
from migen import Case

# ---------------------------------------------------------------------------------------------------------------------------
# 1. constructor lemma
SHAPES = [(w, s) for w in (1, 2, 3, 5) for s in (False, True)]
TEMPLATES = {
    "add": (lambda a, b: a + b, 2), "sub": (lambda a, b: a - b, 2), "mul": (lambda a, b: a * b, 2),
    "and": (lambda a, b: a & b, 2), "or": (lambda a, b: a | b, 2), "xor": (lambda a, b: a ^ b, 2),
    "lt": (lambda a, b: a < b, 2), "le": (lambda a, b: a <= b, 2), "eq": (lambda a, b: a == b, 2), "ne": (lambda a, b: a != b, 2), "ge": (lambda a, b: a >= b, 2), "gt": (lambda a, b: a > b, 2),
    "inv": (lambda a: ~a, 1), "neg": (lambda a: -a, 1),
    "shr": (lambda a, b: a >> b, 2), "shl": (lambda a, b: a << b, 2),
    "mux": (lambda c, a, b: Mux(c, a, b), 3),
    "cat": (lambda a, b: Cat(a, b), 2), "rep": (lambda a: Replicate(a, 3), 1), "slice": (lambda a: a[0:len(a)] if len(a) < 2 else a[1:len(a)], 1, "unsigned-only"), "slice<": (lambda a, b: (a[0:len(a)] if len(a) < 2 else a[1:len(a)]) < b, 2, "unsigned-first"),
    "const+": (lambda a: a + 3, 1), "const&": (lambda a: a & 5, 1), "const==": (lambda a: a == 2, 1),
}
# classes in which Migen's unbounded-integer semantics and Verilog's context-width arithmetic legitimately part (inherited from Migen) or
# where LiteX prints a negative constant as an unsigned literal: differences inside these classes are the listed known findings
FINDING_TEMPLATES = {
    "d2:(a+b)>>1": (lambda a, b: (a + b) >> 1, 2), "d2:(~a)==b": (lambda a, b: (~a) == b, 2), "d2:(a+b)<c": (lambda a, b, c: (a + b) < c, 3),
    "d2:(a+b)+c": (lambda a, b, c: (a + b) + c, 3), "d2:Cat(a+b,a)": (lambda a, b: Cat(a + b, a), 2),
    "negconst+": (lambda a: a + (-3), 1), "negconst==": (lambda a: a == -1, 1),
    "slice(signed)": (lambda a: a[0:len(a)] if len(a) < 2 else a[1:len(a)], 1), "slice(signed)<": (lambda a, b: (a[0:len(a)] if len(a) < 2 else a[1:len(a)]) < b, 2),
}
YSHAPES = [(3, False), (8, False), (8, True)]

def _sim_value(expr, ops, env_bits, yshape):
    """simulator semantics of y.eq(expr): exact-integer evaluation (fhdl2smt transcription of Evaluator.eval) then truncation to y"""
    sem = Sem({}, {})
    rd = lambda s: env_bits[s]
    v = sem.eval(expr, rd)
    return low_bits(v, yshape[0])

def _real_eval(expr, ops, vals, y):
    ev = Evaluator({}, {})
    for o, val in zip(ops, vals): ev.signal_values[o] = val
    ev.execute([y.eq(expr)])
    return ev.modifications[y] & ((1 << y.nbits) - 1)

def run_template(name, build, nops, finding=False, restrict=None):
    out = []; ndiff = 0; nexh = 0; ninst = 0; first_diff = None
    t0 = time.time()
    for shp in itertools.product(SHAPES, repeat=nops):
        if name in ("shr", "shl") and shp[-1][1]: continue          # a negative shift amount raises in the simulator
        if restrict == "unsigned-only" and any(s for _, s in shp): continue
        if restrict == "unsigned-first" and shp[0][1]: continue
        for yshape in (YSHAPES if nops < 3 else YSHAPES[2:]):
            ops = [Signal((w, s), name_override=f"x{i}") for i, (w, s) in enumerate(shp)]
            y = Signal(yshape, name_override="y")
            expr = build(*ops)
            ns = build_signal_namespace(set(ops) | {y})
            text, _ = _generate_expression(ns, expr)                 # REAL printer
            env = {f"x{i}": (z3.BitVec(f"x{i}", w), w, s) for i, (w, s) in enumerate(shp)}
            try: ast = vexpr.parse(text)
            except SyntaxError as e:
                out.append(res(f"{name}{shp}->{yshape}", "ensures", UNKNOWN, 0, "", info=f"text outside the grammar: {text}")); continue
            yv = vexpr.assign(yshape[0], ast, env)                   # IEEE-1364 value stored in y
            ys = _sim_value(expr, ops, {o: env[f"x{i}"][0] for i, o in enumerate(ops)}, yshape)
            ninst += 1
            s_ = z3.Solver(); s_.set("timeout", 20000); s_.add(yv != ys)
            r = s_.check()
            differs = r != z3.unsat
            witness = None
            if r == z3.sat:
                m = s_.model(); raw = [m.eval(env[f"x{i}"][0], model_completion=True).as_long() for i in range(nops)]
                vals = [v_ - (1 << w) if s and v_ >= (1 << (w - 1)) else v_ for v_, (w, s) in zip(raw, shp)]
                # replay on the REAL Evaluator and on a concrete evaluation of the printed text
                real = _real_eval(expr, ops, vals, y)
                sub = [(env[f"x{i}"][0], z3.BitVecVal(raw[i], shp[i][0])) for i in range(nops)]
                vlog = z3.simplify(z3.substitute(yv, *sub)).as_long()
                witness = dict(operands=vals, shapes=shp, target=yshape, text=text, simulator=real, verilog=vlog)
                differs = real != vlog
            # exhaustive comparison with the REAL Evaluator for narrow instances (also guards fhdl2smt)
            if sum(w for w, _ in shp) <= 7:
                nexh += 1
                for raw in itertools.product(*[range(1 << w) for w, _ in shp]):
                    vals = [v_ - (1 << w) if s and v_ >= (1 << (w - 1)) else v_ for v_, (w, s) in zip(raw, shp)]
                    real = _real_eval(expr, ops, vals, y)
                    sub = [(env[f"x{i}"][0], z3.BitVecVal(raw[i], shp[i][0])) for i in range(nops)]
                    vlog = z3.simplify(z3.substitute(yv, *sub)).as_long()
                    if real != vlog and not differs:
                        differs = True; witness = dict(operands=vals, shapes=shp, target=yshape, text=text, simulator=real, verilog=vlog, found="exhaustive real-evaluator comparison")
                        break
            if differs:
                ndiff += 1
                if first_diff is None: first_diff = witness or dict(shapes=shp, target=yshape, text=text, solver=str(r))
    if finding:
        out.append(res(f"finding.expr[{name}]", "finding-witness", VIOLATED if ndiff else PROVED, time.time() - t0, "z3-5.1.0(api)+real Evaluator", instances=ninst, differing=ndiff, witness=first_diff,
                       what="intermediate overflow / context-opaque consumer / negative constant printed as an unsigned literal / slice of a signed value reported as signed: Migen's unbounded-integer semantics and Verilog's context-width arithmetic differ"))
    else:
        out.append(res(f"ens.expr[{name}]", "ensures", PROVED if not ndiff else VIOLATED, time.time() - t0, "z3-5.1.0(api)+real Evaluator", instances=ninst, exhaustive_instances=nexh, differing=ndiff, witness=first_diff,
                       formula="forall operand values: vlogsem(printer(y.eq(expr))) == truncate_y(Evaluator.eval(expr))"))
    return out

def c_templates(names, finding=False):
    T = FINDING_TEMPLATES if finding else TEMPLATES
    out = []
    for n in names: out += run_template(n, T[n][0], T[n][1], finding, T[n][2] if len(T[n]) > 2 else None)
    return dict(results=out, functions=["litex.gen.fhdl.expression._generate_expression", "litex.gen.fhdl.expression._generate_operator", "litex.gen.fhdl.expression._generate_constant",
                                        "litex.gen.fhdl.expression._generate_slice/_cat/_replicate", "litex.gen.sim.core.Evaluator.eval/assign/execute (reference, executed)"],
                samples=[dict(template=names[0], shapes="operand widths {1,2,3,5} x signedness, targets (3,u) (8,u) (8,s)")])

# ---------------------------------------------------------------------------------------------------------------------------
# 2. per-design translation validation
def _walk_assigns(stmts, acc):
    for s in stmts:
        if isinstance(s, _Assign): acc.append(s)
        elif isinstance(s, If): _walk_assigns(s.t, acc); _walk_assigns(s.f, acc)
        elif isinstance(s, Case):
            for v in s.cases.values(): _walk_assigns(v, acc)
        elif isinstance(s, (list, tuple)): _walk_assigns(s, acc)

# ---------------------------------------------------------------------------------------------------------------------------
# Instance specials (litex/gen/fhdl/instance.py): contract of _instance_generate_verilog, checked on the text of the real convert()
_VKW = {"module", "endmodule", "wire", "reg", "assign", "always", "initial", "input", "output", "inout", "begin", "end", "if", "else", "case", "endcase", "default", "posedge", "negedge"}
def _balanced(src, i):
    """src[i] == '(' -> index just after the matching ')' (strings respected)"""
    assert src[i] == "(", src[i:i + 20]
    depth = 0; j = i; instr = False
    while j < len(src):
        ch = src[j]
        if instr: instr = ch != '"'
        elif ch == '"': instr = True
        elif ch == "(": depth += 1
        elif ch == ")":
            depth -= 1
            if depth == 0: return j + 1
        j += 1
    raise VParseError("unbalanced parenthesis in an instance")
def _split_top(txt):
    items = []; depth = 0; cur = ""; instr = False
    for ch in txt:
        if instr:
            cur += ch; instr = ch != '"'; continue
        if ch == '"': instr = True
        if ch in "({[": depth += 1
        if ch in ")}]": depth -= 1
        if ch == "," and depth == 0: items.append(cur); cur = ""
        else: cur += ch
    if cur.strip(): items.append(cur)
    return [x.strip() for x in items]
def _conn(txt):
    out = []
    for it in _split_top(txt):
        m = re.match(r"^\.\s*([A-Za-z_][A-Za-z0-9_$]*)\s*\((.*)\)$", it, re.S)
        if not m: raise VParseError(f"instance connection not of the form .name(value): {it[:40]}")
        out.append((m.group(1), m.group(2).strip()))
    return out
def split_instances(main_source):
    """-> (module text without instantiations, [dict(of, name, params=[(name, text)], ports=[(name, text)])]) ; statement-level
    `<of> [#( .P(v), ... )] <name> ( .port(expr), ... );` of the emitted subset"""
    from vf.vlog import strip_comments
    src = strip_comments(main_source); insts = []; rest = ""; pos = 0
    for m in re.finditer(r"(?m)^([A-Za-z_][A-Za-z0-9_$]*)[ \t]+(?=#\(|[A-Za-z_][A-Za-z0-9_$]*[ \t]*\()", src):
        if m.start() < pos or m.group(1) in _VKW: continue
        i = m.end(); params = []
        if src[i] == "#":
            j = _balanced(src, i + 1); params = _conn(src[i + 2:j - 1]); i = j
        m2 = re.compile(r"\s*([A-Za-z_][A-Za-z0-9_$]*)\s*").match(src, i)
        if not m2 or src[m2.end()] != "(": continue
        j = _balanced(src, m2.end()); ports = _conn(src[m2.end() + 1:j - 1])
        m3 = re.compile(r"\s*;").match(src, j)
        if not m3: raise VParseError("instantiation not terminated by ';'")
        insts.append(dict(of=m.group(1), name=m2.group(1), params=params, ports=ports))
        rest += src[pos:m.start()]; pos = m3.end()
    return rest + src[pos:], insts

def _param_ok(value, text):
    """specification of a parameter value's rendering: Constant -> a literal of that numeric value; float -> decimal text of that
    float; str -> the same characters in double quotes; PreformattedParam -> verbatim"""
    from migen.fhdl.structure import Constant
    if isinstance(value, Instance.PreformattedParam): return text == str(value)
    if isinstance(value, Constant):
        if re.match(r"^-?\d+$", text.replace(" ", "")): return int(text.replace(" ", "")) == value.value      # unsized decimal
        m = re.match(r"^(-?)\s*(\d+)'(s?)d(\d+)$", text.replace(" ", ""))
        if not m: return False
        w, mag = int(m.group(2)), int(m.group(4))
        if mag >= (1 << w): return False
        if m.group(3) and mag >= (1 << (w - 1)): mag -= 1 << w
        return (-mag if m.group(1) else mag) == value.value
    if isinstance(value, float):
        try: return float(text) == value
        except ValueError: return False
    if isinstance(value, str): return text == '"' + value + '"'
    return False

def check_instances(name, insts, pre_items, vinsts, ns, vm, cdmap, raw_source):
    """postcondition of _instance_generate_verilog for every Instance of the fragment (all items, not a sample)"""
    out = []; t0 = time.time()
    by_name = {}
    for vi in vinsts: by_name.setdefault(vi["name"], []).append(vi)
    env = {n_: (z3.BitVec(f"v_{n_}", d_["width"]), d_["width"], d_["signed"]) for n_, d_ in vm.nets.items()}
    for inst in sorted(insts, key=lambda i_: i_.duid):
        iname = ns.get_name(inst); bad = []; unk = []
        cands = by_name.get(iname, [])
        if len(cands) != 1:
            out.append(res(f"ens.instance[{name}:{iname}]", "ensures", NOINPUT, 0, "executed", info=f"{len(cands)} instantiations named {iname} in the text (expected exactly one)")); continue
        vi = cands[0]
        if vi["of"] != inst.of: bad.append(f"module type {vi['of']} != {inst.of}")
        if iname in vm.nets or iname in vm.mems or iname in KW: bad.append(f"instance name {iname} clashes with a net/memory/keyword")
        P = [i_ for i_ in inst.items if isinstance(i_, Instance.Parameter)]
        if [n_ for n_, _ in vi["params"]] != [p_.name for p_ in P]: bad.append(f"parameter names {[n_ for n_, _ in vi['params']][:6]} != items {[p_.name for p_ in P][:6]}")
        else:
            for (n_, txt), p_ in zip(vi["params"], P):
                if not _param_ok(p_.value, txt): bad.append(f"parameter {n_}: text {txt!r} does not denote {p_.value!r}")
        IO = [i_ for k_ in (Instance.Input, Instance.Output, Instance.InOut) for i_ in inst.items if isinstance(i_, k_)]
        if sorted(n_ for n_, _ in vi["ports"]) != sorted(i_.name for i_ in IO) or len({n_ for n_, _ in vi["ports"]}) != len(vi["ports"]):
            bad.append(f"port names in the text {sorted(n_ for n_, _ in vi['ports'])[:8]} != items {sorted(i_.name for i_ in IO)[:8]}")
        else:
            texts = dict(vi["ports"]); sem = Sem({}, {})
            for io in IO:
                txt = texts[io.name]; orig = pre_items.get(id(io), io.expr)
                if isinstance(orig, (ClockSignal, ResetSignal)):
                    cd_ = cdmap.get(orig.cd); want = None if cd_ is None else ns.get_name(cd_.clk if isinstance(orig, ClockSignal) else cd_.rst)
                    if txt != want: bad.append(f"port {io.name}: {type(orig).__name__}({orig.cd}) connected to {txt!r}, expected {want!r}")
                    continue
                try: ast = vexpr.parse(txt)
                except SyntaxError as e: unk.append(f"port {io.name}: text outside the grammar: {txt[:40]}"); continue
                if not isinstance(io, Instance.Input) and not _is_lvalue(ast): bad.append(f"port {io.name}: output/inout connected to a non-lvalue {txt[:40]}"); continue
                sigs = list_signals(io.expr); rdmap = {}; ok = True
                for sg in sigs:
                    n_ = ns.get_name(sg)
                    if n_ not in env or env[n_][1] != sg.nbits or env[n_][2] != bool(sg.signed): bad.append(f"port {io.name}: signal {n_} not declared with width {sg.nbits}/signed {sg.signed}"); ok = False
                    else: rdmap[sg] = env[n_][0]
                if not ok: continue
                try:
                    wv, _ = vexpr.selfdet(ast, env); vval = vexpr.ev_self(ast, env)
                    fval = low_bits(sem.eval(io.expr, lambda sg: rdmap[sg]), len(io.expr))
                except (KeyError, NotImplementedError) as e: unk.append(f"port {io.name}: {type(e).__name__} {e}"); continue
                if wv != len(io.expr): bad.append(f"port {io.name}: connected expression is {wv} bits wide in Verilog, {len(io.expr)} in FHDL"); continue
                sv = z3.Solver(); sv.set("timeout", 20000); sv.add(vval != fval); rr = sv.check()
                if rr == z3.sat: bad.append(f"port {io.name}: {txt[:50]} differs from the FHDL expression, e.g. {sv.model()}")
                elif rr != z3.unsat: unk.append(f"port {io.name}: solver {rr}")
        if inst.synthesis_directive is not None and f"/* synthesis {inst.synthesis_directive} */" not in raw_source: bad.append("synthesis directive missing")
        out.append(res(f"ens.instance[{name}:{iname}]", "ensures", NOINPUT if bad else (UNKNOWN if unk else PROVED), time.time() - t0, "z3-5.1.0(api)", parameters=len(P), ports=len(IO),
                       info="; ".join((bad + unk)[:4]), formula="module type, instance name, parameter list (names, order, denoted values) and port connections (names one-to-one; every connected expression equal for all values to the FHDL expression; outputs are lvalues; ClockSignal/ResetSignal -> that domain's clk/rst net) equal the Instance's items"))
    extra = [vi["name"] for vi in vinsts if vi["name"] not in {ns.get_name(i_) for i_ in insts}]
    if extra: out.append(res(f"ens.instance[{name}:no-extra]", "ensures", NOINPUT, 0, "executed", info=f"instantiations in the text without an Instance special: {extra[:4]}"))
    return out
def _is_lvalue(ast):
    k = ast[0]
    if k == "id": return True
    if k == "sel": return _is_lvalue(ast[1])
    if k == "cat": return all(_is_lvalue(x) for x in ast[1])
    return False

def tv_design(name, d, ios, regular_comb=True):
    t0 = time.time()
    f0 = d.get_fragment() if not isinstance(d, _FragmentT) else d; ios = set(ios)
    for cdn in sorted(list_clock_domains(f0)):
        try: f0.clock_domains[cdn]
        except KeyError:
            cd = ClockDomain(cdn); f0.clock_domains.append(cd); ios |= {cd.clk, cd.rst}
    cds = list(f0.clock_domains)
    clks = {cd_.clk for cd_ in cds}
    cd = cds[0] if len(cds) == 1 else None
    # FHDL side first (the printer mutates Memory port modes of multi-clock memories); declared modes recorded before convert()
    declared_mode = {}; port_dom = {}
    for sp in f0.specials:
        if isinstance(sp, Memory):
            for port in sp.ports: declared_mode[port] = port.mode; port_dom[port] = getattr(port.clock, "cd", None)      # convert() lowers ClockSignal in the (shared) port objects
    inputs = [s for s in ios if s not in clks]
    # Instance specials are black boxes: their outputs/inouts are free inputs of the surrounding logic (both sides); the instantiation
    # text itself is checked against the Instance's items by check_instances
    insts = [sp for sp in f0.specials if isinstance(sp, Instance)]
    pre_items = {id(it): it.expr for inst in insts for it in inst.items if hasattr(it, "expr")}          # before convert() lowers ClockSignal/ResetSignal in place
    f_ts = copy_fragment(f0); f_ts.specials -= set(insts); inst_driven = set()
    for inst in insts:
        for it in inst.items:
            if isinstance(it, (Instance.Output, Instance.InOut)):
                for sg in list_signals(it.expr):
                    inst_driven.add(sg)
                    if sg not in inputs and sg not in clks: inputs.append(sg)
    fts = TS(f_ts, inputs=inputs)
    r = convert(copy_fragment(f0), ios=ios, name="top", regular_comb=regular_comb)      # REAL back end (regular_comb=False: the per-target printer used for simulation flows)
    try:
        src_noinst, vinsts = split_instances(r.main_source) if (insts or "Instance" in r.main_source) else (r.main_source, [])
        vm = parse_module(src_noinst); vts = VTS(vm, r.data_files)
    except (VParseError, SyntaxError, AssertionError, KeyError, NotImplementedError) as e:
        return [res(f"tv[{name}]", "ensures", UNKNOWN, time.time() - t0, "", info=f"text outside the vlogsem grammar: {type(e).__name__}: {e}")]
    ns = r.ns
    def nm(s):
        try: return ns.get_name(s)
        except Exception: return None
    memcells = {}
    for mem, arr in fts.mems.items():
        for i, sig in enumerate(arr): memcells[sig] = (nm(mem), i)
    link = []          # (fhdl signal, verilog net name)
    for s in set(fts.state) | set(fts.inputs) | set(fts.comb_targets):
        if s in memcells: continue
        n = nm(s)
        if n in vts.var: link.append((s, n))
    # memory port registers: pair by port ordinal
    syncs = []
    for st in fts.f.sync.values(): _walk_assigns(st, syncs)
    special = []; rewritten = []; single_clock_rewrites = []
    for mem in fts.mems:
        mn = nm(mem)
        for n_, port in enumerate(mem.ports):
            if port.async_read: continue
            dm = declared_mode.get(port, port.mode)
            cands = [a.l for a in syncs if a.r is port.adr and isinstance(a.l, Signal) and a.l not in fts.orig_signals]
            if dm == WRITE_FIRST and port.mode == WRITE_FIRST:
                if len(cands) == 1 and f"{mn}_adr{n_}" in vts.var: special.append((cands[0], f"{mn}_adr{n_}"))
            elif dm == WRITE_FIRST:
                # the printer rewrote the mode of a port of a multi-clock memory (memory.py: "Set Port Mode to Read-First when several
                # Ports with different Clocks"): FHDL keeps an address register + combinational read, the Verilog a data register
                if len(cands) == 1 and f"{mn}_dat{n_}" in vts.var: rewritten.append((mem, port, cands[0], f"{mn}_dat{n_}"))
                if len({port_dom.get(p_) for p_ in mem.ports}) < 2: single_clock_rewrites.append(f"{mn}_dat{n_}")    # only multi-clock memories fall under the listed finding
            else:
                if f"{mn}_dat{n_}" in vts.var and port.dat_r in fts.state: special.append((port.dat_r, f"{mn}_dat{n_}"))
    state_f = set(fts.state)
    rw_regs = {id(x[2]) for x in rewritten}
    link_state = [(s, n) for s, n in link if s in state_f and vm.nets[n]["kind"] == "reg" and not any(s is sp[0] for sp in special)] + special
    unlinked = [s for s in fts.state if s not in memcells and id(s) not in rw_regs and not any(s is a for a, _ in link_state)]
    # registers created by the lowering of specials inside convert() (MultiReg flops) are different objects on the two sides: they are
    # paired structurally - where an already linked pair is defined on both sides by a plain register (comb: o = reg; sync: reg' = reg2),
    # those registers are linked too (a wrong pairing can only make the step obligation fail, never pass)
    dom_clk0 = {}
    for cdn in fts.next:
        try: dom_clk0[cdn] = nm(fts.f.clock_domains[cdn].clk)
        except KeyError: dom_clk0[cdn] = None
    fid = {fts.var[s_].get_id(): s_ for s_ in fts.var}; vid = {v_.get_id(): n_ for n_, v_ in vts.var.items()}
    linked_v = {n for _, n in link_state}
    changed = True
    while changed and unlinked:
        changed = False
        pairs = [(fts.comb_eq[s_], vts.comb_eq[n_]) for s_, n_ in link if s_ in fts.comb_eq and n_ in vts.comb_eq]
        for cdn, fm in fts.next.items():
            vnx = vts.next.get(dom_clk0[cdn], {})
            pairs += [(fm[s_], vnx[n_]) for s_, n_ in link_state if s_ in fm and n_ in vnx]
        for fe, ve in pairs:
            fe = z3.simplify(fe); ve = z3.simplify(ve)
            s2 = fid.get(fe.get_id()); n2 = vid.get(ve.get_id())
            if s2 is not None and n2 is not None and any(s2 is u for u in unlinked) and n2 not in linked_v and vm.nets[n2]["kind"] == "reg" and vm.nets[n2]["width"] == s2.nbits:
                link_state.append((s2, n2)); linked_v.add(n2); unlinked = [u for u in unlinked if u is not s2]; changed = True
    cs = list(fts.comb_constraints()) + [vts.var[n] == e for n, e in vts.comb_eq.items()]
    driven = set(vts.comb_eq) | {n for d_ in vts.next.values() for n in d_}
    cs += [vts.var[n] == vts.init[n] for n, dd in vm.nets.items() if dd["kind"] == "reg" and n not in driven and n not in vm.ports and n in vts.init]
    eq_now = [fts.var[s] == vts.var[n] for s, n in link_state]
    eq_now += [fts.rd(s) == vts.var[n] for s, n in link if s in fts.inputs and (vm.ports.get(n) == "input" or s in inst_driven)]
    eq_now += [fts.var[sig] == vts.memvar[mn][i] for sig, (mn, i) in memcells.items() if mn in vts.memvar]
    eq_now += [fts.rd(port.dat_r) == vts.var[vn] for _, port, _, vn in rewritten]      # relational link of a rewritten port: data register == mem[address register]
    # per clock domain: the FHDL next-state function of the domain against the always @(posedge <that domain's clock>) blocks
    dom_clk = {}
    for cdn in fts.next:
        try: dom_clk[cdn] = nm(fts.f.clock_domains[cdn].clk)
        except KeyError: dom_clk[cdn] = None
    goals = {}; goals_norst = {}
    spec_sigs = {id(a) for a, _ in special}
    vclks_used = set()
    for cdn, fm in fts.next.items():
        clk = dom_clk[cdn]; vnext = vts.next.get(clk, {}); vmnext = vts.mem_next.get(clk, {}); vclks_used.add(clk)
        tag = "" if len(fts.next) == 1 else f"@{cdn}"
        for s, n in link_state:
            if len(fts.next) > 1 and s not in fm and n not in vnext: continue
            (goals_norst if id(s) in spec_sigs else goals)[f"next{tag}.{n}"] = fm.get(s, fts.var[s]) == vnext.get(n, vts.var[n])
        for sig, (mn, i) in memcells.items():
            if mn in vts.memvar and (len(fts.next) == 1 or sig in fm or (mn, i) in vmnext):
                goals_norst[f"next{tag}.{mn}[{i}]"] = fm.get(sig, fts.var[sig]) == vmnext.get((mn, i), vts.memvar[mn][i])
    # registers or memory words clocked in the Verilog text by a clock that is no FHDL domain's clock
    stray = [c for c in set(vts.next) | set(vts.mem_next) if c not in vclks_used and (vts.next.get(c) or vts.mem_next.get(c))]
    if not fts.next:
        for s, n in link_state: goals[f"next.{n}"] = fts.var[s] == vts.var[n]
    for s, n in link:
        if vm.ports.get(n) == "output" and s not in state_f and s not in inst_driven: goals[f"out.{n}"] = fts.var[s] == vts.var[n]
    out = []
    bad = []; unk = []
    solver = z3.Solver(); solver.add(*cs); solver.add(*eq_now)
    for g, e in goals.items():
        solver.push(); solver.set("timeout", 30000); solver.add(z3.Not(e)); rr = solver.check(); solver.pop()
        if rr == z3.sat: bad.append(g)
        elif rr != z3.unsat: unk.append(g)
    # memory words and memory-port registers: compared with the reset input low (the simulator's MemoryToArray + insert_resets restores
    # memory contents and port registers while rst is high, the emitted memory template does not: tracked as a listed finding below)
    rsts = [cd_.rst for cd_ in fts.f.clock_domains if cd_.rst is not None]
    rst_low = [fts.rd(r_) == 0 for r_ in rsts]
    # memories whose depth is not a power of two: the comparison is made for in-range port addresses (out of range the simulator's
    # Array proxy clamps to the last word while the Verilog access falls outside the array; stated in ASSUMPTIONS)
    addr_ok = []
    for mem in fts.mems:
        for port in mem.ports:
            if (1 << port.adr.nbits) > mem.depth and port.adr in fts.var:
                addr_ok.append(z3.ULT(fts.rd(port.adr), z3.BitVecVal(mem.depth, port.adr.nbits)))
    # write ports of one memory on one clock: a colliding write (same word, same edge, different ports) is a race between always blocks in
    # IEEE 1364; the comparison is made for collision-free steps (stated in ASSUMPTIONS)
    for mem in fts.mems:
        wps = [p_ for p_ in mem.ports if p_.we is not None]
        for pa_, pb_ in itertools.combinations(wps, 2):
            if port_dom.get(pa_) == port_dom.get(pb_):
                addr_ok.append(z3.Not(z3.And(fts.rd(pa_.we) != 0, fts.rd(pb_.we) != 0, fts.rd(pa_.adr) == fts.rd(pb_.adr))))
    rbad = []
    for g, e in goals_norst.items():
        solver.push(); solver.set("timeout", 30000); solver.add(*rst_low); solver.add(*addr_ok); solver.add(z3.Not(e)); rr = solver.check(); solver.pop()
        if rr == z3.sat: bad.append(g)
        elif rr != z3.unsat: unk.append(g)
        if rsts:
            solver.push(); solver.set("timeout", 30000); solver.add(*addr_ok); solver.add(z3.Or(*[fts.rd(r_) == 1 for r_ in rsts])); solver.add(z3.Not(e)); rr = solver.check(); solver.pop()
            if rr == z3.sat: rbad.append(g)
    goals.update(goals_norst)
    # rewritten ports of multi-clock memories: for every non-empty set T of simultaneously ticking domains the relation
    # "Verilog data register == FHDL mem[address register]" is re-established, PROVIDED no write that takes effect in this step hits the
    # address the read port holds after the step (inside that scenario the two semantics differ: listed finding)
    rw_diff = []
    if rewritten:
        doms = list(fts.next)
        subsets = [t for k in range(1, len(doms) + 1) for t in itertools.combinations(doms, k)] if len(doms) <= 3 else [(d_,) for d_ in doms] + [tuple(doms)]
        for T in subsets:
            sub = []
            for cdn in T:
                for s_, e_ in fts.next[cdn].items(): sub.append((fts.var[s_], e_))
            for mem, port, areg, vn in rewritten:
                rcd = [cdn for cdn in doms if areg in fts.next[cdn]]
                e_dat = fts.comb_eq.get(port.dat_r)
                if e_dat is None or len(rcd) != 1: unk.append(f"rewritten-port.{vn}"); continue
                f_after = z3.substitute(e_dat, *sub) if sub else e_dat
                v_after = vts.next.get(dom_clk[rcd[0]], {}).get(vn, vts.var[vn]) if rcd[0] in T else vts.var[vn]
                adr_after = z3.substitute(fts.var[areg], *sub) if sub else fts.var[areg]
                hits = []
                for wp in mem.ports:
                    if wp.we is None: continue
                    wcd = port_dom.get(wp)
                    if wcd not in T: continue
                    hits.append(z3.And(fts.rd(wp.we) != 0, fts.rd(wp.adr) == adr_after))
                nohit = z3.Not(z3.Or(*hits)) if hits else z3.BoolVal(True)
                gname = f"next@{'+'.join(T)}.{vn}(rewritten port)"
                goals[gname] = z3.Implies(nohit, f_after == v_after)
                solver.push(); solver.set("timeout", 30000); solver.add(*rst_low); solver.add(*addr_ok); solver.add(nohit); solver.add(f_after != v_after); rr = solver.check(); solver.pop()
                if rr == z3.sat: bad.append(gname)
                elif rr != z3.unsat: unk.append(gname)
                if hits:
                    solver.push(); solver.set("timeout", 30000); solver.add(*rst_low); solver.add(*addr_ok); solver.add(z3.Not(nohit)); solver.add(f_after != v_after); rr = solver.check()
                    if rr == z3.sat and vn in single_clock_rewrites:
                        bad.append(f"port mode of a single-clock memory changed by the printer: {vn} (declared Write-First, emitted Read-First; a write to the address being read returns the old word)")
                    elif rr == z3.sat:
                        m_ = solver.model()
                        rw_diff.append(dict(ticking=list(T), port=vn, verilog_data_register_after=str(m_.eval(v_after, model_completion=True)), simulator_read_value_after=str(m_.eval(f_after, model_completion=True)),
                                            address=str(m_.eval(adr_after, model_completion=True))))
                    solver.pop()
    init_bad = []; port_noinit = []
    for s, n in link_state:
        if n in vts.init:
            iv = z3.simplify(vts.init[n])
            if not z3.is_bv_value(iv) or iv.as_long() != (s.reset.value & ((1 << s.nbits) - 1)): init_bad.append(n)
        elif s.reset.value != 0 and not any(s is sp[0] for sp in special):
            (port_noinit if n in vm.ports else init_bad).append(n + "(no initialiser)")
    for sig, (mn, i) in memcells.items():
        if mn in vts.mem_init and vts.mem_init[mn][i] != (sig.reset.value & ((1 << sig.nbits) - 1)): init_bad.append(f"{mn}[{i}]")
    st = PROVED if not bad and not unk and not unlinked and not stray else (NOINPUT if bad or stray else UNKNOWN)
    out.append(res(f"tv.step[{name}]", "ensures", st, time.time() - t0, "z3-5.1.0(api)", goals=len(goals), linked_state=len(link_state), memory_words=len(memcells), clock_domains=len(fts.next),
                   info=(f"differing: {bad[:4]}" if bad else "") + (f" undecided: {unk[:3]}" if unk else "") + (f" state without Verilog counterpart: {[str(fts.var[s]) for s in unlinked[:3]]}" if unlinked else "")
                        + (f" Verilog registers clocked by a signal that is no FHDL clock domain's clock: {stray}" if stray else ""),
                   formula="forall state, inputs: (state_fhdl == state_verilog) => outputs equal and next_state equal, per clock domain (each FHDL domain against the always @(posedge <its clock>) blocks)"))
    out.append(res(f"tv.init[{name}]", "ensures", PROVED if not init_bad else NOINPUT, 0, "executed", info=f"initial value mismatch: {init_bad[:4]}" if init_bad else ""))
    if port_noinit:
        out.append(res(f"finding.port-reg-init[{name}]", "finding-witness", VIOLATED, 0, "executed", differing=port_noinit[:3],
                       what="a register that is a module port and has a non-zero reset value is declared without initialiser ('output reg [..] x,'): its Verilog power-up value is not the simulator's initial value until a reset pulse is applied"))
    if goals_norst and rsts:
        out.append(res(f"finding.memory-under-reset[{name}]", "finding-witness", VIOLATED if rbad else PROVED, 0, "z3-5.1.0(api)", differing=rbad[:3],
                       what="while the reset input is high the simulator (MemoryToArray + insert_resets) restores memory words to their init values and resets memory-port registers; the emitted Verilog memory template has no reset"))
    if insts or vinsts:
        out += check_instances(name, insts, pre_items, vinsts, ns, vm, {cd_.name: cd_ for cd_ in fts.f.clock_domains}, r.main_source)
    if [x for x in rewritten if x[3] not in single_clock_rewrites]:
        out.append(res(f"finding.multiclock-memory-read-first[{name}]", "finding-witness", VIOLATED if rw_diff else PROVED, 0, "z3-5.1.0(api)", witness=rw_diff[:2],
                       what="memory with ports in different clock domains: the printer rewrites every port to Read-First (memory.py, 'FIXME'), the simulator keeps the declared Write-First mode (address register + transparent read): "
                            "when a write takes effect at the address a synchronous read port holds, the simulated read data follows the write, the Verilog data register keeps the old word"))
    return out

def _corpus():
    from litex.soc.interconnect import stream, wishbone, csr_bus
    from litex.soc.interconnect.csr import CSRStorage, CSRStatus, AutoCSR
    from litex.soc.cores import code_8b10b, ecc
    from litex.gen import LiteXModule
    def eps(d): return set(d.sink.flatten()) | set(d.source.flatten())
    C = []
    C.append(("PipeReady", lambda: (lambda d: (d, eps(d)))(stream.PipeReady([("data", 8)]))))
    C.append(("_UpConverter(8->32)", lambda: (lambda d: (d, eps(d)))(stream._UpConverter(8, 32, 4, False))))
    C.append(("_DownConverter(32->8,rev)", lambda: (lambda d: (d, eps(d)))(stream._DownConverter(32, 8, 4, True))))
    C.append(("Gearbox(10->4,lsb)", lambda: (lambda d: (d, eps(d)))(stream.Gearbox(10, 4, msb_first=False))))
    C.append(("SyncFIFO(4)", lambda: (lambda d: (d, eps(d)))(stream.SyncFIFO([("data", 8)], 4))))
    C.append(("SyncFIFO(4,buffered)", lambda: (lambda d: (d, eps(d)))(stream.SyncFIFO([("data", 8)], 4, True))))
    def sram(bursting, ro=False):
        bus = wishbone.Interface(data_width=32, adr_width=30, bursting=bursting); d = wishbone.SRAM(32, bus=bus, init=[1, 2, 0xdeadbeef], read_only=ro); return d, set(bus.flatten())
    C.append(("wishbone.SRAM", lambda: sram(False))); C.append(("wishbone.SRAM(burst)", lambda: sram(True))); C.append(("wishbone.SRAM(ro)", lambda: sram(False, True)))
    def down():
        m = wishbone.Interface(data_width=32, adr_width=8); s = wishbone.Interface(data_width=8, adr_width=10); d = wishbone.DownConverter(m, s); return d, set(m.flatten()) | set(s.flatten())
    C.append(("wishbone.DownConverter(32->8)", down))
    def wbic():
        ms = [wishbone.Interface(data_width=32, adr_width=30) for _ in range(2)]; ss = [wishbone.Interface(data_width=32, adr_width=30) for _ in range(2)]
        d = wishbone.InterconnectShared(ms, [(lambda a: a[28:] == 0, ss[0]), (lambda a: a[28:] == 1, ss[1])], register=True, timeout_cycles=16)
        io = set(); [io.update(i.flatten()) for i in ms + ss]; return d, io
    C.append(("wishbone.InterconnectShared(2x2,timeout)", wbic))
    def enc():
        d = code_8b10b.Encoder(2, True); return d, set(d.d + d.k + d.output + d.disparity + [d.ce])
    C.append(("8b10b.Encoder(2)", enc))
    def dec():
        d = code_8b10b.Decoder(True); return d, {d.input, d.d, d.k, d.invalid, d.ce}
    C.append(("8b10b.Decoder", dec))
    def eccd():
        d = ecc.ECCDecoder(16); return d, {d.i, d.o, d.sec, d.ded, d.enable}
    C.append(("ECCDecoder(16)", eccd))
    def bank():
        class T(Module, AutoCSR):
            def __init__(self):
                self.a = CSRStorage(40, name="a", atomic_write=True, reset=0x1234); self.b = CSRStatus(12, name="b"); self.c = CSRStorage(9, name="c", write_from_dev=True)
                self.bus = csr_bus.Interface(data_width=8, address_width=14)
                self.submodules.bank = csr_bus.CSRBank([self.a, self.b, self.c], bus=self.bus)
        d = T(); return d, set(d.bus.flatten()) | {d.b.status, d.c.we, d.c.dat_w, d.a.storage, d.c.storage}
    C.append(("CSRBank(8-bit)", bank))
    class Stmts(Module):
        """statement nests: If/Elif/Case/Array targets, slices and Cat on the left, signed arithmetic"""
        def __init__(self):
            self.a = Signal(4); self.b = Signal((4, True)); self.sel = Signal(2); self.o = Signal(8); self.p = Signal((6, True)); self.q = Signal(8); self.r0 = Signal(4); self.r1 = Signal(4)
            arr = Array([self.r0, self.r1])
            self.comb += [self.o.eq(0), If(self.sel == 0, self.o[0:4].eq(self.a)).Elif(self.sel == 1, self.o[4:8].eq(self.b)).Else(Cat(self.o[0:2], self.o[6:8]).eq(self.a))]
            self.comb += Case(self.sel, {0: self.p.eq(self.b), 1: self.p.eq(self.a), "default": self.p.eq(self.b - self.a)})
            self.sync += [self.q.eq(self.q + self.a), If(self.sel[0], arr[self.sel[1]].eq(self.a)), Case(~self.sel, {1: self.q[0:2].eq(3), 2: self.q.eq(self.b)})]
            # a matching Case branch WITHOUT statements does nothing (the default must not run for it), comb and sync
            self.e = Signal(4); self.f = Signal(4, reset=5)
            self.comb += Case(self.sel, {0: [], 1: self.e.eq(self.a), "default": self.e.eq(9)})
            # keys outside the range of the 2-bit selector (5 = 0b101, 8 = 0b1000) never match - neither in the simulator nor, at their own width, in Verilog
            self.e2 = Signal(4); self.f2 = Signal(4)
            self.comb += Case(self.sel, {5: self.e2.eq(1), 8: self.e2.eq(2), 2: self.e2.eq(3), "default": self.e2.eq(self.a)})
            self.sync += Case(self.sel, {4: self.f2.eq(7), 1: self.f2.eq(self.a)})
            # a comb target assigned piecewise: an unconditional slice plus conditional assignments to OTHER bits (those fall back to the
            # reset value when the condition is false), a reset value that is not zero, and a target only ever assigned conditionally
            self.g = Signal(6, reset=0b101010); self.k = Signal(4, reset=0b0110); self.c2 = Signal()
            self.comb += [self.g[0:2].eq(self.a[0:2]), If(self.c2, self.g[2:4].eq(self.a[2:4])), If(self.sel == 2, self.g[5].eq(self.a[0]))]
            self.comb += If(self.c2 & self.sel[0], self.k.eq(self.a))
            self.sync += Case(self.sel, {2: [], 3: self.f.eq(self.a), "default": self.f.eq(self.f + 1)})
    C.append(("statement-nests", lambda: (lambda d: (d, {d.a, d.b, d.sel, d.o, d.p, d.q, d.r0, d.r1, d.e, d.f, d.g, d.k, d.c2, d.e2, d.f2}))(Stmts())))
    # second batch: more of the real LiteX library (interconnect, bridges, packet, peripherals)
    from litex.soc.interconnect import packet, axi, ahb
    from litex.soc.cores import timer as _timer, uart as _uart, spi as _spi
    from litex.soc.interconnect.csr_eventmanager import EventManager, EventSourceProcess, EventSourcePulse
    from litex.gen.genlib.misc import WaitTimer
    C.append(("StrideConverter(8->24)", lambda: (lambda d: (d, eps(d)))(stream.StrideConverter([("data", 8)], [("data", 24)]))))
    C.append(("Pack(3)", lambda: (lambda d: (d, eps(d)))(stream.Pack([("data", 4)], 3))))
    C.append(("Unpack(3)", lambda: (lambda d: (d, eps(d)))(stream.Unpack(3, [("data", 4)]))))
    C.append(("Buffer", lambda: (lambda d: (d, eps(d)))(stream.Buffer([("data", 8)]))))
    def pkt(kind, length):
        hdr = packet.Header({"a": packet.HeaderField(0, 0, 8), "b": packet.HeaderField(1, 0, 16), "c": packet.HeaderField(3, 0, (length - 3) * 8)}, length, swap_field_bytes=True)
        withp = stream.EndpointDescription([("data", 32)], hdr.get_layout()); raw = stream.EndpointDescription([("data", 32)])
        d = packet.Packetizer(withp, raw, hdr) if kind == "p" else packet.Depacketizer(raw, withp, hdr); return d, eps(d)
    C.append(("Packetizer(32,8B)", lambda: pkt("p", 8))); C.append(("Packetizer(32,6B,unaligned)", lambda: pkt("p", 6)))
    C.append(("Depacketizer(32,8B)", lambda: pkt("d", 8))); C.append(("Depacketizer(32,6B,unaligned)", lambda: pkt("d", 6)))
    C.append(("PacketFIFO(4,2)", lambda: (lambda d: (d, eps(d)))(packet.PacketFIFO(stream.EndpointDescription([("data", 8)], [("p", 3)]), 4, 2))))
    def cache():
        m = wishbone.Interface(data_width=32, adr_width=8); s_ = wishbone.Interface(data_width=32, adr_width=8); d = wishbone.Cache(8, m, s_); return d, set(m.flatten()) | set(s_.flatten())
    C.append(("wishbone.Cache(8)", cache))
    def axil(kind):
        def io(*itfs):
            o = set()
            for i in itfs:
                for ch in ("aw", "w", "b", "ar", "r"): o |= set(getattr(i, ch).flatten())
            return o
        if kind == "sram":
            b_ = axi.AXILiteInterface(data_width=32, address_width=12); d = axi.AXILiteSRAM(64, bus=b_, init=[5, 6, 7]); return d, io(b_)
        if kind == "down":
            m = axi.AXILiteInterface(data_width=32, address_width=16); s_ = axi.AXILiteInterface(data_width=16, address_width=16); d = axi.AXILiteDownConverter(m, s_); return d, io(m, s_)
        if kind == "ic":
            ms = [axi.AXILiteInterface(data_width=32, address_width=32) for _ in range(2)]; ss = [axi.AXILiteInterface(data_width=32, address_width=32) for _ in range(2)]
            d = axi.AXILiteInterconnectShared(ms, [(lambda a: a[28:] == 0, ss[0]), (lambda a: a[28:] == 1, ss[1])], timeout_cycles=16); return d, io(*ms, *ss)
        if kind == "axi2axil":
            m = axi.AXIInterface(data_width=32, address_width=16, id_width=2); s_ = axi.AXILiteInterface(data_width=32, address_width=16); d = axi.AXI2AXILite(m, s_); return d, io(m, s_)
        if kind == "axil2wb":
            m = axi.AXILiteInterface(data_width=32, address_width=16); w = wishbone.Interface(data_width=32, adr_width=14); d = axi.AXILite2Wishbone(m, w, 0x400); return d, io(m) | set(w.flatten())
    for k_ in ("sram", "down", "ic", "axi2axil", "axil2wb"): C.append((f"axi.{k_}", (lambda k_=k_: axil(k_))))
    def ahbw():
        a = ahb.AHBInterface(data_width=32, address_width=16); w = wishbone.Interface(data_width=32, adr_width=14); d = ahb.AHB2Wishbone(a, w); return d, set(a.flatten()) | set(w.flatten())
    C.append(("AHB2Wishbone", ahbw))
    C.append(("WaitTimer(11)", lambda: (lambda d: (d, {d.wait, d.done}))(WaitTimer(11))))
    def evm():
        class T(Module, AutoCSR):
            def __init__(self):
                self.submodules.ev = EventManager(); self.ev.a = EventSourcePulse(name="a"); self.ev.b = EventSourceProcess(name="b", edge="falling"); self.ev.finalize()
        d = T(); ev = d.ev
        return d, {ev.a.trigger, ev.b.trigger, ev.irq, ev.pending.re, ev.pending.r, ev.pending.status, ev.status.status, ev.enable.storage}
    C.append(("EventManager(pulse,falling)", evm))
    def txphy():
        class P:
            def __init__(self): self.tx = Signal(name="tx"); self.rx = Signal(name="rx")
        pads = P(); d = _uart.RS232PHYTX(pads, 2**29); return d, {pads.tx} | set(d.sink.flatten())
    C.append(("RS232PHYTX", txphy))
    # third batch: multi-clock designs (every FHDL clock domain against the always blocks of its clock; dual-clock memories)
    from litex.gen.genlib.cdc import BusSynchronizer
    from migen.genlib.cdc import PulseSynchronizer
    def afifo(depth, buffered=False):
        d = ClockDomainsRenamer({"write": "sys", "read": "rd"})(stream.AsyncFIFO([("data", 8)], depth, buffered)); return d, eps(d)
    C.append(("AsyncFIFO(4,sys->rd)", lambda: afifo(4))); C.append(("AsyncFIFO(8,buffered,sys->rd)", lambda: afifo(8, True)))
    C.append(("ClockDomainCrossing(sys->rd)", lambda: (lambda d: (d, eps(d)))(stream.ClockDomainCrossing([("data", 8)], "sys", "rd", depth=4))))
    C.append(("BusSynchronizer(4,sys->rd)", lambda: (lambda d: (d, {d.i, d.o}))(BusSynchronizer(4, "sys", "rd", timeout=8))))
    C.append(("PulseSynchronizer(sys->rd)", lambda: (lambda d: (d, {d.i, d.o}))(PulseSynchronizer("sys", "rd"))))
    class DualClockMem(Module):
        """two write-capable Write-First ports in different domains plus an asynchronous read port"""
        def __init__(self):
            mem = Memory(8, 4, init=[1, 2, 3, 4]); self.specials += mem
            self.pa = pa = mem.get_port(write_capable=True, clock_domain="sys", we_granularity=4); self.pb = pb = mem.get_port(write_capable=True, has_re=True, clock_domain="rd")
            self.pc = pc = mem.get_port(async_read=True); self.specials += pa, pb, pc
            self.cnt = Signal(3); self.sync.rd += self.cnt.eq(self.cnt + pb.dat_r[0])
    def dcm():
        d = DualClockMem(); io = set()
        for p_ in (d.pa, d.pb, d.pc): io |= {x for x in (p_.adr, p_.dat_r, p_.we, p_.dat_w, p_.re) if x is not None}
        return d, io | {d.cnt}
    C.append(("dual-clock-memory(2 write ports)", dcm))
    class TwoWritePorts(Module):
        """two write-capable ports on ONE clock: Write-First (transparent, also for the other port's write), Read-First and No-Change declared modes"""
        def __init__(self, mode_b):
            mem = Memory(8, 4, init=[9, 8, 7, 6]); self.specials += mem
            self.pa = pa = mem.get_port(write_capable=True); self.pb = pb = mem.get_port(write_capable=True, mode=mode_b, has_re=True); self.specials += pa, pb
    def twp(mode_b):
        d = TwoWritePorts(mode_b); io = set()
        for p_ in (d.pa, d.pb): io |= {x for x in (p_.adr, p_.dat_r, p_.we, p_.dat_w, p_.re) if x is not None}
        return d, io
    # Instance specials: a synthetic instance with every kind of item, and the instances the real clocking helpers emit
    class Inst(Module):
        def __init__(self):
            self.a = Signal(4); self.b = Signal((3, True)); self.q = Signal(6); self.q2 = Signal(4); self.pad = Signal(2); self.r = Signal(4)
            self.sync += self.r.eq(self.r + self.q[0:4])
            self.specials += Instance("FOO", name="foo_i",
                p_WIDTH=4, p_NEG=Constant(-3, (4, True)), p_MODE="fast,(x)", p_RATIO=1.5, p_RAW=Instance.PreformattedParam("8'hA5"),
                i_clk=ClockSignal("sys"), i_rst=ResetSignal("sys"), i_a=self.a, i_lo=self.a[1:3], i_cat=Cat(self.b, self.a[0], self.r), i_k=Constant(5, 4), i_rep=Replicate(self.a[3], 3), i_one=1,
                o_q=self.q, o_q2lo=self.q2[0:2], o_q2hi=self.q2[2:4], io_pad=self.pad, synthesis_directive="keep")
            self.specials += Instance("FOO", i_a=self.b, o_q=Signal(name="unused"))
    C.append(("Instance(all item kinds, two of one module)", lambda: (lambda d: (d, {d.a, d.b, d.q, d.q2, d.pad, d.r}))(Inst())))
    def pll(kind):
        from litex.soc.cores.clock import xilinx_s7, lattice_ecp5, lattice_ice40
        class T(Module):
            def __init__(self):
                self.clk_in = Signal(); self.clock_domains.cd_a = ClockDomain("a"); self.clock_domains.cd_b = ClockDomain("b")
                if kind == "S7PLL": p_ = xilinx_s7.S7PLL(speedgrade=-1); fin = 100e6
                elif kind == "S7MMCM": p_ = xilinx_s7.S7MMCM(speedgrade=-1); fin = 100e6
                elif kind == "ECP5PLL": p_ = lattice_ecp5.ECP5PLL(); fin = 100e6
                else: p_ = lattice_ice40.iCE40PLL(); fin = 12e6
                self.submodules.pll = p_; p_.register_clkin(self.clk_in, fin); p_.create_clkout(self.cd_a, 50e6 if kind != "iCE40PLL" else 24e6, with_reset=False)
                if kind not in ("iCE40PLL",): p_.create_clkout(self.cd_b, 25e6, phase=90 if kind != "ECP5PLL" else 0, with_reset=False)
                self.cnt = Signal(4); self.sync.a += self.cnt.eq(self.cnt + 1)
        d = T(); return d, {d.clk_in, d.cnt}
    for k_ in ("S7PLL", "S7MMCM", "ECP5PLL", "iCE40PLL"): C.append((f"clock.{k_}(instance)", (lambda k_=k_: pll(k_))))
    C.append(("two-write-port-memory(wf,wf)", lambda: twp(WRITE_FIRST))); C.append(("two-write-port-memory(wf,rf)", lambda: twp(READ_FIRST))); C.append(("two-write-port-memory(wf,nc)", lambda: twp(NO_CHANGE)))
    return C

def c_design(name, regular_comb=True):
    for n, mkd in _corpus():
        if n == name:
            d, ios = mkd()
            return dict(results=tv_design(n, d, ios, regular_comb), functions=["litex.gen.fhdl.verilog.convert", "litex.gen.fhdl.verilog._generate_node", "litex.gen.fhdl.verilog._generate_signals", "litex.gen.fhdl.verilog._generate_combinatorial_logic_synth",
                                                                 "litex.gen.fhdl.verilog._generate_synchronous_logic", "litex.gen.fhdl.memory._memory_generate_verilog", "litex.gen.fhdl.instance._instance_generate_verilog"], samples=[dict(program=n)])
    raise KeyError(name)

# ---------------------------------------------------------------------------------------------------------------------------
# 2b. grammar-generated programs (seeded): statement nests the fixed corpus does not contain
def _gen_program(rng):
    """one random FHDL program: If/Elif/Else and Case nests (with and without default, empty branches), whole-signal / slice / Cat / Array
    targets, comb and sync, non-zero reset values.  Expressions stay inside the classes the expression lemma proves equal (depth-1 operators
    over signals, slices of unsigned signals and non-negative constants): the listed finding classes (intermediate overflow under a
    context-opaque consumer, negative constants) are not generated."""
    class G(Module): pass
    d = G()
    ins = [Signal((rng.randint(1, 6), rng.random() < 0.3), name_override=f"i{k}") for k in range(4)]
    combs = [Signal((rng.randint(1, 7), rng.random() < 0.25), name_override=f"c{k}", reset=rng.randint(0, 1)) for k in range(3)]
    regs = [Signal((rng.randint(1, 7), rng.random() < 0.25), name_override=f"r{k}") for k in range(3)]
    for r_ in regs: r_.reset = Constant(rng.randint(0, (1 << (len(r_) - (1 if r_.signed else 0))) - 1), (len(r_), r_.signed))
    for c_ in combs: c_.reset = Constant(rng.randint(0, (1 << (len(c_) - (1 if c_.signed else 0))) - 1), (len(c_), c_.signed))
    arr = Array(regs[:2])
    readable = ins + regs
    def atom():
        k = rng.random()
        if k < 0.55: return rng.choice(readable)
        if k < 0.8:
            sgs = [x for x in readable if not x.signed and len(x) > 1]
            if sgs:
                sg = rng.choice(sgs); lo = rng.randrange(len(sg)); hi = rng.randint(lo + 1, len(sg)); return sg[lo:hi]
            return rng.choice(readable)
        return Constant(rng.randint(0, 9))
    def expr():
        k = rng.random(); a, b_ = atom(), atom()
        if k < 0.3: return a
        if k < 0.7: return rng.choice([lambda: a + b_, lambda: a - b_, lambda: a & b_, lambda: a | b_, lambda: a ^ b_, lambda: a == b_, lambda: a != b_, lambda: a < b_, lambda: a >= b_, lambda: ~a])()
        if k < 0.8: return Mux(cond(), a, b_)
        if k < 0.9: return Cat(a, b_)
        return Replicate(a, rng.randint(1, 3))
    def cond():
        k = rng.random()
        if k < 0.5: return rng.choice(readable)
        a, b_ = atom(), atom()
        return rng.choice([lambda: a == b_, lambda: a != b_, lambda: a < b_, lambda: a <= b_])()
    def target(tgts, sync):
        t = rng.choice(tgts); k = rng.random()
        if k < 0.55 or len(t) < 2: return t
        if k < 0.85:
            lo = rng.randrange(len(t)); hi = rng.randint(lo + 1, len(t)); return t[lo:hi]
        if sync and k < 0.93: return arr[rng.choice([x for x in ins if not x.signed] or [Constant(0)])] if not any(x is regs[0] or x is regs[1] for x in []) else t
        return Cat(t[len(t) - 1], t[0])          # bits of ONE signal in another order (a Cat over several signals is one statement with several targets: the per-target sim printer repeats it in every target's block)
    def stmts(tgts, depth, sync):
        out = []
        for _ in range(rng.randint(1, 3)):
            k = rng.random()
            if depth == 0 or k < 0.45: out.append(target(tgts, sync).eq(expr()))
            elif k < 0.75:
                st = If(cond(), *stmts(tgts, depth - 1, sync))
                for _ in range(rng.randint(0, 2)): st = st.Elif(cond(), *stmts(tgts, depth - 1, sync))
                if rng.random() < 0.6: st = st.Else(*stmts(tgts, depth - 1, sync))
                out.append(st)
            else:
                sel = rng.choice([x for x in readable if not x.signed] or readable); n = min(1 << len(sel), 4)
                keys = rng.sample(range(1 << len(sel)), rng.randint(1, n)) if not sel.signed else [0]
                if not sel.signed and rng.random() < 0.4: keys.append((1 << len(sel)) + rng.randrange(1 << len(sel)))      # a key the selector can never take: must never match (also not after truncation)
                cases_ = {k_: (stmts(tgts, depth - 1, sync) if rng.random() < 0.85 else []) for k_ in keys}
                if rng.random() < 0.6: cases_["default"] = stmts(tgts, depth - 1, sync)
                out.append(Case(sel, cases_))
        return out
    d.comb += stmts(combs, 2, False)
    readable = ins + regs + combs
    d.sync += stmts(regs, 2, True)
    return d, set(ins + combs + regs)

def _quiet_trace(rng, ins, cycles):
    """input schedule with QUIET cycles: most cycles change exactly one input (or none), the others change everything - an event-driven
    evaluation that forgets a dependency (a signal read on a target side, a selector, a condition) only shows in cycles where nothing else moves"""
    cur = [0] * len(ins); tr = []
    for _ in range(cycles):
        k = rng.random()
        if k < 0.65 and ins:
            j = rng.randrange(len(ins)); cur = list(cur); cur[j] = rng.getrandbits(ins[j].nbits)
        elif k < 0.85: cur = [rng.getrandbits(i.nbits) for i in ins]
        tr.append(list(cur))
    return tr

def _demux_program(rng):
    """comb de-multiplexers: Array targets selected by a key, the key an input or a register that nothing else reads"""
    class G(Module): pass
    d = G(); n = rng.choice([2, 3, 4])
    key = Signal(max=max(n, 2), name_override="key"); data = Signal(rng.randint(1, 5), name_override="data"); en = Signal(name_override="en")
    outs = [Signal(len(data), name_override=f"o{k}") for k in range(n)]; regs = [Signal(len(data), name_override=f"q{k}") for k in range(n)]
    rkey = Signal(max=max(n, 2), name_override="rkey"); beat = Signal(3, name_override="beat")
    d.comb += Array(outs)[key].eq(data)
    d.sync += [beat.eq(beat + 1), If(en, rkey.eq(key))]
    outs2 = [Signal(len(data), name_override=f"p{k}") for k in range(n)]
    d.comb += Array(outs2)[rkey].eq(data)                          # key is a register: changes at a clock edge while every comb input may stay put
    d.sync += If(en, Array(regs)[key].eq(data))
    return d, [key, data, en], set([key, data, en] + outs + outs2 + regs)

def c_sim_conformance(seed, first, count):
    """the REAL simulator (litex.gen.sim.core.Simulator: commit + combinatorial fix-point + clock edges, the Python event loop itself) against the
    reference semantics the emitted Verilog is proved equal to (fhdl2smt, design*/generated* cases), on generated programs and comb de-multiplexers
    under input schedules with quiet cycles.  Every original signal (comb targets after settling, registers) is compared in every cycle.  Bounded."""
    import random
    out = []; compared_total = 0
    for k in range(first, first + count):
        rng = random.Random(seed * 100003 + k)
        try:
            if k % 4 == 0: d, ins, _ = _demux_program(rng)
            else:
                d, ios = _gen_program(rng); ins = sorted([s_ for s_ in ios if s_.name_override.startswith("i")], key=lambda s_: s_.name_override)
            h = HwCheck(f"sim({seed}:{k})", d, ins)
        except Exception as e:
            out.append(res(f"sim[{seed}:{k}]", "harness", UNKNOWN, 0, "", info=f"generator/extraction: {type(e).__name__}: {e}")); continue
        tr = _quiet_trace(rng, h.ts.inputs, 48)
        t0 = time.time()
        try: compared, mism = h.cosim(trace=tr)
        except Exception as e:
            out.append(res(f"ens.simulator-follows-reference[{seed}:{k}]", "bounded", UNKNOWN, time.time() - t0, "litex.gen.sim", info=f"{type(e).__name__}: {e}")); continue
        compared_total += compared
        if mism:
            out.append(res(f"ens.simulator-follows-reference[{seed}:{k}]", "bounded", VIOLATED, time.time() - t0, "real litex.gen.sim run vs fhdl2smt evaluation (the semantics the emitted Verilog is proved equal to)",
                           witness=dict(program=("comb de-multiplexer (Array target)" if k % 4 == 0 else "generated program") + f" seed {seed} #{k}", inputs=[str(i) for i in h.ts.inputs], trace=tr[:mism[0][0] + 1],
                                        first_difference=dict(cycle=mism[0][0], signal=mism[0][1], simulator=mism[0][2], reference=mism[0][3]) if len(mism[0]) == 4 else str(mism[0])), replayed=True))
        else:
            out.append(res(f"ens.simulator-follows-reference[{seed}:{k}]", "bounded", BOUNDED_OK, time.time() - t0, "real litex.gen.sim run vs fhdl2smt evaluation", bound=f"48 cycles, {compared} signal values compared"))
    return dict(results=out, functions=["litex.gen.sim.core.Simulator.run", "litex.gen.sim.core.Simulator._commit_and_comb_propagate", "litex.gen.sim.core.Evaluator.execute", "litex.gen.sim.core.Evaluator.assign", "litex.gen.sim.core.Evaluator.commit"],
                samples=[dict(programs=f"seed {seed}, programs {first}..{first + count - 1}", schedule="quiet cycles: one input (or none) changes per cycle in 65% of the cycles", values_compared=compared_total)])

def c_random_programs(seed, first, count):
    import random
    out = []
    for k in range(first, first + count):
        rng = random.Random(seed * 100003 + k)
        try:
            d, ios = _gen_program(rng)
        except Exception as e:
            out.append(res(f"gen[{seed}:{k}]", "harness", "checker-fault", 0, "", info=f"generator: {type(e).__name__}: {e}")); continue
        rs = tv_design(f"generated({seed}:{k})", d, ios, regular_comb=(k % 3 != 0))
        out += [r_ for r_ in rs if not r_["name"].startswith("finding.port-reg-init")]           # power-up value of port registers: covered by the listed finding on the fixed corpus
    return dict(results=out, functions=["litex.gen.fhdl.verilog._generate_node", "litex.gen.fhdl.verilog._generate_combinatorial_logic_synth/_sim", "litex.gen.fhdl.verilog._generate_synchronous_logic", "litex.gen.fhdl.verilog._ComplexSliceLowerer"],
                samples=[dict(generated_programs=f"seed {seed}, programs {first}..{first + count - 1}", grammar="If/Elif/Else, Case (default / none / empty branches), whole/slice/Cat/Array targets, comb and sync")])

def c_case_sim():
    """statement-level differential against the REAL simulator (exhaustive over inputs, narrow): Case/If tests built from operator
    expressions (truncated test value), compared with the IEEE-1364 value of the real printer's text"""
    from litex.gen.sim import run_simulation
    out = []
    class D(Module):
        def __init__(self):
            self.x = Signal(3); self.s = Signal((3, True)); self.y = Signal(3); self.z = Signal(3); self.w = Signal(4)
            self.comb += Case(~self.x, {0: self.y.eq(1), 3: self.y.eq(2), 7: self.y.eq(3), "default": self.y.eq(7)})
            self.comb += Case(-self.x, {1: self.z.eq(1), 5: self.z.eq(2), "default": self.z.eq(6)})
            self.comb += If(self.x - 3, self.w.eq(self.s)).Else(self.w.eq(9))
    d = D(); f0 = d.get_fragment()
    r = convert(copy_fragment(f0), ios={d.x, d.s, d.y, d.z, d.w}, name="top")
    vm = parse_module(r.main_source); vts = VTS(vm, r.data_files)
    rows = []
    def gen():
        for xv in range(8):
            for sv in range(-4, 4):
                yield d.x.eq(xv); yield d.s.eq(sv); yield
                rows.append((xv, sv, (yield d.y), (yield d.z), (yield d.w)))
    f0.clock_domains.append(ClockDomain("sys"))
    run_simulation(copy_fragment(f0), gen())
    bad = []
    nmx = {k: r.ns.get_name(getattr(d, k)) for k in "xsyzw"}
    for xv, sv, yv, zv, wv in rows:
        sub = [(vts.var[nmx["x"]], z3.BitVecVal(xv, 3)), (vts.var[nmx["s"]], z3.BitVecVal(sv & 7, 3))]
        def vv(k):
            return z3.simplify(z3.substitute(vts.comb_eq[nmx[k]], *sub)).as_long()
        got = (vv("y"), vv("z"), vv("w"))
        if got != (yv & 7, zv & 7, wv & 15): bad.append(dict(x=xv, s=sv, simulator=(yv, zv, wv), verilog=got))
    out.append(res("ens.case-test-truncation[Case(~x), Case(-x), If(x-3); all inputs]", "ensures", PROVED if rows and not bad else VIOLATED, 0, "real simulator vs vlogsem of the real text (exhaustive, 64 inputs)", witness=bad[:1], evaluations=len(rows)))
    return dict(results=out, functions=["litex.gen.sim.core.Evaluator.execute (Case/If)", "litex.gen.fhdl.verilog._generate_node"])

def c_multiclock_reference():
    """the reference semantics for SEVERAL clock domains (Simulator.run / _commit_and_comb_propagate: every domain whose clock rises in an instant
    executes on the pre-edge state, then ONE commit): the real simulator is run on two-domain designs with coincident and non-coincident edges and
    compared, observation by observation, with the per-domain next-state functions of fhdl2smt applied to all rising domains simultaneously (the
    semantics the emitted Verilog is proved against in the multi-clock designs).  Executed (bounded: clock configurations x 60 edges)."""
    from litex.gen.sim import run_simulation
    from litex.gen.sim.core import TimeManager
    class D(Module):
        def __init__(self):
            self.x = Signal(4, reset=1); self.y = Signal(4, reset=2); self.ca = Signal(5); self.cb = Signal(5); self.z = Signal(5)
            self.sync.a += [self.x.eq(self.y), self.ca.eq(self.ca + 1)]
            self.sync.b += [self.y.eq(self.x), self.cb.eq(self.cb + self.ca[0]), If(self.x[0], self.z.eq(self.z + self.ca))]
    out = []; bad = []; nobs = 0
    for clocks in ({"a": 10, "b": 10}, {"a": 10, "b": (20, 5)}, {"a": 10, "b": 20}, {"a": 6, "b": (10, 3)}, {"a": (14, 7), "b": 14}, {"a": 4, "b": 6}):
        d = D(); regs = [d.x, d.y, d.ca, d.cb, d.z]
        f0 = d.get_fragment()
        for n_ in ("a", "b"): f0.clock_domains.append(ClockDomain(n_, reset_less=True))
        ts = TS(copy_fragment(f0), inputs=[])
        # real simulator: a generator per domain records the (pre-edge) register values it sees at each of its ticks
        logs = {"a": [], "b": []}
        def mk(cdn, n_ticks):
            def g():
                for _ in range(n_ticks):
                    vals = []
                    for r_ in regs: vals.append((yield r_))
                    logs[cdn].append(tuple(vals)); yield
            return g()
        run_simulation(copy_fragment(f0), {"a": mk("a", 40), "b": mk("b", 40)}, clocks=dict(clocks))
        # reference: the same edge schedule (real TimeManager), all rising domains step on the pre-edge state
        tm = TimeManager(dict(clocks)); st = {r_: r_.reset.value for r_ in regs}; ref = {"a": [], "b": []}
        def step(st, doms):
            sub = [(ts.var[r_], z3.BitVecVal(st[r_], r_.nbits)) for r_ in regs]; new = dict(st)
            for cdn in doms:
                for r_, e in ts.next[cdn].items():
                    if r_ in st: new[r_] = z3.simplify(z3.substitute(e, *sub)).as_long()
            return new
        while len(ref["a"]) < 40 or len(ref["b"]) < 40:
            _, rising, _ = tm.tick()
            for cdn in sorted(rising): ref[cdn].append(tuple(st[r_] for r_ in regs))
            if rising: st = step(st, sorted(rising))
        for cdn in ("a", "b"):
            n = min(len(logs[cdn]), len(ref[cdn]), 40); nobs += n
            for k in range(n):
                if logs[cdn][k] != ref[cdn][k]:
                    bad.append(dict(clocks=str(clocks), domain=cdn, tick=k, simulator=logs[cdn][k], reference=ref[cdn][k])); break
    out.append(res("ens.multiclock-reference[simultaneous edges read the pre-edge state; 6 clock configurations x 80 observations]", "bounded", BOUNDED_OK if nobs and not bad else VIOLATED, 0,
                   "real litex.gen.sim run vs per-domain next-state functions (fhdl2smt) on the real TimeManager schedule", evaluations=nobs, witness=bad[:2]))
    return dict(results=out, functions=["litex.gen.sim.core.Simulator.run", "litex.gen.sim.core.Simulator._commit_and_comb_propagate", "litex.gen.sim.core.Evaluator.commit"], samples=[dict(bounded="multi-clock reference semantics", observations=nobs)])

def c_case_signed_selector():
    """Case on a SIGNED selector with a key that is not representable in the selector's type (6 on a 3-bit signed selector): the simulator compares
    integers (-2 != 6, never matches), the Verilog `case` compares bit patterns in an unsigned context (3'b110 == 3'd6 matches when sel == -2).
    Listed finding; the same design with representable keys only must be proved equal."""
    class D(Module):
        def __init__(self, keys):
            self.sel = Signal((3, True)); self.y = Signal(4)
            self.comb += Case(self.sel, {k: self.y.eq(i + 1) for i, k in enumerate(keys)} | {"default": self.y.eq(9)})
    out = []
    d = D([0, 1, 3]); r_ok = tv_design("case-signed-selector(representable keys 0,1,3)", d, {d.sel, d.y})
    out += r_ok
    d = D([0, 6]); r_bad = [x for x in tv_design("case-signed-selector(key 6 on a 3-bit signed selector)", d, {d.sel, d.y}) if x["name"].startswith("tv.step")]
    differs = any(x["status"] != PROVED for x in r_bad)
    # native half of the witness: the real simulator never takes the branch of key 6
    from litex.gen.sim import run_simulation
    d2 = D([0, 6]); seen = []
    def gen():
        for v in range(-4, 4):
            yield d2.sel.eq(v); yield
            seen.append((v, (yield d2.y)))
    run_simulation(d2, gen())
    txt = convert(D([0, 6]), ios=set(), name="top") if False else None
    out.append(res("finding.case-key-not-representable-in-signed-selector", "finding-witness", VIOLATED if differs and dict(seen).get(-2) == 9 else PROVED, 0, "vlogsem of the real text vs fhdl2smt; real simulator run",
                   witness=dict(simulator=seen, verilog="case (sel) 3'd6 matches sel == -2 (bit pattern 110)"),
                   what="Case on a signed selector with a key outside the selector's signed range (6 on 3 bits): never taken in simulation, taken for sel == -2 by the emitted Verilog (unsigned comparison of bit patterns)"))
    return dict(results=out, functions=["litex.gen.fhdl.verilog._generate_node (Case)", "litex.gen.sim.core.Evaluator.execute (Case)"], samples=[dict(program="Case on a signed selector")])

def cases(tier):
    names = list(TEMPLATES)
    cs = [VCase(f"expr[{n}]", c_templates, [n], timeout=900) for n in names]
    cs += [VCase(f"expr-finding[{n}]", c_templates, [n], True, timeout=900) for n in FINDING_TEMPLATES]
    cs += [VCase(f"design[{n}]", c_design, n, timeout=900) for n, _ in _corpus()]
    cs += [VCase(f"design-simcomb[{n}]", c_design, n, False, timeout=900) for n, _ in _corpus()]     # same programs through _generate_combinatorial_logic_sim
    cs.append(VCase("case-sim", c_case_sim)); cs.append(VCase("case-signed-selector", c_case_signed_selector)); cs.append(VCase("multiclock-reference", c_multiclock_reference))
    import os
    seed = int(os.environ.get("VERIF_SEED", "0")); n = 48 if tier == "quick" else 480
    cs += [VCase(f"generated(seed={seed},{f}..{f + 11})", c_random_programs, seed, f, 12, timeout=900) for f in range(0, n, 12)]
    cs += [VCase(f"sim-conformance(seed={seed},{f}..{f + 11})", c_sim_conformance, seed, f, 12, timeout=900) for f in range(0, 24 if tier == "quick" else 240, 12)]
    return cs

ASSUMPTIONS = ["vf/vexpr.py + vf/vlog.py are a hand-written specification of IEEE 1364-2005 for the emitted subset (self-determined/context widths, sign rules, $signed, concatenation, part-select writes, memories, $readmemh); anything outside the grammar is reported undecided",
               "the simulator side of symbolic obligations is fhdl2smt (transcription of Evaluator), guarded by exhaustive comparison with the REAL Evaluator on narrow instances and by co-simulation in the other properties",
               "corpus of programs (not all programs), single- and multi-clock (every FHDL clock domain against the always blocks of its clock; MultiReg flops paired structurally; ports of multi-clock memories whose mode the printer rewrites are related by 'data register == mem[address register]' for every set of simultaneously ticking domains, outside the listed write-hits-read-address scenario); Instance specials (see C01_instance) and timing are outside the transition-system comparison; memories of non-power-of-two depth are compared for in-range port addresses (out of range the simulator clamps to the last word); two write ports of one memory on one clock are compared for collision-free steps (a colliding write is a race between always blocks in IEEE 1364)",
               "known finding classes (inherited Migen semantics: intermediate overflow under a context-opaque consumer; LiteX: negative constants printed as unsigned literals) are tracked as listed findings"]
