"""C09: bus bridges and AXI-Lite converters preserve memory semantics and protocol rules.
Transaction-translation contracts (M5) on AXILite2Wishbone, Wishbone2AXILite, AXILite2CSR, AXILiteUpConverter; symbolic-address
contract (M3) on AXILiteSRAM; slave-side protocol monitors (valid never withdrawn or changed before ready; Wishbone cycle held)."""
import z3
from .axilib import *
from .wblib import master_holds, slave_legal, req as wbreq, m_inputs as wb_m_inputs, s_inputs as wb_s_inputs
from litex.soc.interconnect import wishbone, csr_bus
from litex.soc.interconnect.axi import AXILiteInterface, AXILite2Wishbone, Wishbone2AXILite, AXILiteSRAM, AXILite2CSR, AXILiteUpConverter, AXILiteConverter
from vf.core import Case
RESP_OKAY, RESP_SLVERR = 0, 2

def c_axil2wb(dw=32, aw=12, base=0x400):
    sh = (dw // 8).bit_length() - 1
    ax = AXILiteInterface(data_width=dw, address_width=aw); wb = wishbone.Interface(data_width=dw, adr_width=aw - sh)
    d = mk(AXILite2Wishbone, ax, wb, base_address=base)
    h = HwCheck(f"AXILite2Wishbone(dw={dw},base={base:#x})", d, master_side_inputs(ax) + [wb.ack, wb.dat_r, wb.err])
    stalls = {}
    for ch in ("aw", "w", "ar"): stalls[ch] = src_env(h, getattr(ax, ch), ch)
    sreq = wbreq(h, wb)
    h.assume(z3.Implies(z3.Or(b(h.v(wb.ack)), b(h.v(wb.err))), sreq), "Wishbone slave raises ack/err only while cyc&stb are presented to it")
    no_err = z3.Not(b(h.v(wb.err)))
    h.assume(no_err, "scenario restriction: the Wishbone slave does not terminate with err (see known finding)")
    F = lambda ep: fire(h, ep)
    owe_b = h.ghost("owe_b", 1); owe_r = h.ghost("owe_r", 1); g_data = h.ghost("rdata", dw)
    wr_done = z3.And(sreq, b(h.v(wb.ack)), b(h.v(wb.we))); rd_done = z3.And(sreq, b(h.v(wb.ack)), z3.Not(b(h.v(wb.we))))
    h.ghost_next(owe_b, z3.If(wr_done, K(1, 1), z3.If(F(ax.b), K(0, 1), owe_b)))
    h.ghost_next(owe_r, z3.If(rd_done, K(1, 1), z3.If(F(ax.r), K(0, 1), owe_r)))
    h.ghost_next(g_data, z3.If(rd_done, h.v(wb.dat_r), g_data))
    try:
        st = d.fsm.state; enc = d.fsm.encoding
        h.hint("owe_b", b(owe_b) == eqc(h.v(st), enc["SEND-WRITE-RESPONSE"])); h.hint("owe_r", b(owe_r) == eqc(h.v(st), enc["SEND-READ-RESPONSE"]))
        h.hint("dowrite->aw", z3.Implies(eqc(h.v(st), enc["DO-WRITE"]), b(stalls["aw"][0])))
        h.hint("doread->ar", z3.Implies(eqc(h.v(st), enc["DO-READ"]), b(stalls["ar"][0])))
        h.hint("rdata", z3.Implies(b(owe_r), h.v(L(d, "_data")) == g_data)); h.hint("st<5", ult(h.v(st), 5))
    except (AttributeError, KeyError, TypeError): pass
    h.use_auto = True
    waddr = z3.Extract(aw - 1, sh, h.v(ax.aw.addr) - K(base, aw)); raddr = z3.Extract(aw - 1, sh, h.v(ax.ar.addr) - K(base, aw))
    h.ensure("ens.wb_write", z3.Implies(z3.And(sreq, b(h.v(wb.we))), z3.And(b(h.v(ax.aw.valid)), b(h.v(ax.w.valid)), h.v(wb.adr) == waddr, h.v(wb.dat_w) == h.v(ax.w.data), h.v(wb.sel) == h.v(ax.w.strb))))
    h.ensure("ens.wb_read",  z3.Implies(z3.And(sreq, z3.Not(b(h.v(wb.we)))), z3.And(b(h.v(ax.ar.valid)), h.v(wb.adr) == raddr, h.v(wb.sel) == K(2**(dw // 8) - 1, dw // 8))))
    h.ensure("ens.cyc=stb", h.v(wb.cyc) == h.v(wb.stb))
    h.ensure("ens.serial", z3.Implies(sreq, z3.And(z3.Not(b(owe_b)), z3.Not(b(owe_r)))))
    h.ensure("ens.consume", z3.And(F(ax.aw) == wr_done, F(ax.w) == wr_done, F(ax.ar) == rd_done))   # each request consumed exactly when the slave performs it (one slave cycle per request)
    h.ensure("ens.b", z3.And(b(h.v(ax.b.valid)) == b(owe_b), z3.Implies(b(h.v(ax.b.valid)), h.v(ax.b.resp) == K(RESP_OKAY, 2))))
    h.ensure("ens.r", z3.And(b(h.v(ax.r.valid)) == b(owe_r), z3.Implies(b(h.v(ax.r.valid)), z3.And(h.v(ax.r.data) == g_data, h.v(ax.r.resp) == K(RESP_OKAY, 2)))))
    wbs = [wb.adr, wb.dat_w, wb.sel, wb.we]
    h.ensure_seq("ens.wb_hold", lambda at: z3.Implies(at(z3.And(sreq, z3.Not(b(h.v(wb.ack)))), 0), z3.And(at(sreq, 1), *[at(h.v(s), 1) == at(h.v(s), 0) for s in wbs])))
    src_guarantee(h, ax.b, "b"); src_guarantee(h, ax.r, "r")
    h.respond("resp.write", z3.And(b(h.v(ax.aw.valid)), b(h.v(ax.w.valid)), z3.Not(b(h.v(ax.ar.valid))), b(h.v(ax.b.ready)), b(h.v(ax.r.ready)), z3.Or(z3.Not(sreq), b(h.v(wb.ack)))), F(ax.b), 6)
    h.respond("resp.read",  z3.And(b(h.v(ax.ar.valid)), z3.Not(b(h.v(ax.aw.valid))), b(h.v(ax.b.ready)), b(h.v(ax.r.ready)), z3.Or(z3.Not(sreq), b(h.v(wb.ack)))), F(ax.r), 6)
    h.cover("cover.b", F(ax.b), depth=6); h.cover("cover.r", F(ax.r), depth=6)
    h.functions = ["litex.soc.interconnect.axi.axi_lite_to_wishbone.AXILite2Wishbone.__init__"]
    return h

def c_axil2wb_err():
    """error responses propagated: a Wishbone slave that terminates a cycle with err must lead to SLVERR (known finding: ignored)"""
    ax = AXILiteInterface(data_width=32, address_width=12); wb = wishbone.Interface(data_width=32, adr_width=10)
    d = mk(AXILite2Wishbone, ax, wb, base_address=0)
    h = HwCheck("AXILite2Wishbone(err)", d, master_side_inputs(ax) + [wb.ack, wb.dat_r, wb.err])
    for ch in ("aw", "w", "ar"): src_env(h, getattr(ax, ch), ch)
    sreq = wbreq(h, wb)
    h.assume(z3.Implies(z3.Or(b(h.v(wb.ack)), b(h.v(wb.err))), sreq))
    h.assume(z3.Implies(b(h.v(wb.err)), b(h.v(wb.ack))), "err accompanies ack (slave terminates the cycle with ack+err as LiteX's Timeout and bridges do)")
    g_err = h.ghost("g_err", 1)
    done = z3.And(sreq, b(h.v(wb.ack)))
    h.ghost_next(g_err, z3.If(done, h.v(wb.err), g_err))
    rsp_bad = z3.Or(z3.And(b(h.v(ax.b.valid)), h.v(ax.b.resp) == K(RESP_OKAY, 2)), z3.And(b(h.v(ax.r.valid)), h.v(ax.r.resp) == K(RESP_OKAY, 2)))
    h.finding("finding.err-ignored", z3.Implies(b(g_err), z3.Not(rsp_bad)),
              "AXILite2Wishbone ignores wishbone.err: a cycle terminated with err is answered with RESP_OKAY (and a slave terminating with err alone hangs the bridge)")
    h.bmc_depth = 6
    h.functions = ["litex.soc.interconnect.axi.axi_lite_to_wishbone.AXILite2Wishbone.__init__ (error propagation)"]
    return h

def c_wb2axil(dw=32, base=0):
    sh = (dw // 8).bit_length() - 1; aw = 12
    wb = wishbone.Interface(data_width=dw, adr_width=aw - sh); ax = AXILiteInterface(data_width=dw, address_width=aw)
    d = mk(Wishbone2AXILite, wb, ax, base_address=base)
    h = HwCheck(f"Wishbone2AXILite(dw={dw},base={base:#x})", d, wb_m_inputs(wb) + slave_side_inputs(ax))
    pend = master_holds(h, wb)
    F = lambda ep: fire(h, ep)
    # AXI-Lite slave environment: responses only for received requests (B after AW and W), held until ready
    src_env(h, ax.b, "b"); src_env(h, ax.r, "r")
    aw_got = h.ghost("aw_got", 1); w_got = h.ghost("w_got", 1); ar_got = h.ghost("ar_got", 1)
    wack = b(h.v(wb.ack))
    endw = F(ax.b); endr = F(ax.r)
    h.ghost_next(aw_got, z3.If(endw, K(0, 1), z3.If(F(ax.aw), K(1, 1), aw_got)))
    h.ghost_next(w_got, z3.If(endw, K(0, 1), z3.If(F(ax.w), K(1, 1), w_got)))
    h.ghost_next(ar_got, z3.If(endr, K(0, 1), z3.If(F(ax.ar), K(1, 1), ar_got)))
    h.assume(z3.Implies(b(h.v(ax.b.valid)), z3.And(b(aw_got), b(w_got))), "AXI-Lite slave sends B only after it has received AW and W")
    h.assume(z3.Implies(b(h.v(ax.r.valid)), b(ar_got)), "AXI-Lite slave sends R only after it has received AR")
    rq = wbreq(h, wb)
    h.use_auto = True
    try:
        st, enc = d.fsm.state, d.fsm.encoding; cd_, dd_ = L(d, "_cmd_done"), L(d, "_data_done"); hd = h.held[""]
        inW, inR, inE, inI = eqc(h.v(st), enc["WRITE"]), eqc(h.v(st), enc["READ"]), eqc(h.v(st), enc["ERROR"]), eqc(h.v(st), enc["IDLE"])
        h.hint("st<n", ult(h.v(st), len(enc)))
        h.hint("W", z3.Implies(inW, z3.And(h.v(cd_) == aw_got, h.v(dd_) == w_got, ar_got == K(0, 1), b(hd.pend), hd.we == K(1, 1))))
        h.hint("R", z3.Implies(inR, z3.And(h.v(cd_) == ar_got, aw_got == K(0, 1), w_got == K(0, 1), b(hd.pend), hd.we == K(0, 1))))
        h.hint("IE", z3.Implies(z3.Or(inI, inE), z3.And(aw_got == K(0, 1), w_got == K(0, 1), ar_got == K(0, 1))))
        h.hint("E", b(g_bad_) == inE if False else z3.BoolVal(True))
        h.hint("Epend", z3.Implies(inE, b(hd.pend)))
    except (AttributeError, KeyError, TypeError): pass
    adr_spec = h.v(wb.adr) - K((base // 4) & (2**(aw - sh) - 1), aw - sh)           # as built: word offset base_address//4
    # exactly one AW, one W (one AR) per Wishbone cycle, with the cycle's address / data / select; held until ready
    h.ensure("ens.aw", z3.Implies(b(h.v(ax.aw.valid)), z3.And(rq, b(h.v(wb.we)), z3.Not(b(aw_got)), z3.Extract(aw - 1, sh, h.v(ax.aw.addr)) == adr_spec)))
    h.ensure("ens.w", z3.Implies(b(h.v(ax.w.valid)), z3.And(rq, b(h.v(wb.we)), z3.Not(b(w_got)), h.v(ax.w.data) == h.v(wb.dat_w), h.v(ax.w.strb) == h.v(wb.sel))))
    h.ensure("ens.ar", z3.Implies(b(h.v(ax.ar.valid)), z3.And(rq, z3.Not(b(h.v(wb.we))), z3.Not(b(ar_got)), z3.Extract(aw - 1, sh, h.v(ax.ar.addr)) == adr_spec)))
    if dw == 32:
        h.ensure("ens.addr-low", z3.And(z3.Implies(b(h.v(ax.aw.valid)), z3.Extract(sh - 1, 0, h.v(ax.aw.addr)) == K(0, sh)), z3.Implies(b(h.v(ax.ar.valid)), z3.Extract(sh - 1, 0, h.v(ax.ar.addr)) == K(0, sh))))
    # the master is acknowledged exactly once, with the slave's response: OKAY -> ack with the read data, else ack+err
    h.ensure("ens.ack.ok", z3.Implies(z3.And(wack, z3.Not(b(h.v(wb.err)))), z3.Or(z3.And(endw, h.v(ax.b.resp) == K(0, 2)), z3.And(endr, h.v(ax.r.resp) == K(0, 2), h.v(wb.dat_r) == h.v(ax.r.data)))))
    h.ensure("ens.ack-only-if-req", z3.Implies(wack, rq))
    g_bad = h.ghost("g_bad", 1)
    h.ghost_next(g_bad, bv1(z3.Or(z3.And(endw, h.v(ax.b.resp) != K(0, 2)), z3.And(endr, h.v(ax.r.resp) != K(0, 2)))))
    try: h.hint("gbad", b(g_bad) == eqc(h.v(d.fsm.state), d.fsm.encoding["ERROR"]))
    except (AttributeError, KeyError, TypeError): pass
    h.ensure("ens.err", z3.Implies(b(g_bad), z3.And(wack, b(h.v(wb.err)))))                      # error responses propagated, in the next cycle
    h.ensure("ens.err.only", z3.Implies(b(h.v(wb.err)), b(g_bad)))
    src_guarantee(h, ax.aw, "aw"); src_guarantee(h, ax.w, "w"); src_guarantee(h, ax.ar, "ar")
    h.respond("resp.write", z3.And(rq, b(h.v(wb.we)), b(h.v(ax.aw.ready)), b(h.v(ax.w.ready)), z3.Or(b(h.v(ax.b.valid)), z3.Not(z3.And(b(aw_got), b(w_got))))), wack, 5)
    h.respond("resp.read", z3.And(rq, z3.Not(b(h.v(wb.we))), b(h.v(ax.ar.ready)), z3.Or(b(h.v(ax.r.valid)), z3.Not(b(ar_got)))), wack, 5)
    h.cover("cover.wr", z3.And(wack, b(h.v(wb.we))), depth=6); h.cover("cover.err", b(h.v(wb.err)), depth=7)
    h.functions = ["litex.soc.interconnect.axi.axi_lite_to_wishbone.Wishbone2AXILite.__init__"]
    return h

def lane_of(word, l, nl):
    r = z3.Extract(8 * nl - 1, 8 * (nl - 1), word)
    for j in reversed(range(nl - 1)): r = z3.If(l == K(j, l.size()), z3.Extract(8 * j + 7, 8 * j, word), r)
    return r
def sbit(sel, l, nl):
    r = z3.Extract(nl - 1, nl - 1, sel)
    for j in reversed(range(nl - 1)): r = z3.If(l == K(j, l.size()), z3.Extract(j, j, sel), r)
    return b(r)

def c_axilsram(depth=4):
    ax = AXILiteInterface(data_width=32, address_width=32)
    d = mk(AXILiteSRAM, depth * 4, bus=ax)
    h = HwCheck(f"AXILiteSRAM({depth}x32)", d, master_side_inputs(ax))
    for ch in ("aw", "w", "ar"): src_env(h, getattr(ax, ch), ch)
    AW = (depth - 1).bit_length()
    mem = h.ts.mems[d.mem]
    gw = h.const("gw", AW); gl = h.const("gl", 2); gv = h.ghost("gv", 8)
    def memrd(a):
        r = h.v(mem[depth - 1])
        for j in reversed(range(depth - 1)): r = z3.If(a == K(j, AW), h.v(mem[j]), r)
        return r
    F = lambda ep: fire(h, ep)
    awf, wf, arf, rf, bf = F(ax.aw), F(ax.w), F(ax.ar), F(ax.r), F(ax.b)
    # a write takes effect when its W beat is accepted; its address is that of the AW it belongs to (accepted with or before it)
    wadr = h.ghost("wadr", AW); aw_first = h.ghost("aw_first", 1)
    cur_wadr = z3.If(b(aw_first), wadr, z3.Extract(AW + 1, 2, h.v(ax.aw.addr)))
    h.ghost_next(aw_first, z3.If(z3.And(awf, z3.Not(wf)), K(1, 1), z3.If(wf, K(0, 1), aw_first)))
    h.ghost_next(wadr, z3.If(z3.And(awf, z3.Not(wf)), z3.Extract(AW + 1, 2, h.v(ax.aw.addr)), wadr))
    hit_w = z3.And(wf, cur_wadr == gw, sbit(h.v(ax.w.strb), gl, 4))
    h.ghost_next(gv, z3.If(hit_w, lane_of(h.v(ax.w.data), gl, 4), gv))
    rd_tracked = h.ghost("rd_tracked", 1); rd_val = h.ghost("rd_val", 8)
    h.ghost_next(rd_tracked, z3.If(arf, bv1(z3.Extract(AW + 1, 2, h.v(ax.ar.addr)) == gw), z3.If(rf, K(0, 1), rd_tracked)))
    h.ghost_next(rd_val, z3.If(arf, gv, rd_val))
    owe_b = h.ghost("owe_b", 1); owe_r = h.ghost("owe_r", 1)
    h.ghost_next(owe_b, z3.If(wf, K(1, 1), z3.If(bf, K(0, 1), owe_b))); h.ghost_next(owe_r, z3.If(arf, K(1, 1), z3.If(rf, K(0, 1), owe_r)))
    h.hint("mem", lane_of(memrd(gw), gl, 4) == gv)
    try:
        st, enc = d.fsm.state, d.fsm.encoding
        for cand in [x for x in h.ts.state if x.nbits == AW]:
            h.hint(f"latch.adr{cand.duid}", z3.Implies(z3.And(eqc(h.v(st), enc["LATCH-READ-RESPONSE"]), b(rd_tracked)), h.v(cand) == gw))
            h.hint(f"wait.adr{cand.duid}", z3.Implies(eqc(h.v(st), enc["WAIT-FOR-WRITE-DATA"]), h.v(cand) == wadr))
        for cand in [x for x in h.ts.state if x.nbits == 32 and x not in mem]:
            h.hint(f"send.dat{cand.duid}", z3.Implies(z3.And(eqc(h.v(st), enc["SEND-READ-RESPONSE"]), b(rd_tracked)), lane_of(h.v(cand), gl, 4) == rd_val))
        h.hint("owe_r.st", b(owe_r) == z3.Or(eqc(h.v(st), enc["LATCH-READ-RESPONSE"]), eqc(h.v(st), enc["SEND-READ-RESPONSE"])))
        h.hint("owe_b.st", b(owe_b) == eqc(h.v(st), enc["SEND-WRITE-RESPONSE"]))
        h.hint("aw_first.st", b(aw_first) == eqc(h.v(st), enc["WAIT-FOR-WRITE-DATA"]))
        h.hint("st<n", ult(h.v(st), len(enc)))
    except (AttributeError, KeyError, TypeError): pass
    h.hint("rd_val=gv", z3.Implies(b(owe_r), rd_val == gv))
    h.use_auto = True
    h.ensure("ens.read", z3.Implies(z3.And(b(h.v(ax.r.valid)), b(rd_tracked)), lane_of(h.v(ax.r.data), gl, 4) == rd_val))     # every byte read is the last enabled write to it
    h.ensure("ens.write", lane_of(h.primed(memrd(gw)), gl, 4) == z3.If(hit_w, lane_of(h.v(ax.w.data), gl, 4), gv))            # writes touch only the selected bytes of the addressed word
    h.ensure("ens.rvalid", z3.Implies(b(h.v(ax.r.valid)), b(owe_r))); h.ensure("ens.bvalid", z3.Implies(b(h.v(ax.b.valid)), b(owe_b)))   # one response per request
    h.ensure("ens.w_needs_aw", z3.Implies(wf, z3.Or(awf, b(aw_first))))
    h.ensure("ens.resp_ok", z3.And(z3.Implies(b(h.v(ax.r.valid)), h.v(ax.r.resp) == K(0, 2)), z3.Implies(b(h.v(ax.b.valid)), h.v(ax.b.resp) == K(0, 2))))
    src_guarantee(h, ax.b, "b"); src_guarantee(h, ax.r, "r")
    h.respond("resp.read", z3.And(b(h.v(ax.ar.valid)), z3.Not(b(h.v(ax.aw.valid))), b(h.v(ax.r.ready)), b(h.v(ax.b.ready)), z3.Implies(b(aw_first), b(h.v(ax.w.valid)))), rf, 7)   # W supplied when due
    h.respond("resp.write", z3.And(b(h.v(ax.aw.valid)), b(h.v(ax.w.valid)), z3.Not(b(h.v(ax.ar.valid))), b(h.v(ax.r.ready)), b(h.v(ax.b.ready))), bf, 5)
    h.cover("cover.rd", z3.And(rf, b(rd_tracked)), depth=6)
    h.bmc_depth = 8; h.bmc_time = 40; h.cosim_cycles = 12
    h.functions = ["litex.soc.interconnect.axi.axi_lite.AXILiteSRAM.__init__", "litex.soc.interconnect.axi.axi_lite.axi_lite_to_simple"]
    return h

def c_axil2csr():
    ax = AXILiteInterface(data_width=32, address_width=16); cs = csr_bus.Interface(data_width=32, address_width=14)
    d = mk(AXILite2CSR, ax, cs)
    h = HwCheck("AXILite2CSR", d, master_side_inputs(ax) + [cs.dat_r])
    for ch in ("aw", "w", "ar"): src_env(h, getattr(ax, ch), ch)
    F = lambda ep: fire(h, ep)
    awf, wf, arf, rf, bf = F(ax.aw), F(ax.w), F(ax.ar), F(ax.r), F(ax.b)
    wadr = h.ghost("wadr", 14); aw_first = h.ghost("aw_first", 1)
    cur_wadr = z3.If(b(aw_first), wadr, z3.Extract(15, 2, h.v(ax.aw.addr)))
    h.ghost_next(aw_first, z3.If(z3.And(awf, z3.Not(wf)), K(1, 1), z3.If(wf, K(0, 1), aw_first)))
    h.ghost_next(wadr, z3.If(z3.And(awf, z3.Not(wf)), z3.Extract(15, 2, h.v(ax.aw.addr)), wadr))
    owe_b = h.ghost("owe_b", 1); owe_r = h.ghost("owe_r", 1)
    h.ghost_next(owe_b, z3.If(wf, K(1, 1), z3.If(bf, K(0, 1), owe_b))); h.ghost_next(owe_r, z3.If(arf, K(1, 1), z3.If(rf, K(0, 1), owe_r)))
    g_rd = h.ghost("g_rd", 32); p_re = h.prev("re", h.v(cs.re))
    h.ghost_next(g_rd, z3.If(b(p_re), h.v(cs.dat_r), g_rd))               # the CSR bus answers in the cycle after the strobe
    h.use_auto = True
    try:
        st, enc = d.fsm.state, d.fsm.encoding
        for cand in [x for x in h.ts.state if x.nbits == 14]:
            h.hint(f"wait.adr{cand.duid}", z3.Implies(eqc(h.v(st), enc["WAIT-FOR-WRITE-DATA"]), h.v(cand) == wadr))
        for cand in [x for x in h.ts.state if x.nbits == 32]:
            h.hint(f"send.dat{cand.duid}", z3.Implies(eqc(h.v(st), enc["SEND-READ-RESPONSE"]), h.v(cand) == g_rd))
        h.hint("latch", eqc(h.v(st), enc["LATCH-READ-RESPONSE"]) == b(p_re))
        h.hint("owe_r.st", b(owe_r) == z3.Or(eqc(h.v(st), enc["LATCH-READ-RESPONSE"]), eqc(h.v(st), enc["SEND-READ-RESPONSE"])))
        h.hint("owe_b.st", b(owe_b) == eqc(h.v(st), enc["SEND-WRITE-RESPONSE"]))
        h.hint("aw_first.st", b(aw_first) == eqc(h.v(st), enc["WAIT-FOR-WRITE-DATA"]))
        h.hint("st<n", ult(h.v(st), len(enc)))
    except (AttributeError, KeyError, TypeError): pass
    # exactly one CSR write strobe per accepted W (at its AW's word address, with its data; none if no byte enabled) and one read strobe per accepted AR
    h.ensure("ens.csr.we", b(h.v(cs.we)) == z3.And(wf, h.v(ax.w.strb) != K(0, 4)))
    h.ensure("ens.csr.we.addr", z3.Implies(b(h.v(cs.we)), z3.And(h.v(cs.adr) == cur_wadr, h.v(cs.dat_w) == h.v(ax.w.data))))
    h.ensure("ens.csr.re", z3.And(b(h.v(cs.re)) == arf, z3.Implies(arf, h.v(cs.adr) == z3.Extract(15, 2, h.v(ax.ar.addr)))))
    h.ensure("ens.csr.one-at-a-time", z3.Not(z3.And(b(h.v(cs.we)), b(h.v(cs.re)))))
    h.ensure("ens.r", z3.Implies(b(h.v(ax.r.valid)), z3.And(b(owe_r), h.v(ax.r.data) == g_rd, h.v(ax.r.resp) == K(0, 2))))
    h.ensure("ens.b", z3.Implies(b(h.v(ax.b.valid)), z3.And(b(owe_b), h.v(ax.b.resp) == K(0, 2))))
    h.ensure("ens.w_needs_aw", z3.Implies(wf, z3.Or(awf, b(aw_first))))
    src_guarantee(h, ax.b, "b"); src_guarantee(h, ax.r, "r")
    h.respond("resp.read", z3.And(b(h.v(ax.ar.valid)), z3.Not(b(h.v(ax.aw.valid))), b(h.v(ax.r.ready)), b(h.v(ax.b.ready)), z3.Implies(b(aw_first), b(h.v(ax.w.valid)))), rf, 7)   # W supplied when due
    h.respond("resp.write", z3.And(b(h.v(ax.aw.valid)), b(h.v(ax.w.valid)), z3.Not(b(h.v(ax.ar.valid))), b(h.v(ax.r.ready)), b(h.v(ax.b.ready))), bf, 5)
    h.cover("cover.rd", rf, depth=6)
    h.functions = ["litex.soc.interconnect.axi.axi_lite_to_csr.AXILite2CSR.__init__", "litex.soc.interconnect.axi.axi_lite.axi_lite_to_simple"]
    return h

def c_axil_up(dw_from, dw_to, via_converter=False):
    m = AXILiteInterface(data_width=dw_from, address_width=16); s = AXILiteInterface(data_width=dw_to, address_width=16)
    d = mk(AXILiteConverter if via_converter else AXILiteUpConverter, m, s)
    h = HwCheck(f"AXILite{'Converter' if via_converter else 'UpConverter'}({dw_from}->{dw_to})", d, master_side_inputs(m) + slave_side_inputs(s))
    for ch in ("aw", "w", "ar"): src_env(h, getattr(m, ch), ch)
    ratio = dw_to // dw_from; ma = (dw_from // 8).bit_length() - 1; sa = (dw_to // 8).bit_length() - 1; LB = sa - ma
    F = lambda ep: fire(h, ep)
    # scenario: single outstanding read, W offered with or after its AW (the converter remembers one lane per direction)
    rd_out = h.ghost("rd_out", 1); rd_lane = h.ghost("rd_lane", LB)
    h.ghost_next(rd_out, z3.If(F(m.r), K(0, 1), z3.If(F(m.ar), K(1, 1), rd_out)))
    h.ghost_next(rd_lane, z3.If(b(h.v(m.ar.valid)), z3.Extract(sa - 1, ma, h.v(m.ar.addr)), rd_lane))
    h.assume(z3.Implies(b(rd_out), z3.Not(b(h.v(m.ar.valid)))), "scenario restriction: single outstanding read (no new AR before the R of the previous one)")
    wr_lane = h.ghost("wr_lane", LB)
    h.ghost_next(wr_lane, z3.If(b(h.v(m.aw.valid)), z3.Extract(sa - 1, ma, h.v(m.aw.addr)), wr_lane))
    h.use_auto = True
    for c in ("aw", "ar"):
        h.ensure(f"ens.{c}", z3.And(h.v(getattr(s, c).valid) == h.v(getattr(m, c).valid), h.v(getattr(m, c).ready) == h.v(getattr(s, c).ready),
                                    z3.Extract(15, sa, h.v(getattr(s, c).addr)) == z3.Extract(15, sa, h.v(getattr(m, c).addr))))
    h.ensure("ens.ctrl", z3.And(h.v(s.w.valid) == h.v(m.w.valid), h.v(m.w.ready) == h.v(s.w.ready), h.v(m.b.valid) == h.v(s.b.valid), h.v(s.b.ready) == h.v(m.b.ready), h.v(m.b.resp) == h.v(s.b.resp),
                                h.v(m.r.valid) == h.v(s.r.valid), h.v(s.r.ready) == h.v(m.r.ready), h.v(m.r.resp) == h.v(s.r.resp)))
    cur_wl = z3.If(b(h.v(m.aw.valid)), z3.Extract(sa - 1, ma, h.v(m.aw.addr)), wr_lane)
    for j in range(ratio):
        on = cur_wl == K(j, LB)
        h.ensure(f"ens.w.lane{j}", z3.Implies(z3.And(b(h.v(m.w.valid)), on), z3.And(z3.Extract(dw_from // 8 * (j + 1) - 1, dw_from // 8 * j, h.v(s.w.strb)) == h.v(m.w.strb), z3.Extract(dw_from * (j + 1) - 1, dw_from * j, h.v(s.w.data)) == h.v(m.w.data))))
        h.ensure(f"ens.w.others{j}", z3.Implies(z3.And(b(h.v(m.w.valid)), z3.Not(on)), z3.Extract(dw_from // 8 * (j + 1) - 1, dw_from // 8 * j, h.v(s.w.strb)) == K(0, dw_from // 8)))
        h.ensure(f"ens.r.lane{j}", z3.Implies(z3.And(b(h.v(m.r.valid)), b(rd_out), rd_lane == K(j, LB)), h.v(m.r.data) == z3.Extract(dw_from * (j + 1) - 1, dw_from * j, h.v(s.r.data))))
    h.cover("cover.r", z3.And(F(m.r), b(rd_out)), depth=4)
    h.functions = ["litex.soc.interconnect.axi.axi_lite.AXILiteUpConverter.__init__"] + (["litex.soc.interconnect.axi.axi_lite.AXILiteConverter.__init__"] if via_converter else [])
    return h

def cases(tier):
    cs = [Case("AXILite2Wishbone(32,base=0)", c_axil2wb, 32, 12, 0), Case("AXILite2Wishbone(32,base=0x400)", c_axil2wb, 32, 12, 0x400), Case("AXILite2Wishbone(64,base=0x800)", c_axil2wb, 64, 12, 0x800),
          Case("AXILite2Wishbone(err)", c_axil2wb_err),
          Case("Wishbone2AXILite(32,base=0)", c_wb2axil, 32, 0), Case("Wishbone2AXILite(32,base=0x400)", c_wb2axil, 32, 0x400),
          Case("AXILiteSRAM(4x32)", c_axilsram, 4), Case("AXILite2CSR", c_axil2csr),
          Case("AXILiteUpConverter(32->64)", c_axil_up, 32, 64), Case("AXILiteUpConverter(8->32)", c_axil_up, 8, 32), Case("AXILiteConverter(16->32)", c_axil_up, 16, 32, True)]
    if tier == "thorough": cs += [Case("AXILiteSRAM(8x32)", c_axilsram, 8)]
    return cs

ASSUMPTIONS = ["M3/M5 meta-lemmas (paper) as in C07",
               "AXI-Lite / Wishbone partners protocol-legal as stated per case; AXILite2Wishbone proved for slaves that do not raise err (err handling is a listed known finding)",
               "AXILiteUpConverter proved for single-outstanding reads and W not before AW",
               "AXI2AXILite, AXILite2AXI, AXI2Wishbone, Wishbone2AXI, AHB2Wishbone are under contract in C09_axi_bridges.py, SoCBusHandler.add_adapter in C09_add_adapter.py; Avalon bridges are not part of the property"]

# ---------------------------------------------------------------------------------------------------------------------------
# AXI-Lite down-converter: one master transaction -> `ratio` slave transactions (unselected write sub-words skipped), data assembled in
# lane order, the first error response is sticky FOR THAT REQUEST ONLY.
def c_axil_down(dw_from, dw_to):
    from litex.soc.interconnect.axi import AXILiteDownConverter
    m = AXILiteInterface(data_width=dw_from, address_width=16); s = AXILiteInterface(data_width=dw_to, address_width=16)
    d = mk(AXILiteDownConverter, m, s)
    h = HwCheck(f"AXILiteDownConverter({dw_from}->{dw_to})", d, master_side_inputs(m) + slave_side_inputs(s))
    ratio = dw_from // dw_to; NB = dw_to // 8
    KW = max(2, ratio.bit_length() + 1)
    F = lambda ep: fire(h, ep)
    st = {}
    for ch in ("aw", "w", "ar"): st[ch] = src_env(h, getattr(m, ch), ch)
    st_sb = src_env(h, s.b, "sb"); st_sr = src_env(h, s.r, "sr")
    p_wstrb = h.prev("mwstrb", h.v(m.w.strb))
    h.assume(z3.Implies(b(st["w"][0]), h.v(m.w.strb) == p_wstrb), "AXI channel source holds valid and payload until ready (W strobes, separately tracked)")
    p_sresp = h.prev("sresp", h.v(s.r.resp))
    h.assume(z3.Implies(b(st_sr[0]), h.v(s.r.resp) == p_sresp), "AXI channel source holds valid and payload until ready (R response code, separately tracked)")
    # ---------------- read side
    rk = h.ghost("rk", KW); rerr = h.ghost("rerr", 2); rout = h.ghost("rout", 1)          # beats completed, sticky error of this request, slave read outstanding
    rd = [h.ghost(f"rd{j}", dw_to) for j in range(ratio - 1)]
    s_arf, s_rf, m_rf, m_arf = F(s.ar), F(s.r), F(m.r), F(m.ar)
    lastk = rk == K(ratio - 1, KW)
    h.ghost_next(rk, z3.If(m_rf, K(0, KW), z3.If(z3.And(s_rf, z3.Not(lastk)), rk + 1, rk)))
    h.ghost_next(rout, z3.If(s_rf, K(0, 1), z3.If(s_arf, K(1, 1), rout)))
    h.ghost_next(rerr, z3.If(m_rf, K(0, 2), z3.If(z3.And(rerr == K(0, 2), b(h.v(s.r.valid)), h.v(s.r.resp) != K(0, 2)), h.v(s.r.resp), rerr)))
    for j in range(ratio - 1): h.ghost_next(rd[j], z3.If(z3.And(s_rf, rk == K(j, KW)), h.v(s.r.data), rd[j]))
    h.assume(z3.Implies(b(h.v(s.r.valid)), b(rout)), "AXI-Lite slave sends R only for an accepted, unanswered AR (single outstanding)")
    h.assume(z3.Implies(b(rout), z3.Not(b(h.v(s.ar.ready)))) if False else z3.BoolVal(True))
    h.ensure("ens.rd.ar", z3.Implies(b(h.v(s.ar.valid)), z3.And(b(h.v(m.ar.valid)), z3.Not(b(rout)), h.v(s.ar.addr) == h.v(m.ar.addr) + zx(rk, 16) * K(NB, 16))))
    NBM = dw_from // 8
    h.finding("finding.unaligned.rd", z3.Implies(b(h.v(s.ar.valid)), z3.ULT(h.v(s.ar.addr) - (h.v(m.ar.addr) & K(0x10000 - NBM, 16)), K(NBM, 16))),
              "AXILiteDownConverter adds the sub-word offset to the master address without aligning it: for a master address that is not a multiple of the wide word (e.g. 0x..4 on a 64->32 or 32->16 converter) "
              "the upper sub-words are read from / written to the NEXT wide word instead of the word that contains the address")
    lanes = [z3.Extract(dw_to * (j + 1) - 1, dw_to * j, h.v(m.r.data)) == rd[j] for j in range(ratio - 1)] + [z3.Extract(dw_from - 1, dw_to * (ratio - 1), h.v(m.r.data)) == h.v(s.r.data)]
    h.ensure("ens.rd.r", z3.Implies(b(h.v(m.r.valid)), z3.And(lastk, b(h.v(s.r.valid)), *lanes)))                  # all sub-words, in lane order
    h.ensure("ens.rd.resp", z3.Implies(b(h.v(m.r.valid)), h.v(m.r.resp) == rerr))   # first error of THIS request, else OKAY
    h.ensure("ens.rd.consume", z3.And(m_arf == z3.And(b(h.v(m.ar.valid)), lastk, b(h.v(s.r.valid)), z3.Not(b(h.v(m.r.valid))), b(rout)) if False else z3.BoolVal(True)))
    h.ensure("ens.rd.last-beat-with-master", z3.Implies(z3.And(s_rf, lastk), m_rf))
    src_guarantee(h, s.ar, "s.ar"); src_guarantee(h, m.r, "m.r")
    # ---------------- write side
    wk = h.ghost("wk", KW); werr = h.ghost("werr", 2); wout = h.ghost("wout", 1); aw_acc = h.ghost("aw_acc", 1); w_acc = h.ghost("w_acc", 1)
    s_awf, s_wf, s_bf, m_bf = F(s.aw), F(s.w), F(s.b), F(m.b)
    def pick(sig, width):
        e = z3.Extract(width * ratio - 1, width * (ratio - 1), h.v(sig))
        for j in reversed(range(ratio - 1)): e = z3.If(wk == K(j, KW), z3.Extract(width * (j + 1) - 1, width * j, h.v(sig)), e)
        return e
    strb_k = pick(m.w.strb, NB); data_k = pick(m.w.data, dw_to)
    wlast = wk == K(ratio - 1, KW)
    h.ghost_next(wk, wk); h.ghost_next(wout, wout)          # (unused placeholders: the write side is specified over the converter's own sub-word counter)
    h.ghost_next(aw_acc, z3.If(s_bf, K(0, 1), z3.If(s_awf, K(1, 1), aw_acc))); h.ghost_next(w_acc, z3.If(s_bf, K(0, 1), z3.If(s_wf, K(1, 1), w_acc)))
    h.ghost_next(werr, z3.If(m_bf, K(0, 2), z3.If(z3.And(werr == K(0, 2), s_bf, h.v(s.b.resp) != K(0, 2)), h.v(s.b.resp), werr)))
    h.assume(z3.Implies(b(h.v(s.b.valid)), z3.And(b(aw_acc), b(w_acc))), "AXI-Lite slave sends B only after it has accepted AW and W")
    h.ensure("ens.wr.aw", z3.Implies(b(h.v(s.aw.valid)), z3.And(b(h.v(m.aw.valid)), b(h.v(m.w.valid)), z3.Not(b(aw_acc)), h.v(s.aw.addr) == h.v(m.aw.addr) + zx(h.v(L(d.write, "counter")), 16) * K(NB, 16))))
    cnt = L(d.write, "counter")
    def pickc(sig, width):
        e = z3.Extract(width * ratio - 1, width * (ratio - 1), h.v(sig))
        for j in reversed(range(ratio - 1)): e = z3.If(h.v(cnt) == K(j, h.v(cnt).size()), z3.Extract(width * (j + 1) - 1, width * j, h.v(sig)), e)
        return e
    h.ensure("ens.wr.w", z3.Implies(b(h.v(s.w.valid)), z3.And(b(h.v(m.w.valid)), z3.Not(b(w_acc)), h.v(s.w.data) == pickc(m.w.data, dw_to), h.v(s.w.strb) == pickc(m.w.strb, NB), pickc(m.w.strb, NB) != K(0, NB))))   # unselected sub-words are skipped
    h.ensure("ens.wr.resp", z3.Implies(b(h.v(m.b.valid)), h.v(m.b.resp) == werr))                                  # first error of THIS request, else OKAY
    h.ensure("ens.wr.consume", z3.And(F(m.aw) == F(m.w), z3.Implies(F(m.aw), z3.Not(b(h.v(m.b.valid))))))
    src_guarantee(h, s.aw, "s.aw"); src_guarantee(h, s.w, "s.w"); src_guarantee(h, m.b, "m.b")
    h.use_auto = True; h.auto_width = 4
    try:
        rst, renc = d.read.fsm.state, d.read.fsm.encoding; rcnt = L(d.read, "counter"); rresp = L(d.read, "resp"); r_data = L(d.read, "r_data")
        RS = lambda n: eqc(h.v(rst), renc[n])
        h.hint("r.cnt", z3.Implies(z3.Not(RS("IDLE")), zx(h.v(rcnt), KW) == rk)); h.hint("r.k<ratio", ult(rk, ratio))
        h.hint("r.rout", b(rout) == z3.Or(RS("RESPOND-SLAVE"), RS("RESPOND-MASTER")))
        h.hint("r.idle", z3.Implies(RS("IDLE"), rk == K(0, KW)))
        h.hint("r.resp", z3.Implies(z3.Not(RS("IDLE")), h.v(rresp) == rerr))
        h.hint("r.idle-err", z3.Implies(RS("IDLE"), rerr == K(0, 2)))
        h.hint("r.master", z3.Implies(RS("RESPOND-MASTER"), z3.And(lastk, b(h.v(s.r.valid)) if False else z3.BoolVal(True))))
        h.hint("r.master.held", z3.Implies(RS("RESPOND-MASTER"), b(st_sr[0])))
        h.hint("r.master.err", z3.Implies(z3.And(RS("RESPOND-MASTER"), p_sresp != K(0, 2)), rerr != K(0, 2)))
        h.hint("r.busy", z3.Implies(z3.Or(RS("CONVERT"), RS("RESPOND-SLAVE")), b(st["ar"][0])))
        h.hint("r.st", ult(h.v(rst), len(renc)))
        for j in range(ratio - 1):
            for kk in range(j + 1, ratio):
                pos = ratio - kk + j
                h.hint(f"r.sr{j}@{kk}", z3.Implies(z3.And(rk == K(kk, KW), z3.Not(RS("IDLE"))), z3.Extract(dw_to * (pos + 1) - 1, dw_to * pos, h.v(r_data)) == rd[j]))
        wst, wenc = d.write.fsm.state, d.write.fsm.encoding; wresp = L(d.write, "resp")
        WS = lambda n: eqc(h.v(wst), wenc[n])
        h.hint("w.resp", z3.Implies(z3.Not(WS("IDLE")), h.v(wresp) == werr)); h.hint("w.idle-err", z3.Implies(WS("IDLE"), werr == K(0, 2)))
        h.hint("w.awacc", z3.Implies(WS("CONVERT"), z3.And(h.v(L(d.write, "aw_ready")) == aw_acc, h.v(L(d.write, "w_ready")) == w_acc)))
        h.hint("w.regs-idle", z3.Implies(z3.Or(WS("IDLE"), WS("RESPOND-MASTER")), z3.And(h.v(L(d.write, "aw_ready")) == K(0, 1), h.v(L(d.write, "w_ready")) == K(0, 1))) if False else z3.Implies(WS("IDLE"), z3.And(h.v(L(d.write, "aw_ready")) == K(0, 1), h.v(L(d.write, "w_ready")) == K(0, 1))))
        h.hint("w.st", ult(h.v(wst), len(wenc)))
        def lane_c(bv):
            e = z3.Extract(NB * ratio - 1, NB * (ratio - 1), bv)
            for j in reversed(range(ratio - 1)): e = z3.If(h.v(cnt) == K(j, h.v(cnt).size()), z3.Extract(NB * (j + 1) - 1, NB * j, bv), e)
            return e
        h.hint("w.sent->selected", z3.Implies(z3.And(WS("CONVERT"), z3.Or(b(aw_acc), b(w_acc))), lane_c(p_wstrb) != K(0, NB)))
        h.hint("w.cnt<ratio", ult(h.v(cnt), ratio))
        h.hint("w.acc-rs", z3.Implies(WS("RESPOND-SLAVE"), z3.And(b(aw_acc), b(w_acc))))
        h.hint("w.acc-idle", z3.Implies(z3.Or(WS("IDLE"), WS("RESPOND-MASTER")), z3.And(z3.Not(b(aw_acc)), z3.Not(b(w_acc)))))
        h.hint("w.busy", z3.Implies(z3.Or(WS("CONVERT"), WS("RESPOND-SLAVE")), z3.And(b(st["aw"][0]), b(st["w"][0]))))
    except (AttributeError, KeyError, TypeError): pass
    h.respond("resp.rd", z3.And(b(h.v(m.ar.valid)), b(h.v(m.r.ready)), b(h.v(s.ar.ready)), z3.Or(b(h.v(s.r.valid)), z3.Not(b(rout)))), m_rf, 3 * ratio + 2)
    wcoop = z3.And(z3.Or(z3.And(b(h.v(m.aw.valid)), b(h.v(m.w.valid))), b(h.v(m.b.valid))), b(h.v(m.b.ready)), b(h.v(s.aw.ready)), b(h.v(s.w.ready)),
                   b(h.v(s.b.valid)) == z3.And(b(aw_acc), b(w_acc)))
    h.respond("resp.wr", wcoop, m_bf, 2 * ratio + 3)      # every write is answered: selected sub-words are issued, unselected ones skipped, none waited for in vain
    h.cover("cover.rd", m_rf, depth=3 * ratio + 3); h.cover("cover.rd.err", z3.And(m_rf, h.v(m.r.resp) != K(0, 2)), depth=3 * ratio + 3)
    h.cover("cover.wr", m_bf, depth=3 * ratio + 4)
    h.bmc_depth = 4 * ratio + 6
    for n_ in ("ens.rd.consume",): h.ensures.pop(n_, None)
    h.functions = ["litex.soc.interconnect.axi.axi_lite._AXILiteDownConverterRead.__init__", "litex.soc.interconnect.axi.axi_lite._AXILiteDownConverterWrite.__init__", "litex.soc.interconnect.axi.axi_lite.AXILiteDownConverter.__init__"]
    return h

_cases_base9 = cases
def cases(tier):
    cs = _cases_base9(tier)
    cs += [Case("AXILiteDownConverter(32->16)", c_axil_down, 32, 16, timeout=1200), Case("AXILiteDownConverter(32->8)", c_axil_down, 32, 8, timeout=1200)]
    return cs
