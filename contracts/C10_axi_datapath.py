"""C10, second sentence: "The AXI data-width converters translate length and size so that the same bytes are transferred in the same
order, and deliver all data beats with last on the final one."  W and R DATA channels of the real AXIUpConverter / AXIDownConverter.

Two data-path shapes (each converter has one of each):
  split (wide -> narrow, combinational): AXIDownConverter.W, AXIUpConverter.R.   A wide beat becomes `ratio` narrow beats; narrow beat j of
        the word carries byte lanes j*n .. j*n+n-1 (data and strobes); last only on the last narrow beat of the last wide beat.
  pack  (narrow -> wide, one register): AXIUpConverter.W, AXIDownConverter.R.    `ratio` narrow beats are packed into one wide beat, the j-th
        accepted beat of the group into lanes j*n ..; the wide beat carries last when the narrow last arrived.
Specification state: position ghosts and a two-stage ghost queue of narrow tokens (the group being accumulated, the completed group waiting at the
wide port) - the STREAM-REFINE schema of contracts/streamlib.py specialised to the 1:ratio token relation."""
import z3
from vf.elab import L, locals_of, mk
from vf.hw import *
from migen import *
from litex.soc.interconnect import stream
from litex.soc.interconnect.axi import AXIInterface, AXIUpConverter, AXIDownConverter
from vf.core import Case

def pay(ep): return [s for s, _ in ep.payload.iter_flat()] + [s for s, _ in ep.param.iter_flat()]

def _elab(kind, dw_n, ratio, name, version="axi4"):
    """the real converter between a narrow (dw_n) and a wide (dw_n*ratio) AXI interface; every undriven channel signal is a free input"""
    dw_w = dw_n * ratio
    a = AXIInterface(data_width=dw_n if kind == "up" else dw_w, address_width=32, id_width=2, version=version)
    c = AXIInterface(data_width=dw_w if kind == "up" else dw_n, address_width=32, id_width=2, version=version)
    d = mk(AXIUpConverter if kind == "up" else AXIDownConverter, a, c)
    ins = []
    for ch in ("aw", "w", "ar"): ins += [getattr(a, ch).valid, getattr(a, ch).first, getattr(a, ch).last] + pay(getattr(a, ch))
    ins += [a.b.ready, a.r.ready]
    for ch in ("b", "r"): ins += [getattr(c, ch).valid, getattr(c, ch).first, getattr(c, ch).last] + pay(getattr(c, ch))
    ins += [c.aw.ready, c.w.ready, c.ar.ready]
    h = HwCheck(name, d, ins)
    return d, a, c, h

def _inner(d, which):
    """the _UpConverter/_DownConverter inside the channel's StrideConverter (hints only)"""
    try: return L(L(L(d, which), "converter"), "converter")
    except Exception: return None

def _fire(h, ep): return z3.And(b(h.v(ep.valid)), b(h.v(ep.ready)))
def _lane(x, k, w): return z3.Extract(w * (k + 1) - 1, w * k, x)

def _held(h, ep, sigs, who, what):
    """AXI rule for the partner that drives `ep`: valid and the AXI payload stay until ready"""
    t = cat(*[h.v(s) for s in sigs])
    p_off = h.prev("offer", bv1(z3.And(b(h.v(ep.valid)), z3.Not(b(h.v(ep.ready)))))); p_tok = h.prev("tok", t)
    h.assume(z3.Implies(b(p_off), z3.And(b(h.v(ep.valid)), t == p_tok)), f"{who} holds {what} until ready (AXI A3.2.1)")
    return p_off

def _hold_clause(h, ep, sigs):
    t = cat(*[h.v(s) for s in sigs]); stalled = z3.And(b(h.v(ep.valid)), z3.Not(b(h.v(ep.ready))))
    h.ensure_seq("ens.hold", lambda at: z3.Implies(at(stalled, 0), z3.And(at(b(h.v(ep.valid)), 1), at(t, 1) == at(t, 0))))

def _addr_clauses(h, kind, f, t, ch, n, N, ratio):
    """up-converter address channel: the byte range addressed by the translated burst.  The data path assigns lanes by beat index (j mod ratio),
    which is the AXI byte-lane rule only for a burst that starts on a wide-word boundary."""
    W = 40; V = h.v
    lf = (n.bit_length() - 1)
    incr_full_whole = z3.And(V(f.burst) == K(1, 2), V(f.size) == K(lf, V(f.size).size()), z3.URem(zx(V(f.len), W) + 1, K(ratio, W)) == 0)
    end_f = (zx(V(f.addr), W) & K((1 << W) - n, W)) + ((zx(V(f.len), W) + 1) << zx(V(f.size), W))          # INCR: first beat may be unaligned, the others are aligned to size
    tsz = z3.BitVecVal(1, W) << zx(V(t.size), W)
    end_t = (zx(V(t.addr), W) & ~(tsz - 1)) + ((zx(V(t.len), W) + 1) << zx(V(t.size), W))
    aligned = (V(f.addr) & K(N - 1, 32)) == K(0, 32)
    same = z3.And(V(t.addr) == V(f.addr), end_t == end_f)
    h.ensure(f"ens.{ch}.byte-range@aligned-start", z3.Implies(z3.And(incr_full_whole, aligned), same))
    h.finding(f"finding.{ch}.unaligned-start", z3.Implies(incr_full_whole, same),
              "AXIUpConverter keeps the start address and only shifts len/size: a full-width INCR burst of whole wide words that starts on a narrow-word "
              "boundary which is not a wide-word boundary (e.g. 32->64, addr 4, 2 beats) is translated to a burst that ends one wide word early "
              "(bytes addr..addr+7 requested, 4..7 addressed) and its beats are packed by beat index, i.e. into the wrong byte lanes")

# ---------------------------------------------------------------------------------------------------
def c_split(kind, dw_n, ratio):
    """wide -> narrow: AXIDownConverter W channel (kind='down') / AXIUpConverter R channel (kind='up')"""
    chn = "w" if kind == "down" else "r"
    d, a, c, h = _elab(kind, dw_n, ratio, f"AXI{'Down' if kind == 'down' else 'Up'}Converter.{chn.upper()}({dw_n * ratio}->{dw_n})")
    sink, source = (a.w, c.w) if kind == "down" else (c.r, a.r)
    V = h.v; n = dw_n // 8
    fields = [("data", dw_n), ("strb", n)] if chn == "w" else [("data", dw_n)]
    side = [] if chn == "w" else ["id", "resp"]
    axi_sigs = lambda ep: [getattr(ep, f) for f, _ in fields] + [ep.last] + [getattr(ep, s) for s in side]
    _held(h, sink, axi_sigs(sink), "AXI master" if chn == "w" else "AXI slave", "W valid/data/strb/last" if chn == "w" else "R valid/data/resp/id/last")
    in_fire, out_fire = _fire(h, sink), _fire(h, source)
    GW = max(2, ratio.bit_length()); idx = h.ghost("idx", GW)                       # narrow beats of the current wide beat already delivered
    lastc = idx == K(ratio - 1, GW)
    h.ghost_next(idx, z3.If(out_fire, z3.If(lastc, K(0, GW), idx + 1), idx))
    CW = 12
    nb = h.ghost("nbeats", CW); wb = h.ghost("wbeats", CW)                          # beats of the current burst transferred so far on the narrow / wide side
    h.ghost_next(nb, z3.If(out_fire, z3.If(b(V(source.last)), K(0, CW), nb + 1), nb))
    h.ghost_next(wb, z3.If(in_fire, z3.If(b(V(sink.last)), K(0, CW), wb + 1), wb))
    h.hint("idx<ratio", ult(idx, ratio))
    h.hint("nbeats", nb == wb * K(ratio, CW) + zx(idx, CW))
    cv = _inner(d, "w_converter" if chn == "w" else "r_converter"); mux = L(cv, "mux") if cv is not None else None
    if mux is not None and mux in h.ts.var: h.hint("mux=idx", zx(V(mux), GW) == idx)
    sv = b(V(source.valid))
    def chunk(sig, w):
        e = _lane(V(sig), ratio - 1, w)
        for i in reversed(range(ratio - 1)): e = z3.If(idx == K(i, GW), _lane(V(sig), i, w), e)
        return e
    h.ensure("ens.valid", V(source.valid) == V(sink.valid))
    # same bytes, same order: narrow beat idx of the word carries byte lanes idx*n .. idx*n+n-1 (data and strobes)
    h.ensure("ens.lanes", z3.Implies(sv, z3.And(*[V(getattr(source, f)) == chunk(getattr(sink, f), w) for f, w in fields])))
    h.ensure("ens.last", z3.Implies(sv, b(V(source.last)) == z3.And(b(V(sink.last)), lastc)))          # last exactly on the last narrow beat of the last wide beat
    h.ensure("ens.consume", in_fire == z3.And(out_fire, lastc))                                         # the wide beat is consumed exactly once, with its last narrow beat
    h.ensure("ens.burst-beats", z3.Implies(z3.And(sv, b(V(source.last))), nb + 1 == (wb + 1) * K(ratio, CW)))   # the translated burst has ratio x the beats of the wide one
    if side: h.ensure("ens.sideband", z3.Implies(sv, z3.And(*[V(getattr(source, s)) == V(getattr(sink, s)) for s in side])))
    _hold_clause(h, source, axi_sigs(source))
    h.respond("resp.beat", z3.And(b(V(sink.valid)), b(V(source.ready))), out_fire, 1)
    h.respond("resp.word", z3.And(b(V(sink.valid)), b(V(source.ready))), in_fire, ratio)
    h.cover("cover.last", z3.And(out_fire, b(V(source.last))), depth=ratio + 1)
    h.cover("cover.second-word", z3.And(out_fire, wb == K(1, CW), lastc, b(V(source.last))), depth=2 * ratio + 1)
    if kind == "up": _addr_clauses(h, kind, a.ar, c.ar, "ar", n, n * ratio, ratio)
    h.bmc_depth = 2 * ratio + 4
    h.functions = [f"litex.soc.interconnect.axi.axi_full.AXI{'Up' if kind == 'up' else 'Down'}Converter.__init__ ({chn.upper()} channel)",
                   "litex.soc.interconnect.stream.StrideConverter.__init__", "litex.soc.interconnect.stream._DownConverter.__init__"]
    return h

# ---------------------------------------------------------------------------------------------------
def c_pack(kind, dw_n, ratio, version="axi4"):
    """narrow -> wide: AXIUpConverter W channel (kind='up') / AXIDownConverter R channel (kind='down')"""
    chn = "w" if kind == "up" else "r"
    sfx = "" if version == "axi4" else "," + version
    d, a, c, h = _elab(kind, dw_n, ratio, f"AXIUpConverter.W({dw_n}->{dw_n * ratio}{sfx})" if kind == "up" else f"AXIDownConverter.R({dw_n}->{dw_n * ratio}{sfx})", version)
    sink, source = (a.w, c.w) if kind == "up" else (c.r, a.r)
    V = h.v; n = dw_n // 8
    fields = [("data", dw_n), ("strb", n)] if chn == "w" else [("data", dw_n)]
    side = [] if chn == "w" else ["id", "resp"]
    wid = chn == "w" and version == "axi3"                # AXI3 has WID: every W beat carries the id of its burst
    axi_sigs = lambda ep: [getattr(ep, f) for f, _ in fields] + [ep.last] + [getattr(ep, s) for s in side]
    _held(h, sink, axi_sigs(sink), "AXI master" if chn == "w" else "AXI slave", "W valid/data/strb/last" if chn == "w" else "R valid/data/resp/id/last")
    in_fire, out_fire = _fire(h, sink), _fire(h, source)
    # ghost queue, two stages: acc[0..acc_n) = narrow tokens of the word being accumulated; w[0..w_cnt) = completed word waiting at the wide port
    wf = sum(w for _, w in fields); tin = cat(*[V(getattr(sink, f)) for f, _ in reversed(fields)])        # narrow token: data in the low bits, then strb
    GW = max(2, (ratio + 1).bit_length())
    acc_n = h.ghost("acc_n", GW); acc = [h.ghost(f"acc{k}", wf) for k in range(ratio)]
    w_valid = h.ghost("w_valid", 1); w_cnt = h.ghost("w_cnt", GW); w = [h.ghost(f"w{k}", wf) for k in range(ratio)]; w_last = h.ghost("w_last", 1)
    complete = z3.And(in_fire, z3.Or(acc_n == K(ratio - 1, GW), b(V(sink.last))))                           # the group is closed by its ratio-th beat or by the narrow last
    h.ghost_next(acc_n, z3.If(in_fire, z3.If(complete, K(0, GW), acc_n + 1), acc_n))
    for k in range(ratio): h.ghost_next(acc[k], z3.If(z3.And(in_fire, acc_n == K(k, GW)), tin, acc[k]))
    h.ghost_next(w_valid, z3.If(complete, K(1, 1), z3.If(out_fire, K(0, 1), w_valid)))
    h.ghost_next(w_cnt, z3.If(complete, acc_n + 1, w_cnt))
    for k in range(ratio): h.ghost_next(w[k], z3.If(complete, z3.If(acc_n == K(k, GW), tin, acc[k]), w[k]))
    h.ghost_next(w_last, z3.If(complete, V(sink.last), w_last))
    sgh = {}
    for s_ in side:                                                                                         # side band of the completing narrow beat
        g = h.ghost("w_" + s_, getattr(sink, s_).nbits); h.ghost_next(g, z3.If(complete, V(getattr(sink, s_)), g)); sgh[s_] = g
    if chn == "r":
        # a narrow beat BEFORE the completing one was answered with SLVERR/DECERR (resp[1])
        acc_err = h.ghost("acc_err", 1); w_err = h.ghost("w_err_early", 1)
        err_in = z3.Extract(1, 1, V(sink.resp)); before = z3.If(acc_n == K(0, GW), K(0, 1), acc_err)
        h.ghost_next(acc_err, z3.If(in_fire, before | err_in, acc_err)); h.ghost_next(w_err, z3.If(complete, before, w_err))
    CW = 12
    wb = h.ghost("wbeats", CW)                                                                              # wide beats of the current burst delivered (covers only)
    h.ghost_next(wb, z3.If(out_fire, z3.If(b(V(source.last)), K(0, CW), wb + 1), wb))
    sv = b(V(source.valid)); wv = b(w_valid)
    def wide_lane(f, fw, k): return _lane(V(getattr(source, f)), k, fw)
    def tok_field(t, f):
        off = 0
        for ff, fw in fields:
            if ff == f: return z3.Extract(off + fw - 1, off, t)
            off += fw
    # helper invariants (from the code): the _UpConverter's data register is both the accumulator and the output word
    cv = _inner(d, "w_converter" if chn == "w" else "r_converter")
    h.hint("acc_n<ratio", ult(acc_n, ratio)); h.hint("w->acc0", z3.Implies(wv, acc_n == K(0, GW)))
    h.hint("wcnt", z3.Implies(wv, z3.And(uge(w_cnt, 1), ule(w_cnt, ratio))))
    if cv is not None:
        dm, st = L(cv, "demux"), L(cv, "strobe_all")
        if dm is not None and st is not None and dm in h.ts.var and st in h.ts.var:
            h.hint("demux=acc_n", zx(V(dm), GW) == acc_n); h.hint("strobe=w_valid", V(st) == w_valid)
        try:
            R = V(cv.source.data); lreg = V(cv.source.last)
            h.hint("last.w", z3.Implies(wv, lreg == w_last)); h.hint("last.idle", z3.Implies(z3.Not(wv), lreg == K(0, 1)))
            for k in range(ratio):
                h.hint(f"lane{k}.acc", z3.Implies(z3.And(z3.Not(wv), ugt(acc_n, k)), _lane(R, k, wf) == acc[k]))
                h.hint(f"lane{k}.w", z3.Implies(z3.And(wv, ugt(w_cnt, k)), _lane(R, k, wf) == w[k]))
        except (AttributeError, KeyError, TypeError): pass
    for s_ in side: h.hint(f"side.{s_}", z3.Implies(wv, V(getattr(source, s_)) == sgh[s_]))
    h.hint("w.full", z3.Implies(z3.And(wv, z3.Not(b(w_last))), w_cnt == K(ratio, GW)))
    # postconditions
    h.ensure("ens.present", sv == wv)                                                                       # a wide beat is offered iff a completed group waits
    h.ensure("ens.lanes", z3.Implies(sv, z3.And(*[z3.Implies(ugt(w_cnt, k), wide_lane(f, fw, k) == tok_field(w[k], f)) for k in range(ratio) for f, fw in fields])))
    h.ensure("ens.last", z3.Implies(sv, V(source.last) == w_last))                                          # last on the wide beat completed by the narrow last, and only there
    h.ensure("ens.full-word", z3.Implies(z3.And(sv, z3.Not(b(V(source.last)))), w_cnt == K(ratio, GW)))      # a wide beat without last packs exactly `ratio` narrow beats
    h.ensure("ens.cap", z3.Implies(complete, z3.Or(z3.Not(wv), out_fire)))                                  # a waiting word is never overwritten: nothing lost
    h.ensure("ens.no-accept-while-waiting", z3.Implies(z3.And(in_fire, wv), out_fire))
    if side:   # id/resp of the narrow beat that completed the word (resp: unless an earlier beat of the word reported an error - see finding.r.resp-merge)
        h.ensure("ens.sideband", z3.Implies(sv, z3.And(V(source.id) == sgh["id"], z3.Or(b(w_err), V(source.resp) == sgh["resp"]))))
    # (observed, outside the property text: the AXI3 WID / WUSER side band of AXIUpConverter W is wired combinationally although the packed beat leaves one
    #  cycle later - tools/replay_axi_up_wid_latency.py; not a clause of C10)
    if chn == "w" and not wid:
        h.finding("finding.w.partial-word-strobes", z3.Implies(sv, z3.And(*[z3.Implies(ule(w_cnt, k), wide_lane("strb", n, k) == K(0, n)) for k in range(1, ratio)])),
                  "AXIUpConverter W: a wide beat closed early by the narrow last (burst not a whole number of wide words, e.g. a single-beat write) keeps the stale "
                  "write strobes (and data) of an earlier burst in the lanes it did not fill: bytes the master never wrote are strobed")
    # (observed, outside the property text: AXIDownConverter R forwards only the last narrow beat's resp, an error on an earlier beat of the word is dropped -
    #  tools/replay_axi_down_resp_merge.py; C10 says nothing about responses, the clause ens.sideband above is stated modulo that)
    _hold_clause(h, source, axi_sigs(source))
    coop = z3.And(b(V(sink.valid)), b(V(source.ready)))
    h.respond("resp.move", coop, z3.Or(in_fire, out_fire), 1)
    h.respond("resp.accept", coop, in_fire, 1)                                                              # full throughput: a narrow beat every cycle when the wide side is ready
    h.respond("resp.word", coop, out_fire, ratio + 1)
    h.respond("resp.drain", b(V(source.ready)), out_fire, 1, start=wv)
    h.cover("cover.full-word", z3.And(out_fire, w_cnt == K(ratio, GW), b(V(source.last))), depth=ratio + 2)
    h.cover("cover.back-to-back", z3.And(out_fire, in_fire, wb == K(1, CW)), depth=2 * ratio + 2)
    if kind == "up" and not wid: _addr_clauses(h, kind, a.aw, c.aw, "aw", n, n * ratio, ratio)
    h.bmc_depth = 2 * ratio + 6
    h.functions = [f"litex.soc.interconnect.axi.axi_full.AXI{'Up' if kind == 'up' else 'Down'}Converter.__init__ ({chn.upper()} channel)",
                   "litex.soc.interconnect.stream.StrideConverter.__init__", "litex.soc.interconnect.stream._UpConverter.__init__"]
    return h

def cases(tier):
    cs = []
    grid = [(32, 2), (32, 4), (32, 8), (8, 2)]
    if tier == "thorough": grid += [(8, 4), (8, 8), (16, 8), (64, 2), (64, 8), (128, 4)]
    for dw_n, r in grid:
        dw_w = dw_n * r
        cs += [Case(f"AXIUpConverter.W({dw_n}->{dw_w})", c_pack, "up", dw_n, r), Case(f"AXIUpConverter.R({dw_w}->{dw_n})", c_split, "up", dw_n, r),
               Case(f"AXIDownConverter.W({dw_w}->{dw_n})", c_split, "down", dw_n, r), Case(f"AXIDownConverter.R({dw_n}->{dw_w})", c_pack, "down", dw_n, r)]
    cs += [Case("AXIUpConverter.W(32->64,axi3)", c_pack, "up", 32, 2, "axi3")]
    return cs

ASSUMPTIONS = ["converter data paths: the partner that drives a data channel (AXI master on W, AXI slave on R) holds valid and data/strb/last (id/resp) until ready",
               "converter data paths, lane map: narrow beat j of a burst <-> byte lanes (j mod ratio)*n .. of the wide beat; this is the AXI byte-lane rule for full-width INCR bursts that "
               "start on a wide-word boundary and have a whole number of wide words (the scope of the address-channel contract); narrow bursts and len overflow are listed findings, "
               "an up-converted burst that starts off a wide-word boundary is finding.a?.unaligned-start",
               "converter data paths, pack direction: a group closed early by the narrow last is specified for the lanes it filled only (the other lanes: finding.w.partial-word-strobes); "
               "the wide R beat carries the id/resp of the narrow beat that completed it (an error on an earlier beat of the word: finding.r.resp-merge)",
               "converter data paths: AXI4 has no WID; the W side band (WID of AXI3, same wiring for WUSER/WDEST) is checked in one AXI3 case (finding.w.id-latency)",
               "converter data paths: the beat counters of the burst-length clause are 12-bit modular (bursts are at most 256 beats); `first` is not an AXI signal and is not specified"]
