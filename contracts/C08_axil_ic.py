"""C08: AXI-Lite interconnect keeps grants and routes until every response has returned.
Real _AXILiteRequestCounter / AXILiteArbiter / AXILiteDecoder / AXILiteInterconnectShared / AXILiteCrossbar / PointToPoint with
AXI4-Lite-legal masters (valid/payload stable, AW before/with/after W, several outstanding) and slaves (any latency/order,
one response per request, B only after AW and W)."""
import z3
from .axilib import *
from litex.soc.interconnect.axi import AXILiteInterface, AXILiteDecoder, AXILiteArbiter, AXILiteInterconnectShared, AXILiteCrossbar, AXILiteInterconnectPointToPoint
from litex.soc.interconnect.axi.axi_lite import _AXILiteRequestCounter
from litex.soc.integration.soc import SoCRegion
from vf.core import Case
class Bus: data_width = 32; address_width = 32
CW = 9

def regions_for(ns): return [SoCRegion(origin=0x1000_0000 * (j + 1), size=0x1000 << j) for j in range(ns)]
def match(r, addr): return z3.And(z3.UGE(addr, K(r.origin, 32)), z3.ULT(zx(addr, 33), K(r.origin + r.size_pow2, 33)))
def onehot(h, regions, addr):
    ns = len(regions)
    return cat(*[bv1(match(regions[j], addr)) for j in reversed(range(ns))])

def c_counter(maxreq):
    class Top(LiteXModule):
        def __init__(self):
            self.req = Signal(); self.rsp = Signal()
            self.c = _AXILiteRequestCounter(self.req, self.rsp, maxreq)
    d = mk(Top); h = HwCheck(f"_AXILiteRequestCounter({maxreq})", d, [d.req, d.rsp])
    W = maxreq.bit_length() + 1
    g = h.ghost("out", W)
    rq, rs = b(h.v(d.req)), b(h.v(d.rsp))
    h.ghost_next(g, z3.If(z3.And(rq, z3.Not(rs)), g + 1, z3.If(z3.And(rs, z3.Not(rq)), g - 1, g)))
    h.assume(z3.Implies(rs, z3.Or(g != K(0, W), rq)), "a response only for an outstanding (or same-cycle) request")
    h.assume(z3.Implies(z3.And(rq, z3.Not(rs)), ult(g, maxreq - 1)), "the requester respects stall/full (no more than max_requests-1 outstanding)")
    h.hint("cnt", zx(h.v(d.c.counter), W) == g); h.hint("g<max", ult(g, maxreq))
    h.ensure("ens.cnt", zx(h.v(d.c.counter), W) == g)
    h.ensure("ens.empty", b(h.v(d.c.empty)) == (g == K(0, W)))
    h.ensure("ens.full", b(h.v(d.c.full)) == (g == K(maxreq - 1, W)))
    h.cover("cover.two", g == K(2, W), depth=3)
    h.functions = ["litex.soc.interconnect.axi.axi_lite._AXILiteRequestCounter.__init__"]
    return h

def decoder_contract(h, m, slaves, regions, locks=None, sel_reg=None, prefix=""):
    """obligations of one AXILiteDecoder (master m, slaves[j] selected by regions[j])"""
    ns = len(slaves)
    ghosts = {}
    for dirn, req_ep, rsp_ep in (("wr", m.aw, m.b), ("rd", m.ar, m.r)):
        cnt = h.ghost(f"{prefix}{dirn}_out", CW); tgt = h.ghost(f"{prefix}{dirn}_tgt", ns)
        rq, rs = fire(h, req_ep), fire(h, rsp_ep)
        dec = onehot(h, regions, h.v(req_ep.addr))
        h.ghost_next(cnt, z3.If(z3.And(rq, z3.Not(rs)), cnt + 1, z3.If(z3.And(rs, z3.Not(rq), cnt != K(0, CW)), cnt - 1, cnt)))
        h.ghost_next(tgt, z3.If(z3.And(rq, cnt == K(0, CW)), dec, tgt))
        ghosts[dirn] = (cnt, tgt, dec)
        if locks is not None:
            lk = locks[{"wr": "write", "rd": "read"}[dirn]]
            h.hint(f"{prefix}{dirn}.cnt", zx(h.v(lk.counter), CW) == cnt)
            h.hint(f"{prefix}{dirn}.tgt", z3.Implies(cnt != K(0, CW), h.v(sel_reg[{"wr": "write", "rd": "read"}[dirn]]) == tgt))
            h.ensure(f"ens.{prefix}{dirn}.cnt", zx(h.v(lk.counter), CW) == cnt)
        h.hint(f"{prefix}{dirn}.cnt<255", ult(cnt, 255))
        h.hint(f"{prefix}{dirn}.tgt-onehot", z3.AtMost(*[z3.Extract(j, j, tgt) == K(1, 1) for j in range(ns)], 1))
        h.assume(ult(cnt, 200), "fewer than 200 requests outstanding per direction (counter capacity 255)")
    wcnt, wtgt, wdec = ghosts["wr"]
    # W beats accepted and not yet answered (B): a slave may answer only after it has both AW and W
    w_out = h.ghost(f"{prefix}w_out", CW)
    wf, bf = fire(h, m.w), fire(h, m.b)
    h.ghost_next(w_out, z3.If(z3.And(wf, z3.Not(bf)), w_out + 1, z3.If(z3.And(bf, z3.Not(wf), w_out != K(0, CW)), w_out - 1, w_out)))
    h.assume(ult(w_out, 200))
    return ghosts, w_out

def c_decoder(ns, scenario="restricted"):
    m = AXILiteInterface(data_width=32, address_width=32); slaves = [AXILiteInterface(data_width=32, address_width=32) for _ in range(ns)]
    regions = regions_for(ns)
    d = mk(AXILiteDecoder, m, [(r.decoder(Bus), s) for r, s in zip(regions, slaves)])
    ins = master_side_inputs(m)
    for s in slaves: ins += slave_side_inputs(s)
    h = HwCheck(f"AXILiteDecoder(1x{ns})", d, ins)
    for ch in ("aw", "w", "ar"): src_env(h, getattr(m, ch), ch)
    for j, s in enumerate(slaves):
        src_env(h, s.b, f"s{j}b"); src_env(h, s.r, f"s{j}r")
    lc = locals_of(d)
    ghosts, w_out = decoder_contract(h, m, slaves, regions, lc.get("locks"), lc.get("slave_sel_reg"))
    wcnt, wtgt, wdec = ghosts["wr"]; rcnt, rtgt, rdec = ghosts["rd"]
    # slave environment: a response only from the slave holding outstanding requests; B only after AW and W
    for j, s in enumerate(slaves):
        h.assume(z3.Implies(b(h.v(s.b.valid)), z3.And(wcnt != K(0, CW), w_out != K(0, CW), z3.Extract(j, j, wtgt) == K(1, 1))), "slave sends B only for a write it has received (AW and W) and not yet answered")
        h.assume(z3.Implies(b(h.v(s.r.valid)), z3.And(rcnt != K(0, CW), z3.Extract(j, j, rtgt) == K(1, 1))), "slave sends R only for a read it has received and not yet answered")
    # scenario predicates of the two listed known findings
    same_wr = z3.Implies(z3.And(b(h.v(m.aw.valid)), wcnt != K(0, CW)), wdec == wtgt)
    same_rd = z3.Implies(z3.And(b(h.v(m.ar.valid)), rcnt != K(0, CW)), rdec == rtgt)
    # W offered together with or after its AW: an AW is offered now, or an accepted AW still waits for its W
    w_due = z3.UGT(wcnt, w_out)
    w_after_aw = z3.Implies(b(h.v(m.w.valid)), z3.Or(b(h.v(m.aw.valid)), w_due))
    for dirn, req_ep, rsp_ep, same in (("wr", m.aw, m.b, same_wr), ("rd", m.ar, m.r, same_rd)):
        cnt, tgt, dec = ghosts[dirn]
        rq = fire(h, req_ep)
        for j, s in enumerate(slaves):
            sreq = getattr(s, "aw" if dirn == "wr" else "ar"); srsp = getattr(s, "b" if dirn == "wr" else "r")
            routed = z3.Implies(fire(h, sreq), z3.And(rq, match(regions[j], h.v(req_ep.addr)), paytok(h, sreq) == paytok(h, req_ep)))
            h.ensure(f"ens.{dirn}.route{j}@same-target", z3.Implies(same, routed))
            if j == 0 and ns > 1:
                h.finding(f"finding.{dirn}.route{j}@other-target-while-outstanding", routed,
                          "AXILiteDecoder freezes the slave select while responses are outstanding but does not stall a new AW/AR that decodes to a different slave: the locked slave accepts it")
            h.ensure(f"ens.{dirn}.resp{j}", z3.Implies(fire(h, srsp), z3.And(fire(h, rsp_ep), paytok(h, rsp_ep) == paytok(h, srsp))))
        h.ensure(f"ens.{dirn}.one", z3.Implies(rq, z3.And(z3.AtMost(*[fire(h, getattr(s, "aw" if dirn == "wr" else "ar")) for s in slaves], 1), z3.Or(*[fire(h, getattr(s, "aw" if dirn == "wr" else "ar")) for s in slaves]))))
        h.ensure(f"ens.{dirn}.resp-once", z3.Implies(fire(h, rsp_ep), z3.And(z3.AtMost(*[fire(h, getattr(s, "b" if dirn == "wr" else "r")) for s in slaves], 1), z3.Or(*[fire(h, getattr(s, "b" if dirn == "wr" else "r")) for s in slaves]))))
        # slave selection never changes while responses are outstanding: every transfer of this direction involves the locked slave only
        for j, s in enumerate(slaves):
            chans = ("aw", "w", "b") if dirn == "wr" else ("ar", "r")
            h.ensure(f"ens.{dirn}.lock{j}", z3.Implies(z3.And(cnt != K(0, CW), z3.Extract(j, j, tgt) == K(0, 1)), z3.And(*[z3.Not(b(h.v(getattr(s, c).valid))) if c in ("aw", "w", "ar") else z3.Not(b(h.v(getattr(s, c).ready))) for c in chans])))
    for j, s in enumerate(slaves):
        right = z3.If(w_due, z3.Extract(j, j, wtgt) == K(1, 1), z3.And(b(h.v(m.aw.valid)), match(regions[j], h.v(m.aw.addr))))
        wrouted = z3.Implies(fire(h, s.w), z3.And(fire(h, m.w), right, paytok(h, s.w) == paytok(h, m.w)))
        h.ensure(f"ens.w.route{j}@w-not-before-aw", z3.Implies(z3.And(w_after_aw, same_wr), wrouted))
        if j == 0 and ns > 1:
            h.finding(f"finding.w.route{j}@w-before-aw", z3.Implies(same_wr, wrouted),
                      "AXILiteDecoder routes a W beat by the address currently on AW: a W beat that precedes its AW (legal in AXI4-Lite) is delivered to whatever slave the idle AW address decodes to")
    # reads and writes proceed independently: the read side never looks at write-side inputs (two-copy, structural)
    h.cover("cover.b", fire(h, m.b), depth=4); h.cover("cover.r", fire(h, m.r), depth=4)
    h.bmc_depth = 6
    h.functions = ["litex.soc.interconnect.axi.axi_lite.AXILiteDecoder.__init__", "litex.soc.interconnect.axi.axi_lite._AXILiteRequestCounter.__init__", "litex.soc.integration.soc.SoCRegion.decoder"]
    return h

def c_arbiter(nm):
    masters = [AXILiteInterface(data_width=32, address_width=32) for _ in range(nm)]; t = AXILiteInterface(data_width=32, address_width=32)
    d = mk(AXILiteArbiter, masters, t)
    ins = slave_side_inputs(t)
    for m in masters: ins += master_side_inputs(m)
    h = HwCheck(f"AXILiteArbiter({nm}x1)", d, ins)
    for i, m in enumerate(masters):
        for ch in ("aw", "w", "ar"): src_env(h, getattr(m, ch), f"m{i}{ch}")
    src_env(h, t.b, "tb"); src_env(h, t.r, "tr")
    for dirn, rr, lock, req_ep, rsp_ep, chans in (("wr", d.rr_write, d.wr_lock, t.aw, t.b, ("aw", "w", "b")), ("rd", d.rr_read, d.rd_lock, t.ar, t.r, ("ar", "r"))):
        g = h.v(rr.grant); GW = g.size()
        cnt = h.ghost(f"{dirn}_out", CW)
        rq, rs = fire(h, req_ep), fire(h, rsp_ep)
        h.ghost_next(cnt, z3.If(z3.And(rq, z3.Not(rs)), cnt + 1, z3.If(z3.And(rs, z3.Not(rq), cnt != K(0, CW)), cnt - 1, cnt)))
        h.assume(ult(cnt, 200)); h.hint(f"{dirn}.cnt", zx(h.v(lock.counter), CW) == cnt); h.hint(f"{dirn}.grant<n", ult(g, nm))
        h.assume(z3.Implies(b(h.v(rsp_ep.valid)), cnt != K(0, CW)), "target sends a response only for an outstanding request")
        h.ensure(f"ens.{dirn}.cnt", zx(h.v(lock.counter), CW) == cnt)
        h.ensure(f"ens.{dirn}.grant-exists", ult(g, nm))
        # arbitration never changes while responses are outstanding or a channel of the direction is active
        busy = z3.Or(cnt != K(0, CW), *[b(h.v(getattr(t, c).valid)) for c in chans])
        h.ensure(f"ens.{dirn}.lock", z3.Implies(busy, h.n(rr.grant) == g))
        for i, m in enumerate(masters):
            own = eqc(g, i)
            for c in chans:
                te, me = getattr(t, c), getattr(m, c)
                if c in ("aw", "w", "ar"):
                    h.ensure(f"ens.{dirn}.fwd.{c}{i}", z3.And(z3.Implies(own, z3.And(h.v(te.valid) == h.v(me.valid), paytok(h, te) == paytok(h, me), h.v(me.ready) == h.v(te.ready))), z3.Implies(z3.Not(own), z3.Not(b(h.v(me.ready))))))
                else:
                    h.ensure(f"ens.{dirn}.resp.{c}{i}", z3.And(b(h.v(me.valid)) == z3.And(own, b(h.v(te.valid))), z3.Implies(b(h.v(me.valid)), paytok(h, me) == paytok(h, te)), z3.Implies(own, h.v(te.ready) == h.v(me.ready))))
            others_idle = z3.And(*[z3.Not(z3.Or(*[b(h.v(getattr(o, c).valid)) for c in (("aw", "w") if dirn == "wr" else ("ar",))])) for j, o in enumerate(masters) if j != i])
            wants = z3.Or(b(h.v(m.aw.valid)), b(h.v(m.w.valid))) if dirn == "wr" else b(h.v(m.ar.valid))       # a master that presents W before its AW (legal) is requesting too
            h.respond(f"resp.{dirn}.serve{i}", z3.And(wants, others_idle, cnt == K(0, CW), z3.Not(b(h.v(rsp_ep.valid)))), own, 2 + nm)
    h.cover("cover.switch", h.n(d.rr_write.grant) != h.v(d.rr_write.grant), depth=4)
    h.functions = ["litex.soc.interconnect.axi.axi_lite.AXILiteArbiter.__init__", "litex.soc.interconnect.axi.axi_lite._AXILiteRequestCounter.__init__", "migen.genlib.roundrobin.RoundRobin (flattened)"]
    return h

def c_indep(nm=2):
    """reads and writes of different masters proceed independently: two-copy obligation - the read-side outputs and next read-side
    state of the arbiter are functions of read-side inputs/state only (and vice versa)"""
    masters = [AXILiteInterface(data_width=32, address_width=32) for _ in range(nm)]; t = AXILiteInterface(data_width=32, address_width=32)
    d = mk(AXILiteArbiter, masters, t)
    ins = slave_side_inputs(t)
    for m in masters: ins += master_side_inputs(m)
    h = HwCheck(f"AXILiteArbiter({nm}).independence", d, ins)
    wr_in = [t.aw.ready, t.w.ready, t.b.valid] + pay(t.b)
    for m in masters: wr_in += [m.aw.valid] + pay(m.aw) + [m.w.valid] + pay(m.w) + [m.b.ready]
    wr_state = [s for s in h.ts.state if s is d.rr_write.grant or s is d.wr_lock.counter]
    rd_out = [t.ar.valid] + pay(t.ar) + [t.r.ready] + [m.ar.ready for m in masters] + [m.r.valid for m in masters]
    rd_state = [d.rr_read.grant, d.rd_lock.counter]
    # copy 2: rename every variable; equal on everything except write-side inputs and write-side state
    allv = {}
    from vf.zutil import get_vars
    cs = h.ts.comb_constraints()
    for c in cs:
        for x in get_vars(c): allv[str(x)] = x
    for s_ in rd_state:
        for x in get_vars(h.n(s_)): allv[str(x)] = x
    free = {str(h.v(s)) for s in wr_in + wr_state}
    comb_names = {str(h.ts.var[t_]) for t_ in h.ts.comb_targets}
    sub = [(x, z3.Const(str(x) + "~2", x.sort())) for n_, x in allv.items() if n_ in free or n_ in comb_names]
    cs2 = [z3.substitute(c, *sub) for c in cs]
    goal = z3.And(*[h.v(s) == z3.substitute(h.v(s), *sub) for s in rd_out] + [h.n(s) == z3.substitute(h.n(s), *sub) for s in rd_state])
    st, _, be, t_ = h._solve(cs + cs2 + [z3.Not(goal)])
    out = [res("ens.indep.read-of-write", "ensures", PROVED if st == "unsat" else (UNKNOWN if st == "unknown" else NOINPUT), t_, be)]
    return dict(results=out, functions=["litex.soc.interconnect.axi.axi_lite.AXILiteArbiter.__init__ (read/write independence)"])

def c_p2p():
    m = AXILiteInterface(data_width=32, address_width=32); s = AXILiteInterface(data_width=32, address_width=32)
    d = mk(AXILiteInterconnectPointToPoint, m, s)
    h = HwCheck("AXILiteInterconnectPointToPoint", d, master_side_inputs(m) + slave_side_inputs(s))
    for c in ("aw", "w", "ar"):
        h.ensure(f"ens.{c}", z3.And(h.v(getattr(s, c).valid) == h.v(getattr(m, c).valid), paytok(h, getattr(s, c)) == paytok(h, getattr(m, c)), h.v(getattr(m, c).ready) == h.v(getattr(s, c).ready)))
    for c in ("b", "r"):
        h.ensure(f"ens.{c}", z3.And(h.v(getattr(m, c).valid) == h.v(getattr(s, c).valid), paytok(h, getattr(m, c)) == paytok(h, getattr(s, c)), h.v(getattr(s, c).ready) == h.v(getattr(m, c).ready)))
    h.functions = ["litex.soc.interconnect.axi.axi_lite.AXILiteInterconnectPointToPoint.__init__", "litex.soc.interconnect.axi.axi_common.connect_axi", "litex.soc.interconnect.axi.axi_lite.AXILiteInterface.layout_flat"]
    return h

def c_shared(nm, ns):
    """AXILiteInterconnectShared: end to end - an accepted request of the granted master reaches exactly the slave selected by its
    address and the response returns to that master only"""
    masters = [AXILiteInterface(data_width=32, address_width=32) for _ in range(nm)]; slaves = [AXILiteInterface(data_width=32, address_width=32) for _ in range(ns)]
    regions = regions_for(ns)
    d = mk(AXILiteInterconnectShared, masters, [(r.decoder(Bus), s) for r, s in zip(regions, slaves)], False, None)
    ins = []
    for m in masters: ins += master_side_inputs(m)
    for s in slaves: ins += slave_side_inputs(s)
    h = HwCheck(f"AXILiteInterconnectShared({nm}x{ns})", d, ins)
    for i, m in enumerate(masters):
        for ch in ("aw", "w", "ar"): src_env(h, getattr(m, ch), f"m{i}{ch}")
    for j, s in enumerate(slaves): src_env(h, s.b, f"s{j}b"); src_env(h, s.r, f"s{j}r")
    shared = L(d, "shared"); lc = locals_of(d.decoder)
    ghosts, w_out = decoder_contract(h, shared, slaves, regions, lc.get("locks"), lc.get("slave_sel_reg"), prefix="dec.")
    wcnt, wtgt, _ = ghosts["wr"]; rcnt, rtgt, _ = ghosts["rd"]
    for j, s in enumerate(slaves):
        h.assume(z3.Implies(b(h.v(s.b.valid)), z3.And(wcnt != K(0, CW), w_out != K(0, CW), z3.Extract(j, j, wtgt) == K(1, 1))), "slave sends B only for a write it has received (AW and W) and not yet answered")
        h.assume(z3.Implies(b(h.v(s.r.valid)), z3.And(rcnt != K(0, CW), z3.Extract(j, j, rtgt) == K(1, 1))), "slave sends R only for a read it has received and not yet answered")
    for dirn, lock_a in (("wr", d.arbiter.wr_lock), ("rd", d.arbiter.rd_lock)):
        h.hint(f"arb.{dirn}.cnt", zx(h.v(lock_a.counter), CW) == ghosts[dirn][0])
    for dirn, rr, req, rsp in (("wr", d.arbiter.rr_write, "aw", "b"), ("rd", d.arbiter.rr_read, "ar", "r")):
        g = h.v(rr.grant); h.hint(f"{dirn}.grant<n", ult(g, nm))
        for j, s in enumerate(slaves):
            for i, m in enumerate(masters):
                # a request accepted by slave j comes from the granted master, unchanged
                h.ensure(f"ens.{dirn}.from-owner{j}.{i}", z3.Implies(z3.And(fire(h, getattr(s, req)), eqc(g, i)), z3.And(fire(h, getattr(m, req)), paytok(h, getattr(s, req)) == paytok(h, getattr(m, req)))))
                h.ensure(f"ens.{dirn}.resp-to-owner{j}.{i}", z3.Implies(z3.And(fire(h, getattr(s, rsp)), eqc(g, i)), z3.And(fire(h, getattr(m, rsp)), paytok(h, getattr(m, rsp)) == paytok(h, getattr(s, rsp)))))
        for i, m in enumerate(masters):
            h.ensure(f"ens.{dirn}.only-owner{i}", z3.Implies(z3.Not(eqc(g, i)), z3.And(z3.Not(b(h.v(getattr(m, req).ready))), z3.Not(b(h.v(getattr(m, rsp).valid))))))
        h.ensure(f"ens.{dirn}.one-slave", z3.AtMost(*[fire(h, getattr(s, req)) for s in slaves], 1))
    h.cover("cover.b", fire(h, masters[-1].b), depth=5)
    h.functions = ["litex.soc.interconnect.axi.axi_lite.AXILiteInterconnectShared.__init__"]
    return h

def cases(tier):
    cs = [Case("RequestCounter(4)", c_counter, 4), Case("RequestCounter(256)", c_counter, 256),
          Case("AXILiteDecoder(1x2)", c_decoder, 2), Case("AXILiteDecoder(1x3)", c_decoder, 3), Case("AXILiteDecoder(1x1)", c_decoder, 1),
          Case("AXILiteArbiter(2)", c_arbiter, 2), Case("AXILiteArbiter(3)", c_arbiter, 3), Case("AXILiteArbiter(2).indep", c_indep, 2),
          Case("AXILiteP2P", c_p2p), Case("AXILiteInterconnectShared(2x2)", c_shared, 2, 2)]
    if tier == "thorough":
        cs += [Case("AXILiteInterconnectShared(3x3)", c_shared, 3, 3), Case("AXILiteArbiter(3).indep", c_indep, 3)]
    return cs

ASSUMPTIONS = ["AXI4-Lite-legal partners as stated per case (valid/payload stable; slaves answer only received requests; B only after AW and W)",
               "decoder routing is proved under two scenario restrictions (no request to another slave while responses are outstanding; W not before its AW); the unrestricted cases are listed known findings",
               "the AXI4 (full) classes are under contract in C08_axi_full_ic.py; AXILiteCrossbar = decoder rows + arbiter columns, each proved separately (paper composition)",
               "'eventually served' is decided as bounded response with the other masters idle"]
