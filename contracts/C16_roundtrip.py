"""C16, first sentence: "A packetizer followed by the matching depacketizer reproduces every packet's header fields, parameters and payload
exactly, for any header layout, data width and packet length".  The real composition Packetizer -> Depacketizer (same Header, same data width,
packetizer.source connected to depacketizer.sink) is put under an end-to-end STREAM-REFINE contract: tokens (last, data, header parameters)
accepted at packetizer.sink are pushed into a ghost queue, tokens delivered at depacketizer.source are popped; the source always shows the head of
the queue (or, with the queue empty, the token offered right now which is then accepted in the same cycle) - nothing lost, duplicated, reordered
or altered, parameters travel with their packet, last stays on the packet's final beat.
Aligned headers: the payload path is combinational (queue always empty).  Unaligned headers: one payload beat of lag (the packetizer's residue
plus the depacketizer's residue hold exactly one token) and the final beat is delivered by the flush beat after the last payload beat was taken.
Helper invariants (hints) relate the two FSMs: both walk through the header in lock step, the depacketizer's shift register holds the header
words the packetizer has sent, the two residue registers together hold the queued token."""
import z3
from vf.elab import L, locals_of, mk
from vf.hw import *
from migen import *
from litex.gen import LiteXModule
from litex.soc.interconnect import stream
from litex.soc.interconnect.packet import Header, HeaderField, Packetizer, Depacketizer
from contracts.packet_cases import spec_header_bits, mkfields, FIELDS, FIELDS3
from vf.core import Case

def c_roundtrip(dw, fields, length, swap=True):
    hdr = Header(fields, length, swap_field_bytes=swap)
    user_desc = stream.EndpointDescription([("data", dw)], hdr.get_layout()); raw_desc = stream.EndpointDescription([("data", dw)])
    class Top(LiteXModule):
        def __init__(self):
            self.pk = Packetizer(user_desc, raw_desc, hdr)
            self.dp = Depacketizer(raw_desc, user_desc, hdr)
            self.comb += self.pk.source.connect(self.dp.sink)
            self.sink, self.source = self.pk.sink, self.dp.source
    d = mk(Top); pk, dp = d.pk, d.dp; sink, source = d.sink, d.source
    B = dw // 8; hw = length // B; lo = length % B; hi = B - lo; aligned = lo == 0; assert hw >= 1
    names = [n for n, _ in hdr.get_layout()]
    psigs = lambda ep: [getattr(ep, n) for n in names]
    ins = [sink.valid, sink.first, sink.last, sink.data] + psigs(sink) + [source.ready]
    h = HwCheck(f"Packetizer->Depacketizer(dw={dw},hdr={length}B,{'aligned' if aligned else 'unaligned'},swap={swap})", d, ins)
    V = h.v
    PWID = sum(s.nbits for s in psigs(sink))
    def par(ep): return cat(*[V(s) for s in psigs(ep)])
    def tok(ep): return cat(V(ep.last), V(ep.data), par(ep))                   # token: last, data, header parameters (first is not transported)
    TW = 1 + dw + PWID
    def t_last(t): return z3.Extract(TW - 1, TW - 1, t)
    def t_data(t): return z3.Extract(TW - 2, PWID, t)
    def t_par(t): return z3.Extract(PWID - 1, 0, t)
    def par_field(p, name):
        off = PWID
        for n in names:
            off -= getattr(sink, n).nbits
            if n == name: return z3.Extract(off + getattr(sink, n).nbits - 1, off, p)
    def enc(p):
        """the header word the header definition prescribes for parameter vector p (independent spec function of packet_cases)"""
        bits = spec_header_bits(fields, length, swap, lambda n: par_field(p, n))
        return z3.Concat(*[bits.get(i, K(0, 1)) for i in reversed(range(length * 8))])
    in_fire = z3.And(b(V(sink.valid)), b(V(sink.ready))); out_fire = z3.And(b(V(source.valid)), b(V(source.ready)))
    sv = b(V(source.valid))
    # ---- environment: the producer of packetizer.sink
    tin = tok(sink)
    p_off = h.prev("offer", bv1(z3.And(b(V(sink.valid)), z3.Not(b(V(sink.ready)))))); p_tok = h.prev("tok", tin)
    h.assume(z3.Implies(b(p_off), z3.And(b(V(sink.valid)), tin == p_tok)), "producer holds valid and its token (data, last, header parameters) until accepted")
    opn = h.ghost("open", 1); gp = h.ghost("gp", PWID)                         # a packet is open: its first beat has been offered, its last beat not yet accepted
    h.ghost_next(opn, z3.If(z3.And(in_fire, b(V(sink.last))), K(0, 1), z3.If(b(V(sink.valid)), K(1, 1), opn)))
    h.ghost_next(gp, z3.If(z3.And(z3.Not(b(opn)), b(V(sink.valid))), par(sink), gp))
    h.assume(z3.Implies(z3.And(b(opn), b(V(sink.valid))), par(sink) == gp),
             "producer keeps the header parameters constant over the beats of one packet (from the first offer of its first beat until its last beat is accepted)")
    # ---- specification state: ghost queue of accepted tokens (2 slots: capacity 1 + one slack)
    CAP = 1; NS = CAP + 1; LW = 3
    qlen = h.ghost("qlen", LW); q = [h.ghost(f"q{i}", TW) for i in range(NS)]
    nonempty = qlen != K(0, LW)
    byp = z3.And(out_fire, z3.Not(nonempty)); pop = z3.And(out_fire, nonempty)
    plen = z3.If(pop, qlen - 1, qlen); pq = [z3.If(pop, q[i + 1] if i + 1 < NS else q[i], q[i]) for i in range(NS)]
    push = z3.And(in_fire, z3.Not(byp))
    h.ghost_next(qlen, z3.If(push, plen + 1, plen))
    for i in range(NS): h.ghost_next(q[i], z3.If(z3.And(push, plen == K(i, LW)), tin, pq[i]))
    npk = h.ghost("npk", 2)                                                     # packets completely delivered (saturating; covers only)
    h.ghost_next(npk, z3.If(z3.And(out_fire, b(V(source.last)), npk != K(3, 2)), npk + 1, npk))
    nbt = h.ghost("nbt", 2)                                                     # beats of the current packet delivered (saturating; covers only)
    h.ghost_next(nbt, z3.If(out_fire, z3.If(b(V(source.last)), K(0, 2), z3.If(nbt == K(3, 2), nbt, nbt + 1)), nbt))
    p1 = h.ghost("p1", PWID)                                                    # header parameters of the first delivered packet (covers only)
    h.ghost_next(p1, z3.If(z3.And(out_fire, npk == K(0, 2)), par(source), p1))
    # ---- postconditions (from the property)
    tsrc = tok(source)
    h.ensure("ens.head", z3.Implies(sv, z3.Or(z3.And(nonempty, tsrc == q[0]),
                                              z3.And(z3.Not(nonempty), b(V(sink.valid)), tsrc == tin, z3.Implies(b(V(source.ready)), b(V(sink.ready)))))))
    h.ensure("ens.cap", z3.Implies(push, ule(plen, CAP)))                       # a token is never accepted beyond what the pair can hold: nothing dropped
    h.ensure("ens.idle", z3.Implies(z3.And(z3.Not(nonempty), z3.Not(b(V(sink.valid)))), z3.Not(sv)))     # nothing invented
    stalled = z3.And(sv, z3.Not(b(V(source.ready))))
    h.ensure_seq("ens.hold", lambda at: z3.Implies(at(stalled, 0), z3.And(at(sv, 1), at(tsrc, 1) == at(tsrc, 0))))
    coop = z3.And(b(V(sink.valid)), b(V(source.ready)))
    h.respond("resp.move", coop, z3.Or(in_fire, out_fire), hw + 1)              # header beats, then a payload beat moves
    h.respond("resp.body", coop, z3.And(in_fire, z3.Or(out_fire, z3.Not(nonempty))), hw + 2)
    h.respond("resp.final", b(V(source.ready)), out_fire, 1, start=z3.And(nonempty, b(t_last(q[0]))))   # the final beat needs no further input
    # ---- helper invariants (from the code)
    PW = max(2, (hw + 2).bit_length())
    ph = h.ghost("phase", PW)                          # raw beats the packetizer has sent of the current packet, saturating (aligned: hw = payload; unaligned: hw = merge beat, hw+1 = body)
    raw_fire = z3.And(b(V(pk.source.valid)), b(V(pk.source.ready)))
    HDR = enc(gp)
    def word(p, hv): return z3.Extract(dw * (p + 1) - 1, dw * p, hv)
    try:
        pst, penc = pk.fsm.state, pk.fsm.encoding; dst, denc = dp.fsm.state, dp.fsm.encoding
        psr, pcount = L(pk, "sr"), L(pk, "count"); dsr, dcount = L(dp, "sr"), L(dp, "count")
        PS = lambda n: eqc(V(pst), penc[n]); DS = lambda n: eqc(V(dst), denc[n])
        in_hdr = ult(ph, hw)
        if aligned:
            h.ghost_next(ph, z3.If(raw_fire, z3.If(in_hdr, ph + 1, z3.If(b(V(pk.source.last)), K(0, PW), ph)), ph))
            copy = ph == K(hw, PW)
            h.hint("ph<=hw", ule(ph, hw))
            h.hint("pk.copy", PS("ALIGNED-DATA-COPY") == copy); h.hint("dp.copy", DS("ALIGNED-DATA-COPY") == copy)
            h.hint("qlen=0", qlen == K(0, LW))
            for p in range(1, hw + 1):
                for w_ in range(p):
                    pos = hw - p + w_
                    h.hint(f"dp.sr@{p}.{w_}", z3.Implies(ph == K(p, PW), z3.Extract(dw * (pos + 1) - 1, dw * pos, V(dsr)) == word(w_, HDR)))
            for p in range(1, hw):
                for w_ in range(p, hw):
                    h.hint(f"pk.sr@{p}.{w_}", z3.Implies(ph == K(p, PW), z3.Extract(dw * (w_ - p + 2) - 1, dw * (w_ - p + 1), V(psr)) == word(w_, HDR)))
        else:
            merge = ph == K(hw, PW); body = ph == K(hw + 1, PW)
            pend = t_last(q[0])
            flush_fire = z3.And(raw_fire, b(V(pk.source.last)))
            h.ghost_next(ph, z3.If(flush_fire, K(0, PW), z3.If(z3.And(raw_fire, z3.Not(body)), ph + 1, ph)))
            psd, dsd = L(pk, "sink_d"), L(dp, "sink_d"); pffi, dffi = L(pk, "fsm_from_idle"), L(dp, "fsm_from_idle")
            h.hint("ph<=hw+1", ule(ph, hw + 1))
            h.hint("pk.copy", PS("UNALIGNED-DATA-COPY") == z3.Or(merge, body)); h.hint("dp.copy", DS("UNALIGNED-DATA-COPY") == z3.Or(merge, body))
            h.hint("pk.ffi", b(V(pffi)) == z3.And(ph != K(0, PW), z3.Not(body))); h.hint("dp.ffi", b(V(dffi)) == z3.And(ph != K(0, PW), z3.Not(body)))
            h.hint("qlen=body", qlen == z3.If(body, K(1, LW), K(0, LW)))
            for p in range(1, hw + 1):
                sh = 0 if hw == 1 else min(p - 1, hw - 2)
                h.hint(f"pk.sr@{p}", z3.Implies(ph == K(p, PW), V(psr) == z3.LShR(HDR, K(sh * dw, length * 8))))
                for w_ in range(p):
                    pos = length * 8 - (p - w_) * dw
                    h.hint(f"dp.sr@{p}.{w_}", z3.Implies(ph == K(p, PW), z3.Extract(pos + dw - 1, pos, V(dsr)) == word(w_, HDR)))
            # body: the queued token is spread over the two residue registers; the depacketizer's shift register is that token's header
            h.hint("dp.sr@body", z3.Implies(body, V(dsr) == enc(t_par(q[0]))))
            h.hint("q0.hi", z3.Implies(body, z3.Extract(dw - 1, hi * 8, V(psd.data)) == z3.Extract(dw - 1, hi * 8, t_data(q[0]))))      # upper `lo` bytes wait in the packetizer
            h.hint("q0.lo", z3.Implies(body, z3.Extract(dw - 1, lo * 8, V(dsd.data)) == z3.Extract(hi * 8 - 1, 0, t_data(q[0]))))       # lower `hi` bytes wait in the depacketizer
            h.hint("q0.last", z3.Implies(body, V(psd.last) == pend))
            h.hint("pk.sd.last", z3.Implies(z3.Not(body), V(psd.last) == K(0, 1)))
            h.hint("dp.sd.last", z3.Implies(ph != K(0, PW), V(dsd.last) == K(0, 1)))
            h.hint("q0.par", z3.Implies(z3.And(body, z3.Not(b(pend))), t_par(q[0]) == gp))
            h.hint("body->open", z3.Implies(z3.And(body, z3.Not(b(pend))), b(opn)))
        h.hint("pk.st", ult(V(pst), len(penc))); h.hint("dp.st", ult(V(dst), len(denc)))
        h.hint("pk.idle", PS("IDLE") == (ph == K(0, PW))); h.hint("dp.idle", DS("IDLE") == (ph == K(0, PW)))
        if hw > 1:
            mid = z3.And(ugt(ph, 0), in_hdr)
            h.hint("pk.hs", PS("HEADER-SEND") == mid); h.hint("dp.hr", DS("HEADER-RECEIVE") == mid)
            h.hint("pk.cnt", z3.Implies(mid, zx(V(pcount), PW) == ph)); h.hint("dp.cnt", z3.Implies(mid, zx(V(dcount), PW) == ph))
        h.hint("hdr->open", z3.Implies(z3.And(ph != K(0, PW), ule(ph, hw)), b(opn)))
    except (AttributeError, KeyError, TypeError) as e:
        h.ghost_next(ph, ph)
    h.use_auto = True
    h.cover("cover.packet", z3.And(out_fire, b(V(source.last))), depth=hw + 4)
    h.cover("cover.1-beat-packet", z3.And(out_fire, b(V(source.last)), nbt == K(0, 2), npk == K(1, 2)), depth=2 * hw + 7)
    h.cover("cover.3-beat-packet", z3.And(out_fire, b(V(source.last)), nbt == K(2, 2)), depth=hw + 6)
    h.cover("cover.back-to-back", z3.And(out_fire, b(V(source.last)), npk == K(1, 2)), depth=2 * hw + 7)
    h.cover("cover.new-parameters", z3.And(out_fire, npk == K(1, 2), par(source) != p1, b(V(source.last))), depth=2 * hw + 7)   # back-to-back packet with other header fields
    h.cover("cover.stalled-final", z3.And(stalled, b(V(source.last)), b(V(sink.valid))), depth=hw + 4)
    h.bmc_depth = 2 * hw + 10
    h.functions = ["litex.soc.interconnect.packet.Packetizer.__init__", "litex.soc.interconnect.packet.Depacketizer.__init__",
                   "litex.soc.interconnect.packet.Header.encode", "litex.soc.interconnect.packet.Header.decode", "litex.soc.interconnect.stream.Endpoint.connect"]
    return h

def cases(tier):
    cs = [Case("Packetizer->Depacketizer(dw=32,8B)", c_roundtrip, 32, FIELDS, 8), Case("Packetizer->Depacketizer(dw=32,8B,noswap)", c_roundtrip, 32, FIELDS, 8, False),
          Case("Packetizer->Depacketizer(dw=8,3B)", c_roundtrip, 8, FIELDS3, 3), Case("Packetizer->Depacketizer(dw=64,8B)", c_roundtrip, 64, FIELDS, 8),
          Case("Packetizer->Depacketizer(dw=32,6B,unaligned)", c_roundtrip, 32, mkfields(6), 6), Case("Packetizer->Depacketizer(dw=32,10B,unaligned)", c_roundtrip, 32, mkfields(10), 10),
          Case("Packetizer->Depacketizer(dw=64,14B,unaligned)", c_roundtrip, 64, mkfields(14), 14), Case("Packetizer->Depacketizer(dw=16,3B,unaligned)", c_roundtrip, 16, mkfields(3), 3),
          Case("Packetizer->Depacketizer(dw=32,6B,unaligned,noswap)", c_roundtrip, 32, mkfields(6), 6, False),
          Case("Packetizer->Depacketizer(dw=16,8B)", c_roundtrip, 16, FIELDS, 8), Case("Packetizer->Depacketizer(dw=32,31B,unaligned)", c_roundtrip, 32, mkfields(31), 31),
          Case("Packetizer->Depacketizer(dw=128,31B,unaligned)", c_roundtrip, 128, mkfields(31), 31)]
    if tier == "thorough":
        cs += [Case("Packetizer->Depacketizer(dw=64,31B,unaligned)", c_roundtrip, 64, mkfields(31), 31), Case("Packetizer->Depacketizer(dw=16,31B,unaligned)", c_roundtrip, 16, mkfields(31), 31),
               Case("Packetizer->Depacketizer(dw=8,8B)", c_roundtrip, 8, FIELDS, 8), Case("Packetizer->Depacketizer(dw=128,16B)", c_roundtrip, 128, {"a": HeaderField(0, 0, 64), "b": HeaderField(8, 0, 64)}, 16)]
    return cs

ASSUMPTIONS = ["round trip (Packetizer -> Depacketizer composition): the producer holds valid and its token (data, last, header parameters) until accepted",
               "round trip: the producer keeps the header parameters constant over the beats of one packet, from the first offer of its first beat until its last beat is accepted",
               "round trip: header fields whose byte-swapped width is a multiple of 8 or below 8 (Header.decode(encode(x)) != x for the other widths is a listed finding); header_words >= 1",
               "round trip: the `first` flag is not transported by the pair and is not part of the token"]
