"""C04 (packet.py part): hold-until-ready and progress for Packetizer / Depacketizer / Arbiter / Dispatcher / PacketFIFO."""
from vf.core import Case
from . import packet_cases as P
from .streamlib import select
def _c(fn, *a, **k): return select(fn(*a, **k), "C04")
def cases(tier): return [Case("packet." + c[0], _c, *c[1:]) for c in P.all_cases(tier) if not c[0].startswith(("Header", "Status"))]
