"""AXI-Lite / AXI environment helpers shared by C08/C09."""
import z3
from vf.elab import L, locals_of, mk
from vf.hw import *
from migen import *
from litex.gen import LiteXModule

def pay(ep): return [s for s, _ in ep.payload.iter_flat()] + [s for s, _ in ep.param.iter_flat()]
def fire(h, ep): return z3.And(b(h.v(ep.valid)), b(h.v(ep.ready)))
def V(h, s): return b(h.v(s))
def paytok(h, ep):
    ps = pay(ep)
    return cat(*[h.v(s) for s in ps]) if ps else K(0, 1)

def src_env(h, ep, name):
    """AXI rule for a channel's source: valid and payload are held until ready"""
    stall = h.prev(name + "_stall", bv1(z3.And(b(h.v(ep.valid)), z3.Not(b(h.v(ep.ready))))))
    tokp = h.prev(name + "_tok", paytok(h, ep))
    h.assume(z3.Implies(b(stall), z3.And(b(h.v(ep.valid)), paytok(h, ep) == tokp)), "AXI channel source holds valid and payload until ready")
    return stall, tokp

def src_guarantee(h, ep, name):
    stalled = z3.And(b(h.v(ep.valid)), z3.Not(b(h.v(ep.ready))))
    h.ensure_seq(f"ens.stable.{name}", lambda at: z3.Implies(at(stalled, 0), z3.And(at(b(h.v(ep.valid)), 1), at(paytok(h, ep), 1) == at(paytok(h, ep), 0))))

def master_side_inputs(m, full=False):
    ins = [m.aw.valid] + pay(m.aw) + [m.w.valid] + pay(m.w) + [m.b.ready, m.ar.valid] + pay(m.ar) + [m.r.ready]
    if full: ins += [m.w.last]
    return ins
def slave_side_inputs(s, full=False):
    ins = [s.aw.ready, s.w.ready, s.b.valid] + pay(s.b) + [s.ar.ready, s.r.valid] + pay(s.r)
    if full: ins += [s.r.last]
    return ins
