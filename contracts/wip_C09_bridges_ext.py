"""C09 (extension): gaps found by an audit of C09_bridges / C09_axi_bridges / C09_add_adapter.
 1. AXILiteUpConverter: guarantees towards the SLAVE (a raised aw/w/ar valid and its payload stay stable until ready).
 2. AXI2Wishbone / Wishbone2AXI: direct flat-byte-memory contracts (symbolic-address method) from the outer master port to an abstract
    byte memory behind the outer slave port (no reference to the inner bridges except for invariant hints), bursts included.
 3. configurations that were never built: AXILiteSRAM(read_only / init / Memory argument), AXILite2AXI(64), AXILiteConverter ratio 1,
    AXILiteDownConverter 64->32, AXILite2CSR on an 8-bit CSR bus.
 4. SoCBusHandler.add_adapter: the AHB path, chains that contain an AXIInterface (byte address / byte lane preservation), AXI width
    conversion, bursting=True."""
import z3
from .axilib import *
from . import wblib
from .wblib import req as wbreq
from .C09_bridges import lane_of, sbit, c_axil_down
from .C09_axi_bridges import burst_legal, burst_off, WB, _Z
from litex.soc.interconnect import wishbone, csr_bus, ahb
from litex.soc.interconnect import axi as axi_pkg
from litex.soc.interconnect.axi import (AXIInterface, AXILiteInterface, AXILiteSRAM, AXILite2CSR, AXILiteUpConverter, AXILiteConverter,
                                        AXI2Wishbone, Wishbone2AXI, AXI2AXILite, AXILite2Wishbone, Wishbone2AXILite)
from litex.soc.interconnect.axi.axi_full_to_axi_lite import AXILite2AXI
from vf.core import Case as VCase

def _try(fn, default=None):
    try: return fn()
    except (AttributeError, KeyError, TypeError, IndexError): return default

def _subs(mod, cls):
    """sub-modules of a given class anywhere below mod (defensive: anonymous `self.submodules += x` included)"""
    out = []; todo = [mod]; seen = set()
    while todo:
        m = todo.pop()
        if id(m) in seen: continue
        seen.add(id(m))
        if isinstance(m, cls): out.append(m)
        for _n, s in (getattr(m, "_submodules", None) or []): todo.append(s)
    return out

# =========================================================================================================== 1. up-converter, slave side
UP_W = ("AXILiteUpConverter selects the slave-side W lane (w.strb / w.data position) combinationally from master.aw.addr whenever master.aw.valid is high: "
        "a master that raises the address of its NEXT write while the W beat of the current one is still stalled at the slave (or that offers W before AW), both allowed "
        "by AXI4-Lite, makes slave.w.strb/slave.w.data change while slave.w.valid is high and slave.w.ready is low; the beat is then written into the lane of the wrong address")

def c_up_slave(dw_from, dw_to, scenario):
    """scenario 'legal': any AXI4-Lite master; 'in-order': W offered with/after its AW and no further AW before that W was accepted"""
    m = AXILiteInterface(data_width=dw_from, address_width=16); s = AXILiteInterface(data_width=dw_to, address_width=16)
    d = mk(AXILiteUpConverter, m, s)
    h = HwCheck(f"AXILiteUpConverter.slave-side({dw_from}->{dw_to},{scenario})", d, master_side_inputs(m) + slave_side_inputs(s))
    V = h.v
    for ch in ("aw", "w", "ar"): src_env(h, getattr(m, ch), "m." + ch)
    F = lambda ep: fire(h, ep)
    ma = (dw_from // 8).bit_length() - 1; sa = (dw_to // 8).bit_length() - 1; LB = sa - ma
    # the slave-side address channels: forwarded, held with the master's
    src_guarantee(h, s.aw, "s.aw"); src_guarantee(h, s.ar, "s.ar")
    # the slave-side W channel, as a per-cycle clause over last cycle's values
    p_stall = h.prev("sw_stall", bv1(z3.And(b(V(s.w.valid)), z3.Not(b(V(s.w.ready))))))
    p_tok = h.prev("sw_tok", paytok(h, s.w))
    stable_w = z3.Implies(b(p_stall), z3.And(b(V(s.w.valid)), paytok(h, s.w) == p_tok))
    ahead = h.ghost("ahead", 1)                     # an AW has been accepted whose W has not
    h.ghost_next(ahead, z3.If(z3.And(F(m.aw), z3.Not(F(m.w))), K(1, 1), z3.If(z3.And(F(m.w), z3.Not(F(m.aw))), K(0, 1), ahead)))
    wr_lane = h.ghost("wr_lane", LB)
    h.ghost_next(wr_lane, z3.If(b(V(m.aw.valid)), z3.Extract(sa - 1, ma, V(m.aw.addr)), wr_lane))
    if scenario == "legal":
        h.finding("finding.w-unstable", stable_w, UP_W)
    else:
        h.assume(z3.Implies(b(V(m.aw.valid)), z3.Not(b(ahead))), "scenario restriction: the master raises no further AW before the W beat of the previous write has been accepted")
        h.assume(z3.Implies(b(V(m.w.valid)), z3.Or(b(V(m.aw.valid)), b(ahead))), "scenario restriction: the master offers W together with or after its AW (never before)")
        h.ensure("ens.stable.s.w", stable_w)
        wrr = L(d, "wr_word_r")
        if wrr is not None and wrr in h.ts.var: h.hint("wr_word_r", V(wrr) == wr_lane)
        # the W beat is forwarded in the lane of the address of ITS write
        cur = z3.If(b(V(m.aw.valid)), z3.Extract(sa - 1, ma, V(m.aw.addr)), wr_lane)
        NBm = dw_from // 8
        for j in range(dw_to // dw_from):
            on = cur == K(j, LB)
            h.ensure(f"ens.w.lane{j}", z3.Implies(b(V(s.w.valid)), z3.And(z3.Extract(NBm * (j + 1) - 1, NBm * j, V(s.w.strb)) == z3.If(on, V(m.w.strb), K(0, NBm)),
                                                                        z3.Implies(on, z3.Extract(dw_from * (j + 1) - 1, dw_from * j, V(s.w.data)) == V(m.w.data)))))
    h.use_auto = True
    h.cover("cover.w-stalled", z3.And(b(p_stall), F(s.w)), depth=4)
    h.bmc_depth = 6
    h.functions = ["litex.soc.interconnect.axi.axi_lite.AXILiteUpConverter.__init__ (slave-side channel stability)"]
    return h

def cases(tier):
    cs = [VCase("AXILiteUpConverter.slave-side(32->64,legal)", c_up_slave, 32, 64, "legal"), VCase("AXILiteUpConverter.slave-side(32->64,in-order)", c_up_slave, 32, 64, "in-order"),
          VCase("AXILiteUpConverter.slave-side(8->32,in-order)", c_up_slave, 8, 32, "in-order")]
    return cs

ASSUMPTIONS = ["AXILiteUpConverter slave side: AW/AR stability proved for every AXI4-Lite master; W stability proved for in-order masters only (W with/after its AW, one write address at a time) - for any legal master it is a finding"]
