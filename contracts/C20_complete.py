"""C20, last clause: "a request is refused only if no setting inside those ranges satisfies it" - proved for ALL requests.
Engine E3 (symx/loopcut variant, symbolic REALS as in C20_clocks.py) with a second loop rule, implemented by the AST rewriter
`Exhaust` of this module (vf/loopcut.py is not changed).

Theorem per helper (obligation `ens.complete`): let W = (D*, M*, d*_0 .. d*_{n-1}) be RIGID symbolic constants that are members of the
ranges the class DECLARES (its range tuples, read as range()/clkdiv_range would) and satisfy the property's own side conditions (VCO
window with the helper's vco_margin convention, phase-detector window where the class declares one, per output |f_out - f| <= f*m
with f_out recomputed from W).  Then the real `compute_config`, run on the symbolic request, does NOT reach `raise ValueError`.

Loop rule for `for x in R: B` (R is evaluated by the real code and materialised - a mutated iterable that skips elements is seen;
loops with an `else:` clause and `while` loops are reported as unsupported):
 (a) some iteration leaves (break/return/raise): the variables that non-leaving iterations assign are havocked, x is an ARBITRARY
     element of the real R, B runs once; only paths that leave continue (falling off the end / `continue` ends the path) - as in
     loopcut.Cutter.  Ordered search: the iterations BEFORE the leaving one did not leave, so if the witness is an element of R that
     comes strictly before x, the witness iteration of (b) is run first and its facts are kept (an early `break` that is a valid
     optimisation stays provable, one that cuts off the witness does not).  Loops whose iterations can leave only by `return` end the
     call with a configuration and cannot contribute a refusal: their arm (a) is not explored here (C20_clocks*.py explore it).
 (b) R is exhausted: B ran WITHOUT leaving for EVERY element of R, in particular for the witness element if it is a member of the
     real R (membership is a branch condition: if it is not implied, the not-a-member branch learns nothing).  The variables that
     non-leaving iterations assign are havocked (unknown state before that iteration), x := witness, B runs; a path on which B leaves
     contradicts exhaustion and is dropped, the path condition of the non-leaving paths is kept as a fact.  Afterwards the same
     variables are havocked again (state after the last iteration).
 Frame: "variables that non-leaving iterations assign" is computed mechanically from the current source (`_nl_assigned`): every name
 bound by a statement that is not inside a block which certainly leaves (block ends with break/return/raise and contains no
 `continue` of this loop; inside nested loops only return/raise count).  A havocked scalar is a POISON value (any use is reported as
 `unsupported`, never silently wrong); a havocked dict only answers for keys written after the havoc.  Nested loops compose (inner
 loops are rewritten first and copied into the arms).
 Best-of searches (Intel, Gowin: no iteration leaves, candidates are collected, refusal iff the collection is empty) need facts that
 survive the later iterations.  They are declared per helper and CHECKED: the candidate collection is only appended to / stored into
 inside the loops (`_only_grows`: then "non-empty" survives every havoc: GrowList/GrowDict); Intel's `clk_valid` is only written by
 `clk_valid[..] = True` in the divider loop (`_only_true_stores`: True entries survive) and the divider loop has the invariant
 "best_diff is float('inf') or clk_valid[_n]" (obligations inv[c].init / inv[c].step, the step from an arbitrary invariant state).
 `ens.complete` = exploration finished, nothing unsupported, and no feasible path reaches `raise ValueError`.
Builtins on proxies go through contracts (math.gcd/ceil/floor/trunc/isclose, int, round, float, pow, len, range; min/max/abs work on
the proxies directly), so a changed tree gives a failed or proved obligation, not a harness crash; any other exception of the explored
code is replayed natively and otherwise reported as undecided.
Vacuity guards (`cover.*`): the witness assumption set is satisfiable; every witness iteration was entered on a satisfiable path;
paths were dropped by the exhaustion rule (first-fit) / the code got past its refusal point (best-of); WITHOUT the witness facts the
same rewritten function does reach `raise ValueError`.
Counter-models are replayed on the real class under plain CPython together with an independent exact (rational) exhaustive search:
`violated` only if the real function refuses a concrete request for which the search finds a setting (the model's request, then the
request that has the model's witness as exact solution, up to 6 models per failing path); otherwise `failed-no-input`.
Bounded cross-checks (random and PLANTED requests, independent search, real classes) are kept, labelled bounded."""
import ast, copy, inspect, textwrap, time, math, random, os, sys, logging, fractions, z3
from vf import elab
from vf import symx
from vf.symx import SymBool, SymInt, PathEnd
from vf.loopcut import SymReal, _r
try: from vf.loopcut import MathShim
except ImportError: MathShim = object
from vf.core import Case, PROVED, VIOLATED, NOINPUT, UNKNOWN, BOUNDED_OK, OK, VACUOUS, FAULT
from vf.hw import res
from migen import Signal
from contracts.C20_clocks_ext import CtxU, _decide
from litex.soc.cores.clock import xilinx_s7, xilinx_s6, xilinx_us, xilinx_usp, lattice_ice40, lattice_ecp5, lattice_nx
from litex.soc.cores.clock.xilinx_common import XilinxClocking

MODP = "litex.soc.cores.clock."
FEAS_TIMEOUT_MS = 4000           # per path-feasibility query; `unknown` keeps the path (sound), obligations are decided by _decide (60 s + portfolio)
MAX_PATHS = 4000

class Unsupported(Exception): pass

# ------------------------------------------------------------------------------------------------------------ havocked values
class Poison:
    """value of a havocked variable: unknown; every use is trapped (identity tests `is` cannot be trapped: stated limitation)"""
    __slots__ = ("_n",)
    def __init__(self, n): object.__setattr__(self, "_n", n)
    def _bad(self, *a, **k): raise Unsupported(f"use of the havocked variable '{object.__getattribute__(self, '_n')}'")
    def __getattr__(self, a): self._bad()
    def __repr__(self): return f"<havoc {object.__getattribute__(self, '_n')}>"
    __str__ = __repr__
    def __format__(self, spec): return repr(self)
for _d in ("bool eq ne lt le gt ge hash add radd sub rsub mul rmul truediv rtruediv floordiv rfloordiv mod rmod pow rpow neg pos abs int float index "
           "len iter next contains getitem setitem delitem call round and rand or ror xor rxor invert lshift rshift enter exit").split():
    setattr(Poison, f"__{_d}__", Poison._bad)

class HavocDict(dict):
    """dict whose content was havocked: only keys written after the havoc can be read"""
    def __init__(self, name, old=()):
        dict.__init__(self); self._name = name; self._fresh = set()
    def __setitem__(self, k, v): self._fresh.add(k); dict.__setitem__(self, k, v)
    def __getitem__(self, k):
        if k in self._fresh: return dict.__getitem__(self, k)
        raise Unsupported(f"read of the stale entry {k!r} of the havocked dict '{self._name}'")
    def _bad(self, *a, **k): raise Unsupported(f"whole-container read of the havocked dict '{self._name}'")
    __contains__ = __iter__ = __len__ = __eq__ = keys = values = items = get = pop = setdefault = update = __delitem__ = copy = _bad
    __hash__ = None
    def __repr__(self): return f"<havoc dict {self._name}>"

class HavocList(list):
    def __init__(self, name, old):
        list.__init__(self, [Poison(f"{name}[{i}]") for i in range(len(old))]); self._name = name     # same length (index stores do not change it)
    def _bad(self, *a, **k): raise Unsupported(f"length-changing use of the havocked list '{self._name}'")
    append = extend = insert = pop = remove = clear = __iadd__ = _bad

class SearchDone(PathEnd):
    """the explored function went past its refusal point and started to read the candidate collection: the search did not refuse"""
class GrowList:
    """abstraction of a candidate collection that the search loops only append to (checked on the source by `_only_grows`): content
    unknown, length >= min_len; min_len survives every havoc because appending never shortens a list.  `len()` goes through the
    `len` contract; any read of the content ends the path as SearchDone (only legal after the search loops)"""
    def __init__(self, name, min_len=0, exact=True): self._name = name; self.min_len = min_len; self.exact = exact
    def append(self, x): self.min_len += 1
    def __iadd__(self, xs): self.min_len += len(xs); return self
    def havocked(self): return GrowList(self._name, self.min_len, False)
    def _read(self, *a, **k): raise SearchDone()
    __iter__ = __getitem__ = __contains__ = __bool__ = __eq__ = pop = index = count = copy = __add__ = __radd__ = __reversed__ = sort = _read
    def __len__(self): raise Unsupported("len() of an abstract collection outside the len contract")
def _c_len(x):
    if isinstance(x, GrowDict):
        if x.exact_len is not None: return x.exact_len
        n = _fresh_int("len"); _assume(n.t >= (1 if x.nonempty else 0)); return n
    if not isinstance(x, GrowList): return len(x)
    if x.exact: return x.min_len
    n = _fresh_int("len"); _assume(n.t >= x.min_len); return n

class GrowDict:
    """candidate dictionary that the search loops only store into: `nonempty` survives every havoc (a store never empties a dict)"""
    def __init__(self, name, nonempty=False, exact_len=None): self._name = name; self.nonempty = nonempty; self.exact_len = exact_len
    def __setitem__(self, k, v): self.nonempty = True; self.exact_len = None
    def havocked(self): return GrowDict(self._name, self.nonempty, None)
    def _read(self, *a, **k): raise SearchDone()
    __iter__ = __getitem__ = __contains__ = __bool__ = __eq__ = pop = keys = values = items = get = copy = _read
    def __len__(self): raise Unsupported("len() of an abstract collection outside the len contract")
class MonoTrueList(list):
    """list whose elements the cut loop only ever sets to True (checked on the source): havoc keeps the True entries"""
class SymRange:
    """range(lo, hi) with proxy bounds (range contract: the integers lo <= x < hi in ascending order)"""
    prog = True; st = 1
    def __init__(self, lo, hi): self.lo_t = _r(lo) if isinstance(lo, SymInt) else z3.RealVal(lo); self.hi_t = _r(hi) if isinstance(hi, SymInt) else z3.RealVal(hi)
    def member(self, w):
        t = _r(w) if isinstance(w, SymInt) else z3.RealVal(w)
        return z3.And(t >= self.lo_t, t < self.hi_t, z3.IsInt(t))
    def arbitrary(self, vc, name):
        x = vc.fresh("int", name); _assume(z3.And(z3.ToReal(x.t) >= self.lo_t, z3.ToReal(x.t) < self.hi_t)); return x
def _c_range(*a):
    if not any(isinstance(x, SymInt) for x in a): return range(*a)
    if len(a) == 1: return SymRange(0, a[0])
    if len(a) == 2 or (len(a) == 3 and a[2] == 1): return SymRange(a[0], a[1])
    raise Unsupported("range() with a proxy step")
class InfReal(SymReal):
    """float('inf'): greater than every (finite) real proxy or number"""
    def __init__(self): SymReal.__init__(self, z3.Real("INF"))
    def __gt__(self, o): return True
    def __ge__(self, o): return True
    def __lt__(self, o): return False
    def __le__(self, o): return isinstance(o, InfReal)
    def __eq__(self, o): return isinstance(o, InfReal)
    def __ne__(self, o): return not isinstance(o, InfReal)
    __hash__ = None
    def _no(self, *a): raise Unsupported("arithmetic on float('inf')")
    __add__ = __radd__ = __sub__ = __rsub__ = __mul__ = __rmul__ = __truediv__ = __rtruediv__ = __abs__ = _no

def _only_true_stores(loop, name):
    """inside `loop` the list `name` is only written by `name[..] = True`"""
    ok_ids = set()
    for n in ast.walk(loop):
        if isinstance(n, ast.Assign) and len(n.targets) == 1 and isinstance(n.targets[0], ast.Subscript) and isinstance(n.targets[0].value, ast.Name) and n.targets[0].value.id == name \
           and isinstance(n.value, ast.Constant) and n.value.value is True: ok_ids.add(id(n.targets[0].value))
    for n in ast.walk(loop):
        if isinstance(n, ast.Name) and n.id == name and isinstance(n.ctx, ast.Store): return False
        if isinstance(n, ast.Subscript) and isinstance(n.value, ast.Name) and n.value.id == name and isinstance(n.ctx, (ast.Store, ast.Del)) and id(n.value) not in ok_ids: return False
        if isinstance(n, ast.Attribute) and isinstance(n.value, ast.Name) and n.value.id == name: return False          # method call on the list
    return True

def _only_grows(tree, name, loops):
    """inside the cut loops `name` occurs only as `name.append(..)` / `name += [..]`"""
    allowed = set()
    for lp in loops:
        for n in ast.walk(lp):
            if isinstance(n, ast.AugAssign) and isinstance(n.target, ast.Name) and n.target.id == name and isinstance(n.op, ast.Add): allowed.add(id(n.target))
            if isinstance(n, ast.Call) and isinstance(n.func, ast.Attribute) and n.func.attr == "append" and isinstance(n.func.value, ast.Name) and n.func.value.id == name: allowed.add(id(n.func.value))
            if isinstance(n, ast.Assign) and len(n.targets) == 1 and isinstance(n.targets[0], ast.Subscript) and isinstance(n.targets[0].value, ast.Name) and n.targets[0].value.id == name: allowed.add(id(n.targets[0].value))
        for n in ast.walk(lp):
            if isinstance(n, ast.Name) and n.id == name and id(n) not in allowed: return False
    return True

# ------------------------------------------------------------------------------------------------------------ frame analysis
def _tnames(t, names, muts):
    if isinstance(t, ast.Name): names.add(t.id)
    elif isinstance(t, (ast.Tuple, ast.List)):
        for e in t.elts: _tnames(e, names, muts)
    elif isinstance(t, ast.Starred): _tnames(t.value, names, muts)
    elif isinstance(t, (ast.Subscript, ast.Attribute)):
        root = t
        while isinstance(root, (ast.Subscript, ast.Attribute)): root = root.value
        if not isinstance(root, ast.Name): raise Unsupported("store through a computed object")
        muts.add(root.id)
    else: raise Unsupported(f"assignment target {type(t).__name__}")

def _walk_level(stmts):
    """nodes of `stmts` that belong to this loop level (nested loops and function bodies are not entered)"""
    skip = (ast.For, ast.While, ast.FunctionDef, ast.Lambda, ast.ClassDef, ast.AsyncFor)
    todo = [s for s in stmts if not isinstance(s, skip)]
    while todo:
        n = todo.pop()
        yield n
        for c in ast.iter_child_nodes(n):
            if isinstance(c, skip): continue
            todo.append(c)

def _certainly_leaves(block, own=True):
    """every path that enters `block` leaves the loop of interest.  own=True: `block` is at the level of that loop (break leaves it,
    continue does not); own=False: `block` is inside a nested loop (only return/raise leave the outer loop; the nested loop's own
    break/continue do not)"""
    if not block: return False
    if own: return isinstance(block[-1], (ast.Break, ast.Return, ast.Raise)) and not any(isinstance(n, ast.Continue) for n in _walk_level(block))
    return isinstance(block[-1], (ast.Return, ast.Raise)) and not any(isinstance(n, (ast.Continue, ast.Break)) for n in _walk_level(block))

def _all_assigned(node, names, muts):
    for n in ast.walk(node):
        if isinstance(n, ast.Assign):
            for t in n.targets: _tnames(t, names, muts)
        elif isinstance(n, (ast.AugAssign, ast.AnnAssign)): _tnames(n.target, names, muts)
        elif isinstance(n, (ast.For,)): _tnames(n.target, names, muts)
        elif isinstance(n, ast.NamedExpr): _tnames(n.target, names, muts)
        elif isinstance(n, ast.withitem) and n.optional_vars is not None: _tnames(n.optional_vars, names, muts)
        elif isinstance(n, ast.Expr): _call_effect(n, muts)
        elif isinstance(n, (ast.Delete, ast.Global, ast.Nonlocal, ast.Import, ast.ImportFrom)): raise Unsupported(type(n).__name__)

def _call_effect(st, muts):
    """statement-level call `obj.method(...)`: obj may be mutated (logger calls are assumed to have no effect on results)"""
    v = st.value
    if isinstance(v, ast.Call) and isinstance(v.func, ast.Attribute):
        chain = []; root = v.func
        while isinstance(root, ast.Attribute): chain.append(root.attr); root = root.value
        if "logger" in chain or not isinstance(root, ast.Name): return
        muts.add(root.id)

def _nl_assigned(block, names=None, muts=None, own=True):
    """names / containers possibly written on a path through `block` that ends the iteration WITHOUT leaving the loop of interest"""
    names = set() if names is None else names; muts = set() if muts is None else muts
    if _certainly_leaves(block, own): return names, muts
    for st in block:
        if isinstance(st, ast.If):
            for n in ast.walk(st.test):
                if isinstance(n, ast.NamedExpr): _tnames(n.target, names, muts)
            _nl_assigned(st.body, names, muts, own); _nl_assigned(st.orelse, names, muts, own)
        elif isinstance(st, ast.For):
            _tnames(st.target, names, muts); _nl_assigned(st.body, names, muts, False); _nl_assigned(st.orelse, names, muts, own)
        elif isinstance(st, ast.While): _nl_assigned(st.body, names, muts, False); _nl_assigned(st.orelse, names, muts, own)
        elif isinstance(st, ast.With):
            for it in st.items:
                if it.optional_vars is not None: _tnames(it.optional_vars, names, muts)
            _nl_assigned(st.body, names, muts, own)
        elif isinstance(st, ast.Try): _all_assigned(st, names, muts)
        elif isinstance(st, (ast.Return, ast.Raise)) or (own and isinstance(st, ast.Break)): break            # the rest of the block is dead
        else: _all_assigned(st, names, muts)
    return names, muts

def _can_leave(body):
    """how an iteration can leave: 'break' (break of this loop, or a raise statement anywhere inside), 'return' (only by return), '' (not at all)"""
    if any(isinstance(n, ast.Break) for n in _walk_level(body)) or any(isinstance(n, ast.Raise) for s in body for n in ast.walk(s)): return "break"
    if any(isinstance(n, ast.Return) for s in body for n in ast.walk(s)): return "return"
    return ""

# ------------------------------------------------------------------------------------------------------------ the rewriter
def _P(src): return ast.parse(textwrap.dedent(src)).body

class _LevelA(ast.NodeTransformer):
    """arm (a): `continue` of this loop ends the path (the iteration did not leave)"""
    def __init__(self, lid): self.lid = lid
    def visit_For(self, n): return n
    def visit_While(self, n): return n
    def visit_FunctionDef(self, n): return n
    def visit_Lambda(self, n): return n
    def visit_Continue(self, n): return _P(f"__vc.cut({self.lid})")
class _LevelB(_LevelA):
    """arm (b): `break` of this loop contradicts exhaustion, `continue` ends the witness iteration"""
    def visit_Continue(self, n): return ast.Break()
    def visit_Break(self, n): return _P(f"__vc.contradict({self.lid}, 'break')")
class _InvCont(_LevelA):
    """arm (a) of a loop with a declared invariant: the invariant is checked where the iteration ends without leaving"""
    def visit_Expr(self, n):
        if isinstance(n.value, ast.Call) and ast.unparse(n.value.func) == "__vc.cut" and ast.unparse(n.value.args[0]) == str(self.lid):
            return _P(f"__vc.check_inv({self.lid}, locals(), 'step')") + [n]
        return n
class _RetB(ast.NodeTransformer):
    """arm (b): `return` at any depth leaves the loop: contradiction with exhaustion"""
    def __init__(self, lid): self.lid = lid
    def visit_FunctionDef(self, n): return n
    def visit_Lambda(self, n): return n
    def visit_Return(self, n): return _P(f"__vc.contradict({self.lid}, 'return')")

def _flat(stmts):
    out = []
    for s in stmts: out += s if isinstance(s, list) else [s]
    return out

class Exhaust(ast.NodeTransformer):
    """rewrites the `for` loops named in `specs` (key: source text of the loop target) with the two-arm rule of the module docstring"""
    def __init__(self, specs, grow=()): self.specs = specs; self.n = -1; self.info = {}; self.grow = set(grow)
    def visit_While(self, node): raise Unsupported("while loop in a function under the exhaustion rule")
    def visit_For(self, node):
        self.n += 1; lid = self.n
        key = ast.unparse(node.target)
        if key not in self.specs: return self.generic_visit(node)
        if node.orelse: raise Unsupported("for/else")
        names, muts = _nl_assigned(node.body); _tnames(node.target, names, muts)
        muts |= names & self.grow; names -= self.grow          # `c += [..]` on an append-only collection is a mutation, not a rebinding
        muts -= names
        can_leave = _can_leave(node.body)
        self.info[lid] = dict(target=key, havoc=sorted(names), havoc_containers=sorted(muts), can_leave=can_leave, iter=ast.unparse(node.iter))
        node = self.generic_visit(node)
        for mt in self.specs[key].get("mono_true", ()):
            if not _only_true_stores(node, mt): raise Unsupported(f"the list '{mt}' is not written by `{mt}[..] = True` only inside the loop over {key}")
        typed = set(self.specs[key].get("typed", {}))
        def havoc():
            src = "".join(f"try: {m} = __vc.hv_cont('{m}', {m}, {lid})\nexcept NameError: pass\n" for m in sorted(muts))
            src += "".join(f"{n} = __vc.poison('{n}', {lid})\n" for n in sorted(names - typed))
            src += "".join(f"{n} = __vc.typed('{n}', {lid}, locals())\n" for n in sorted(names & typed))
            return _P(src or "pass")
        body_a = _flat([_LevelA(lid).visit(copy.deepcopy(s)) for s in node.body])
        body_b = _flat([_LevelB(lid).visit(copy.deepcopy(s)) for s in node.body])
        body_b = _flat([_RetB(lid).visit(s) for s in body_b])
        enter = _P(f"__it{lid} = __vc.enter({lid}, None, locals())"); enter[0].value.args[1] = node.iter
        has_inv = "inv" in self.specs[key]
        if has_inv:                                       # declared invariant: checked at the loop head and after an arbitrary non-leaving iteration (arm (a))
            body_a = body_a + _P(f"__vc.check_inv({lid}, locals(), 'step')")
            body_a = _flat([_InvCont(lid).visit(s_) for s_ in body_a])
            enter = enter + _P(f"__vc.check_inv({lid}, locals(), 'init')")
            can_leave = can_leave or "inv"
        top = _P(f"if __vc.leaves({lid}, {can_leave!r}):\n    pass\nelse:\n    __w{lid} = __vc.witness({lid}, __it{lid}, locals())\n    if __w{lid} is not __vc.NOW:\n        pass")[0]
        el = _P(f"x = __vc.elem({lid}, __it{lid})")[0]; el.targets = [copy.deepcopy(node.target)]
        wh_a = ast.While(test=ast.Constant(True), body=body_a + _P(f"__vc.cut({lid})"), orelse=[])
        # arm (a), ordered search: the iterations BEFORE the leaving one did not leave; if the witness element strictly precedes the
        # leaving element in the real iteration order, the witness iteration ran without leaving (same treatment as in arm (b))
        pre = []
        if isinstance(node.target, ast.Name):
            t = node.target.id
            pre = _P(f"__x{lid} = {t}\n__v{lid} = __vc.witness_before({lid}, __it{lid}, locals(), {t})\nif __v{lid} is not __vc.NOW:\n    pass")
            wi0 = _P(f"{t} = __v{lid}")
            wh_b0 = ast.While(test=ast.Constant(True), body=copy.deepcopy(body_b) + [ast.Break()], orelse=[])
            pre[2].body = havoc() + wi0 + _P(f"__vc.witness_begin({lid})") + [wh_b0] + _P(f"__vc.witness_done({lid})") + havoc() + _P(f"{t} = __x{lid}")
        top.body = havoc() + [el] + pre + [wh_a]
        wi = _P(f"x = __w{lid}")[0]; wi.targets = [copy.deepcopy(node.target)]
        wh_b = ast.While(test=ast.Constant(True), body=body_b + [ast.Break()], orelse=[])
        inner_if = top.orelse[1]
        inner_if.body = havoc() + [wi] + _P(f"__vc.witness_begin({lid})") + [wh_b] + _P(f"__vc.witness_done({lid})")
        top.orelse = top.orelse + havoc() + _P(f"__vc.exhausted({lid})")
        return enter + [top]

def rewrite(fn, specs, vc, extra_globals=None, grow=()):
    src = textwrap.dedent(inspect.getsource(fn))
    tree = ast.parse(src)
    cut = [n for n in ast.walk(tree) if isinstance(n, ast.For) and ast.unparse(n.target) in specs]
    for g_ in grow:
        if not _only_grows(tree, g_, cut): raise Unsupported(f"the collection '{g_}' is not append-only inside the search loops")
    ex = Exhaust(specs, grow); tree = ex.visit(tree); ast.fix_missing_locations(tree)
    missing = [k for k in specs if k not in [i["target"] for i in ex.info.values()]]
    if missing: raise Unsupported(f"loops {missing} not found in the current source of {fn.__qualname__}")
    g = _contract_globals(dict(fn.__globals__)); g["__vc"] = vc
    if extra_globals: g.update(extra_globals)
    exec(compile(tree, f"<exhaust:{fn.__qualname__}>", "exec"), g)
    return g[fn.__name__], ast.unparse(tree), ex.info

# ------------------------------------------------------------------------------------------------------------ real iterables
def _q(x): return z3.RealVal(str(fractions.Fraction(x)))
class It:
    """the value of the loop's real iterable expression, materialised; numeric arithmetic progressions are recognised (checked exactly)"""
    def __init__(self, els):
        self.els = els; n = len(els); self.prog = False
        if n and all(isinstance(e, (int, float)) and not isinstance(e, bool) for e in els):
            F = [fractions.Fraction(e) for e in els]
            st = F[1] - F[0] if n > 1 else fractions.Fraction(1)
            if st != 0 and all(F[i] == F[0] + i * st for i in range(n)):
                self.prog = True; self.a0, self.st, self.lo, self.hi = F[0], st, min(F), max(F)
                self.allint = all(isinstance(e, int) for e in els)
        elif n: raise Unsupported("cut loop over a non-numeric iterable")
    def member(self, w):
        """condition 'w is an element' (python bool or z3 Bool)"""
        if not isinstance(w, SymInt): return any(w == e for e in self.els)
        if not self.els: return False
        isint = w.t.sort() == z3.IntSort()
        if self.prog and isint and self.allint:
            c = [w.t >= int(self.lo), w.t <= int(self.hi)]
            if abs(self.st) != 1: c.append((w.t - int(self.a0)) % int(abs(self.st)) == 0)
            return z3.And(*c)
        t = _r(w)
        if self.prog: return z3.And(t >= _q(self.lo), t <= _q(self.hi), z3.IsInt((t - _q(self.a0)) / _q(self.st)))
        return z3.Or(*[t == _q(e) for e in self.els])
    def arbitrary(self, vc, name):
        if not self.els: raise PathEnd()                 # no iteration can leave an empty loop
        if self.prog and self.allint and abs(self.st) == 1:
            x = vc.fresh("int", name); symx.CTX.assume(SymBool(z3.And(x.t >= int(self.lo), x.t <= int(self.hi)))); return x
        if self.prog:
            k = vc.fresh("int", name + "_k"); symx.CTX.assume(SymBool(z3.And(k.t >= 0, k.t < len(self.els))))
            if self.allint: return SymInt(int(self.a0) + k.t * int(self.st))
            return SymReal(_q(self.a0) + z3.ToReal(k.t) * _q(self.st))
        x = vc.fresh("real", name); symx.CTX.assume(SymBool(z3.Or(*[x.t == _q(e) for e in self.els]))); return x

# ------------------------------------------------------------------------------------------------------------ runtime of the rewritten code
class XVC:
    NOW = object()           # "no witness here"
    def __init__(self, specs, log, use_witness=True):
        self.specs = specs; self.k = 0; self.log = log; self.use_witness = use_witness; self.all_arms = False; self.grow = (); self.side = []
    def _n(self): self.k += 1; return self.k
    def fresh(self, kind, name):
        k = self._n()
        if kind == "bool": return SymBool(z3.Bool(f"{name}!{k}"))
        if kind == "int": return SymInt(z3.Int(f"{name}!{k}"))
        return SymReal(z3.Real(f"{name}!{k}"))
    def _ev(self, key, keep_pc=False):
        e = self.log.setdefault(key, dict(count=0, pc=None)); e["count"] += 1
        if keep_pc and e["pc"] is None: e["pc"] = list(symx.CTX.pc)
    def enter(self, lid, iterable, L):
        if isinstance(iterable, SymRange): return iterable
        els = []
        for e in iterable:
            els.append(e)
            if len(els) > 50000: raise Unsupported("iterable too long")
        return It(els)
    def leaves(self, lid, can_leave):
        """arm (a) or arm (b)?  An iteration that can leave only by `return` ends the call with a configuration: it cannot contribute a
        refusal, so arm (a) is not explored for such loops unless self.all_arms (the soundness modules explore those iterations)"""
        if not can_leave: return False
        if can_leave == "inv": pass                       # arm (a) is explored for the invariant's step check only
        elif can_leave == "return" and not self.all_arms: self._ev(("arm-a-not-explored(return-only)", lid)); return False
        return bool(SymBool(z3.Bool(f"leaves{lid}!{self._n()}")))
    def elem(self, lid, it): return it.arbitrary(self, f"x{lid}")
    def witness(self, lid, it, L):
        if not self.use_witness: return XVC.NOW
        w = self.specs[self.key[lid]]["witness"](self, L)
        if w is None: return XVC.NOW
        c = it.member(w)
        if isinstance(c, bool): ok = c
        else: ok = bool(SymBool(c))
        if ok: return w
        self._ev(("witness-not-in-real-iterable", lid), True)
        return XVC.NOW
    def witness_before(self, lid, it, L, x):
        """arm (a): the witness, if it is an element of the real iterable that comes strictly before the (arbitrary) leaving element x"""
        if not self.use_witness or not it.prog: return XVC.NOW
        w = self.specs[self.key[lid]]["witness"](self, L)
        if w is None: return XVC.NOW
        c = it.member(w)
        before = (_r(w) < _r(x)) if it.st > 0 else (_r(w) > _r(x))
        c = z3.And(c, before) if not isinstance(c, bool) else (before if c else z3.BoolVal(False))
        if bool(SymBool(c)): return w
        return XVC.NOW
    def witness_begin(self, lid): self._ev(("witness-iteration", lid), True)
    def witness_done(self, lid): self._ev(("witness-iteration-did-not-leave", lid), True)
    def exhausted(self, lid): self._ev(("exhausted", lid))
    def contradict(self, lid, how): self._ev(("dropped-by-exhaustion", lid, how), True); raise PathEnd()
    def cut(self, lid): raise PathEnd()
    def poison(self, name, lid): return Poison(name)
    def typed(self, name, lid, L): return self.specs[self.key[lid]]["typed"][name](self, L)
    def check_inv(self, lid, L, what):
        t = self.specs[self.key[lid]]["inv"](self, L)
        t = t.t if isinstance(t, SymBool) else (t if z3.is_expr(t) else z3.BoolVal(bool(t)))
        r, mdl = _decide(list(symx.CTX.pc) + [z3.Not(t)])
        self.side.append((f"inv[{self.key[lid]}].{what}", r))
    def hv_cont(self, name, v, lid=None):
        if name in self.grow:
            if isinstance(v, (GrowList, GrowDict)): return v.havocked()
            if isinstance(v, list): return GrowList(name, len(v), False)
            if isinstance(v, dict): return GrowDict(name, len(v) > 0, None)
        if lid is not None and name in self.specs[self.key[lid]].get("mono_true", ()) and isinstance(v, list):
            return MonoTrueList([True if e is True else self.fresh("bool", f"{name}_{i}") for i, e in enumerate(v)])
        if isinstance(v, dict): return HavocDict(name, v)
        if isinstance(v, list): return HavocList(name, v)
        if isinstance(v, Poison): return v
        raise Unsupported(f"havoc of the mutated object '{name}' of type {type(v).__name__}")

_LIN = {}
def _is_num(t):
    if z3.is_rational_value(t) or z3.is_int_value(t): return True
    return z3.is_app(t) and t.decl().kind() == z3.Z3_OP_TO_REAL and _is_num(t.arg(0))
def _linear(t):
    """term without products of unknowns / division by unknowns"""
    k = t.get_id()
    if k in _LIN: return _LIN[k]
    r = True
    if z3.is_app(t):
        kind = t.decl().kind(); ch = t.children()
        if kind == z3.Z3_OP_MUL: r = len([c for c in ch if not _is_num(c)]) <= 1
        elif kind in (z3.Z3_OP_DIV, z3.Z3_OP_IDIV, z3.Z3_OP_MOD, z3.Z3_OP_REM): r = _is_num(ch[1])
        elif kind == z3.Z3_OP_POWER: r = False
        r = r and all(_linear(c) for c in ch)
    elif z3.is_quantifier(t): r = False
    _LIN[k] = r
    return r

class CtxX(CtxU):
    """CtxU (an undecided feasibility query keeps the path) with a cheap first stage: a LINEAR branch condition is first decided
    against the linear part of the path condition (a subset: `unsat` there is `unsat` for the whole path condition); this settles
    the range-membership questions without handing them to the nonlinear solver"""
    def _lin(self, c):
        s = z3.Solver(); s.set("timeout", 5000); s.add(*[p for p in self.pc if _linear(p)]); s.add(c)
        CtxU.queries += 1
        return s.check()
    def branch(self, cond):
        if self.pos < len(self.decisions):
            d = self.decisions[self.pos]
        else:
            d = None
            if _linear(cond):
                a = self._lin(cond); b = self._lin(z3.Not(cond))
                if a == z3.unsat and b == z3.unsat: raise PathEnd()
                if a == z3.unsat: d = "F"
                elif b == z3.unsat: d = "T"
            if d is None:
                t_ok = self._chk(*self.pc, cond) != z3.unsat
                f_ok = self._chk(*self.pc, z3.Not(cond)) != z3.unsat
                if t_ok and f_ok: d = True
                elif t_ok: d = "T"
                elif f_ok: d = "F"
                else: raise PathEnd()
            self.decisions.append(d)
        self.pos += 1
        r = d in (True, "T")
        self.pc.append(cond if r else z3.Not(cond))
        return r

def explore(run):
    """depth-first over decision prefixes (as symx.explore); an undecided feasibility query keeps the path.  `run` returns obligations
    (name, z3 term, extra); an exception of the explored code that `run` does not handle is recorded as fault (never a crash of the case)"""
    CtxU.unknowns = 0; CtxU.queries = 0; CtxU.slow = []
    stack = [[]]; results = []; done = 0; ended = 0; faults = []
    while stack:
        if done + ended > MAX_PATHS: faults.append("path budget exceeded"); break
        dec = stack.pop()
        symx.CTX = CtxX(); symx.CTX.decisions = list(dec); symx.CTX.solver.set("timeout", FEAS_TIMEOUT_MS)
        try:
            out = run(symx.CTX); done += 1
            for name, ob, extra in out:
                r, mdl = _decide(list(symx.CTX.pc) + [z3.Not(ob)]); results.append((name, r, mdl, extra, list(symx.CTX.pc) if r == z3.sat else None))
        except PathEnd: ended += 1
        except Unsupported as e: faults.append(f"unsupported: {e}")
        d = symx.CTX.decisions
        for i in range(len(dec), len(d)):
            if d[i] is True: stack.append(d[:i] + [False])
    return dict(done=done, ended=ended, results=results, faults=faults, unknown_queries=CtxU.unknowns, queries=CtxU.queries)

# ------------------------------------------------------------------------------------------------------------ contracts of builtins on proxies
class MathX(MathShim):
    """stands for the `math` module in the rewritten function (gcd: vf.loopcut.MathShim); ceil/floor on proxies by their real-number contracts"""
    def __getattr__(self, name): return getattr(math, name)
    def ceil(self, x):
        if not isinstance(x, SymInt): return math.ceil(x)
        if x.t.sort() == z3.IntSort(): return x
        k = _fresh_int("ceil"); _assume(z3.And(z3.ToReal(k.t) - 1 < x.t, x.t <= z3.ToReal(k.t))); return k
    def floor(self, x):
        if not isinstance(x, SymInt): return math.floor(x)
        if x.t.sort() == z3.IntSort(): return x
        k = _fresh_int("floor"); _assume(z3.And(z3.ToReal(k.t) <= x.t, x.t < z3.ToReal(k.t) + 1)); return k
    def trunc(self, x): return _c_int(x)
    def fabs(self, x): return abs(x)
    def isclose(self, a, b, rel_tol=1e-9, abs_tol=0.0):
        if not isinstance(a, SymInt) and not isinstance(b, SymInt): return math.isclose(a, b, rel_tol=rel_tol, abs_tol=abs_tol)
        d = abs(a - b); return (d <= rel_tol * abs(a)) | (d <= rel_tol * abs(b)) | (d <= abs_tol)
    if MathShim is object:
        def gcd(self, *args):
            if all(isinstance(a, int) for a in args): return math.gcd(*args)
            g = _fresh_int("gcd"); _assume(g.t >= 0)
            for a in args:
                at = a.t if isinstance(a, SymInt) else z3.IntVal(int(a))
                if at.sort() != z3.IntSort(): raise TypeError("gcd of a non-integer proxy")
                ka = _fresh_int("gcdk"); _assume(at == g.t * ka.t); _assume(z3.Implies(at != 0, g.t >= 1))
            return g
_FR = [0]
def _sym_pow(self, e, *m):
    if isinstance(e, int) and not isinstance(e, bool) and 0 <= e <= 4 and not m: return _c_pow(self, e)
    raise Unsupported("proxy ** exponent")
def _sym_rpow(self, b, *m): raise Unsupported("base ** proxy")
if not hasattr(SymInt, "__pow__"): SymInt.__pow__ = _sym_pow; SymInt.__rpow__ = _sym_rpow
def _fresh_int(name): _FR[0] += 1; return SymInt(z3.Int(f"{name}!c{_FR[0]}"))
def _c_int(x, *a):
    """int(): truncation towards zero"""
    if not isinstance(x, SymInt): return int(x, *a)
    if x.t.sort() == z3.IntSort(): return x
    k = _fresh_int("trunc"); kr = z3.ToReal(k.t)
    _assume(z3.If(x.t >= 0, z3.And(kr <= x.t, x.t < kr + 1), z3.And(kr - 1 < x.t, x.t <= kr))); return k
def _c_round(x, nd=None):
    """round(): some integer within 1/2 (ties are not resolved: over-approximation)"""
    if not isinstance(x, SymInt): return round(x) if nd is None else round(x, nd)
    if nd is not None: return x
    if x.t.sort() == z3.IntSort(): return x
    k = _fresh_int("round"); kr = z3.ToReal(k.t); h = z3.RealVal("1/2")
    _assume(z3.And(kr - h <= x.t, x.t <= kr + h)); return k
def _c_float(x):
    if isinstance(x, str) and x.strip().lower() in ("inf", "+inf", "infinity"): return InfReal()
    if not isinstance(x, SymInt): return float(x)
    return SymReal(_r(x))
def _c_pow(a, b, *m):
    if isinstance(b, int) and not isinstance(b, bool) and 0 <= b <= 4 and isinstance(a, SymInt) and not m:
        r = 1
        for _ in range(b): r = r * a
        return r
    return pow(a, b, *m)
def _contract_globals(g):
    """globals of the rewritten function: the math module and the numeric builtins are replaced by their contracts on proxies"""
    _FR[0] = 0
    for k_, v_ in list(g.items()):
        if v_ is math: g[k_] = MathX()
    g.update(int=_c_int, round=_c_round, float=_c_float, pow=_c_pow, len=_c_len, range=_c_range)
    return g

# ------------------------------------------------------------------------------------------------------------ helpers for the contracts
def _assume(t): symx.CTX.assume(SymBool(t) if not isinstance(t, SymBool) else t)
def _member_decl(name, rng, idx=""):
    """a rigid member of the DECLARED range tuple (start, stop[, step]) = {start + k*step | k >= 0, < stop}  (range()/clkdiv_range contract)"""
    lo, hi = rng[0], rng[1]; step = rng[2] if len(rng) > 2 else 1
    if float(step) == 1 and float(lo) == int(lo):
        x = SymInt(z3.Int(name)); _assume(z3.And(x.t >= int(lo), _r(x) < _q(hi))); return x
    k = z3.Int(name + "_k"); x = SymReal(_q(lo) + z3.ToReal(k) * _q(step)); _assume(z3.And(k >= 0, x.t < _q(hi))); return x
def _within(fo, f, m):
    """the property's 'met within its stated margin': |f_out - f| <= f*m"""
    return z3.And(fo - f.t <= f.t * m.t, f.t - fo <= f.t * m.t)
def _pick(name, n):
    """a rigid index 0..n-1, made concrete by case split"""
    if n == 1: return 0
    i = z3.Int(name); _assume(z3.And(i >= 0, i < n))
    for k in range(n - 1):
        if bool(SymBool(i == k)): return k
    return n - 1
def _val(m, t):
    v = m.eval(t, model_completion=True)
    if z3.is_int_value(v): return v.as_long()
    if z3.is_rational_value(v): return fractions.Fraction(v.numerator_as_long(), v.denominator_as_long())
    if z3.is_algebraic_value(v): a = v.approx(30); return fractions.Fraction(a.numerator_as_long(), a.denominator_as_long())
    return None
_nolog = {"compute_config_log": lambda *a, **k: None}

def prove_complete(label, setup, fn_real, spec_keys, replay=None, extra_globals=None, all_arms=False, grow=()):
    """setup(ctx) -> (pll, witness_specs {loop target: dict(witness=fn(vc, L))}, model_terms {name: z3 term}); runs the exhaustion proof,
    the vacuity guards and, for a counter-model, the native replay `replay(values, planted) -> (verdict, text)`; verdict is
    'refused-though-a-setting-exists' / 'crash' (genuine counterexamples of the real function under plain CPython) or 'ok'.
    planted=True replays the request that has the model's witness setting as an exact solution (tight margins) - another point of
    the input space, decided natively like the first"""
    t0 = time.time(); out = []
    log = {}; infos = {}; srcs = {}; side = []
    def run_with(use_witness):
        def run(ctx):
            pll, specs, terms = setup(ctx)
            vc = XVC(specs, log if use_witness else {}, use_witness); vc.all_arms = all_arms; vc.grow = tuple(grow)
            fn, src, info = rewrite(fn_real, {k: specs.get(k, {}) for k in spec_keys}, vc, extra_globals=dict(_nolog, **(extra_globals or {})), grow=grow)
            vc.key = {lid: i["target"] for lid, i in info.items()}
            if use_witness: vc.side = side
            infos.update(info); srcs["src"] = src
            if use_witness: vc._ev(("witness-assumptions",), True)
            try: fn(pll)
            except ValueError as e:
                return [("refused", z3.BoolVal(False), dict(terms=terms, msg=str(e)))]
            except SearchDone:
                if use_witness: vc._ev(("search-done",), True)
                return [("returned", z3.BoolVal(False), None)]
            except (PathEnd, Unsupported): raise
            except Exception as e:               # the explored code raised something else on this path (or the proxies cannot execute it)
                import traceback
                return [("exception", z3.BoolVal(False), dict(terms=terms, msg=f"{type(e).__name__}: {e}", tb=traceback.format_exc()[-600:]))]
            return [("returned", z3.BoolVal(False), None)]
        return run
    name = f"{label}.ens.complete"
    try:
        ex = explore(run_with(True))
    except Unsupported as e:                     # raised while rewriting (loop shape not supported / loop not found)
        return [res(name, "pysym", UNKNOWN, time.time() - t0, "", info=f"unsupported: {e}")]
    refused = [r for r in ex["results"] if r[0] == "refused"]; returned = [r for r in ex["results"] if r[0] == "returned"]
    crashed = [r for r in ex["results"] if r[0] == "exception"]
    bad = [r for r in refused if r[1] == z3.sat]; und = [r for r in refused + crashed if r[1] == z3.unknown]
    badx = [r for r in crashed if r[1] == z3.sat]
    info = dict(paths_completed=ex["done"], paths_ended=ex["ended"], refusing_paths=len(refused), refusing_paths_infeasible=len([r for r in refused if r[1] == z3.unsat]),
                feasibility_queries=ex["queries"], undecided_feasibility_queries=ex["unknown_queries"],
                loops={str(k): v for k, v in infos.items()},
                witness_not_in_real_iterable=sorted({infos[k[1]]["target"] for k in log if k[0] == "witness-not-in-real-iterable"}))
    def try_replays(rs):
        """native replays of counter-models (as found, then planted): up to 3 failing paths x up to 6 models each (further models differ
        in the witness integers); the first genuine counterexample wins"""
        last = ("ok", "no model", {})
        for r in rs[:3]:
            mdl = r[2]; pc = r[4]; terms = r[3]["terms"]; block = []
            for k in range(6):
                if mdl is None: break
                vals = {k_: _val(mdl, t) for k_, t in terms.items()}
                if replay is None or any(v is None for v in vals.values()): last = ("ok", "model not evaluable", vals); break
                for planted in (False, True):
                    try: verdict, text = replay(vals, planted)
                    except Exception as e: verdict, text = "ok", f"replay failed: {type(e).__name__}: {e}"
                    if verdict != "ok" or last[1] == "no model": last = (verdict, text, vals)
                    if verdict != "ok": return last
                if pc is None: break
                ints = [t for k_, t in terms.items() if k_.startswith("W_") and t.sort() == z3.IntSort() and not z3.is_int_value(t)]
                if not ints: break
                block.append(z3.Or(*[t != mdl.eval(t, model_completion=True) for t in ints]))
                sv = z3.Solver(); sv.set("timeout", 10000); sv.add(*pc); sv.add(*block)
                mdl = sv.model() if sv.check() == z3.sat else None
        return last
    if bad:
        verdict, text, vals = try_replays(bad)
        out.append(res(name, "pysym", VIOLATED if verdict != "ok" else NOINPUT, time.time() - t0, "exhaust+z3", model={k: str(v) for k, v in vals.items()},
                       info=(f"a path reaches `raise ValueError` although a witness setting exists; native replay [{verdict}]: " + text)[:1200], detail=info))
    elif badx:
        verdict, text, vals = try_replays(badx)
        st = VIOLATED if verdict != "ok" else UNKNOWN
        out.append(res(name, "pysym", st, time.time() - t0, "exhaust+z3", model={k: str(v) for k, v in vals.items()},
                       info=(f"the explored code raised {badx[0][3]['msg']} on a feasible path; native replay [{verdict}]: {text}; {badx[0][3].get('tb', '')}")[:1500], detail=info))
    elif ex["faults"]:                           # the current source is outside what the rule supports: undecided (no vacuity guards: nothing was proved)
        out.append(res(name, "pysym", UNKNOWN, time.time() - t0, "exhaust+z3", info="; ".join(sorted(set(ex["faults"])))[:600], detail=info))
        return out
    elif und:
        out.append(res(name, "pysym", UNKNOWN, time.time() - t0, "exhaust+z3", info=f"{len(und)} refusing path(s) undecided", detail=info))
    else:
        out.append(res(name, "pysym", PROVED, time.time() - t0, "exhaust+z3-5.1.0(api)", detail=info,
                       formula="forall request, forall W in the declared ranges with the VCO/PFD windows and per-output margins: compute_config does not raise"))
    names_ = sorted({n for n, _ in side})
    for n in names_:
        rs = [r for n_, r in side if n_ == n]
        st = PROVED if all(r == z3.unsat for r in rs) else (NOINPUT if any(r == z3.sat for r in rs) else UNKNOWN)
        out.append(res(f"{label}.{n}", "vc", st, 0, "z3-5.1.0(api)", instances=len(rs)))
    # ---- vacuity guards
    def cover(cname, ok, **kw): out.append(res(f"{label}.cover.{cname}", "cover", OK if ok else VACUOUS, 0, "z3", **kw))
    wa = log.get(("witness-assumptions",))
    if wa and wa["pc"] is not None:
        r, mdl = _decide(wa["pc"]); cover("witness-assumptions-satisfiable", r == z3.sat, info=str(r))
    else: cover("witness-assumptions-satisfiable", False, info="not reached")
    for lid, i in sorted(infos.items()):
        e = log.get(("witness-iteration", lid))
        ok = False
        if e and e["pc"] is not None: r, _ = _decide(e["pc"]); ok = r == z3.sat
        cover(f"witness-iteration[{i['target']}]", ok, entered=(e or {}).get("count", 0))
    dropped = [(k, e) for k, e in log.items() if k[0] == "dropped-by-exhaustion"]
    okd = False
    for k, e in dropped:
        r, _ = _decide(e["pc"])
        if r == z3.sat: okd = True; break
    if any(i["can_leave"] for i in infos.values()):
        cover("paths-dropped-by-exhaustion", okd, events={f"{infos[k[1]]['target']}:{k[2]}": e["count"] for k, e in dropped})
    else:                                                # best-of search: no iteration ever leaves; the witness iteration must complete and the code must get past its refusal point
        e = log.get(("search-done",)); oks = False
        if e and e["pc"] is not None: r, _ = _decide(e["pc"]); oks = r == z3.sat
        cover("search-passes-its-refusal-point", oks, paths=(e or {}).get("count", 0))
    if returned: cover("return-reachable", any(r[1] == z3.sat for r in returned), paths=len(returned))
    ex2 = explore(run_with(False))
    cover("refusal-reachable-without-witness-facts", any(r[0] == "refused" and r[1] == z3.sat for r in ex2["results"]) and not ex2["faults"], paths=ex2["done"], info="; ".join(ex2["faults"])[:300])
    return out

# ------------------------------------------------------------------------------------------------------------ Xilinx
XIL = {"S7PLL": xilinx_s7.S7PLL, "S7MMCM": xilinx_s7.S7MMCM, "S6PLL": xilinx_s6.S6PLL, "USPLL": xilinx_us.USPLL, "USMMCM": xilinx_us.USMMCM, "USPPLL": xilinx_usp.USPPLL, "S6DCM": xilinx_s6.S6DCM}

def _xil_ranges(pll, n):
    rs = [tuple(pll.clkout_divide_range)]
    alt = getattr(pll, f"clkout{n}_divide_range", None)
    if alt is not None: rs.append(tuple(alt))
    return rs
def _members(rng):
    lo, hi = fractions.Fraction(rng[0]), fractions.Fraction(rng[1]); st = fractions.Fraction(rng[2]) if len(rng) > 2 else fractions.Fraction(1)
    x = lo
    while x < hi: yield x; x += st

def _first_member_within(rng, vco, f, m):
    """smallest member d of the declared range with |vco/d - f| <= f*m (exact rationals; f > 0, m >= 0), or None"""
    lo, hi = fractions.Fraction(rng[0]), fractions.Fraction(rng[1]); st = fractions.Fraction(rng[2]) if len(rng) > 2 else fractions.Fraction(1)
    dmin = vco / (f * (1 + m))                         # vco/d <= f*(1+m)
    k = max(0, math.ceil((dmin - lo) / st))
    d = lo + k * st
    if d >= hi or d <= 0: return None
    return d if abs(vco / d - f) <= f * m else None    # the next members are larger: vco/d only moves further below f*(1-m) once it is below

def _xil_exists(pll, fin, outs, vm):
    """independent exhaustive search over the DECLARED ranges, exact rational arithmetic; returns a setting or None"""
    fin = fractions.Fraction(fin); vmin, vmax = (fractions.Fraction(v) for v in pll.vco_freq_range); vm = fractions.Fraction(vm)
    outs = [(fractions.Fraction(f), fractions.Fraction(m)) for f, m in outs]
    for D in range(*pll.divclk_divide_range):
        for M in range(*pll.clkfbout_mult_frange):
            vco = fin * M / D
            if not (vmin * (1 + vm) <= vco <= vmax * (1 - vm)): continue
            ds = []
            for n, (f, m) in enumerate(outs):
                got = None
                for rng in _xil_ranges(pll, n):
                    got = _first_member_within(rng, vco, f, m)
                    if got is not None: break
                if got is None: break
                ds.append(got)
            if len(ds) == len(outs): return dict(D=D, M=M, d=[str(x) for x in ds], vco=float(vco))
    return None

def _xil_native(cls, speedgrade, fin, outs, vm, phases=None):
    pll = cls(speedgrade=speedgrade); pll.logger.disabled = True; pll.vco_margin = vm
    pll.clkin_freq = fin
    for n, (f, m) in enumerate(outs): pll.clkouts[n] = (Signal(), f, (phases[n] if phases else 0), m)
    pll.nclkouts = len(outs)
    try: return pll, pll.compute_config()
    except ValueError: return pll, None

def c_xilinx(clsname, speedgrade, nout, sym_vco_margin=False):
    cls = XIL[clsname]; label = f"{clsname}(sg={speedgrade},nout={nout}{',vco_margin symbolic' if sym_vco_margin else ''}).compute_config"
    if cls.compute_config is not XilinxClocking.compute_config:
        return dict(results=[res(label + ".ens.complete", "pysym", UNKNOWN, 0, "", info="class overrides compute_config: contract not applicable")], functions=[])
    def setup(ctx):
        pll = cls(speedgrade=speedgrade)
        fin = SymReal(z3.Real("fin")); _assume(fin.t > 0); pll.clkin_freq = fin
        terms = dict(fin=fin.t)
        if sym_vco_margin:
            vm = SymReal(z3.Real("vco_margin")); _assume(z3.And(vm.t >= 0, vm.t < 1)); pll.vco_margin = vm; terms["vco_margin"] = vm.t
        reqs = []
        for n in range(nout):
            f = SymReal(z3.Real(f"f{n}")); m = SymReal(z3.Real(f"m{n}")); _assume(z3.And(f.t > 0, m.t >= 0))
            ph = SymReal(z3.Real(f"phase{n}")); terms[f"phase{n}"] = ph.t          # the requested phase is ANY value: it selects no divider and excludes no setting
            pll.clkouts[n] = (Signal(), f, ph, m); reqs.append((f, m)); terms[f"f{n}"] = f.t; terms[f"m{n}"] = m.t
        pll.nclkouts = nout
        # ---- the rigid witness setting W inside the DECLARED ranges of this class
        D = _member_decl("W_D", pll.divclk_divide_range); M = _member_decl("W_M", pll.clkfbout_mult_frange)
        vmin, vmax = pll.vco_freq_range
        vco = _r(fin) * _r(M) / _r(D)
        _assume(z3.And(vco >= _r(vmin * (1 + pll.vco_margin)), vco <= _r(vmax * (1 - pll.vco_margin))))     # the helper's VCO window convention: shrunk by vco_margin
        terms.update(W_D=D.t, W_M=M.t)
        wd = {}
        for n, (f, m) in enumerate(reqs):
            rs = _xil_ranges(pll, n)
            ri = _pick(f"W_range{n}", len(rs))
            d = _member_decl(f"W_d{n}", rs[ri])
            _assume(_within(vco / _r(d), f, m))
            wd[n] = (rs[ri], d); terms[f"W_d{n}"] = _r(d)
        def wit_d(vc, L):
            rng, d = wd[L["n"]]
            return d if tuple(L["d_range"]) == rng else None
        specs = {"divclk_divide": dict(witness=lambda vc, L: D), "clkfbout_mult": dict(witness=lambda vc, L: M), "d": dict(witness=wit_d)}
        return pll, specs, terms
    def replay(v, planted):
        fin = float(v["fin"]); outs = [(float(v[f"f{n}"]), float(v[f"m{n}"])) for n in range(nout)]; vm = float(v.get("vco_margin", 0))
        if planted: outs = [(fin * int(v["W_M"]) / int(v["W_D"]) / float(v[f"W_d{n}"]), 1e-12) for n in range(nout)]
        phases = [float(v.get(f"phase{n}", 0)) for n in range(nout)]
        try: pll, cfg = _xil_native(cls, speedgrade, fin, outs, vm, phases)
        except Exception as e: return "crash", f"{clsname}(speedgrade={speedgrade}) clkin={fin!r} outs={outs!r} phases={phases!r}: compute_config raised {type(e).__name__}: {e}"
        ex = _xil_exists(pll, fin, outs, vm)
        return ("refused-though-a-setting-exists" if cfg is None and ex is not None else "ok",
                f"{clsname}(speedgrade={speedgrade}) clkin={fin!r} outs={outs!r} phases={phases!r} vco_margin={vm!r}: compute_config {'raised ValueError' if cfg is None else 'returned'}; independent exact search over the declared ranges: {ex}")
    out = prove_complete(label, setup, XilinxClocking.compute_config, ["divclk_divide", "clkfbout_mult", "d"], replay=replay)
    return dict(results=out, functions=[MODP + "xilinx_common.XilinxClocking.compute_config", MODP + "common.clkdiv_range (real generator, materialised)"],
                samples=[dict(function=f"{clsname}.compute_config", theorem="ens.complete", witness="rigid D*, M*, d*_n in the declared ranges")])

def c_xilinx_bounded(seed=0):
    """bounded cross-check, real classes under plain CPython: (1) random requests against the independent exact search (both directions),
    (2) PLANTED requests: a random setting of the declared ranges (boundary members over-represented) is chosen first and the request
    is what that setting produces (margin 1e-9) - refusing such a request is always wrong"""
    rnd = random.Random(1234 + seed); bad = []; evals = 0; refused = 0; planted = 0
    t0 = time.time()
    def edge(lo, hi_incl): return rnd.choice([lo, hi_incl, rnd.randint(lo, hi_incl), rnd.randint(lo, hi_incl)])
    for clsname, cls in XIL.items():
        for trial in range(8):
            sg = rnd.choice([-1, -2, -3])
            fin = rnd.choice([12e6, 19e6, 25e6, 50e6, 100e6, 125e6, 200e6, 33.333e6])
            outs = []
            for n in range(rnd.choice([1, 2])):
                f = rnd.choice([4.7e6, 5e6, 6.25e6, 12.288e6, 24.576e6, 48e6, 74.25e6, 148.5e6, 400e6, 800e6, 1200e6]) if rnd.random() < 0.4 else rnd.uniform(4e6, 900e6)
                outs.append((f, rnd.choice([0, 1e-6, 1e-4, 1e-3, 1e-2])))
            evals += 1
            pll, cfg = _xil_native(cls, sg, fin, outs, 0)
            ex = _xil_exists(pll, fin, outs, 0)
            if cfg is None: refused += 1
            if (cfg is None) != (ex is None):
                bad.append((clsname, sg, fin, outs, "refused although a setting exists" if cfg is None else "returned although the exact search finds none", ex))
        for trial in range(40):
            sg = rnd.choice([-1, -2, -3]); probe = cls(speedgrade=sg)
            D = edge(probe.divclk_divide_range[0], probe.divclk_divide_range[1] - 1); M = edge(probe.clkfbout_mult_frange[0], probe.clkfbout_mult_frange[1] - 1)
            vmin, vmax = probe.vco_freq_range
            vco = rnd.choice([vmin * (1 + 1e-6), vmax * (1 - 1e-6), rnd.uniform(vmin, vmax)])
            fin = vco * D / M; vco = fin * M / D
            if not (vmin <= vco <= vmax): continue
            outs = []; ds = []
            for n in range(rnd.choice([1, 2, 3])):
                rng = rnd.choice(_xil_ranges(probe, n)); mem = list(_members(rng))
                d = rnd.choice([mem[0], mem[-1], rnd.choice(mem), rnd.choice(mem)]); d = int(d) if d.denominator == 1 else float(d)
                ds.append(d); outs.append((vco / d, 1e-9))
            evals += 1; planted += 1
            pll, cfg = _xil_native(cls, sg, fin, outs, 0)
            if cfg is None:
                refused += 1; bad.append((clsname, sg, fin, outs, "refused although the planted setting satisfies it", dict(D=D, M=M, d=ds)))
    return dict(results=[res("ens.complete[Xilinx, 7 classes x (8 random + 40 planted requests)]", "bounded", BOUNDED_OK if not bad else VIOLATED, time.time() - t0, "independent exact search / planted settings",
                             evaluations=evals, planted=planted, refused=refused, info=str(bad[:2])[:900])],
                functions=[], samples=[dict(bounded="completeness cross-check", evaluations=evals, refused=refused)])

# ------------------------------------------------------------------------------------------------------------ Lattice first-fit searches
def _reqs(pll, nout, terms, extra=()):
    fin = SymReal(z3.Real("fin")); _assume(fin.t > 0); pll.clkin_freq = fin; terms["fin"] = fin.t
    reqs = []
    for n in range(nout):
        f = SymReal(z3.Real(f"f{n}")); m = SymReal(z3.Real(f"m{n}")); _assume(z3.And(f.t > 0, m.t >= 0))
        pll.clkouts[n] = (Signal(), f, 0, m) + tuple(extra); reqs.append((f, m)); terms[f"f{n}"] = f.t; terms[f"m{n}"] = m.t
    pll.nclkouts = nout
    return fin, reqs
def _native_call(pll):
    try: return pll.compute_config()
    except ValueError: return None
def _fr(x): return fractions.Fraction(x)

def _ice40_exists(pll, fin, f, m):
    fin, f, m = _fr(fin), _fr(f), _fr(m); vmin, vmax = _fr(pll.vco_freq_range[0]), _fr(pll.vco_freq_range[1])
    for divr in range(*pll.divr_range):
        for divf in range(*pll.divf_range):
            vco = fin * (divf + 1) / (divr + 1)
            if not (vmin <= vco <= vmax): continue
            for divq in range(*pll.divq_range):
                if abs(vco / 2 ** divq - f) <= f * m: return dict(divr=divr, divf=divf, divq=divq, vco=float(vco))
    return None

def c_ice40():
    cls = lattice_ice40.iCE40PLL; label = "iCE40PLL.compute_config"
    def setup(ctx):
        pll = cls(); terms = {}
        fin, reqs = _reqs(pll, 1, terms); f, m = reqs[0]
        divr = _member_decl("W_divr", pll.divr_range); divf = _member_decl("W_divf", pll.divf_range)
        qs = list(range(*pll.divq_range)); divq = qs[_pick("W_divq_index", len(qs))]          # rigid, made concrete by case split (2**divq)
        vco = fin.t * (_r(divf) + 1) / (_r(divr) + 1)                                        # f_vco = f_in*(DIVF+1)/(DIVR+1)
        _assume(z3.And(vco >= _r(pll.vco_freq_range[0]), vco <= _r(pll.vco_freq_range[1])))
        _assume(_within(vco / (2 ** divq), f, m))
        terms.update(W_divr=divr.t, W_divf=divf.t, W_divq=z3.IntVal(divq))
        return pll, {"divr": dict(witness=lambda vc, L: divr), "divf": dict(witness=lambda vc, L: divf)}, terms
    def replay(v, planted):
        fin = float(v["fin"]); f, m = float(v["f0"]), float(v["m0"])
        if planted: f, m = fin / (int(v["W_divr"]) + 1) * (int(v["W_divf"]) + 1) / 2 ** int(v["W_divq"]), 1e-12
        pll = cls(); pll.logger.disabled = True; pll.clkin_freq = fin; pll.clkouts[0] = (Signal(), f, 0, m); pll.nclkouts = 1
        try: cfg = _native_call(pll)
        except Exception as e: return "crash", f"iCE40PLL clkin={fin!r} out={(f, m)!r}: compute_config raised {type(e).__name__}: {e}"
        ex = _ice40_exists(pll, fin, f, m)
        return ("refused-though-a-setting-exists" if cfg is None and ex is not None else "ok",
                f"iCE40PLL clkin={fin!r} out={(f, m)!r}: compute_config {'raised ValueError' if cfg is None else 'returned'}; independent exact search over the declared ranges: {ex}")
    out = prove_complete(label, setup, cls.compute_config, ["divr", "divf"], replay=replay)
    return dict(results=out, functions=[MODP + "lattice_ice40.iCE40PLL.compute_config"], samples=[dict(function="iCE40PLL.compute_config", theorem="ens.complete")])

def _mk_nx():
    pll = object.__new__(lattice_nx.NXPLL)          # compute_config reads the class range tables, clkin_freq and clkouts only
    pll.logger = logging.getLogger("NXPLL"); pll.clkouts = {}; pll.nclkouts = 0; pll.clkin_freq = None
    return pll
def _nx_exists(pll, fin, outs):
    fin = _fr(fin); vmin, vmax = _fr(pll.vco_out_freq_range[0]), _fr(pll.vco_out_freq_range[1]); outs = [(_fr(f), _fr(m)) for f, m in outs]
    for ki in range(*pll.clki_div_range):
        for kf in range(*pll.clkfb_div_range):
            vco = fin * kf / ki
            if not (vmin <= vco <= vmax): continue
            ds = [_first_member_within(pll.clko_div_range, vco, f, m) for f, m in outs]
            if all(d is not None for d in ds): return dict(clki_div=ki, clkfb_div=kf, d=[str(d) for d in ds], vco=float(vco))
    return None

def c_nx(nout):
    cls = lattice_nx.NXPLL; label = f"NXPLL(nout={nout}).compute_config"
    def setup(ctx):
        pll = _mk_nx(); terms = {}
        fin, reqs = _reqs(pll, nout, terms)
        ki = _member_decl("W_clki_div", pll.clki_div_range); kf = _member_decl("W_clkfb_div", pll.clkfb_div_range)
        vco = fin.t * _r(kf) / _r(ki)
        _assume(z3.And(vco >= _r(pll.vco_out_freq_range[0]), vco <= _r(pll.vco_out_freq_range[1])))
        terms.update(W_clki_div=ki.t, W_clkfb_div=kf.t); wd = {}
        for n, (f, m) in enumerate(reqs):
            d = _member_decl(f"W_d{n}", pll.clko_div_range); _assume(_within(vco / _r(d), f, m)); wd[n] = d; terms[f"W_d{n}"] = d.t
        return pll, {"clki_div": dict(witness=lambda vc, L: ki), "clkfb_div": dict(witness=lambda vc, L: kf), "d": dict(witness=lambda vc, L: wd[L["n"]])}, terms
    def replay(v, planted):
        fin = float(v["fin"]); outs = [(float(v[f"f{n}"]), float(v[f"m{n}"])) for n in range(nout)]
        if planted: outs = [(fin / int(v["W_clki_div"]) * int(v["W_clkfb_div"]) / int(v[f"W_d{n}"]), 1e-12) for n in range(nout)]
        pll = _mk_nx(); pll.logger.disabled = True; pll.clkin_freq = fin
        for n, (f, m) in enumerate(outs): pll.clkouts[n] = (Signal(), f, 0, m)
        pll.nclkouts = nout
        try: cfg = _native_call(pll)
        except Exception as e: return "crash", f"NXPLL clkin={fin!r} outs={outs!r}: compute_config raised {type(e).__name__}: {e}"
        ex = _nx_exists(pll, fin, outs)
        return ("refused-though-a-setting-exists" if cfg is None and ex is not None else "ok",
                f"NXPLL clkin={fin!r} outs={outs!r}: compute_config {'raised ValueError' if cfg is None else 'returned'}; independent exact search over the declared ranges: {ex}")
    out = prove_complete(label, setup, cls.compute_config, ["clki_div", "clkfb_div", "d"], replay=replay)
    return dict(results=out, functions=[MODP + "lattice_nx.NXPLL.compute_config"], samples=[dict(function="NXPLL.compute_config", theorem="ens.complete")])

def _ecp5_native(fin, outs):
    pll = lattice_ecp5.ECP5PLL(); pll.logger.disabled = True; pll.clkin_freq = fin
    for n, (f, m) in enumerate(outs): pll.clkouts[n] = (Signal(), f, 0, m, True)
    pll.nclkouts = len(outs)
    return pll
def _ecp5_exists(pll, fin, outs, need_feedback_output):
    """independent exact search: clki_div, clkfb_div, clkofb_div (divider of the output that closes the loop) and output dividers inside the
    declared ranges, PFD and VCO windows; with `need_feedback_output` (no spare output left) one requested output must have the divider clkofb_div"""
    fin = _fr(fin); outs = [(_fr(f), _fr(m)) for f, m in outs]
    pmin, pmax = _fr(pll.pfd_freq_range[0]), _fr(pll.pfd_freq_range[1]); vmin, vmax = _fr(pll.vco_freq_range[0]), _fr(pll.vco_freq_range[1])
    for ki in range(*pll.clki_div_range):
        pfd = fin / ki
        if not (pmin <= pfd <= pmax): continue
        for kofb in range(*pll.clko_div_range):
            for kf in range(*pll.clkfb_div_range):
                vco = pfd * kf * kofb
                if vco > vmax: break
                if vco < vmin: continue
                ds = [_first_member_within(pll.clko_div_range, vco, f, m) for f, m in outs]
                if any(d is None for d in ds): continue
                if need_feedback_output:
                    js = [n for n, (f, m) in enumerate(outs) if abs(vco / kofb - f) <= f * m]
                    if not js: continue
                    ds[js[0]] = kofb
                return dict(clki_div=ki, clkfb_div=kf, clkofb_div=kofb, d=[str(d) for d in ds], vco=float(vco))
    return None

def c_ecp5(nout):
    cls = lattice_ecp5.ECP5PLL; label = f"ECP5PLL(nout={nout}).compute_config"
    assert nout < cls.nclkouts_max                     # a spare output closes the feedback loop (the 4-output case is c_ecp5_full)
    def setup(ctx):
        pll = cls(); pll.logger.disabled = True; terms = {}
        fin, reqs = _reqs(pll, nout, terms, extra=(True,))
        ki = _member_decl("W_clki_div", pll.clki_div_range); kf = _member_decl("W_clkfb_div", pll.clkfb_div_range); kofb = _member_decl("W_clkofb_div", pll.clko_div_range)
        pfd = fin.t / _r(ki); vco = pfd * _r(kf) * _r(kofb)
        _assume(z3.And(pfd >= _r(pll.pfd_freq_range[0]), pfd <= _r(pll.pfd_freq_range[1])))
        _assume(z3.And(vco >= _r(pll.vco_freq_range[0]), vco <= _r(pll.vco_freq_range[1])))
        terms.update(W_clki_div=ki.t, W_clkfb_div=kf.t, W_clkofb_div=kofb.t); wd = {}
        for n, (f, m) in enumerate(reqs):
            d = _member_decl(f"W_d{n}", pll.clko_div_range); _assume(_within(vco / _r(d), f, m)); wd[n] = d; terms[f"W_d{n}"] = d.t
        specs = {"clki_div": dict(witness=lambda vc, L: ki), "clkofb_div": dict(witness=lambda vc, L: kofb), "clkfb_div": dict(witness=lambda vc, L: kf), "d": dict(witness=lambda vc, L: wd[L["n"]])}
        return pll, specs, terms
    def replay(v, planted):
        fin = float(v["fin"]); outs = [(float(v[f"f{n}"]), float(v[f"m{n}"])) for n in range(nout)]
        if planted: outs = [(fin / int(v["W_clki_div"]) * int(v["W_clkfb_div"]) * int(v["W_clkofb_div"]) / int(v[f"W_d{n}"]), 1e-12) for n in range(nout)]
        pll = _ecp5_native(fin, outs)
        try: cfg = _native_call(pll)
        except Exception as e: return "crash", f"ECP5PLL clkin={fin!r} outs={outs!r}: compute_config raised {type(e).__name__}: {e}"
        ex = _ecp5_exists(pll, fin, outs, False)
        return ("refused-though-a-setting-exists" if cfg is None and ex is not None else "ok",
                f"ECP5PLL clkin={fin!r} outs={outs!r}: compute_config {'raised ValueError' if cfg is None else 'returned'}; independent exact search over the declared ranges: {ex}")
    out = prove_complete(label, setup, cls.compute_config, ["clki_div", "clkofb_div", "clkfb_div", "d"], replay=replay)
    return dict(results=out, functions=[MODP + "lattice_ecp5.ECP5PLL.compute_config"], samples=[dict(function="ECP5PLL.compute_config", theorem="ens.complete")])

ECP5_F1 = ("ECP5PLL.compute_config with all 4 outputs in use tests `not config[\"clkfb\"]`: feedback through output 0 counts as 'no feedback output' - clkin 10 MHz, "
           "outputs 50/25/12.5/6.25 MHz @1e-2 is refused although clki_div 1, clkfb_div 5, VCO 400 MHz, dividers 8/16/32/64 (feedback through output 0) is inside every "
           "declared range; the same request with outputs 0 and 1 swapped is accepted (native replay: tools/replay_c20_ecp5_four_outputs.py)")
ECP5_F2 = ("ECP5PLL.compute_config with all 4 outputs in use accepts an output as feedback only if its FIRST-FIT divider equals clkofb_div: clkin 10 MHz, outputs 64 MHz @1e-3, "
           "10 MHz @2e-2, 32 MHz @1e-3, 16 MHz @1e-3 is refused (dividers 63..65 meet output 1, 63 is stored, 64 is needed) although clkfb_div 1, VCO 640 MHz, dividers "
           "10/64/20/40 is inside every declared range; with the margin of output 1 tightened to 1e-3 it is accepted (native replay: tools/replay_c20_ecp5_four_outputs.py)")

def c_ecp5_full(mode):
    """all four outputs requested: one of them (index j, rigid) must close the feedback loop: d*_j = clkofb_div*.
    mode 'fb0'     : j = 0 and d*_0 is the smallest divider that meets output 0            -> ens.complete (a listed finding until fix b1532ac)
    mode 'first'   : j >= 1 and d*_j is the smallest divider that meets output j (the next smaller one overshoots f_j*(1+m_j)) -> ens.complete
    mode 'nonfirst': j >= 1, no such restriction                                        -> finding clause F2 (expected to fail)"""
    cls = lattice_ecp5.ECP5PLL; nout = cls.nclkouts_max; label = f"ECP5PLL(nout={nout},{mode}).compute_config"
    def setup(ctx):
        pll = cls(); pll.logger.disabled = True; terms = {}
        fin, reqs = _reqs(pll, nout, terms, extra=(True,))
        ki = _member_decl("W_clki_div", pll.clki_div_range); kf = _member_decl("W_clkfb_div", pll.clkfb_div_range); kofb = _member_decl("W_clkofb_div", pll.clko_div_range)
        pfd = fin.t / _r(ki); vco = pfd * _r(kf) * _r(kofb)
        _assume(z3.And(pfd >= _r(pll.pfd_freq_range[0]), pfd <= _r(pll.pfd_freq_range[1])))
        _assume(z3.And(vco >= _r(pll.vco_freq_range[0]), vco <= _r(pll.vco_freq_range[1])))
        j = 0 if mode == "fb0" else 1 + _pick("W_feedback_output_minus_1", nout - 1)
        terms.update(W_clki_div=ki.t, W_clkfb_div=kf.t, W_clkofb_div=kofb.t, W_feedback_output=z3.IntVal(j)); wd = {}
        for n, (f, m) in enumerate(reqs):
            d = kofb if n == j else _member_decl(f"W_d{n}", pll.clko_div_range)
            _assume(_within(vco / _r(d), f, m)); wd[n] = d; terms[f"W_d{n}"] = d.t
        if mode in ("first", "fb0"):       # fb0 (feedback through output 0) was refused outright before fix b1532ac; now the same theorem as the other outputs
            f, m = reqs[j]
            _assume(z3.Or(kofb.t == pll.clko_div_range[0], vco / (_r(kofb) - 1) > f.t * (1 + m.t)))
        specs = {"clki_div": dict(witness=lambda vc, L: ki), "clkofb_div": dict(witness=lambda vc, L: kofb), "clkfb_div": dict(witness=lambda vc, L: kf), "d": dict(witness=lambda vc, L: wd[L["n"]])}
        return pll, specs, terms
    def replay(v, planted):
        fin = float(v["fin"]); outs = [(float(v[f"f{n}"]), float(v[f"m{n}"])) for n in range(nout)]
        if planted: outs = [(fin / int(v["W_clki_div"]) * int(v["W_clkfb_div"]) * int(v["W_clkofb_div"]) / int(v[f"W_d{n}"]), 1e-12) for n in range(nout)]
        pll = _ecp5_native(fin, outs)
        try: cfg = _native_call(pll)
        except Exception as e: return "crash", f"ECP5PLL clkin={fin!r} outs={outs!r}: compute_config raised {type(e).__name__}: {e}"
        ex = _ecp5_exists(pll, fin, outs, True)
        return ("refused-though-a-setting-exists" if cfg is None and ex is not None else "ok",
                f"ECP5PLL clkin={fin!r} outs={outs!r}: compute_config {'raised ValueError' if cfg is None else 'returned'}; independent exact search over the declared ranges: {ex}")
    out = prove_complete(label, setup, cls.compute_config, ["clki_div", "clkofb_div", "clkfb_div", "d"], replay=replay)
    if mode == "nonfirst":          # (mode fb0 was a finding until fix: "ECP5PLL accepts feedback through output 0 when all outputs are used"; now a regular ens.complete)
        for r_ in out:
            if r_["name"].endswith(".ens.complete"):
                r_["name"] = r_["name"][:-len("ens.complete")] + "finding.complete.first-fit-divider-hides-feedback-output"
                r_["kind"] = "finding-witness"; r_["what"] = ECP5_F2
    return dict(results=out, functions=[MODP + "lattice_ecp5.ECP5PLL.compute_config"], samples=[dict(function="ECP5PLL.compute_config", theorem="ens.complete", outputs=4, mode=mode)])

def c_ecp5_native_findings():
    """the two 4-output defects on concrete requests, real class under plain CPython, with the control requests that are accepted"""
    out = []
    def one(name, what, fin, outs, expect_refused):
        pll = _ecp5_native(fin, outs); cfg = _native_call(pll); ex = _ecp5_exists(_ecp5_native(fin, outs), fin, outs, True)
        wrong = cfg is None and ex is not None
        if expect_refused:
            out.append(res(name, "finding-witness", VIOLATED if wrong else PROVED, 0, "executed", what=what, info=f"clkin={fin} outs={outs}: {'refused' if cfg is None else 'returned'}; independent exact search: {ex}"))
        else:
            out.append(res(name, "bounded", BOUNDED_OK if not wrong else VIOLATED, 0, "executed", info=f"clkin={fin} outs={outs}: {'refused' if cfg is None else 'returned'}; independent exact search: {ex}"))
    one("ens.complete.native(clkin=10MHz,outs=50/25/12.5/6.25MHz@1e-2) (feedback possible through output 0 only; refused before the fix)", "", 10e6, [(50e6, 1e-2), (25e6, 1e-2), (12.5e6, 1e-2), (6.25e6, 1e-2)], False)
    one("ens.complete.native(clkin=10MHz,outs=25/50/12.5/6.25MHz@1e-2) (control: outputs 0 and 1 swapped)", "", 10e6, [(25e6, 1e-2), (50e6, 1e-2), (12.5e6, 1e-2), (6.25e6, 1e-2)], False)
    one("finding.complete.first-fit-divider-hides-feedback-output.native(clkin=10MHz,outs=64@1e-3,10@2e-2,32@1e-3,16MHz@1e-3)", ECP5_F2, 10e6, [(64e6, 1e-3), (10e6, 2e-2), (32e6, 1e-3), (16e6, 1e-3)], True)
    one("ens.complete.native(clkin=10MHz,outs=64/10/32/16MHz@1e-3) (control: margin of output 1 tightened)", "", 10e6, [(64e6, 1e-3), (10e6, 1e-3), (32e6, 1e-3), (16e6, 1e-3)], False)
    return dict(results=out, functions=[MODP + "lattice_ecp5.ECP5PLL.compute_config"], samples=[dict(bounded="ECP5PLL 4 outputs", requests=4)])

# ------------------------------------------------------------------------------------------------------------ Gowin GW1N/GW2A (best-of search)
from litex.soc.cores.clock import gowin_gw1n, gowin_gw2a
GW_DEVICES = {"GW1N": (gowin_gw1n.GW1NPLL, "GW1NR-LV9QN88PC6/I5"), "GW1NS": (gowin_gw1n.GW1NPLL, "GW1NSR-LV4CQN48PC7/I6"), "GW2A": (gowin_gw2a.GW2APLL, "GW2A-LV18PG256C8/I7")}
GW_ODIV = [2, 4, 8, 16, 32, 48, 64, 80, 96, 112, 128]          # ODIV_SEL values of the rPLL primitive
GW_F3 = ("GW1NPLL.compute_config (also GW2APLL) re-checks the selected candidate with `diff_f > r_freq*margin` - margin times the OBTAINED frequency: when the best reachable "
         "frequency lies below the request by more than margin*obtained but at most margin*requested the request is refused although the setting meets it within its stated margin "
         "(clkin 3 MHz, out 99.995 MHz @1e-2: idiv 1, fdiv 33, odiv 8 gives 99 MHz, 0.995 % below the request, VCO 792 MHz; 'Can\'t obtain requested frequency 995000.0 > 990000.0') "
         "(native replay: tools/replay_c20_gw1n_final_margin.py)")

def _gw_native(devkey, fin, outs):
    cls, device = GW_DEVICES[devkey]
    pll = cls("dev", device); pll.logger.disabled = True; pll.clkin_freq = fin
    for n, (f, m) in enumerate(outs): pll.clkouts[n] = (Signal(), f, 0, m)
    pll.nclkouts = len(outs)
    return pll
def _gw_exists(pll, fin, f, m, hi):
    fin, f, m = _fr(fin), _fr(f), _fr(m); vm = _fr(pll.vco_margin)
    for idiv in range(1, hi):
        pfd = fin / idiv
        if not (_fr(pll.pfd_freq_range[0]) <= pfd <= _fr(pll.pfd_freq_range[1])): continue
        for fdiv in range(1, hi):
            out = fin * fdiv / idiv
            if abs(out - f) > f * m: continue
            for odiv in GW_ODIV:
                if _fr(pll.vco_freq_range[0]) * (1 + vm) <= out * odiv <= _fr(pll.vco_freq_range[1]) * (1 - vm): return dict(idiv=idiv, fdiv=fdiv, odiv=odiv, out=float(out), vco=float(out * odiv))
    return None

def c_gw1n(devkey, device_ranges):
    """one output (the reference output of the search).  Theorem: the SEARCH does not end with 'No PLL config found' when a setting (idiv, fdiv, odiv)
    exists.  device_ranges=False: idiv, fdiv in the ranges the helper iterates (1..63); True: 1..64 as the primitive and the helper's own parameter comments
    state ('Static IDIV value (1-64)') - the known finding fdiv64, kept as a finding clause.  The code after the search is not part of this theorem."""
    cls, device = GW_DEVICES[devkey]; hi = 65 if device_ranges else 64
    label = f"{cls.__name__}({devkey},nout=1,idiv/fdiv 1..{hi - 1}).compute_config"
    def setup(ctx):
        pll = cls("dev", device); pll.logger.disabled = True; terms = {}
        fin, reqs = _reqs(pll, 1, terms); f, m = reqs[0]
        idiv = _member_decl("W_idiv", (1, hi)); fdiv = _member_decl("W_fdiv", (1, hi))
        odiv = SymInt(z3.Int("W_odiv")); _assume(z3.Or(*[odiv.t == e for e in GW_ODIV]))
        pfd = fin.t / _r(idiv); out = fin.t * _r(fdiv) / _r(idiv); vco = out * _r(odiv)
        _assume(z3.And(pfd >= _r(pll.pfd_freq_range[0]), pfd <= _r(pll.pfd_freq_range[1])))
        _assume(z3.And(vco >= _r(pll.vco_freq_range[0] * (1 + pll.vco_margin)), vco <= _r(pll.vco_freq_range[1] * (1 - pll.vco_margin))))
        _assume(_within(out, f, m))
        terms.update(W_idiv=idiv.t, W_fdiv=fdiv.t, W_odiv=odiv.t)
        return pll, {"idiv": dict(witness=lambda vc, L: idiv), "fdiv": dict(witness=lambda vc, L: fdiv), "odiv": dict(witness=lambda vc, L: odiv)}, terms
    def replay(v, planted):
        fin = float(v["fin"]); f, m = float(v["f0"]), float(v["m0"])
        if planted: f, m = fin * int(v["W_fdiv"]) / int(v["W_idiv"]), 1e-12
        pll = _gw_native(devkey, fin, [(f, m)])
        try: pll.compute_config(); msg = None
        except ValueError as e: msg = str(e)
        except Exception as e: return "crash", f"{cls.__name__} clkin={fin!r} out={(f, m)!r}: compute_config raised {type(e).__name__}: {e}"
        ex = _gw_exists(pll, fin, f, m, hi)
        return ("refused-though-a-setting-exists" if msg == "No PLL config found" and ex is not None else "ok",
                f"{cls.__name__}({device}) clkin={fin!r} out={(f, m)!r}: compute_config {'raised ValueError(' + msg + ')' if msg is not None else 'returned'}; independent exact search (idiv, fdiv 1..{hi - 1}): {ex}")
    out = prove_complete(label, setup, cls.compute_config, ["idiv", "fdiv", "odiv"], replay=replay, grow=("configs",))
    if device_ranges:
        for r_ in out:
            if r_["name"].endswith(".ens.complete"):
                r_["name"] = r_["name"][:-len("ens.complete")] + "finding.complete.fdiv64"; r_["kind"] = "finding-witness"
                r_["what"] = "GW1NPLL.compute_config searches idiv and fdiv over range(1, 64) although 64 is legal (known finding fdiv64): with the witness setting taken from 1..64 the refusal is reachable"
    return dict(results=out, functions=[MODP + "gowin_gw1n.GW1NPLL.compute_config (search part)"], samples=[dict(function=f"{cls.__name__}.compute_config", theorem="ens.complete (search part)")])

def c_gw1n_native_findings():
    out = []
    for devkey, fin, f, m in (("GW1N", 3e6, 99.995e6, 1e-2), ("GW2A", 3e6, 99.995e6, 1e-2)):
        pll = _gw_native(devkey, fin, [(f, m)])
        try: pll.compute_config(); msg = None
        except ValueError as e: msg = str(e)
        ex = _gw_exists(pll, fin, f, m, 64)
        out.append(res(f"finding.complete.final-margin-on-obtained-frequency.native({devkey} clkin=3MHz,out=99.995MHz@1e-2)", "finding-witness", VIOLATED if msg is not None and ex is not None else PROVED, 0, "executed",
                       what=GW_F3, info=f"compute_config: {'ValueError(' + msg + ')' if msg is not None else 'returned'}; independent exact search: {ex}"))
    for devkey, fin, f, m in (("GW1N", 3e6, 99.0e6, 1e-2), ("GW1N", 3e6, 98.1e6, 1e-2)):          # controls: above / exactly at an obtainable frequency
        pll = _gw_native(devkey, fin, [(f, m)])
        try: pll.compute_config(); msg = None
        except ValueError as e: msg = str(e)
        ex = _gw_exists(pll, fin, f, m, 64)
        out.append(res(f"ens.complete.native({devkey} clkin=3MHz,out={f/1e6:g}MHz@1e-2) (control)", "bounded", BOUNDED_OK if (msg is None) == (ex is not None) else VIOLATED, 0, "executed", info=f"{msg} / {ex}"))
    return dict(results=out, functions=[MODP + "gowin_gw1n.GW1NPLL.compute_config"], samples=[dict(bounded="GW1NPLL final margin", requests=4)])

# ------------------------------------------------------------------------------------------------------------ IntelClocking (best-of search)
from litex.soc.cores.clock import intel_common, intel_cyclone4, intel_cyclone5, intel_cyclone10, intel_max10, intel_stratix5
INTEL = {"CycloneIVPLL": intel_cyclone4.CycloneIVPLL, "CycloneVPLL": intel_cyclone5.CycloneVPLL, "Cyclone10LPPLL": intel_cyclone10.Cyclone10LPPLL,
         "Max10PLL": intel_max10.Max10PLL, "StratixVPLL": intel_stratix5.StratixVPLL}

def _intel_native(clsname, sg, fin, outs):
    pll = INTEL[clsname](speedgrade=sg); pll.logger.disabled = True; pll.clkin_freq = fin
    for n, (f, m) in enumerate(outs): pll.clkouts[n] = (Signal(), f, 0, m)
    pll.nclkouts = len(outs)
    return pll
def _intel_exists(pll, fin, outs):
    fin = _fr(fin); outs = [(_fr(f), _fr(m)) for f, m in outs]; vm = _fr(pll.vco_margin)
    for n in range(*pll.n_div_range):
        pfd = fin / n
        if not (_fr(pll.clkin_pfd_freq_range[0]) <= pfd <= _fr(pll.clkin_pfd_freq_range[1])): continue
        for m in range(*pll.m_div_range):
            vco = fin * m / n
            if vco > _fr(pll.vco_freq_range[1]) * (1 - vm): break
            if vco < _fr(pll.vco_freq_range[0]) * (1 + vm): continue
            cs = [_first_member_within(pll.c_div_range, vco, f, mg) for f, mg in outs]
            if all(c is not None for c in cs): return dict(n=n, m=m, c=[str(c) for c in cs], vco=float(vco))
    return None

def c_intel(clsname, sg, nout):
    """best-of search: every admissible (n, m) is stored in `valid_configs`, refusal iff it stays empty.  Declared facts (checked):
    `valid_configs` is only stored into inside the loops (never emptied); in the divider loop `clk_valid` is only written by
    `clk_valid[..] = True`; invariant of the divider loop: best_diff is float('inf') or clk_valid[_n] is True (init + step obligations)"""
    cls = INTEL[clsname]; label = f"{clsname}(sg={sg},nout={nout}).compute_config"
    def setup(ctx):
        pll = cls(speedgrade=sg); pll.logger.disabled = True; terms = {}
        fin, reqs = _reqs(pll, nout, terms)
        nW = _member_decl("W_n", pll.n_div_range); mW = _member_decl("W_m", pll.m_div_range)
        pfd = fin.t / _r(nW); vco = fin.t * _r(mW) / _r(nW)
        _assume(z3.And(pfd >= _r(pll.clkin_pfd_freq_range[0]), pfd <= _r(pll.clkin_pfd_freq_range[1])))
        _assume(z3.And(vco >= _r(pll.vco_freq_range[0] * (1 + pll.vco_margin)), vco <= _r(pll.vco_freq_range[1] * (1 - pll.vco_margin))))
        terms.update(W_n=nW.t, W_m=mW.t); cW = {}
        for k, (f, m) in enumerate(reqs):
            c = _member_decl(f"W_c{k}", pll.c_div_range); _assume(_within(vco / _r(c), f, m)); cW[k] = c; terms[f"W_c{k}"] = _r(c)
        def typed_bd(vc, L):
            if bool(vc.fresh("bool", "best_diff_is_inf")): return InfReal()
            cv = L["clk_valid"]; k = L["_n"]; e = cv[k]                 # finite best_diff: by the invariant clk_valid[_n] holds
            if e is False: raise PathEnd()
            if e is not True: _assume(e.t); cv[k] = True
            return vc.fresh("real", "best_diff")
        def inv_c(vc, L):
            if isinstance(L["best_diff"], InfReal): return True
            e = L["clk_valid"][L["_n"]]
            return e if isinstance(e, SymBool) else bool(e)
        specs = {"n": dict(witness=lambda vc, L: nW), "m": dict(witness=lambda vc, L: mW),
                 "c": dict(witness=lambda vc, L: cW[L["_n"]], typed={"best_diff": typed_bd}, inv=inv_c, mono_true=("clk_valid",))}
        return pll, specs, terms
    def replay(v, planted):
        fin = float(v["fin"]); outs = [(float(v[f"f{n}"]), float(v[f"m{n}"])) for n in range(nout)]
        if planted: outs = [(fin * int(v["W_m"]) / int(v["W_n"]) / float(v[f"W_c{n}"]), 1e-12) for n in range(nout)]
        pll = _intel_native(clsname, sg, fin, outs)
        try: cfg = _native_call(pll)
        except Exception as e: return "crash", f"{clsname} clkin={fin!r} outs={outs!r}: compute_config raised {type(e).__name__}: {e}"
        ex = _intel_exists(pll, fin, outs)
        return ("refused-though-a-setting-exists" if cfg is None and ex is not None else "ok",
                f"{clsname}(speedgrade={sg}) clkin={fin!r} outs={outs!r}: compute_config {'raised ValueError' if cfg is None else 'returned'}; independent exact search over the declared ranges: {ex}")
    def gm(vals): _FR[0] += 1; return SymReal(z3.Real(f"geometric_mean!c{_FR[0]}"))
    out = prove_complete(label, setup, intel_common.IntelClocking.compute_config, ["n", "m", "c"], replay=replay, grow=("valid_configs",), extra_globals=dict(geometric_mean=gm))
    return dict(results=out, functions=[MODP + "intel_common.IntelClocking.compute_config", MODP + "common.clkdiv_range (real generator, materialised)"],
                samples=[dict(function=f"{clsname}.compute_config", theorem="ens.complete")])

# ------------------------------------------------------------------------------------------------------------ planted requests (bounded, native)
def c_planted():
    """bounded cross-check for the non-Xilinx helpers, real classes under plain CPython: a random setting inside the declared ranges (boundary
    members over-represented) is chosen first, the request is what it produces (margin 1e-9): refusing it is always wrong"""
    rnd = random.Random(99); out = []
    def edge(lo, hi_incl): return rnd.choice([lo, hi_incl, rnd.randint(lo, hi_incl), rnd.randint(lo, hi_incl)])
    def window(lo, hi): return rnd.choice([lo * (1 + 1e-6), hi * (1 - 1e-6), rnd.uniform(lo, hi)])
    def report(name, evals, bad): out.append(res(f"ens.complete.planted[{name}, {evals} requests]", "bounded", BOUNDED_OK if not bad else VIOLATED, 0, "planted settings, executed", evaluations=evals, info=str(bad[:2])[:700]))
    # iCE40
    bad = []; ev = 0; R = lattice_ice40.iCE40PLL
    for _ in range(60):
        divr = edge(R.divr_range[0], R.divr_range[1] - 1); divf = edge(R.divf_range[0], R.divf_range[1] - 1); divq = edge(R.divq_range[0], R.divq_range[1] - 1)
        vco = window(*R.vco_freq_range); fin = vco * (divr + 1) / (divf + 1); vco = fin / (divr + 1) * (divf + 1)
        if not (R.vco_freq_range[0] <= vco <= R.vco_freq_range[1]): continue
        pll = R(); pll.logger.disabled = True; pll.clkin_freq = fin; pll.clkouts[0] = (Signal(), vco / 2 ** divq, 0, 1e-9); pll.nclkouts = 1; ev += 1
        if _native_call(pll) is None: bad.append(dict(clkin=fin, out=vco / 2 ** divq, planted=dict(divr=divr, divf=divf, divq=divq)))
    report("iCE40PLL", ev, bad)
    # NXPLL
    bad = []; ev = 0; R = lattice_nx.NXPLL
    for _ in range(60):
        ki = edge(R.clki_div_range[0], R.clki_div_range[1] - 1); kf = edge(R.clkfb_div_range[0], R.clkfb_div_range[1] - 1)
        vco = window(*R.vco_out_freq_range); fin = vco * ki / kf; vco = fin / ki * kf
        if not (R.vco_out_freq_range[0] <= vco <= R.vco_out_freq_range[1]): continue
        ds = [edge(R.clko_div_range[0], R.clko_div_range[1] - 1) for _ in range(rnd.choice([1, 2, 3]))]
        pll = _mk_nx(); pll.logger.disabled = True; pll.clkin_freq = fin
        for n, d in enumerate(ds): pll.clkouts[n] = (Signal(), vco / d, 0, 1e-9)
        pll.nclkouts = len(ds); ev += 1
        if _native_call(pll) is None: bad.append(dict(clkin=fin, outs=[vco / d for d in ds], planted=dict(clki_div=ki, clkfb_div=kf, d=ds)))
    report("NXPLL", ev, bad)
    # ECP5 (1..3 outputs: a spare output closes the loop)
    bad = []; ev = 0; R = lattice_ecp5.ECP5PLL
    for _ in range(60):
        ki = edge(R.clki_div_range[0], R.clki_div_range[1] - 1); kf = edge(1, 16); kofb = edge(1, 16)
        vco = window(*R.vco_freq_range); pfd = vco / kf / kofb
        if not (R.pfd_freq_range[0] * (1 + 1e-6) <= pfd <= R.pfd_freq_range[1] * (1 - 1e-6)): continue
        fin = pfd * ki; vco = (fin / ki) * kf * kofb
        if not (R.vco_freq_range[0] <= vco <= R.vco_freq_range[1]): continue
        ds = [edge(R.clko_div_range[0], R.clko_div_range[1] - 1) for _ in range(rnd.choice([1, 2, 3]))]
        pll = _ecp5_native(fin, [(vco / d, 1e-9) for d in ds]); ev += 1
        if _native_call(pll) is None: bad.append(dict(clkin=fin, outs=[vco / d for d in ds], planted=dict(clki_div=ki, clkfb_div=kf, clkofb_div=kofb, d=ds)))
    report("ECP5PLL", ev, bad)
    # GW1N / GW2A: search part (refusal 'No PLL config found')
    for devkey in GW_DEVICES:
        bad = []; ev = 0; probe = _gw_native(devkey, 1e6, [(1e6, 0)])
        for _ in range(40):
            idiv = edge(1, 63); fdiv = edge(1, 63); odiv = rnd.choice(GW_ODIV)
            vco = window(*probe.vco_freq_range); out_f = vco / odiv; pfd = out_f / fdiv
            if not (probe.pfd_freq_range[0] * (1 + 1e-6) <= pfd <= probe.pfd_freq_range[1] * (1 - 1e-6)): continue
            fin = pfd * idiv; out_f = fin * fdiv / idiv
            if not (probe.vco_freq_range[0] <= out_f * odiv <= probe.vco_freq_range[1]): continue
            pll = _gw_native(devkey, fin, [(out_f, 1e-9)]); ev += 1
            try: pll.compute_config()
            except ValueError as e:
                if str(e) == "No PLL config found": bad.append(dict(clkin=fin, out=out_f, planted=dict(idiv=idiv, fdiv=fdiv, odiv=odiv)))
        report(f"{type(probe).__name__}({devkey})", ev, bad)
    return dict(results=out, functions=[], samples=[dict(bounded="planted requests")])

def cases(tier):
    cs = [Case("S7PLL(-1,1).complete", c_xilinx, "S7PLL", -1, 1), Case("S7PLL(-1,2).complete", c_xilinx, "S7PLL", -1, 2),
          Case("S7MMCM(-2,2).complete", c_xilinx, "S7MMCM", -2, 2), Case("S6PLL(-1,2).complete", c_xilinx, "S6PLL", -1, 2),
          Case("USPLL(-1,2).complete", c_xilinx, "USPLL", -1, 2), Case("USMMCM(-2,2).complete", c_xilinx, "USMMCM", -2, 2),
          Case("USPPLL(-1,2).complete", c_xilinx, "USPPLL", -1, 2), Case("S6DCM(-1,1).complete", c_xilinx, "S6DCM", -1, 1),
          Case("Xilinx.complete(bounded)", c_xilinx_bounded),
          Case("iCE40PLL.complete", c_ice40), Case("NXPLL(1).complete", c_nx, 1), Case("NXPLL(2).complete", c_nx, 2),
          Case("ECP5PLL(1).complete", c_ecp5, 1), Case("ECP5PLL(2).complete", c_ecp5, 2), Case("ECP5PLL(4 outputs).native", c_ecp5_native_findings),
          Case("S7PLL(-3,4).complete", c_xilinx, "S7PLL", -3, 4), Case("S7PLL(-1,2,vco_margin).complete", c_xilinx, "S7PLL", -1, 2, True), Case("NXPLL(5).complete", c_nx, 5),
          Case("GW1NPLL(GW1N).complete", c_gw1n, "GW1N", False), Case("GW1NPLL(GW1NS).complete", c_gw1n, "GW1NS", False), Case("GW2APLL(GW2A).complete", c_gw1n, "GW2A", False),
          Case("GW1NPLL(GW1N,1..64).complete", c_gw1n, "GW1N", True), Case("GW1NPLL.native", c_gw1n_native_findings),
          Case("planted(bounded)", c_planted),
          Case("CycloneIVPLL(-6,1).complete", c_intel, "CycloneIVPLL", "-6", 1), Case("Cyclone10LPPLL(-I8,1).complete", c_intel, "Cyclone10LPPLL", "-I8", 1),
          Case("Max10PLL(-6,1).complete", c_intel, "Max10PLL", "-6", 1)]
    if tier == "thorough":
        cs += [Case("ECP5PLL(3).complete", c_ecp5, 3, timeout=1800), Case("ECP5PLL(4,fb0).complete", c_ecp5_full, "fb0", timeout=3600),
               Case("ECP5PLL(4,first).complete", c_ecp5_full, "first", timeout=3600), Case("ECP5PLL(4,nonfirst).complete", c_ecp5_full, "nonfirst", timeout=3600),
               Case("S7MMCM(-1,3).complete", c_xilinx, "S7MMCM", -1, 3, timeout=1800), Case("CycloneIVPLL(-6,2).complete", c_intel, "CycloneIVPLL", "-6", 2, timeout=3600),
               Case("CycloneVPLL(-C6,1).complete", c_intel, "CycloneVPLL", "-C6", 1, timeout=1800), Case("StratixVPLL(-C1,1).complete", c_intel, "StratixVPLL", "-C1", 1, timeout=1800)]
    return cs

M_ = MODP
FUNCTIONS = [M_ + "xilinx_common.XilinxClocking.compute_config", M_ + "lattice_ice40.iCE40PLL.compute_config", M_ + "lattice_nx.NXPLL.compute_config",
             M_ + "lattice_ecp5.ECP5PLL.compute_config", M_ + "intel_common.IntelClocking.compute_config", M_ + "gowin_gw1n.GW1NPLL.compute_config (search part)",
             M_ + "common.clkdiv_range (real generator, materialised at every cut loop)"]
ASSUMPTIONS = [
    "C20 complete: floats are treated as real arithmetic (rounding at margin/window boundaries is not modelled); requests: input frequency > 0, output frequencies > 0, margins >= 0 (no other restriction: the input-frequency ranges of the classes are NOT assumed); phase 0; Xilinx vco_margin = 0 (one case with a symbolic vco_margin in [0, 1))",
    "C20 complete: 'setting inside those ranges' = members of the range tuples the class declares (range()/clkdiv_range reading: start + k*step < stop; MMCM CLKOUT0 may use clkout_divide_range or clkout0_divide_range, i.e. 1..128 step 1/8 for S7MMCM as declared), VCO inside vco_freq_range shrunk by vco_margin exactly as the helper tests it (min*(1+vco_margin) <= f_vco <= max*(1-vco_margin)), phase detector inside the declared window where the helper declares AND tests one (ECP5 pfd_freq_range, Intel clkin_pfd_freq_range, Gowin pfd_freq_range; iCE40 and NXPLL test none: the theorem holds without it), each output |f_vco/d - f| <= f*m",
    "C20 complete: ECP5PLL with 1..3 outputs (a spare output closes the feedback loop); with all 4 outputs the theorem is proved only for feedback through output 1..3 whose witness divider is the smallest one inside its margin - the two complementary situations are genuine refusals (finding clauses, native replay tools/replay_c20_ecp5_four_outputs.py)",
    "C20 complete: Gowin GW1NPLL/GW2APLL: one output, the SEARCH part only (refusal 'No PLL config found'); idiv/fdiv witness in 1..63 as the helper iterates (1..64 is the listed finding fdiv64); ODIV_SEL list [2,4,8,16,32,48,64,80,96,112,128]; the code after the search refuses further requests (finding: final margin test on the obtained frequency, native replay tools/replay_c20_gw1n_final_margin.py)",
    "C20 complete: loop rule assumptions: logging/compute_config_log/geometric_mean have no effect on the search (compute_config_log is a no-op, geometric_mean returns some real); no aliasing of the havocked containers; identity tests (`is`) on havocked scalars are not trapped; iterations that can leave only by `return` are not explored for exceptions (done by C20_clocks*.py); a solver 'unknown' on a path-feasibility query keeps the path; obligations are decided by separate queries (60 s, then the z3-4.8.12/cvc5 portfolio), 'unknown' is reported as undecided",
    "C20 complete: not covered by a proof: USPMMCM (own fractional search), GW5APLL (divider chosen by round(): not a search over a range), TRIONPLL/TITANIUMPLL, GateMatePLL; Intel with 2 outputs only in the thorough tier (about 6 min)",
]

