"""C12 (extension): register kinds, bus widths and interconnect shapes the other C12 modules do not instantiate.

  csr_bus.InterconnectShared, 2 and 3 masters, ALL masters free under the protocol rule `at most one master drives a non-zero request per cycle`
      (the masters are ORed: an idle master drives zero): every bank port sees exactly the active master's request, every master reads the addressed word
  CSRStatus(read_only=False)   multi-word `r` (bus-written shadow) and `re`; CSRStorage(reset_less=True); CSRStorage(atomic_write=True) on ONE bus word
  CSRBank at bus widths 16 and 64 (the register set of C12_csr.py, both orderings)
  csr_bus.SRAM: memory words wider than the bus, with init, writable and read-only (contract of C12_csr_sram.py)
  CSRBankArray.scan with an address_map that returns None for some clients: they get no bus port and never change
  CSRField / CSRFieldAggregate: the access= arms and check_names (complete enumeration of the small finite grids, executed)"""
import itertools, z3
from vf import elab
from vf.elab import L, locals_of, mk
from vf.hw import *
from migen import *
from litex.soc.interconnect import csr_bus
from litex.soc.interconnect.csr import *
from litex.soc.interconnect import csr as csrmod
from vf.core import Case as VCase, PROVED, VIOLATED, BOUNDED_OK, OK, VACUOUS
from contracts.C12_csr import c_bank, REGS, REGS2
from contracts.C12_csr_sram import c_csr_sram

# =====================================================================================================================================
# InterconnectShared with all masters free
# =====================================================================================================================================

def _guarded(fn):
    """executed cases: an exception that escapes while the scenario is evaluated is a difference in the behaviour of the code under contract
    (none is raised on the unchanged tree): reported as a violated obligation with the traceback, never as a harness crash"""
    import functools, traceback
    @functools.wraps(fn)
    def run(*a, **k):
        try: return fn(*a, **k)
        except Exception as e:
            elab.restore_stderr()
            return dict(results=[res(f"ens.{fn.__name__}:scenarios-evaluated-without-an-unexpected-exception", "ensures", VIOLATED, 0, "executed", info=f"{type(e).__name__}: {e}", tb=traceback.format_exc()[-1500:])], functions=[], samples=[])
    return run

def c_shared(nm, busw=32):
    class Top(Module, AutoCSR):
        def __init__(self):
            self.a = CSRStorage(12 if busw >= 12 else 12, name="a", reset=0x123); self.bq = CSRStorage(7, name="bq", reset=0x55); self.st = CSRStatus(9, name="st")
            self.ms = [csr_bus.Interface(data_width=busw, address_width=14) for _ in range(nm)]
            self.b1 = csr_bus.Interface(data_width=busw, address_width=14); self.b2 = csr_bus.Interface(data_width=busw, address_width=14)
            self.submodules.bank1 = csr_bus.CSRBank([self.a], address=1, bus=self.b1)
            self.submodules.bank2 = csr_bus.CSRBank([self.bq, self.st], address=2, bus=self.b2)
            self.submodules.ic = csr_bus.InterconnectShared(self.ms, [self.b1, self.b2])
    d = mk(Top); ms = d.ms
    ins = [s for m in ms for s in (m.adr, m.we, m.re, m.dat_w)] + [d.st.status]
    h = HwCheck(f"csr_bus.InterconnectShared({nm} masters free,bus={busw})", d, ins)
    V = h.v
    act = [z3.Or(V(m.adr) != 0, V(m.we) != 0, V(m.re) != 0, V(m.dat_w) != 0) for m in ms]
    h.assume(z3.AtMost(*act, 1), "csr_bus.InterconnectShared ORs its masters: at most one master drives a non-zero request (adr/we/re/dat_w) in a cycle, the others are idle (all zero)")
    def req(f):                # the request of the (one) active master; all-zero when every master is idle
        r = V(getattr(ms[-1], f))
        for i in reversed(range(nm - 1)): r = z3.If(act[i], V(getattr(ms[i], f)), r)
        return r
    adr = req("adr"); page = z3.Extract(13, 9, adr); idx = z3.Extract(8, 0, adr); we = b(req("we")); re = b(req("re"))
    def word(sig, S, k):
        nw = (S + busw - 1) // busw; i = nw - 1 - k; lo = i * busw; hi = min(S, lo + busw)
        return zx(z3.Extract(hi - 1, lo, sig), busw)
    layout = {1: [(d.a.storage, 12)], 2: [(d.bq.storage, 7), (d.st.status, 9)]}
    spec = K(0, busw); last_of = {}
    for pg, regs in layout.items():
        k0 = 0
        for sig, S in regs:
            nw = (S + busw - 1) // busw
            for k in range(nw): spec = z3.If(z3.And(page == K(pg, 5), idx == K(k0 + k, 9)), word(V(sig), S, k), spec)
            k0 += nw; last_of[sig] = k0 - 1
    for i, m in enumerate(ms):
        h.ensure_seq(f"ens.read.m{i}", lambda at, m=m: at(V(m.dat_r), 1) == at(spec, 0))          # every master reads the word the active master addressed, one cycle later
    for nme in ("adr", "we", "re", "dat_w"):
        h.ensure(f"ens.fwd.{nme}", z3.And(*[V(getattr(sl, nme)) == req(nme) for sl in (d.b1, d.b2)]))     # every bank port sees exactly the active master's request
    nwa = (12 + busw - 1) // busw
    hit_bq = z3.And(page == K(2, 5), idx == K(0, 9), we)
    h.ensure("ens.write.bank2", z3.Implies(hit_bq, h.n(d.bq.storage) == z3.Extract(6, 0, req("dat_w"))))
    h.ensure("ens.frame.bank2", z3.Implies(z3.Not(hit_bq), h.n(d.bq.storage) == V(d.bq.storage)))
    if nwa == 1:
        hit_a = z3.And(page == K(1, 5), idx == K(0, 9), we)
        h.ensure("ens.write.bank1", z3.Implies(hit_a, h.n(d.a.storage) == z3.Extract(11, 0, req("dat_w"))))
        h.ensure("ens.frame.bank1", z3.Implies(z3.Not(hit_a), h.n(d.a.storage) == V(d.a.storage)))
    h.ensure("ens.status.we", b(V(d.st.we)) == z3.And(page == K(2, 5), idx == K(last_of[d.st.status], 9), re))          # read strobe caused only by a read of that register, by whichever master
    for i in range(nm):
        h.cover(f"cover.master{i}-writes", z3.And(act[i], hit_bq), depth=1)
    h.functions = ["litex.soc.interconnect.csr_bus.InterconnectShared.__init__", "litex.soc.interconnect.csr_bus.Interface.like", "litex.soc.interconnect.csr_bus.Interface.connect"]
    return h

# =====================================================================================================================================
# register kinds: CSRStatus(read_only=False), CSRStorage(reset_less=True), single-word atomic_write
# =====================================================================================================================================
def c_bank_x(regs, busw, ordering, address=2, paging=0x800):
    """regs: ("storage", size, kwargs of CSRStorage) | ("status", size) | ("status_rw", size)"""
    class Top(Module, AutoCSR):
        def __init__(self):
            self.objs = []
            for i, r in enumerate(regs):
                if r[0] == "storage": o = CSRStorage(r[1], name=f"r{i}", reset=(0x35a5a5a5a5a5a5a5a5a5 >> 2) & (2**r[1] - 1), **r[2])
                elif r[0] == "status": o = CSRStatus(r[1], name=f"r{i}")
                else: o = CSRStatus(r[1], name=f"r{i}", read_only=False)
                self.objs.append(o)
            self.bus = csr_bus.Interface(data_width=busw, address_width=14)
            self.submodules.bank = csr_bus.CSRBank(self.objs, address=address, bus=self.bus, paging=paging, ordering=ordering)
    d = mk(Top); bus = d.bus
    ins = [bus.adr, bus.we, bus.re, bus.dat_w]
    for o, r in zip(d.objs, regs):
        if r[0] != "storage": ins.append(o.status)
        elif r[2].get("write_from_dev"): ins += [o.we, o.dat_w]
    h = HwCheck(f"CSRBank(kinds,bus={busw},{ordering})", d, ins)
    V = h.v
    ap = paging // 4; pb = ap.bit_length() - 1
    adr = V(bus.adr); idx = z3.Extract(pb - 1, 0, adr); page = z3.Extract(13, pb, adr)
    sel = page == K(address, 14 - pb); we, re = b(V(bus.we)), b(V(bus.re))
    layout = []
    for ri, r in enumerate(regs):
        S = r[1]; nw = (S + busw - 1) // busw
        for k in range(nw):
            i = (nw - 1 - k) if ordering == "big" else k
            layout.append((ri, i * busw, min(S, (i + 1) * busw), k == nw - 1, i))
    pre = []
    # structure: what the constructor arguments promise about the register objects
    for ri, (o, r) in enumerate(zip(d.objs, regs)):
        if r[0] == "storage":
            want_rl = bool(r[2].get("reset_less", False))
            pre.append(res(f"ens.structure.r{ri}:storage-width,reset-value,reset_less-as-requested", "ensures", PROVED if len(o.storage) == r[1] and o.storage.reset_less == want_rl and o.storage.reset.value == (0x35a5a5a5a5a5a5a5a5a5 >> 2) & (2**r[1] - 1) else VIOLATED, 0, "executed",
                           info=f"len {len(o.storage)} reset_less {o.storage.reset_less} reset {o.storage.reset.value:#x}"))
            nw = (r[1] + busw - 1) // busw
            names = {(s.name_override or "") for s in h.ts.state}
            if nw == 1 and r[2].get("atomic_write"):
                pre.append(res(f"ens.structure.r{ri}:single-word-atomic-register-has-no-staging-register", "ensures", PROVED if not any(n.endswith(f"r{ri}_backstore") for n in names) else VIOLATED, 0, "executed"))
        elif r[0] == "status_rw":
            pre.append(res(f"ens.structure.r{ri}:writable-status-has-r-of-the-register-width", "ensures", PROVED if hasattr(o, "r") and len(o.r) == r[1] and o.read_only is False else VIOLATED, 0, "executed"))
        else:
            pre.append(res(f"ens.structure.r{ri}:read-only-status-has-no-r", "ensures", PROVED if not hasattr(o, "r") and o.read_only is True else VIOLATED, 0, "executed"))
    h.pre_results = pre
    spec_rd = K(0, busw)
    for a, (ri, lo, hi, _, i) in reversed(list(enumerate(layout))):
        o, r = d.objs[ri], regs[ri]
        src = V(o.storage) if r[0] == "storage" else V(o.status)
        spec_rd = z3.If(idx == K(a, pb), zx(z3.Extract(hi - 1, lo, src), busw), spec_rd)
    h.ensure("ens.read", h.n(bus.dat_r) == z3.If(sel, spec_rd, K(0, busw)))
    for ri, (o, r) in enumerate(zip(d.objs, regs)):
        S = r[1]; words = [(a, lo, hi, i) for a, (rj, lo, hi, _, i) in enumerate(layout) if rj == ri]
        hit = {a: z3.And(sel, we, idx == K(a, pb)) for a, *_ in words}; anyhit = z3.Or(*hit.values())
        last = [a for a, (rj, lo, hi, is_last, i) in enumerate(layout) if rj == ri and is_last][0]
        if r[0] == "storage":
            kw = r[2]; assert not (kw.get("atomic_write") and len(words) > 1), "multi-word atomic registers: contracts/C12_csr.py"
            cur, nxt = V(o.storage), h.n(o.storage)
            devw = b(V(o.we)) if kw.get("write_from_dev") else z3.BoolVal(False); devd = V(o.dat_w) if kw.get("write_from_dev") else cur
            other = z3.If(devw, devd, cur)
            for a, lo, hi, i in words:
                h.ensure(f"ens.write.r{ri}.w{i}", z3.Implies(hit[a], z3.And(z3.Extract(hi - 1, lo, nxt) == z3.Extract(hi - lo - 1, 0, V(bus.dat_w)),
                         *([z3.Extract(lo - 1, 0, nxt) == z3.Extract(lo - 1, 0, other)] if lo else []), *([z3.Extract(S - 1, hi, nxt) == z3.Extract(S - 1, hi, other)] if hi < S else []))))
            h.ensure(f"ens.frame.r{ri}", z3.Implies(z3.Not(anyhit), nxt == other))
            h.ensure(f"ens.re.r{ri}", b(h.n(o.re)) == hit[last])
        else:
            h.ensure(f"ens.we.r{ri}", b(V(o.we)) == z3.And(sel, re, idx == K(last, pb)))            # read strobe: only a read of this register (its last word)
            if r[0] == "status_rw":
                cur, nxt = V(o.r), h.n(o.r)
                for a, lo, hi, i in words:
                    # a bus write to word i of a writable status changes exactly those bits of r
                    h.ensure(f"ens.write.r{ri}.w{i}", z3.Implies(hit[a], z3.And(z3.Extract(hi - 1, lo, nxt) == z3.Extract(hi - lo - 1, 0, V(bus.dat_w)),
                             *([z3.Extract(lo - 1, 0, nxt) == z3.Extract(lo - 1, 0, cur)] if lo else []), *([z3.Extract(S - 1, hi, nxt) == z3.Extract(S - 1, hi, cur)] if hi < S else []))))
                h.ensure(f"ens.frame.r{ri}", z3.Implies(z3.Not(anyhit), nxt == cur))
                h.ensure(f"ens.re.r{ri}", b(h.n(o.re)) == hit[last])                                # write strobe: one cycle, only a write of this register (its last word)
            else:
                h.ensure(f"ens.re.r{ri}", b(h.n(o.re)) == hit[last])
    simple = list(d.bank.simple_csrs)
    h.ensure("ens.unique", z3.And(z3.AtMost(*[b(V(c.re)) for c in simple], 1), z3.AtMost(*[b(V(c.we)) for c in simple], 1)))
    h.cover("cover.write", z3.And(sel, we), depth=2)
    h.functions = ["litex.soc.interconnect.csr.CSRStatus.__init__/do_finalize (read_only=False)", "litex.soc.interconnect.csr.CSRStorage.__init__/do_finalize (reset_less, single-word atomic_write)", "litex.soc.interconnect.csr_bus.CSRBank.__init__"]
    return h

KINDS = [("status_rw", 5), ("storage", 20, dict(reset_less=True)), ("status_rw", 40), ("storage", 7, dict(atomic_write=True)), ("storage", 8, dict(atomic_write=True, write_from_dev=True, reset_less=True)), ("status", 11), ("status_rw", 70)]

# =====================================================================================================================================
# CSRBankArray.scan with an address_map that returns None
# =====================================================================================================================================
def c_scan_none(busw, skip):
    """skip: set of clients the address map declines ('pb' = register bank of pb, 'pa/win' = memory of pa, ...)"""
    class Periph(Module, AutoCSR):
        def __init__(self, tag):
            self.ctl = CSRStorage(9, name="ctl", reset=0x155); self.win = Memory(busw, 4, init=[0x11, 0x22, 0x33, 0x44], name=f"win{tag}")
    amap = {"pa": 3, "pa/win": 4, "pb": 5, "pb/win": 6}
    class Top(Module):
        def __init__(self):
            self.bus = csr_bus.Interface(data_width=busw, address_width=14)
            self.submodules.pa = Periph("a"); self.submodules.pb = Periph("b")
            self.asked = []
            def address_map(name, mem):
                key = name if mem is None else f"{name}/win"; self.asked.append(key)
                return None if key in skip else amap.get(key)
            self.submodules.array = csr_bus.CSRBankArray(self, address_map, data_width=busw, address_width=14, paging=0x800)
            self.submodules.ic = csr_bus.Interconnect(self.bus, self.array.get_buses())
    d = mk(Top); bus = d.bus; arr = d.array
    h = HwCheck(f"CSRBankArray.scan(address_map->None for {sorted(skip)},bus={busw})", d, [bus.adr, bus.we, bus.re, bus.dat_w])
    V = h.v
    want_banks = {k: v for k, v in amap.items() if "/" not in k and k not in skip}; want_mems = {k: v for k, v in amap.items() if "/" in k and k not in skip}
    got_banks = {n: a for n, c, a, r in arr.banks}; got_mems = {f"{n}/win": a for n, m, a, r in arr.srams}
    h.pre_results = [res("ens.scan:banks-and-memory-windows==the-clients-the-address-map-granted-a-location,at-that-location", "ensures", PROVED if got_banks == want_banks and got_mems == want_mems else VIOLATED, 0, "executed", info=f"banks {got_banks} memories {got_mems}"),
                     res("ens.scan:one-bus-port-per-granted-client", "ensures", PROVED if len(arr.get_buses()) == len(want_banks) + len(want_mems) else VIOLATED, 0, "executed"),
                     res("ens.scan:address_map-asked-once-per-client", "ensures", PROVED if sorted(d.asked) == sorted(amap) else VIOLATED, 0, "executed", info=str(d.asked))]
    adr = V(bus.adr); page = z3.Extract(13, 9, adr); idx = z3.Extract(8, 0, adr); we = b(V(bus.we))
    spec = K(0, busw)
    nw = (9 + busw - 1) // busw
    for p in (d.pa, d.pb):
        nm = "pa" if p is d.pa else "pb"
        if nm in want_banks:
            for k in range(nw):
                i = nw - 1 - k; lo = i * busw; hi = min(9, lo + busw)
                spec = z3.If(z3.And(page == K(amap[nm], 5), idx == K(k, 9)), zx(z3.Extract(hi - 1, lo, V(p.ctl.storage)), busw), spec)
            hit = [z3.And(page == K(amap[nm], 5), idx == K(k, 9), we) for k in range(nw)]
            h.ensure(f"ens.{nm}.frame", z3.Implies(z3.Not(z3.Or(*hit)), h.n(p.ctl.storage) == V(p.ctl.storage)))
            h.ensure(f"ens.{nm}.write", z3.Implies(hit[nw - 1], z3.Extract(min(9, busw) - 1, 0, h.n(p.ctl.storage)) == z3.Extract(min(9, busw) - 1, 0, V(bus.dat_w))))
        else:
            # a client without a location is not on the bus: no access changes it (its storage has no writer at all)
            h.ensure(f"ens.{nm}.unmapped-register-never-changes", h.n(p.ctl.storage) == V(p.ctl.storage) if p.ctl.storage in h.ts.state else z3.BoolVal(True))
        key = f"{nm}/win"
        if p.win in h.ts.mems:
            cells = h.ts.mems[p.win]
            if key in want_mems:
                for j in range(4): spec = z3.If(z3.And(page == K(amap[key], 5), z3.Extract(1, 0, idx) == K(j, 2)), V(cells[j]), spec)
                for j in range(4):
                    hitm = z3.And(page == K(amap[key], 5), z3.Extract(1, 0, idx) == K(j, 2), we)
                    h.ensure(f"ens.{nm}.win[{j}]", z3.And(z3.Implies(hitm, h.primed(V(cells[j])) == V(bus.dat_w)), z3.Implies(z3.Not(hitm), h.primed(V(cells[j])) == V(cells[j]))))
            else:
                h.ensure(f"ens.{nm}.unmapped-memory-never-changes", z3.And(*[h.primed(V(c)) == V(c) for c in cells]))
        elif key in want_mems:
            h.pre_results.append(res(f"ens.{nm}.win:granted-memory-window-is-part-of-the-design", "ensures", VIOLATED, 0, "executed"))
        else:
            h.pre_results.append(res(f"ens.{nm}.win:declined-memory-has-no-port-in-the-design", "ensures", PROVED, 0, "executed (extraction: the memory is no special of the elaborated design)"))
    # reads return exactly the addressed word of a MAPPED client, zero everywhere else (in particular at the locations the declined clients would have had)
    h.ensure_seq("ens.read", lambda at: z3.Implies(z3.Not(at(we, 0)), at(V(bus.dat_r), 1) == at(spec, 0)))
    h.cover("cover.mapped-read-nonzero", V(bus.dat_r) != K(0, busw), depth=3)
    h.functions = ["litex.soc.interconnect.csr_bus.CSRBankArray.scan (address_map returning None)", "litex.soc.interconnect.csr_bus.CSRBankArray.get_buses"]
    return h

# =====================================================================================================================================
# CSRField(access=...) / CSRFieldAggregate arms, check_names (complete enumerations of small finite grids)
# =====================================================================================================================================
@_guarded
def c_field_access():
    A = CSRAccess; out = []; n = 0; bad = []
    for agg in (A.ReadOnly, A.ReadWrite):
        for facc in (None, A.WriteOnly, A.ReadOnly, A.ReadWrite):
            for pulse in (False, True):
                n += 1
                try:
                    f = CSRField("f", size=1, pulse=pulse, access=facc); ag = CSRFieldAggregate([f], agg); got = ("ok", f.access)
                except AssertionError: got = ("AssertionError", None)
                except Exception as e: got = (type(e).__name__, None)
                # what the class documents: a status register (ReadOnly aggregate) only has read-only, non-pulse fields; a storage (ReadWrite aggregate) has
                # read-write or write-only fields, a pulse field is write-only; an unspecified access is inherited from the register
                if facc is None: want = ("ok", agg)
                elif agg == A.ReadOnly: want = ("ok", A.ReadOnly) if (facc == A.ReadOnly and not pulse) else ("AssertionError", None)
                else: want = ("ok", A.WriteOnly if pulse else facc) if facc in (A.ReadWrite, A.WriteOnly) else ("AssertionError", None)
                if got != want: bad.append((str(agg), str(facc), pulse, got, want))
    out.append(res(f"ens.CSRFieldAggregate.access-arms[{n} combinations of register kind x field access x pulse: the whole grid]", "ensures", OK if not bad else VIOLATED, 0, "executed (real constructors, complete enumeration)", info=str(bad[:4]) if bad else ""))
    bad = []
    for v in (3, -1, "ReadOnly", 1.5):
        try: CSRField("f", access=v); bad.append(v)
        except AssertionError: pass
        except Exception as e: bad.append((v, type(e).__name__))
    ok_members = all(isinstance(CSRField("f", access=m).access, CSRAccess) for m in CSRAccess)
    out.append(res("ens.CSRField.access:only-members-of-CSRAccess-accepted", "bounded", BOUNDED_OK if not bad and ok_members else VIOLATED, 0, "executed", info=str(bad)))
    # check_names: every list of names over {a,b,c} up to length 4 (CSRStorage and CSRStatus construction included)
    bad = []; n2 = 0
    for L_ in range(1, 5):
        for names in itertools.product("abc", repeat=L_):
            n2 += 1; dup = len(set(names)) != len(names)
            for mkreg in (lambda fs: CSRStorage(fields=fs, name="r"), lambda fs: CSRStatus(fields=fs, name="r")):
                try:
                    r = mkreg([CSRField(x, size=2) for x in names]); rej = False
                except ValueError: rej = True
                except Exception as e: rej = type(e).__name__
                if rej is not dup: bad.append((names, rej))
                elif not rej:
                    fs = r.fields.fields
                    if [f.name for f in fs] != list(names) or [f.offset for f in fs] != [2 * k for k in range(L_)] or any(getattr(r.fields, f.name) is not f for f in fs) or r.size != 2 * L_: bad.append((names, "layout"))
    out.append(res(f"ens.check_names:duplicate-field-name<=>ValueError;accepted=>each-name-is-its-own-field-at-its-own-offset[{n2} name lists over 3 names,length<=4]", "bounded", BOUNDED_OK if not bad else VIOLATED, 0, "executed (real CSRStorage / CSRStatus constructors)", info=str(bad[:3]), evaluations=2 * n2))
    out.append(res("cover.field-grids-run", "cover", OK if n == 16 and n2 == 120 else VACUOUS, 0, "executed"))
    return dict(results=out, functions=["litex.soc.interconnect.csr.CSRField.__init__ (access)", "litex.soc.interconnect.csr.CSRFieldAggregate.__init__ (access arms)", "litex.soc.interconnect.csr.CSRFieldAggregate.check_names"],
                samples=[dict(bounded="CSRField access / names", evaluations=n + 2 * n2)])

# =====================================================================================================================================
I8 = [0x11223344, 0xa5a5a5a5, 0x01020304, 0xdeadbeef, 0x55aa55aa, 0x0badf00d, 0x8badf00d, 0xfeedface]
def cases(tier):
    cs = [VCase("InterconnectShared(2 masters free,bus=32)", c_shared, 2, 32), VCase("InterconnectShared(3 masters free,bus=32)", c_shared, 3, 32), VCase("InterconnectShared(3 masters free,bus=8)", c_shared, 3, 8)]
    for busw in (8, 32):
        for ordering in ("big", "little"): cs.append(VCase(f"CSRBank(kinds,bus={busw},{ordering})", c_bank_x, KINDS, busw, ordering))
    for busw in (16, 64):
        for ordering in ("big", "little"): cs.append(VCase(f"CSRBank(mixed,bus={busw},{ordering})", c_bank, REGS, busw, ordering))
    cs += [VCase("CSRBank(kinds,bus=16,big)", c_bank_x, KINDS, 16, "big"), VCase("CSRBank(kinds,bus=64,little)", c_bank_x, KINDS, 64, "little"),
           VCase("CSRBank(regs2,bus=16,little,page=0x400,addr=9)", c_bank, REGS2, 16, "little", 9, 0x400),
           VCase("csr.SRAM(8x32,bus=8,wide,init)", c_csr_sram, 8, 8, 32, False, I8), VCase("csr.SRAM(8x32,bus=8,wide,ro,init)", c_csr_sram, 8, 8, 32, True, I8),
           VCase("csr.SRAM(8x32,bus=16,wide,ro,init)", c_csr_sram, 8, 16, 32, True, I8), VCase("csr.SRAM(8x64,bus=32,wide,init)", c_csr_sram, 8, 32, 64, False, [x * 0x1_0000_0001 for x in I8]),
           VCase("CSRBankArray.scan(address_map None: bank pb)", c_scan_none, 32, frozenset({"pb"})), VCase("CSRBankArray.scan(address_map None: memory pa/win, bank pb)", c_scan_none, 32, frozenset({"pa/win", "pb"})),
           VCase("CSRBankArray.scan(address_map None: both memories,bus=8)", c_scan_none, 8, frozenset({"pa/win", "pb/win"})), VCase("CSRBankArray.scan(address_map None: nothing)", c_scan_none, 32, frozenset()),
           VCase("CSRField(access,names)", c_field_access)]
    if tier == "thorough":
        cs += [VCase("InterconnectShared(4 masters free,bus=32)", c_shared, 4, 32), VCase("CSRBank(regs2,bus=64,big)", c_bank, REGS2, 64, "big")]
    return cs

ASSUMPTIONS = ["csr_bus.InterconnectShared with all masters free: the only environment assumption is the protocol rule of an OR-combined bus - at most one master drives a non-zero adr/we/re/dat_w in a cycle (idle masters drive zero on ALL four)",
               "CSRStatus(read_only=False): `r` is the bus-written shadow (bits of the addressed word only), `re` is the delayed write strobe of the register's last word (address order), `we` the read strobe of its last word, as for the other kinds in C12_csr.py",
               "bus widths 16 and 64 are instantiated on csr_bus / csr.py directly (SoCCSRHandler itself only offers 8 and 32)",
               "CSRField access arms / check_names: complete enumeration of the finite grids named in the obligations (executed, real constructors)"]
