"""C14 (extension): publication paths the other C14 modules do not reach.

  export.get_csr_json -> file -> export.load_csr_json (MockCSR / MockCSRRegion) -> export.get_csr_header, alone and through the documented route
      Builder.add_json + Builder._generate_includes: what a sub-SoC's JSON publishes must reach the outer csr.h unchanged (addresses + origin)
  export.get_csr_header options: csr_base given / None, with_csr_base_define, with_access_functions, with_fields_access_functions (all 16 combinations):
      every published register address and every accessor word address is the JSON address (proved against the hardware by C14_exports.py)
  the published access type (JSON / CSV `ro`/`rw`, presence of a csr.h write accessor) against the register kind
  a 64-bit main bus (bus_data_width=64): mem.h / regions against bus.regions, ROM and RAM images (get_mem_data(data_width=64)) read back byte by byte
      through the CPU's 32-bit master on the real simulator, SoC.init_ram's size check, SoCCore(integrated_rom_init=<file>)
Executed comparisons on concrete SoCs are exact per configuration (status ok) or bounded samples (status bounded-ok) as labelled."""
import os, re, json, time, tempfile, shutil, itertools, io, contextlib, random
from vf import elab
from migen import *
from litex.gen import *
from litex.soc.integration.soc_core import SoCCore
from litex.soc.integration import soc as S
from litex.soc.integration.builder import Builder
from litex.soc.integration import export
from litex.soc.integration.common import get_mem_data
from litex.soc.interconnect.csr import *
from litex.soc.interconnect.csr_eventmanager import EventManager, EventSourcePulse, EventSourceLevel
from litex.soc.interconnect import wishbone
from vf.hw import res
from vf.core import PROVED, VIOLATED, NOINPUT, UNKNOWN, BOUNDED_OK, OK, VACUOUS
from vf.core import Case as VCase
from contracts.C14_exports import build, P, Periph
import contracts.C14_mem_exports as ME

EXEC = "executed (real exporters on the elaborated SoC, strict parsers)"
class _Out:
    def __init__(self): self.r = []; self.t0 = time.time()
    def chk(self, name, ok, info="", bounded=False, backend=EXEC):
        self.r.append(res(name, "bounded" if bounded else "ensures", (BOUNDED_OK if bounded else OK) if ok else VIOLATED, 0, backend, info="" if ok else str(info)[:800])); return ok
    def finding(self, name, holds, what, replay, info=""):
        self.r.append(res(name, "finding-witness", PROVED if holds else VIOLATED, 0, EXEC, what=what, replay=replay, info=str(info)[:800]))
    def cover(self, name, ok, **kw): self.r.append(res(name, "cover", OK if ok else VACUOUS, time.time() - self.t0, "executed", **kw))

# ---- strict parser of csr.h for every option combination --------------------------------------------------------------------------

def _guarded(fn):
    """executed cases: an exception that escapes while the scenario is evaluated is a difference in the behaviour of the code under contract
    (none is raised on the unchanged tree): reported as a violated obligation with the traceback, never as a harness crash"""
    import functools, traceback
    @functools.wraps(fn)
    def run(*a, **k):
        try: return fn(*a, **k)
        except Exception as e:
            elab.restore_stderr()
            return dict(results=[res(f"ens.{fn.__name__}:scenarios-evaluated-without-an-unexpected-exception", "ensures", VIOLATED, 0, "executed", info=f"{type(e).__name__}: {e}", tb=traceback.format_exc()[-1500:])], functions=[], samples=[])
    return run

def _addr_tok(tok, cb):
    m = re.fullmatch(r"\(CSR_BASE \+ (0x[0-9a-f]+)L\)", tok)
    if m:
        if cb is None: raise ValueError("CSR_BASE used but not defined")
        return cb + int(m.group(1), 16)
    m = re.fullmatch(r"(0x[0-9a-f]+)L", tok)
    if m: return int(m.group(1), 16)
    raise ValueError(f"address token {tok!r}")
def parse_header(txt):
    """-> dict(csr_base, addr{reg: absolute}, size{reg: words}, base{region: absolute}, rd{reg: [word addresses]}, wr{reg: [(shift, address)]}, includes_soc_h)"""
    cbm = re.search(r"^#define CSR_BASE (0x[0-9a-f]+)L$", txt, re.M); cb = int(cbm.group(1), 16) if cbm else None
    out = dict(csr_base=cb, addr={}, size={}, base={}, rd={}, wr={}, busword={}, includes_soc_h="#include <generated/soc.h>" in txt, nfun=len(re.findall(r"^static inline", txt, re.M)))
    for mm in re.finditer(r"^#define CSR_(\w+)_ADDR (.+)$", txt, re.M):
        if mm.group(1).lower() in out["addr"]: raise ValueError(f"CSR_{mm.group(1)}_ADDR defined twice")
        out["addr"][mm.group(1).lower()] = _addr_tok(mm.group(2), cb)
    for mm in re.finditer(r"^#define CSR_(\w+)_SIZE (\d+)$", txt, re.M):
        if mm.group(1).lower() in out["addr"]: out["size"][mm.group(1).lower()] = int(mm.group(2))
    for mm in re.finditer(r"^#define CSR_(\w+)_BASE (.+)$", txt, re.M): out["base"][mm.group(1).lower()] = _addr_tok(mm.group(2), cb)
    cur = None
    for line in txt.splitlines():
        m = re.match(r"static inline \w+ (\w+)_(read|write)\((?:void|\w+ v)\) \{", line)
        if m:
            cur = (m.group(1), m.group(2))
            if cur[0] in out["rd" if cur[1] == "read" else "wr"]: raise ValueError(f"{cur[0]}_{cur[1]} defined twice")
            out["rd" if cur[1] == "read" else "wr"][cur[0]] = []; continue
        if cur is None: continue
        if line.startswith("}"): cur = None; continue
        m = re.search(r"csr_read_simple\((.+?)\);", line)
        if m and cur[1] == "read": out["rd"][cur[0]].append(_addr_tok(m.group(1), cb))
        m = re.search(r"csr_write_simple\(v(?: >> (\d+))?, (.+?)\);", line)
        if m and cur[1] == "write": out["wr"][cur[0]].append((int(m.group(1) or 0), _addr_tok(m.group(2), cb)))
        m = re.search(r"r <<= (\d+);", line)
        if m: out["busword"][cur[0]] = int(m.group(1))
    return out

def _truth(soc):
    """register name -> (hardware byte address, words, kind) from the SoC objects: region origin + running word count (what C14_exports.py proves against the bus)"""
    t = {}; busw = soc.csr.data_width
    for rn, r in soc.csr.regions.items():
        if isinstance(r.obj, Memory): continue
        a = r.origin
        for c in r.obj:
            nw = (c.size + busw - 1) // busw
            kind = "storage" if isinstance(c, CSRStorage) else ("status_rw" if isinstance(c, CSRStatus) and not c.read_only else ("status" if isinstance(c, CSRStatus) else "csr"))
            t[f"{rn}_{c.name}"] = (a, nw, kind); a += 4 * nw
    return t

# =====================================================================================================================================
# 1. get_csr_header option grid
# =====================================================================================================================================
class PinnedFirst(LiteXModule):
    def __init__(self): self.r = CSRStorage(8, name="r"); self.s = CSRStatus(40, name="s")
class FieldPeriph(LiteXModule):
    def __init__(self):
        self.cfg = CSRStorage(name="cfg", fields=[CSRField("mode", size=3, offset=0), CSRField("gain", size=5, offset=8)])
        self.stat = CSRStatus(name="stat", fields=[CSRField("busy", size=1), CSRField("code", size=4, offset=4)])
def _soc_opts(kind):
    if kind == "no-bank-at-location-0":
        soc = SoCCore(P(), 100e6, cpu_type=None, integrated_sram_size=0x100, with_uart=False, with_timer=False, with_ctrl=False, ident="", ident_version=False)
        elab.restore_stderr(); soc.aaa = PinnedFirst(); soc.zzz = PinnedFirst(); soc.csr.add("aaa", n=5); soc.csr.add("zzz", n=2)
        soc.bus.add_master("tb", wishbone.Interface(data_width=32, address_width=32, addressing="word")); soc.finalize(); elab.restore_stderr(); return soc
    kw = dict(csr8=dict(csr_dw=8), page=dict(paging=0x1000, bus_standard="axi-lite"), base={})[kind]
    soc = SoCCore(P(), 100e6, cpu_type=None, bus_standard=kw.get("bus_standard", "wishbone"), csr_data_width=kw.get("csr_dw", 32), csr_paging=kw.get("paging", 0x800),
                  integrated_rom_size=0, integrated_sram_size=0x100, with_uart=False, with_timer=True, ident="", ident_version=False)
    elab.restore_stderr(); soc.periph = Periph(False); soc.fp = FieldPeriph()
    soc.mem_map = dict(soc.mem_map); soc.mem_map["csr"] = 0x3000_0000 if kind != "csr8" else soc.mem_map["csr"]      # a CSR base that is not 0: a missing base is visible
    soc.bus.add_master("tb", wishbone.Interface(data_width=32, address_width=32, addressing="word")); soc.finalize(); elab.restore_stderr(); return soc

@_guarded
def c_header_options(kind):
    o = _Out(); soc = _soc_opts(kind); truth = _truth(soc); busw = soc.csr.data_width
    csr_base = soc.bus.regions["csr"].origin; n = 0
    reg_bases = {n_: r.origin for n_, r in soc.csr.regions.items()}
    for given, wdef, wacc, wfld in itertools.product((True, False), repeat=4):
        tag = f"csr_base={'given' if given else 'None'},base_define={wdef},access_functions={wacc},fields_access_functions={wfld}"
        # the defect of the `given` form when no bank sits at location 0 is a listed finding (C14_mem_exports: csr.h-address-reference): the None form is judged there
        if kind == "no-bank-at-location-0" and given: continue
        n += 1
        try:
            txt = export.get_csr_header(soc.csr_regions, soc.constants, csr_base=csr_base if given else None, with_csr_base_define=wdef, with_access_functions=wacc, with_fields_access_functions=wfld)
            p = parse_header(txt)
        except Exception as e:
            o.chk(f"ens.csr.h[{tag}]:generated-and-parsed", False, f"{type(e).__name__}: {e}"); continue
        ok = p["addr"] == {k: v[0] for k, v in truth.items()} and p["size"] == {k: v[1] for k, v in truth.items()} and p["base"] == reg_bases
        o.chk(f"ens.csr.h[{tag}]:every-register-ADDR/SIZE-and-region-BASE==hardware-location", ok, sorted(set(p["addr"].items()) ^ set((k, v[0]) for k, v in truth.items()))[:4])
        o.chk(f"ens.csr.h[{tag}]:CSR_BASE-defined<=>requested", (p["csr_base"] is not None) == wdef and (not wdef or p["csr_base"] == (csr_base if given else next(iter(soc.csr_regions.values())).origin)), p["csr_base"])
        if wacc:
            want_rd = {k: [a + 4 * i for i in range(nw)] for k, (a, nw, kind_) in truth.items() if nw * busw <= 64}
            want_wr = {k: [((nw - 1 - i) * busw, a + 4 * i) for i in range(nw)] for k, (a, nw, kind_) in truth.items() if nw * busw <= 64 and kind_ != "status"}
            rd = {k: v for k, v in p["rd"].items() if k in truth}; wr = {k: v for k, v in p["wr"].items() if k in truth}
            o.chk(f"ens.csr.h[{tag}]:accessor-word-addresses==ADDR+4i(most-significant-word-first);write-accessors-for-writable-registers-only", rd == want_rd and wr == want_wr and p["includes_soc_h"],
                  (sorted(set(map(str, rd.items())) ^ set(map(str, want_rd.items())))[:3], sorted(set(map(str, wr.items())) ^ set(map(str, want_wr.items())))[:3]))
        else:
            o.chk(f"ens.csr.h[{tag}]:no-register-accessor-functions,no-soc.h-include", (wfld or p["nfun"] == 0) and not (set(p["rd"]) & set(truth)) and not (set(p["wr"]) & set(truth)) and not p["includes_soc_h"], (p["nfun"], list(p["rd"])[:3]))
        nf = len(re.findall(r"_extract\(uint32_t oldword\)", txt))
        want_nf = sum(len(c.fields.fields) for r in soc.csr.regions.values() if not isinstance(r.obj, Memory) for c in r.obj if hasattr(c, "fields") and c.size <= 32) if wfld else 0
        o.chk(f"ens.csr.h[{tag}]:field-accessors<=>requested", nf == want_nf, (nf, want_nf))
    o.cover("cover.option-grid-run", n == (8 if kind == "no-bank-at-location-0" else 16) and len(truth) >= 4, combinations=n, registers=len(truth))
    return dict(results=o.r, functions=["litex.soc.integration.export.get_csr_header (csr_base=None / with_csr_base_define / with_access_functions / with_fields_access_functions)", "litex.soc.integration.export._get_csr_addr",
                                        "litex.soc.integration.export._generate_csr_base_define_c", "litex.soc.integration.export._generate_csr_header_includes_c"], samples=[dict(config=kind, combinations=n)])

# =====================================================================================================================================
# 2. access types
# =====================================================================================================================================
class Kinds(LiteXModule):
    def __init__(self):
        self.sto = CSRStorage(12, name="sto"); self.sta = CSRStatus(12, name="sta"); self.srw = CSRStatus(12, name="srw", read_only=False); self.raw = CSR(8, name="raw")
        self.wide = CSRStatus(40, name="wide"); self.widerw = CSRStatus(40, name="widerw", read_only=False)
        self.ev = EventManager(); self.ev.t = EventSourcePulse(name="t"); self.ev.finalize()
@_guarded
def c_access_types(csr_dw):
    o = _Out()
    soc = SoCCore(P(), 100e6, cpu_type=None, csr_data_width=csr_dw, integrated_rom_size=0, integrated_sram_size=0x100, with_uart=False, with_timer=True, ident="", ident_version=False)
    elab.restore_stderr(); soc.kinds = Kinds()
    soc.bus.add_master("tb", wishbone.Interface(data_width=32, address_width=32, addressing="word")); soc.finalize(); elab.restore_stderr()
    truth = _truth(soc)
    # a register is read-only for software iff a bus write cannot change anything: CSRStatus without the writable shadow `r` (C12: CSRStatus has no write path)
    want = {k: ("ro" if kind == "status" else "rw") for k, (a, nw, kind) in truth.items()}
    js = json.loads(export.get_csr_json(soc.csr_regions, soc.constants, soc.mem_regions))
    o.chk("ens.json:type==ro<=>read-only-status-register(storage,writable-status,raw-CSR,event-pending/enable:rw)", {k: v["type"] for k, v in js["csr_registers"].items()} == want, sorted(set((k, v["type"]) for k, v in js["csr_registers"].items()) ^ set(want.items()))[:6])
    cv = {}
    for l in export.get_csr_csv(soc.csr_regions, soc.constants, soc.mem_regions).splitlines():
        f = l.split(",")
        if f[0] == "csr_register": cv[f[1]] = f[4]
    o.chk("ens.csv:access-column==json-type", cv == want, sorted(set(cv.items()) ^ set(want.items()))[:6])
    p = parse_header(export.get_csr_header(soc.csr_regions, soc.constants, soc.bus.regions["csr"].origin))
    acc = {k for k, (a, nw, kind) in truth.items() if nw * csr_dw <= 64}
    o.chk("ens.csr.h:read-accessor-for-every-register<=64bit;write-accessor<=>published-rw", set(p["rd"]) & set(truth) == acc and set(p["wr"]) & set(truth) == {k for k in acc if want[k] == "rw"},
          (sorted(acc ^ (set(p["rd"]) & set(truth))), sorted({k for k in acc if want[k] == "rw"} ^ (set(p["wr"]) & set(truth)))))
    kinds = {v[2] for k, v in truth.items() if k.startswith("kinds_")}
    o.cover("cover.all-register-kinds-present", kinds == {"storage", "status", "status_rw", "csr"} and "kinds_ev_pending" in truth, registers=len(truth))
    return dict(results=o.r, functions=["litex.soc.integration.export.get_csr_json (type)", "litex.soc.integration.export.get_csr_csv (access column)", "litex.soc.integration.export._generate_csr_region_access_functions_c (read_only)"], samples=[dict(csr_data_width=csr_dw)])

# =====================================================================================================================================
# 3. JSON round trip
# =====================================================================================================================================
WHAT_RT_SIZE = ("export.load_csr_json stores the JSON `size` of a register (number of BUS WORDS) in MockCSR.size, which every exporter reads as the size in BITS (nr = (csr.size + busword - 1)//busword with busword=32): "
                "after a round trip every multi-word register is described as one word and every register that follows it in the region is published 4*(words-1) bytes too low "
                "(Builder.add_json is the documented way to publish a sub-SoC's registers in the outer csr.h)")
WHAT_RT_PREFIX = ("export.load_csr_json assigns a register to a region when the text before the register's last '_' merely STARTS WITH the region name: with regions `dev` and `dev_phy` (LiteX's own `uart` / `uart_phy`) "
                  "the registers of dev_phy are also listed in dev, so csr.h defines CSR_DEV_PHY_*_ADDR twice with different addresses (and every accessor twice), and registers of dev that follow them are displaced")
WHAT_RT_RO = "export.load_csr_json keeps the access type in MockCSR.type, which no exporter reads (they read .read_only): after a round trip read-only registers get write accessors in csr.h (the JSON/CSV re-export calls them rw)"
class DevA(LiteXModule):
    def __init__(self): self.x = CSRStorage(8, name="x"); self.st = CSRStatus(8, name="st")
class DevB(LiteXModule):
    def __init__(self): self.y = CSRStorage(8, name="y"); self.z = CSRStorage(8, name="z")
def _soc_rt(kind):
    soc = SoCCore(P(), 100e6, cpu_type=None, integrated_rom_size=0, integrated_sram_size=0x100, with_uart=False, with_timer=(kind != "prefix"), with_ctrl=(kind != "prefix"), ident="", ident_version=False)
    elab.restore_stderr()
    if kind == "single-word": soc.deva = DevA(); soc.other = DevB()
    elif kind == "multi-word": soc.periph = Periph(False)
    else: soc.dev_phy = DevB(); soc.dev = DevA(); soc.csr.add("dev_phy", n=1); soc.csr.add("dev", n=4)       # the prefix region at the higher address too
    soc.add_constant("MY_CONST", 42); soc.add_config("GREETING", "Hello")
    soc.bus.add_master("tb", wishbone.Interface(data_width=32, address_width=32, addressing="word")); soc.finalize(); elab.restore_stderr()
    return soc

WHAT_RT_BASE = ("export.get_csr_header prints the registers of a MockCSRRegion (a region loaded from a JSON file) as absolute numbers but computes them relative to the FIRST region of the outer SoC "
                "(origin - first region's origin): Builder.add_json on an outer SoC whose CSR base is not 0 (every SoC with a CPU: 0xf000_0000, 0x8200_0000 ...) publishes the sub-SoC's registers at "
                "origin - CSR base, e.g. `#define CSR_SUB_DEVA_X_ADDR -0xbffff800L`, while the accessors use CSR base + that number")
@_guarded
def c_json_roundtrip(kind, origin, prefix, outer_cpu=None):
    o = _Out(); soc = _soc_rt(kind); truth = _truth(soc)
    js_txt = export.get_csr_json(soc.csr_regions, soc.constants, soc.mem_regions); js = json.loads(js_txt)
    d = tempfile.mkdtemp(prefix="vf_json_")
    try:
        fn = os.path.join(d, "sub.json"); open(fn, "w").write(js_txt)
        regs, consts, mems = export.load_csr_json(fn, origin=origin, name=prefix)
        pf = prefix + "_" if prefix else ""
        o.chk("ens.load_csr_json:region-bases==origin+published-base,under-the-prefixed-name", {n: r.origin for n, r in regs.items()} == {pf + n: origin + a for n, a in js["csr_bases"].items()}, {n: hex(r.origin) for n, r in regs.items()})
        o.chk("ens.load_csr_json:memory-regions==origin+published-base,size", {n: (r.origin, r.size) for n, r in mems.items()} == {pf + n: (origin + v["base"], v["size"]) for n, v in js["memories"].items()}, {n: (hex(r.origin), r.size) for n, r in mems.items()})
        o.chk("ens.load_csr_json:constants==published-constants(names-upper-cased,prefixed)", consts == {(pf + n).upper(): v for n, v in js["constants"].items()}, consts)
        # what the reloaded description publishes again
        src_regs = {rn: [c.name for c in r.obj] for rn, r in soc.csr.regions.items() if not isinstance(r.obj, Memory)}
        got_regs = {n: [c.name for c in r.obj] for n, r in regs.items()}
        own = got_regs == {pf + n: v for n, v in src_regs.items()}
        if kind == "prefix": o.finding("finding.json-round-trip:each-region-holds-exactly-its-own-registers", own, WHAT_RT_PREFIX, "tools/replay_csr_json_roundtrip.py", info=got_regs)
        else: o.chk("ens.json-round-trip:each-region-holds-exactly-its-own-registers,in-address-order", own, got_regs)
        want_addr = {pf + k: origin + v["addr"] for k, v in js["csr_registers"].items()}; want_size = {pf + k: v["size"] for k, v in js["csr_registers"].items()}
        hw = {pf + k: origin + v[0] for k, v in truth.items()}
        o.chk("ens.json:published-addresses==hardware-locations(reference)", {k: v["addr"] for k, v in js["csr_registers"].items()} == {k: v[0] for k, v in truth.items()})
        direct = origin == 0 and not prefix          # the pure round trip: the reloaded description alone, at its own addresses
        p = None
        if direct:
            try: p = parse_header(export.get_csr_header(regs, consts, csr_base=soc.bus.regions["csr"].origin)); ok_hdr = p["addr"] == hw and p["size"] == want_size; info = sorted(set(p["addr"].items()) ^ set(hw.items()))[:6]
            except Exception as e: p = None; ok_hdr = False; info = f"{type(e).__name__}: {e}"
        if not direct: pass
        elif kind == "single-word": o.chk("ens.json-round-trip:csr.h-of-the-reloaded-description-publishes-every-register-at-origin+hardware-address", ok_hdr, info)
        else: o.finding("finding.json-round-trip:csr.h-of-the-reloaded-description-publishes-every-register-at-origin+hardware-address", ok_hdr, WHAT_RT_SIZE if kind == "multi-word" else WHAT_RT_PREFIX, "tools/replay_csr_json_roundtrip.py", info=info)
        js2 = json.loads(export.get_csr_json(regs, consts, mems))
        ok_js = {k: (v["addr"], v["size"]) for k, v in js2["csr_registers"].items()} == {k: (want_addr[k], want_size[k]) for k in want_addr}
        if kind == "single-word": o.chk("ens.json-round-trip:re-exported-JSON-addresses==origin+published-addresses", ok_js, js2["csr_registers"])
        else: o.finding("finding.json-round-trip:re-exported-JSON-addresses==origin+published-addresses", ok_js, WHAT_RT_SIZE if kind == "multi-word" else WHAT_RT_PREFIX, "tools/replay_csr_json_roundtrip.py",
                        info=sorted(set((k, v["addr"]) for k, v in js2["csr_registers"].items()) ^ set(want_addr.items()))[:6])
        if p is not None:
            ro = {pf + k for k, v in js["csr_registers"].items() if v["type"] == "ro"}
            # observation only (DESIGN.md 7.9): the access type lost in the round trip is not a LOCATION, C14 does not state it
            if False: o.finding("finding.json-round-trip:read-only-registers-get-no-write-accessor", not (ro & set(p["wr"])), WHAT_RT_RO, "tools/replay_csr_json_roundtrip.py", info=sorted(ro & set(p["wr"])))
        # the documented route: Builder.add_json on an outer SoC
        if prefix:
            outer = SoCCore(P(), 100e6, cpu_type=outer_cpu, integrated_rom_size=0x40 if outer_cpu else 0, integrated_rom_init=[1, 2] if outer_cpu else [], integrated_sram_size=0x100, with_uart=False, with_timer=bool(outer_cpu), ident="", ident_version=False); elab.restore_stderr()
            if not outer_cpu: outer.bus.add_master("tb", wishbone.Interface(data_width=32, address_width=32, addressing="word"))
            outer.finalize(); elab.restore_stderr()
            bld = Builder(outer, output_dir=os.path.join(d, "out"), compile_software=False, compile_gateware=False)
            bld.add_json(fn, origin=origin, name=prefix)
            try:
                with contextlib.redirect_stdout(io.StringIO()): bld._generate_includes(with_bios=False)
                pb = parse_header(open(os.path.join(d, "out", "software", "include", "generated", "csr.h")).read())
                sub = {k: v for k, v in pb["addr"].items() if k in hw}
                acc_ok = all(pb["rd"].get(k) == [a + 4 * i for i in range(want_size[k])] for k, a in hw.items() if k in pb["rd"]) and any(k in pb["rd"] for k in hw)
                own_base = outer.bus.regions["csr"].origin
                ok_b = sub == hw and acc_ok and pb["addr"].get("ctrl_scratch") == own_base + 4; info = (sorted(set(sub.items()) ^ set(hw.items()))[:6], "accessors ok" if acc_ok else "accessor addresses differ")
                mh, _ = ME.parse_mem_h(open(os.path.join(d, "out", "software", "include", "generated", "mem.h")).read())
                ok_m = all(mh.get((pf + n).upper()) == (origin + v["base"], v["size"]) for n, v in js["memories"].items())
            except Exception as e: ok_b = False; ok_m = None; info = f"{type(e).__name__}: {e}"
            if outer_cpu: o.finding("finding.Builder.add_json(outer-CSR-base!=0):outer-csr.h-publishes-the-sub-SoC's-registers-at-origin+hardware-address", ok_b, WHAT_RT_BASE, "tools/replay_csr_json_roundtrip.py", info=info)
            elif kind == "single-word": o.chk("ens.Builder.add_json[outer-CSR-base==0]:outer-csr.h-publishes-the-sub-SoC's-registers(defines-and-accessors)-at-origin+hardware-address,beside-its-own", ok_b, info)
            else: o.finding("finding.Builder.add_json:outer-csr.h-publishes-the-sub-SoC's-registers-at-origin+hardware-address", ok_b, WHAT_RT_SIZE if kind == "multi-word" else WHAT_RT_PREFIX, "tools/replay_csr_json_roundtrip.py", info=info)
            if ok_m is not None and prefix: o.chk("ens.Builder.add_json:outer-mem.h-publishes-the-sub-SoC's-memory-regions-at-origin+base", ok_m, mh)
    finally:
        shutil.rmtree(d, ignore_errors=True)
    o.cover("cover.round-trip-run", len(truth) >= 4 and len(regs) >= 2, registers=len(truth))
    return dict(results=o.r, functions=["litex.soc.integration.export.load_csr_json", "litex.soc.integration.export.MockCSR", "litex.soc.integration.export.MockCSRRegion", "litex.soc.integration.builder.Builder.add_json",
                                        "litex.soc.integration.builder.Builder._get_json_csr_regions/_get_json_constants/_get_json_mem_regions"], samples=[dict(kind=kind, origin=hex(origin), prefix=prefix)])

# =====================================================================================================================================
# 4. 64-bit main bus
# =====================================================================================================================================
WHAT_ROM64 = ("SoCCore(integrated_rom_init=<file name>, bus_data_width=64): the file is packed into 64-bit words (get_mem_data(data_width=bus_data_width)) but the ROM size is computed as 4*len(words): "
              "the region published for the ROM (mem.h, regions.ld, JSON) and the memory behind it hold only half of the image; the bytes of the second half are at no bus address")
WHAT_INIT64 = ("SoC.init_ram computes the contents size as 4*len(contents) (marked FIXME) whatever the bus width: on a 64-bit bus an image of up to twice the region size passes the size check, "
               "Memory.init is longer than the memory and the words beyond its depth are silently dropped (the same image on a 32-bit bus is rejected with SoCError)")
def _rd(m, a, limit=80):
    yield m.adr.eq(a); yield m.cyc.eq(1); yield m.stb.eq(1); yield m.we.eq(0); yield m.sel.eq(2**len(m.sel) - 1); yield
    n = 0
    while not (yield m.ack):
        n += 1
        if n > limit:
            yield m.cyc.eq(0); yield m.stb.eq(0); yield
            return None
        yield
    v = yield m.dat_r
    yield m.cyc.eq(0); yield m.stb.eq(0); yield
    return v
def _readback(soc, m, end, spans):
    from litex.gen.sim import run_simulation
    got = {}
    def gen():
        for name, o_, n in spans:
            g = []
            for k in range(n):
                w = yield from _rd(m, (o_ + k) >> 2)
                g.append(None if w is None else (w >> (8 * ME.cpu_lane(k, end))) & 0xff)
            got[name] = g
    run_simulation(soc, gen())
    return got

@_guarded
def c_bus64(std, end, rom_by):
    o = _Out(); rnd = random.Random(11)
    d = tempfile.mkdtemp(prefix="vf_b64_")
    try:
        rom_data = bytes(rnd.randrange(1, 256) for _ in range(37)); ram_data = bytes(rnd.randrange(1, 256) for _ in range(29))
        rf = os.path.join(d, "rom.bin"); af = os.path.join(d, "ram.bin"); open(rf, "wb").write(rom_data); open(af, "wb").write(ram_data)
        rom_words = get_mem_data(rf, data_width=64, endianness=end); ram_words = get_mem_data(af, data_width=64, endianness=end)
        soc = SoCCore(P(), 100e6, cpu_type="vfstub" if end == "little" else "vfstubbig", bus_standard=std, bus_data_width=64, bus_timeout=64, integrated_rom_size=0x40, integrated_rom_init=rf if rom_by == "filename" else rom_words,
                      integrated_sram_size=0x100, with_uart=False, with_timer=True, ident="", ident_version=False)
        elab.restore_stderr()
        soc.add_ram("bootram", origin=0x2000_0000, size=0x20)
        ok_init, _ = _try(soc.init_ram, "bootram", contents=ram_words)
        soc.finalize(); elab.restore_stderr()
    finally:
        shutil.rmtree(d, ignore_errors=True)
    m = soc.cpu.ibus; regs = soc.bus.regions
    truth_regions = {n: (r.origin, r.size) for n, r in regs.items()}
    mh, listed = ME.parse_mem_h(export.get_mem_header(soc.mem_regions))
    o.chk("ens.mem.h BASE/SIZE and MEM_REGIONS==bus.regions[64-bit bus]", mh == {n.upper(): v for n, v in truth_regions.items()} == listed, mh)
    ld, _, _ = ME.parse_linker(export.get_linker_regions(soc.mem_regions))
    o.chk("ens.regions.ld ORIGIN/LENGTH==bus.regions[64-bit bus]", ld == truth_regions, ld)
    o.chk("ens.constants:CONFIG_BUS_DATA_WIDTH==64", soc.constants.get("CONFIG_BUS_DATA_WIDTH") == 64 and soc.bus.data_width == 64 and soc.rom.mem.width == 64 and soc.bootram.mem.width == 64)
    o.chk("ens.init_ram:image-that-fits-is-accepted;Memory.init==get_mem_data(file,64,cpu endianness)", ok_init and list(soc.bootram.mem.init) == ram_words and len(ram_words) <= soc.bootram.mem.depth, (ok_init, len(ram_words), soc.bootram.mem.depth))
    filename = rom_by == "filename"
    fits = regs["rom"].size >= len(rom_data) and soc.rom.mem.depth * 8 >= len(rom_data) and list(soc.rom.mem.init) == rom_words
    if filename: o.finding("finding.rom-by-filename(64-bit bus):published-rom-region-and-memory-hold-the-whole-file", fits, WHAT_ROM64, "tools/replay_bus64_images.py", info=f"file {len(rom_data)} bytes, region rom {regs['rom'].size:#x} bytes, memory {soc.rom.mem.depth} x 64 bit, init {len(soc.rom.mem.init)} words")
    else: o.chk("ens.rom:region>=image,Memory.init==get_mem_data(file,64,cpu endianness)", fits, (regs["rom"].size, soc.rom.mem.depth, len(soc.rom.mem.init)))
    got = _readback(soc, m, end, [("rom", regs["rom"].origin, len(rom_data)), ("bootram", regs["bootram"].origin, len(ram_data))])
    okrom = got.get("rom") == list(rom_data)
    if filename: o.finding("finding.rom-by-filename(64-bit bus):every-byte-of-the-file-is-read-at-origin+k", okrom, WHAT_ROM64, "tools/replay_bus64_images.py", info=f"first byte not read back: k={next((k for k, (a, b_) in enumerate(zip(got.get('rom', []), rom_data)) if a != b_), None)} of {len(rom_data)} (None = no acknowledge)")
    else: o.chk(f"sim.rom-bytes-read-at-origin+k[{len(rom_data)} bytes,64-bit bus,{end}-endian 32-bit master]", okrom, (bytes(x or 0 for x in got.get("rom", [])).hex(), rom_data.hex()), bounded=True, backend="litex.gen.sim on the elaborated SoC")
    o.chk(f"sim.bootram-bytes-read-at-origin+k[{len(ram_data)} bytes,64-bit bus]", got.get("bootram") == list(ram_data), (bytes(x or 0 for x in got.get("bootram", [])).hex(), ram_data.hex()), bounded=True, backend="litex.gen.sim on the elaborated SoC")
    o.cover("cover.64-bit-soc-built-and-read", len(got) == 2 and len(rom_words) == 5, rom_words=len(rom_words))
    return dict(results=o.r, functions=["litex.soc.integration.soc.SoC.init_ram (64-bit bus)", "litex.soc.integration.soc.SoC.add_rom / add_ram (64-bit bus)", "litex.soc.integration.soc_core.SoCCore.__init__ (integrated_rom_init, bus_data_width=64)",
                                        "litex.soc.integration.export.get_mem_header (64-bit bus)"], samples=[dict(configuration=f"{std},{end},rom by {rom_by},64-bit bus")])

def _try(f, *a, **k):
    try: f(*a, **k)
    except S.SoCError: elab.restore_stderr(); return False, "SoCError"
    except Exception as e: elab.restore_stderr(); return False, type(e).__name__
    finally: elab.restore_stderr()
    return True, None

@_guarded
def c_init_ram_size():
    """SoC.init_ram's size check, per bus width: an image is accepted iff it fits the region (every byte of the source data must have a place)"""
    o = _Out(); rows = []
    for dw in (32, 64):
        for nbytes in (8, 24, 32, 40, 64, 72):
            soc = SoCCore(P(), 100e6, cpu_type=None, bus_data_width=dw, integrated_rom_size=0, integrated_sram_size=0x100, with_uart=False, with_timer=False, ident="", ident_version=False); elab.restore_stderr()
            soc.add_ram("r", origin=0x2000_0000, size=0x20)
            words = [0x0101010101010101 & (2**dw - 1)] * (nbytes // (dw // 8))
            ok, exc = _try(soc.init_ram, "r", contents=words)
            rows.append((dw, nbytes, ok, exc, len(words), soc.r.mem.depth))
    bad32 = [r for r in rows if r[0] == 32 and r[2] != (r[1] <= 0x20)]
    bad64 = [r for r in rows if r[0] == 64 and r[2] != (r[1] <= 0x20)]
    o.chk("ens.init_ram[32-bit bus]:accepted<=>image-fits-the-region(0x20 bytes)", not bad32, bad32)
    o.finding("finding.init_ram(64-bit bus):accepted<=>image-fits-the-region(0x20 bytes)", not bad64, WHAT_INIT64, "tools/replay_bus64_images.py", info=[f"{r[1]} bytes = {r[4]} words into depth {r[5]}: {'accepted' if r[2] else r[3]}" for r in bad64])
    o.cover("cover.both-outcomes", any(r[2] for r in rows) and any(not r[2] for r in rows))
    return dict(results=o.r, functions=["litex.soc.integration.soc.SoC.init_ram (size check)"], samples=[dict(rows=len(rows))])

# =====================================================================================================================================
def cases(tier):
    cs = [VCase(f"get_csr_header(options,{k})", c_header_options, k) for k in ("base", "csr8", "page", "no-bank-at-location-0")]
    cs += [VCase("access-types(csr32)", c_access_types, 32), VCase("access-types(csr8)", c_access_types, 8)]
    cs += [VCase("json-round-trip(single-word registers,origin 0)", c_json_roundtrip, "single-word", 0, ""), VCase("json-round-trip(single-word registers,origin 0x30000000,prefix sub)", c_json_roundtrip, "single-word", 0x3000_0000, "sub"),
           VCase("json-round-trip(single-word registers,outer SoC with a CPU)", c_json_roundtrip, "single-word", 0x3000_0000, "sub", "vfstub"),
           VCase("json-round-trip(multi-word registers)", c_json_roundtrip, "multi-word", 0, ""), VCase("json-round-trip(multi-word registers,origin 0x30000000,prefix sub)", c_json_roundtrip, "multi-word", 0x3000_0000, "sub"),
           VCase("json-round-trip(region name is a prefix of another)", c_json_roundtrip, "prefix", 0, "")]
    cs += [VCase("bus64(wishbone,little,rom by words)", c_bus64, "wishbone", "little", "words", timeout=900), VCase("bus64(wishbone,big,rom by words)", c_bus64, "wishbone", "big", "words", timeout=900),
           VCase("bus64(axi-lite,little,rom by words)", c_bus64, "axi-lite", "little", "words", timeout=900), VCase("bus64(wishbone,little,rom by filename)", c_bus64, "wishbone", "little", "filename", timeout=900),
           VCase("init_ram(size check per bus width)", c_init_ram_size)]
    return cs

ASSUMPTIONS = [
    "C14 more: the hardware location of a register is region origin + 4 * (words of the registers before it), words = ceil(size / csr data width), as proved against the bus by C14_exports.py; these cases compare publications with it exactly",
    "get_csr_header option grid: all 16 combinations of csr_base given/None x with_csr_base_define x with_access_functions x with_fields_access_functions on 3 SoCs (csr 32 bit at a non-zero base; csr 8 bit; axi-lite with 4 KiB pages) and the 8 csr_base=None "
    "combinations on the SoC with no bank at location 0 (the csr_base-given form on that SoC is the listed finding of C14_mem_exports.py)",
    "JSON round trip: get_csr_json -> file -> load_csr_json(origin, name) -> get_csr_header / get_csr_json, and the same through Builder.add_json + Builder._generate_includes on an outer SoC; the sub-SoC is reached through some bridge at `origin` (not built: the "
    "clauses are about the published numbers); region `type` strings are not judged",
    "64-bit main bus: SoCCore(bus_data_width=64) with the stub CPU (32-bit wishbone master, so the SoC inserts its own width converter); byte k is read at word address (origin+k)>>2, lane of a 32-bit master of the stated endianness; "
    "one image per configuration (bounded); bus time-out set to 64 cycles so that an unmapped address ends the access",
]
