"""C12 (proof module): litex.soc.interconnect.csr._sort_gathered_items for ALL item lists (engine E3, vf/pysym.py).
The REAL function body runs under CPython on proxies: the item list has unknown length n, item a has uninterpreted attributes fixed(a),
n(a) = requested location, duid(a); the three work lists (variable_items, fixed_items, sorted_items) are z3 arrays of unknown length.
All seven loops are cut by the mechanical AST rewrite around sidecar invariants (init / step / exit=>post are separate obligations); the list
comprehension `[None for _ in range(items_length)]`, `range`, `sorted` and the `CSR(...)` constructor of the filler are redirected to
contract-level models (ASSUMPTIONS).  Ghost state carried by the list proxies: rank (inverse map value -> index) and, for sorted_items,
F[p] = number of empty slots below p (needed for the pigeonhole argument that the inner search always finds a free slot, i.e. no automatic
item is silently dropped).  The bounded enumeration of C12_csr.py stays beside this proof as a cross-check."""
import ast, inspect, textwrap, builtins, time, z3
from vf import elab, pysym
from vf.pysym import SymInt, SymBool, VC, Rewriter, explore, toint, tobool, PathEnd, Unsupported
from vf.core import Case, PROVED, VIOLATED, NOINPUT, UNKNOWN, BOUNDED_OK, OK, VACUOUS
from vf.hw import res
from litex.soc.interconnect import csr as CSRMOD

BACKEND = "pysym(loop-cut)+z3-%s(api)" % z3.get_version_string()
I = AII = NONE = FIX = LOC = DUID = CNT = None
def _init_z3():
    """z3 declarations are made when the case runs, not at import (the runner imports every module of the property before forking)"""
    global I, AII, NONE, FIX, LOC, DUID, CNT
    I = z3.IntSort(); AII = z3.ArraySort(I, I)
    NONE = z3.IntVal(-1)                       # encoding of list elements: -1 None, a >= 0 the item items[a], -2-p the filler CSR created for slot p
    FIX = z3.Function("item.fixed", I, z3.BoolSort()); LOC = z3.Function("item.n", I, I); DUID = z3.Function("item.duid", I, I)
    CNT = z3.Function("count_fixed_below", I, I)   # ghost: number of fixed items among items[0..p-1]; defined by CNT(0)=0, CNT(p+1)=CNT(p)+[fixed(p)]
def cnt_def(p): return CNT(p + 1) == CNT(p) + z3.If(FIX(p), 1, 0)
def _c(): return pysym.CTX

class PItem:
    def __init__(self, t): self.t = t
    fixed = property(lambda s: SymBool(FIX(s.t))); n = property(lambda s: SymInt(LOC(s.t))); duid = property(lambda s: SymInt(DUID(s.t)))
    name = "csr"
class PReserved:
    """the object CSR(name=f"reserved{i}") creates: a new object, different from every gathered item"""
    def __init__(self, name): self.name = name
def code(x, idx=None):
    if x is None: return NONE
    if isinstance(x, PItem): return x.t
    if isinstance(x, PReserved): return -2 - idx
    raise Unsupported(f"list element {type(x).__name__}")

class Items:
    """the argument: a sequence of unknown length n whose element a is the item a"""
    def __init__(self, n): self.n = n
    def __getitem__(self, i): it = toint(i); _c().assume(z3.And(it >= 0, it < self.n)); return PItem(it)
    def __iter__(self): raise Unsupported("uncut iteration")
class SymRange:
    def __init__(self, n): self.n = toint(n)
    def __getitem__(self, i): it = toint(i); _c().assume(z3.And(it >= 0, it < self.n)); return SymInt(it)
    def __iter__(self): raise Unsupported("uncut iteration")
class AList:
    """Python list of unknown length: element i is arr[off+i].  CPython index rules (negative indices count from the end, IndexError outside)."""
    COMPONENTS = ("arr", "len", "off", "rank", "F")
    def __init__(self, arr, ln, rank=None, F=None):
        self.arr, self.len, self.off = arr, ln, z3.IntVal(0)
        self.rank = rank if rank is not None else _c().fresh("rank", AII); self.F = F; self.wrapped = False
    def sel(self, i): return z3.Select(self.arr, self.off + i)
    def _idx(self, i):
        it = toint(i)
        if it is None: raise Unsupported("list index")
        if SymBool(z3.And(it >= 0, it < self.len)): return it
        if SymBool(z3.And(it < 0, it >= -self.len)): self.wrapped = True; return it + self.len
        raise IndexError("list index out of range")
    def __getitem__(self, i):
        v = self.sel(self._idx(i))
        if SymBool(v == NONE): return None
        return PItem(v)
    def __setitem__(self, i, x):
        idx = self._idx(i); c = code(x, idx); old = self.sel(idx)
        self.arr = z3.Store(self.arr, self.off + idx, c); self.rank = z3.Store(self.rank, c, idx)
        if self.F is not None:                                            # ghost update: one empty slot less (or more) above idx
            d = z3.If(old == NONE, 1, 0) - z3.If(c == NONE, 1, 0); F0 = self.F; p = z3.Int("p!F")
            self.F = z3.Lambda([p], z3.Select(F0, p) - z3.If(p > idx, d, 0))
    def append(self, x):
        c = code(x); self.arr = z3.Store(self.arr, self.off + self.len, c); self.rank = z3.Store(self.rank, c, self.len); self.len = self.len + 1
    def pop(self, i=-1):
        if not (isinstance(i, int) and i == 0): raise Unsupported("only pop(0)")
        if SymBool(self.len <= 0): raise IndexError("pop from empty list")
        v = self.sel(0); self.off = self.off + 1; self.len = self.len - 1
        if SymBool(v == NONE): return None
        return PItem(v)
    def __contains__(self, x):
        if x is not None: raise Unsupported("only `None in list`")
        p = z3.Int("p!in"); return bool(SymBool(z3.Exists([p], z3.And(0 <= p, p < self.len, self.sel(p) == NONE))))
    def __iter__(self): raise Unsupported("uncut iteration")
    def snapshot(self): return {k: getattr(self, k) for k in self.COMPONENTS}

class SVC(VC):
    """loop cutting that also havocs the listed components of list proxies (state reachable only through the proxies); `facts` are
    instances of the DEFINITION of the ghost counting function, assumed at the loop head"""
    def len(self, x):
        if isinstance(x, AList): return SymInt(x.len)
        if isinstance(x, Items): return SymInt(x.n)
        if isinstance(x, SymRange): return SymInt(x.n)
        return VC.len(self, x)
    def listcomp(self, f, it):
        if isinstance(it, SymRange):
            v = f(SymInt(_c().fresh("k")))
            if v is not None: raise Unsupported("list comprehension over a symbolic range with a non-constant element")
            p = z3.Int("p!id")
            return AList(z3.K(I, NONE), it.n, F=z3.Lambda([p], p))       # all slots empty: F[p] = p
        return [f(x) for x in it]
    def newlist(self): return AList(_c().fresh("list.arr", AII), z3.IntVal(0))
    def _havoc(self, sp, L):
        c = _c(); hv = {}
        for n_, kind in sp.get("havoc", {}).items(): hv[n_] = SymBool(c.fresh(n_, z3.BoolSort())) if kind == "bool" else SymInt(c.fresh(n_))
        for ln, comps in sp.get("lists", {}).items():
            for comp in comps: setattr(L[ln], comp, c.fresh(f"{ln}.{comp}", AII if comp in ("arr", "rank", "F") else I))
        return hv
    def _entry(self, L): return {k: v.snapshot() for k, v in L.items() if isinstance(v, AList)}
    def loop_begin(self, lid, L):
        sp = self.loops[lid]; c = _c(); L = dict(L); L["__entry"] = self._entry(L)
        c.check(f"loop{lid}.init", sp["inv"](L))
        hv = self._havoc(sp, L); L2 = dict(L); L2.update(hv)
        c.assume(sp["inv"](L2))
        if "facts" in sp: c.assume(sp["facts"](L2))
        self.iters[lid] = L["__entry"]
        return hv
    def loop_end(self, lid, L):
        L = dict(L); L["__entry"] = self.iters[lid]
        _c().check(f"loop{lid}.step", self.loops[lid]["inv"](L)); raise PathEnd()
    def for_begin(self, lid, iterable, L):
        sp = self.loops[lid]; c = _c(); pos_name = sp["pos"]; L = dict(L); L["__entry"] = self._entry(L)
        st = {"it": iterable, "entry": L["__entry"]}
        L0 = dict(L); L0[pos_name] = SymInt(z3.IntVal(0))
        c.check(f"loop{lid}.init", sp["inv"](L0))
        hv = self._havoc(sp, L); hv[pos_name] = SymInt(c.fresh(pos_name))
        L2 = dict(L); L2.update(hv)
        c.assume(hv[pos_name] >= 0); c.assume(hv[pos_name] <= self.len(iterable))
        c.assume(sp["inv"](L2))
        if "facts" in sp: c.assume(sp["facts"](L2))
        st["hv"] = hv; st["pos"] = hv[pos_name]
        return st
    def for_end(self, lid, st, L):
        sp = self.loops[lid]; L2 = dict(L); L2[sp["pos"]] = st["pos"] + 1; L2["__entry"] = st["entry"]
        _c().check(f"loop{lid}.step", sp["inv"](L2)); raise PathEnd()

class Rewriter2(Rewriter):
    """additionally: [E for T in IT]  ->  __vc.listcomp(lambda T: E, IT)   (single generator, no condition);   []  ->  __vc.newlist()"""
    def visit_List(self, node):
        if not node.elts and isinstance(node.ctx, ast.Load):
            return ast.Call(func=ast.Attribute(value=ast.Name(id="__vc", ctx=ast.Load()), attr="newlist", ctx=ast.Load()), args=[], keywords=[])
        return self.generic_visit(node)
    def visit_ListComp(self, node):
        node = self.generic_visit(node)
        if len(node.generators) == 1 and not node.generators[0].ifs and isinstance(node.generators[0].target, ast.Name):
            g = node.generators[0]
            lam = ast.Lambda(args=ast.arguments(posonlyargs=[], args=[ast.arg(arg=g.target.id)], kwonlyargs=[], kw_defaults=[], defaults=[]), body=node.elt)
            return ast.Call(func=ast.Attribute(value=ast.Name(id="__vc", ctx=ast.Load()), attr="listcomp", ctx=ast.Load()), args=[lam, g.iter], keywords=[])
        return node
def rewrite2(fn, loops, vc):
    src = textwrap.dedent(inspect.getsource(fn)); tree = ast.parse(src)
    tree = Rewriter2(loops).visit(tree); ast.fix_missing_locations(tree)
    g = dict(fn.__globals__); g["__vc"] = vc
    exec(compile(tree, f"<pysym:{fn.__qualname__}>", "exec"), g)
    return g[fn.__name__], ast.unparse(tree)

FEASIBILITY_TIMEOUT_MS = 300
# pre-order numbers of the loops of _sort_gathered_items
L_VAR, L_FIX, L_LEN, L_FILLFIX, L_WHILE, L_SEARCH, L_RESERVED = range(7)

def _run_sort(wrong=None):
    _init_z3()
    stats = dict(returned=0, conflict=0, other=0)
    a, b_, k, k2, p = z3.Ints("a b k k2 p")
    def R(lst, x): return z3.Select(lst.rank, x)
    def run(ctx):
        ctx.solver.set("timeout", FEASIBILITY_TIMEOUT_MS)         # path feasibility: unknown counts as feasible (never drops a path), so a short timeout is sound
        n = z3.Int("n"); ctx.assume(n >= 0)
        # preconditions: a fixed location is a natural number; (definition of the ghost counter at 0)
        ctx.assume(z3.ForAll([a], z3.Implies(z3.And(0 <= a, a < n, FIX(a)), LOC(a) >= 0)))
        ctx.assume(CNT(z3.IntVal(0)) == 0)
        items = Items(n)
        def holds(lst, upto, fixed, count):
            """lst holds exactly the items a < upto with fixed(a) == fixed, each once (rank is the inverse map)"""
            sel = lst.sel; want = (lambda x: FIX(x)) if fixed else (lambda x: z3.Not(FIX(x)))
            return z3.And(lst.off == 0, lst.len >= 0, lst.len == count,
                          z3.ForAll([k], z3.Implies(z3.And(0 <= k, k < lst.len), z3.And(0 <= sel(k), sel(k) < upto, want(sel(k)), R(lst, sel(k)) == k))),
                          z3.ForAll([a], z3.Implies(z3.And(0 <= a, a < upto, want(a)), z3.And(0 <= R(lst, a), R(lst, a) < lst.len, sel(R(lst, a)) == a))))
        def Ffacts(T, Lz):
            return z3.And(z3.Select(T.F, 0) == 0, z3.ForAll([p], z3.Implies(z3.And(0 <= p, p < Lz), z3.Select(T.F, p + 1) == z3.Select(T.F, p) + z3.If(T.sel(p) == NONE, 1, 0))))
        def m_sorted(lst, key=None):
            """contract of builtin sorted(list, key=f): a NEW list that is a permutation of the argument, ascending in f"""
            if not isinstance(lst, AList): return builtins.sorted(lst, key=key)
            c = _c(); S = AList(c.fresh("sorted.arr", AII), lst.len); pi, pinv = c.fresh("perm", AII), c.fresh("perm_inv", AII)
            keyt = lambda t: toint(key(PItem(t)))
            contract = z3.And(z3.ForAll([k], z3.Implies(z3.And(0 <= k, k < lst.len), z3.And(0 <= z3.Select(pi, k), z3.Select(pi, k) < lst.len, z3.Select(pinv, z3.Select(pi, k)) == k,
                                                                                         0 <= z3.Select(pinv, k), z3.Select(pinv, k) < lst.len, z3.Select(pi, z3.Select(pinv, k)) == k,
                                                                                         S.sel(k) == lst.sel(z3.Select(pi, k))))),
                              z3.ForAll([k, k2], z3.Implies(z3.And(0 <= k, k < k2, k2 < lst.len), keyt(S.sel(k)) <= keyt(S.sel(k2)))))
            S.rank = z3.Lambda([a], z3.Select(pinv, R(lst, a)))
            derived = z3.And(holds(S, n, False, lst.len), z3.ForAll([k, k2], z3.Implies(z3.And(0 <= k, k < k2, k2 < S.len), DUID(S.sel(k)) <= DUID(S.sel(k2)))))
            c.check("builtin.sorted:permutation+ascending=>same-elements-once,ascending-duid", z3.Implies(contract, derived))
            c.assume(derived)
            return S
        def slots_fixed(T, Fx, Lz, upto):        # every slot is empty or holds a fixed item, processed before `upto`, at its own location
            v = T.sel(p)
            return z3.ForAll([p], z3.Implies(z3.And(0 <= p, p < Lz), z3.Or(v == NONE, z3.And(0 <= v, v < n, FIX(v), LOC(v) == p, 0 <= R(Fx, v), R(Fx, v) < upto, R(T, v) == p))))
        def fixed_placed(T, Fx, upto): return z3.ForAll([k], z3.Implies(z3.And(0 <= k, k < upto), T.sel(LOC(Fx.sel(k))) == Fx.sel(k)))
        def while_inv(L):
            S, Fx, T, Lz = L["variable_items"], L["fixed_items"], L["sorted_items"], toint(L["items_length"]); m = S.off; v = T.sel(p)
            S0 = lambda j: z3.Select(S.arr, j)
            return z3.And(m >= 0, S.len >= 0, m + S.len == n - Fx.len, T.len == Lz, T.off == 0,
                          z3.ForAll([p], z3.Implies(z3.And(0 <= p, p < Lz), z3.Or(v == NONE, z3.And(0 <= v, v < n, R(T, v) == p, z3.If(FIX(v), LOC(v) == p, z3.And(0 <= R(L["__S"], v), R(L["__S"], v) < m)))))),
                          fixed_placed(T, Fx, Fx.len),
                          z3.ForAll([k], z3.Implies(z3.And(0 <= k, k < m), z3.And(0 <= R(T, S0(k)), R(T, S0(k)) < Lz, T.sel(R(T, S0(k))) == S0(k)))),
                          z3.ForAll([k, k2], z3.Implies(z3.And(0 <= k, k < k2, k2 < m), R(T, S0(k)) < R(T, S0(k2)))),
                          z3.Implies(m > 0, z3.ForAll([p], z3.Implies(z3.And(0 <= p, p <= R(T, S0(m - 1))), T.sel(p) != NONE))),
                          Ffacts(T, Lz), z3.Select(T.F, Lz) == Lz - Fx.len - m)
        ghost = {}
        def with_S(f):
            def g(L): L = dict(L); L["__S"] = ghost["S"]; return f(L)
            return g
        def reserved_inv(L):
            T, Lz, j = L["sorted_items"], toint(L["items_length"]), toint(L["i6"]); E = L["__entry"]["sorted_items"]["arr"]
            return z3.And(T.len == Lz, T.off == 0, z3.ForAll([p], z3.Implies(z3.And(0 <= p, p < Lz),
                          z3.If(z3.Select(E, p) != NONE, T.sel(p) == z3.Select(E, p), T.sel(p) == z3.If(p < j, -2 - p, NONE)))))
        loops = {
            L_VAR:      dict(pos="i0", lists={"variable_items": ["arr", "len", "rank"]}, facts=lambda L: cnt_def(toint(L["i0"])),
                             inv=lambda L: holds(L["variable_items"], toint(L["i0"]), False, toint(L["i0"]) - CNT(toint(L["i0"])))),
            L_FIX:      dict(pos="i1", lists={"fixed_items": ["arr", "len", "rank"]}, facts=lambda L: cnt_def(toint(L["i1"])),
                             inv=lambda L: holds(L["fixed_items"], toint(L["i1"]), True, CNT(toint(L["i1"])))),
            L_LEN:      dict(pos="i2", havoc={"items_length": "int"},
                             inv=lambda L: z3.And(toint(L["items_length"]) >= n, z3.ForAll([k], z3.Implies(z3.And(0 <= k, k < toint(L["i2"])), LOC(L["fixed_items"].sel(k)) < toint(L["items_length"]))))),
            L_FILLFIX:  dict(pos="i3", lists={"sorted_items": ["arr", "rank", "F"]},
                             inv=lambda L: z3.And(L["sorted_items"].len == toint(L["items_length"]), L["sorted_items"].off == 0,
                                                  slots_fixed(L["sorted_items"], L["fixed_items"], toint(L["items_length"]), toint(L["i3"])),
                                                  fixed_placed(L["sorted_items"], L["fixed_items"], toint(L["i3"])),
                                                  Ffacts(L["sorted_items"], toint(L["items_length"])),
                                                  z3.Select(L["sorted_items"].F, toint(L["items_length"])) == toint(L["items_length"]) - toint(L["i3"]))),
            L_WHILE:    dict(lists={"variable_items": ["off", "len"], "sorted_items": ["arr", "rank", "F"]}, inv=with_S(while_inv)),
            L_SEARCH:   dict(pos="i5", inv=lambda L: z3.And(z3.ForAll([p], z3.Implies(z3.And(0 <= p, p < toint(L["i5"])), L["sorted_items"].sel(p) != NONE)),
                                                            z3.Select(L["sorted_items"].F, toint(L["i5"])) == 0)),
            L_RESERVED: dict(pos="i6", lists={"sorted_items": ["arr"]}, inv=reserved_inv),
        }
        vc = SVC(loops)
        fn, src = rewrite2(CSRMOD._sort_gathered_items, loops, vc)
        assert src.count("__vc.for_begin") == 6 and src.count("__vc.loop_begin(4,") == 1 and "__vc.listcomp" in src, "loop structure of _sort_gathered_items changed"
        def m_sorted_hook(lst, key=None):
            S = m_sorted(lst, key)
            if isinstance(S, AList): ghost["S"] = AList(S.arr, S.len, rank=S.rank)        # frozen copy (the function pops from its own list)
            return S
        fn.__globals__.update(sorted=m_sorted_hook, range=lambda *x: SymRange(x[0]) if len(x) == 1 and isinstance(x[0], SymInt) else builtins.range(*x), CSR=PReserved)
        try:
            out = fn(items)
        except ValueError as e:
            stats["conflict"] += 1
            tb = e.__traceback__; fl = None
            while tb is not None:
                if tb.tb_frame.f_code.co_name == "_sort_gathered_items": fl = tb.tb_frame.f_locals
                tb = tb.tb_next
            # witnesses: the item being placed and the occupant of its slot
            wa = fl["item"].t; wb = fl["sorted_items"].sel(LOC(wa))
            ctx.check("ValueError=>two-different-fixed-items-request-the-same-location", z3.And(0 <= wa, wa < n, 0 <= wb, wb < n, wa != wb, FIX(wa), FIX(wb), LOC(wa) == LOC(wb)))
            return
        except (IndexError, AssertionError) as e:
            stats["other"] += 1
            ctx.check(f"no-{type(e).__name__}", z3.BoolVal(False)); return
        stats["returned"] += 1
        T = out; O = T.sel; S = ghost["S"]; PO = lambda x: R(T, x)
        ctx.check("post.result-is-the-slot-list,no-negative-index-wraparound", z3.BoolVal(isinstance(T, AList) and not T.wrapped))
        ctx.check("post.length>=number-of-items", z3.And(T.len >= n, T.off == 0))
        ctx.check("post.every-fixed-item-at-its-requested-index", z3.ForAll([a], z3.Implies(z3.And(0 <= a, a < n, FIX(a)), z3.And(0 <= LOC(a), LOC(a) < T.len, O(LOC(a)) == a))))
        ctx.check("post.fixed-locations-pairwise-different", z3.ForAll([a, b_], z3.Implies(z3.And(0 <= a, a < b_, b_ < n, FIX(a), FIX(b_)), LOC(a) != LOC(b_))))
        ctx.check("post.nothing-lost(every-fixed-item-occurs)", z3.ForAll([a], z3.Implies(z3.And(0 <= a, a < n, FIX(a)), z3.And(PO(a) == LOC(a), 0 <= PO(a), PO(a) < T.len, O(PO(a)) == a))))
        ctx.check("post.nothing-lost(every-automatic-item-occurs)", z3.ForAll([a], z3.Implies(z3.And(0 <= a, a < n, z3.Not(FIX(a))), z3.And(0 <= PO(a), PO(a) < T.len, O(PO(a)) == a))))
        ctx.check("post.nothing-duplicated(no-two-slots-hold-the-same-object)", z3.ForAll([p, k], z3.Implies(z3.And(0 <= p, p < k, k < T.len), O(p) != O(k))))
        ctx.check("post.every-slot-filled-by-an-item-or-a-new-reserved-CSR", z3.ForAll([p], z3.Implies(z3.And(0 <= p, p < T.len), z3.And(O(p) != NONE, z3.Or(z3.And(0 <= O(p), O(p) < n), O(p) == -2 - p)))))
        ctx.check("post.automatic-items-in-ascending-duid-order", z3.ForAll([a, b_], z3.Implies(z3.And(0 <= a, a < n, 0 <= b_, b_ < n, z3.Not(FIX(a)), z3.Not(FIX(b_)), DUID(a) < DUID(b_)), PO(a) < PO(b_))))
        ctx.check("post.automatic-items-fill-the-lowest-free-indices(reserved-fillers-only-above)", z3.ForAll([a, p], z3.Implies(z3.And(0 <= a, a < n, z3.Not(FIX(a)), 0 <= p, p < T.len, O(p) == -2 - p), PO(a) < p)))
        if wrong == "order": ctx.check("wrong.automatic-items-in-descending-duid-order", z3.ForAll([a, b_], z3.Implies(z3.And(0 <= a, a < n, 0 <= b_, b_ < n, z3.Not(FIX(a)), z3.Not(FIX(b_)), DUID(a) < DUID(b_)), PO(a) > PO(b_))))
        if wrong == "len": ctx.check("wrong.length==number-of-items", T.len == n)
    paths, obl = explore(run, max_paths=4000)
    return paths, obl, stats

def c_sort_proof():
    t0 = time.time()
    paths, obl, stats = _run_sort()
    by = {}
    for n_, s_, m in obl: by.setdefault(n_, []).append((s_, m))
    out = []
    for n_, l in by.items():
        st = NOINPUT if any(s_ == "FAILED" for s_, _ in l) else (UNKNOWN if any(s_ != "proved" for s_, _ in l) else PROVED)
        info = {}
        bad = [m for s_, m in l if s_ == "FAILED" and m is not None]
        if bad: info["model"] = {str(d): str(bad[0][d]) for d in bad[0].decls() if d.arity() == 0 and z3.is_int(bad[0][d])}
        out.append(res(f"_sort_gathered_items.{n_}", "pysym", st, 0, BACKEND, paths=len(l), **info))
    # vacuity: both outcomes occur, every loop's init and step obligations exist.  (Done once by hand, 2026-09-26: `_run_sort(wrong="order")` and
    # `_run_sort(wrong="len")` - descending order / length == len(items) - are REFUTED with models, so the path conditions are satisfiable;
    # not repeated here because finding a model of the quantified path condition is slow.)
    want = {f"loop{i}.{ph}" for i in range(7) for ph in ("init", "step")}
    ok = stats["returned"] > 0 and stats["conflict"] > 0 and stats["other"] == 0 and want <= set(by) and paths >= 2
    out.append(res("_sort_gathered_items.cover.returns-and-raises;all-loop-obligations-generated", "cover", OK if ok else VACUOUS, time.time() - t0, "pysym", paths=paths, **stats))
    return dict(results=out, functions=["litex.soc.interconnect.csr._sort_gathered_items"],
                samples=[dict(function="_sort_gathered_items", paths=paths, state="item list of unknown length; fixed/automatic flags, locations and duids uninterpreted", loops="7 loops cut; ghost rank and free-slot counter")])

def cases(tier):
    return [Case("_sort_gathered_items(proof)", c_sort_proof)]

ASSUMPTIONS = [
    "_sort_gathered_items proof (E3): items is a list of unknown length of pairwise different objects with attributes fixed (bool), n (int, >= 0 when fixed is true: a location is a natural number), duid (int), name; Python ints mathematical; "
    "list semantics assumed for the proxies: [] is a new empty list; append adds at the end; x[i] / x[i] = v follow CPython's index rules (negative indices count from the end, IndexError outside: neither occurs, proved); pop(0) removes and returns the first element; `None in x` is an existence test; len is the number of elements; "
    "[None for _ in range(k)] is a list of k None; for ... in range(k) enumerates 0..k-1",
    "builtin sorted(list, key=f) is assumed to return a NEW list that is a permutation of its argument in ascending order of f (stability is not needed); CSR(name=...) is assumed to return a new object different from every gathered item (the filler's own construction is not part of this obligation)",
    "ghost state used only in invariants: rank (inverse map of each work list), F[p] = number of None slots below p, count_fixed_below(p) defined by its two recursion equations, whose instances are assumed at the loop heads",
    "termination is not proved (partial correctness); the exact length max(len(items), 1 + largest fixed location) is not claimed, only length >= len(items) and every fixed location < length",
]
