"""C07 (extension): Wishbone converters under burst tags and under `err` termination; UpConverter as a flat byte memory;
read-only SRAM built from a Memory object.

DownConverter, every cycle type on the master side (cti classic/constant/incrementing/end/reserved x bte linear/wrap):
  * translation contract (M5): sub-access k of a master beat is exactly (adr*r + k, sub-word k of dat_w / sel, we); in CLASSIC
    mode (every master tag except a linear incrementing/end burst) sub-words without a selected byte are skipped; in BURST mode
    (master cti in {010,111} and bte == 00) every sub-word is issued (with its possibly empty sel) and tagged 010, the last
    sub-beat of a master beat tagged 111 is tagged 111;
  * what the slave sees is a protocol-legal Wishbone B4 sequence: bte always linear, tags only 000/010/111, a beat that follows a
    transferred beat tagged 010 under the same cyc has the next linear address, the same we and a tag 010/111 (provided the
    MASTER's own beat follows the B4 rule), and the slave-side burst is closed by a 111 tag whenever the master's burst is
    (never left open at the end of the master's cycle);
  * flat byte memory (M3, symbolic address): rigid constants (gw, gl) pick an arbitrary master byte; the slave is an ABSTRACT byte
    memory (ghost bk = content of the corresponding slave byte; arbitrary wait states; may answer err; may raise the anticipated
    ack of a registered-feedback burst slave) ; every acknowledged master read that selects the byte returns the value of the
    last acknowledged master write that selected it; the slave byte changes only by such a write.
  * err: LiteX's DownConverter does not forward err (master.err is constant 0) and does not advance on it: the same sub-access
    is presented again.  Stated exactly (ens.obs.*); "terminated at the latest with the r-th slave termination" is proved for
    ack terminations and recorded as finding.down.err-hang for err terminations.
UpConverter / Converter(up) / Remapper: ack and err are passed through in the same cycle (exactly one termination per cycle of
the master, as many as the slave gives); UpConverter additionally as a flat byte memory over an abstract slave byte memory.
wishbone.SRAM read-only through `Memory.bus_read_only` / narrower Memory: init visible (zero-extended), writes ignored but acknowledged.
AG-link cases: LiteX's own burst slave (wishbone.SRAM(bursting=True)) satisfies the slave environment assumed for DownConverter."""
import z3
from .wblib import *
from litex.soc.integration.soc import SoCRegion
from vf.core import Case
from .C07_sram_burst import b4_next_adr, c_sram_burst          # B4 next-beat address (spec function) and the SRAM burst contract (assume-guarantee link below)

CTI_CLASSIC, CTI_CONSTANT, CTI_INCR, CTI_END = 0b000, 0b001, 0b010, 0b111
# the strict reading "slave-side cyc is not lowered inside an open burst while the master still asserts cyc" is violated by
# DownConverter in master wait states (tools/replay_wb_down_burst_err.py 2).  True: expressed as finding.* (expected to fail);
# False: the same behaviour is only stated as an observation (ens.obs.*), should the maintainer judge it harmless.
WAIT_STATE_IS_FINDING = False

def lane_of(word, l, nlanes):
    if nlanes == 1: return word
    r = z3.Extract(8 * nlanes - 1, 8 * (nlanes - 1), word)
    for j in reversed(range(nlanes - 1)): r = z3.If(l == K(j, l.size()), z3.Extract(8 * j + 7, 8 * j, word), r)
    return r
def selbit(sel, l, nlanes):
    if nlanes == 1: return b(sel)
    r = z3.Extract(nlanes - 1, nlanes - 1, sel)
    for j in reversed(range(nlanes - 1)): r = z3.If(l == K(j, l.size()), z3.Extract(j, j, sel), r)
    return b(r)
def log2(n): return n.bit_length() - 1

def slave_b4(h, s, name=""):
    """any Wishbone B4 slave: terminates (ack or err, never both) only a presented cyc&stb; a registered-feedback burst slave may
    in addition raise ack in the cycle after a beat tagged 'incrementing burst' in anticipation of the next beat (LiteX's own
    wishbone.SRAM(bursting) does, see C07_sram_burst ens.ack-only-if-req)"""
    V = h.v
    sreq = req(h, s)
    p_sinc = h.prev("s_inc" + name, bv1(z3.And(sreq, V(s.cti) == K(CTI_INCR, 3))))
    h.assume(z3.Implies(b(V(s.err)), sreq), "Wishbone slave raises err only while cyc&stb are presented to it")
    h.assume(z3.Implies(b(V(s.ack)), z3.Or(sreq, b(p_sinc))), "Wishbone slave raises ack only while cyc&stb are presented to it, or (registered-feedback burst slave) in the cycle after a presented beat tagged cti=010")
    h.assume(z3.Not(z3.And(b(V(s.ack)), b(V(s.err)))), "Wishbone B4 rule 3.45: a slave never asserts ack and err together")
    return p_sinc

# ---------------------------------------------------------------------------------------------------------------------------
def c_down_burst(dw_from, dw_to, aw=6, via_converter=False):
    r = dw_from // dw_to; lb = log2(r)
    NLm = dw_from // 8; NLs = dw_to // 8; LWm = log2(NLm); LWs = log2(NLs)
    m = wishbone.Interface(data_width=dw_from, adr_width=aw, bursting=True); s = wishbone.Interface(data_width=dw_to, adr_width=aw + lb, bursting=True)
    if via_converter:
        top = mk(wishbone.Converter, m, s); d = L(top, "downconverter")
    else:
        top = d = mk(wishbone.DownConverter, m, s)
    h = HwCheck(f"wishbone.{'Converter' if via_converter else 'DownConverter'}(burst+err,{dw_from}->{dw_to})", top, m_inputs(m) + s_inputs(s))
    V = h.v
    # ---- environment ------------------------------------------------------------------------------------------------------
    pend = master_holds(h, m); held = h.held[""]; P = b(pend)
    slave_b4(h, s)
    rq = req(h, m); sreq = req(h, s); mack = b(V(m.ack)); merr = b(V(m.err)); sack = b(V(s.ack)); serr = b(V(s.err))
    mwe = b(V(m.we)); cti = V(m.cti); bte = V(m.bte); adr = V(m.adr)
    incr = cti == K(CTI_INCR, 3); end = cti == K(CTI_END, 3)
    burstmode = z3.And(bte == K(0, 2), z3.Or(incr, end))               # the master beat belongs to a linear incrementing burst
    # ---- specification state: sub-access index of the current master beat ---------------------------------------------------
    KW = max(2, r.bit_length() + 1)
    k = h.ghost("k", KW)
    def sub(x, width, j): return z3.Extract(width * (j + 1) - 1, width * j, x)
    def pick(fn):
        e = fn(r - 1)
        for j in reversed(range(r - 1)): e = z3.If(k == K(j, KW), fn(j), e)
        return e
    sel_k = pick(lambda j: sub(V(m.sel), NLs, j)); dat_k = pick(lambda j: sub(V(m.dat_w), dw_to, j))
    skip = z3.And(rq, sel_k == K(0, NLs), z3.Not(burstmode))
    sdone = z3.And(sreq, sack)                                          # a slave beat is transferred
    adv = z3.Or(sdone, skip); lastk = k == K(r - 1, KW)
    h.ghost_next(k, z3.If(z3.Or(mack, z3.Not(b(V(m.cyc)))), K(0, KW), z3.If(adv, k + 1, k)))
    rd = [h.ghost(f"rd{j}", dw_to) for j in range(r)]
    for j in range(r): h.ghost_next(rd[j], z3.If(z3.And(sdone, k == K(j, KW)), V(s.dat_r), rd[j]))
    # ---- master-side burst context (B4 protocol state only) ---------------------------------------------------------------
    mxfer = z3.And(rq, mack)
    mcont = z3.And(mxfer, incr)
    mopen = h.ghost("mopen", 1); mea = h.ghost("mea", aw); mewe = h.ghost("mewe", 1); mebte = h.ghost("mebte", 2)
    h.ghost_next(mopen, z3.If(mcont, K(1, 1), z3.If(z3.Or(mxfer, z3.Not(b(V(m.cyc)))), K(0, 1), mopen)))
    h.ghost_next(mea, z3.If(mcont, adr + 1, mea)); h.ghost_next(mewe, z3.If(mcont, V(m.we), mewe)); h.ghost_next(mebte, z3.If(mcont, bte, mebte))
    MO = b(mopen)
    # "the master's beat follows the B4 burst rule" (only the linear rule is needed: wrapping bursts are converted to classic cycles)
    m_follows = z3.Implies(z3.And(MO, rq), z3.And(V(m.we) == mewe, bte == mebte, z3.Or(incr, end), z3.Implies(bte == K(0, 2), adr == mea)))
    # ---- slave-side burst context -----------------------------------------------------------------------------------------
    scti = V(s.cti); sadr = V(s.adr)
    scont = z3.And(sdone, scti == K(CTI_INCR, 3))
    # (same protocol ghost as in C07_sram_burst: open / expected address by the B4 spec function b4_next_adr / direction / type / LSBs of the first beat)
    sopen = h.ghost("sopen", 1); sea = h.ghost("sea", aw + lb); sewe = h.ghost("sewe", 1); sebte = h.ghost("sebte", 2); soff0 = h.ghost("soff0", 4)
    SO = b(sopen)
    sopen_next = z3.If(scont, K(1, 1), z3.If(z3.Or(sdone, z3.Not(b(V(s.cyc)))), K(0, 1), sopen))
    cur_off0 = z3.If(SO, soff0, z3.Extract(3, 0, sadr))
    h.ghost_next(sopen, sopen_next); h.ghost_next(sea, z3.If(scont, b4_next_adr(sadr, V(s.bte), cur_off0), sea)); h.ghost_next(sewe, z3.If(scont, V(s.we), sewe))
    h.ghost_next(sebte, z3.If(scont, V(s.bte), sebte)); h.ghost_next(soff0, z3.If(scont, cur_off0, soff0))
    # ---- tracked byte -----------------------------------------------------------------------------------------------------
    gw = h.const("gw", aw); gl = h.const("gl", LWm); iv = h.const("iv", 8)
    gsub = z3.Extract(LWm - 1, LWs, gl)                                  # sub-word of the tracked byte (lb bits)
    slane = z3.Extract(LWs - 1, 0, gl) if LWs else None                  # its lane inside the slave word
    gsw = z3.Concat(gw, gsub)                                            # slave word address of the tracked byte
    gv = h.ghost("gv", 8, iv); bk = h.ghost("bk", 8, iv)
    m_sel_g = selbit(V(m.sel), gl, NLm)
    wr_now = z3.And(mxfer, mwe, adr == gw, m_sel_g)
    gv_next = z3.If(wr_now, lane_of(V(m.dat_w), gl, NLm), gv)
    h.ghost_next(gv, gv_next)
    at_bk = sadr == gsw
    bk_next = z3.If(z3.And(sdone, b(V(s.we)), at_bk, selbit(V(s.sel), slane, NLs)), lane_of(V(s.dat_w), slane, NLs), bk)
    h.ghost_next(bk, bk_next)
    h.assume(z3.Implies(z3.And(sdone, z3.Not(b(V(s.we))), at_bk, selbit(V(s.sel), slane, NLs)), lane_of(V(s.dat_r), slane, NLs) == bk),
             "abstract slave byte memory: an acknowledged read beat that selects the tracked byte returns the value of the last acknowledged write beat that selected it (ghost bk, arbitrary initial content); "
             "other bytes, wait states and err answers unconstrained")
    # ---- err bookkeeping --------------------------------------------------------------------------------------------------
    NW = KW + 1
    nterm = h.ghost("nterm", NW); erred = h.ghost("erred", 1)
    sterm = z3.And(sreq, z3.Or(sack, serr))
    mterm = z3.And(rq, z3.Or(mack, merr))
    idle_or_term = z3.Or(mterm, z3.Not(b(V(m.cyc))))
    h.ghost_next(nterm, z3.If(idle_or_term, K(0, NW), z3.If(z3.And(z3.Or(sterm, skip), nterm != K(2**NW - 1, NW)), nterm + 1, nterm)))
    h.ghost_next(erred, z3.If(idle_or_term, K(0, 1), z3.If(z3.And(sreq, serr), K(1, 1), erred)))
    # ---- helper invariants (from the code) --------------------------------------------------------------------------------
    cnt = L(d, "count"); dat_r = L(d, "dat_r")
    # (fall-back by shape when a local has been renamed: the sub-word counter is the only lb-bit register, the read shift register the only dw_from-bit one)
    if cnt is None or cnt not in h.ts.state: cnt = ([x for x in h.ts.state if x.nbits == lb] + [None])[0]
    if dat_r is None or dat_r not in h.ts.state: dat_r = ([x for x in h.ts.state if x.nbits == dw_from] + [None])[0]
    if cnt is not None and cnt in h.ts.var: h.hint("count=k", zx(V(cnt), KW) == k)
    h.hint("k<r", ult(k, r)); h.hint("idle->k0", z3.Implies(z3.Not(P), k == K(0, KW)))
    h_burst = z3.And(held.bte == K(0, 2), z3.Or(held.cti == K(CTI_INCR, 3), held.cti == K(CTI_END, 3)))
    hsub = lambda j: sub(held.sel, NLs, j)
    h_sel_g = selbit(held.sel, gl, NLm)
    if dat_r is not None and dat_r in h.ts.var:
        for j in range(r - 1):
            for kk in range(j + 1, r):
                pos = r - kk + j
                sl = z3.Extract(dw_to * (pos + 1) - 1, dw_to * pos, V(dat_r))
                h.hint(f"sr{j}@{kk}", z3.Implies(z3.And(k == K(kk, KW), z3.Or(hsub(j) != K(0, NLs), h_burst), P), sl == rd[j]))
    for j in range(r):
        h.hint(f"rdg{j}", z3.Implies(z3.And(ugt(k, j), P, z3.Not(b(held.we)), held.adr == gw, h_sel_g, gsub == K(j, lb)), lane_of(rd[j], slane, NLs) == gv))
    # the slave byte already carries the new value once its sub-word of a pending write has been transferred; else it is the specified value
    wr_pend_g = z3.And(P, b(held.we), held.adr == gw, h_sel_g)
    h.hint("bk", bk == z3.If(z3.And(wr_pend_g, z3.UGT(k, zx(gsub, KW))), lane_of(held.dat_w, gl, NLm), gv))
    # slave burst context: open only inside a burst-mode master beat (next sub-beat) or between two beats of the master's open burst
    h.hint("sopen.mid", z3.Implies(z3.And(SO, P, k != K(0, KW)), z3.And(h_burst, sea == z3.Concat(held.adr, z3.Extract(lb - 1, 0, k)), sewe == held.we)))
    h.hint("sopen.bte", z3.Implies(SO, sebte == K(0, 2)))
    h.hint("sopen.gap", z3.Implies(z3.And(SO, z3.Or(z3.Not(P), k == K(0, KW))), z3.And(MO, mebte == K(0, 2), sea == z3.Concat(mea, K(0, lb)), sewe == mewe)))
    h.hint("nterm<=k", z3.Implies(z3.Not(b(erred)), nterm == zx(k, NW)))
    h.hint("idle->nterm0", z3.Implies(z3.Not(P), z3.And(nterm == K(0, NW), erred == K(0, 1))))
    h.use_auto = False
    # ---- postconditions ---------------------------------------------------------------------------------------------------
    # (1) translation of one master beat
    h.ensure("ens.s_req",  z3.And(b(V(s.cyc)) == z3.And(rq, z3.Not(skip)), b(V(s.stb)) == z3.And(rq, z3.Not(skip))))
    h.ensure("ens.s_adr",  z3.Implies(sreq, sadr == z3.Concat(adr, z3.Extract(lb - 1, 0, k))))
    h.ensure("ens.s_data", z3.Implies(sreq, z3.And(V(s.dat_w) == dat_k, V(s.sel) == sel_k, V(s.we) == V(m.we))))
    h.ensure("ens.s_cti",  z3.Implies(sreq, scti == z3.If(z3.Not(burstmode), K(CTI_CLASSIC, 3), z3.If(z3.And(end, lastk), K(CTI_END, 3), K(CTI_INCR, 3)))))
    h.ensure("ens.m_ack",  mack == z3.And(rq, adv, lastk))                 # acknowledged with the last sub-access, not before, not without request
    h.ensure_seq("ens.ack1", lambda at: z3.Implies(at(mack, 0), z3.Not(at(mack, 1))))
    lanes = []
    for j in range(r):
        seln = z3.Or(sub(V(m.sel), NLs, j) != K(0, NLs), burstmode)
        val = z3.If(k == K(j, KW), V(s.dat_r), rd[j]) if j == r - 1 else rd[j]
        lanes.append(z3.Implies(seln, sub(V(m.dat_r), dw_to, j) == val))
    h.ensure("ens.m_dat_r", z3.Implies(z3.And(mack, z3.Not(mwe)), z3.And(*lanes)))
    # (2) B4 legality of what the slave sees
    h.ensure("ens.s.bte-linear", V(s.bte) == K(0, 2))
    h.ensure("ens.s.cti-legal", z3.Or(scti == K(CTI_CLASSIC, 3), scti == K(CTI_INCR, 3), scti == K(CTI_END, 3)))
    # a presented slave beat is held (request, address, data, select, direction, tag) until the slave terminates it
    s_tok = cat(sadr, V(s.dat_w), V(s.sel), V(s.we), scti, V(s.bte))
    h.ensure_seq("ens.s.hold", lambda at: z3.Implies(z3.And(at(sreq, 0), z3.Not(at(z3.Or(sack, serr), 0))), z3.And(at(sreq, 1), at(s_tok, 1) == at(s_tok, 0))))
    h.ensure("ens.s.burst-seq", z3.Implies(z3.And(SO, sreq, m_follows), z3.And(sadr == sea, V(s.we) == sewe, V(s.bte) == sebte, z3.Or(scti == K(CTI_INCR, 3), scti == K(CTI_END, 3)))))
    # the slave-side burst is closed (111 tag transferred) together with the master's: after a transferred master beat that does
    # not continue a burst no slave-side burst is open; an open slave-side burst exists only inside the master's open burst
    h.ensure("ens.s.closed-with-master", z3.Implies(z3.And(mxfer, z3.Not(incr)), sopen_next == K(0, 1)))
    h.ensure("ens.s.open-only-in-master-burst", z3.Implies(SO, z3.Or(MO, z3.And(P, h_burst))))
    h.ensure("ens.s.abandon-only-without-request", z3.Implies(z3.And(SO, z3.Not(b(V(s.cyc))), m_follows), z3.Not(rq)))
    if WAIT_STATE_IS_FINDING:
        h.finding("finding.down.burst-dropped-in-wait-state", z3.Implies(z3.And(SO, z3.Not(b(V(s.cyc))), m_follows), z3.Not(b(V(m.cyc)))),
                  "wishbone.DownConverter gates slave.cyc with master.stb: a master wait state (stb low, cyc high) between two beats of an incrementing burst lowers cyc on the slave side "
                  "while the last transferred slave beat was tagged cti=010 (burst left open, no 111 beat); the following beat starts a new burst")
    else:
        h.ensure("ens.obs.burst-dropped-in-wait-state", z3.Implies(z3.And(z3.Not(rq), b(V(m.cyc))), z3.Not(b(V(s.cyc)))))
    # (3) flat byte memory
    h.ensure("ens.read", z3.Implies(z3.And(mxfer, z3.Not(mwe), adr == gw, m_sel_g), lane_of(V(m.dat_r), gl, NLm) == gv))
    h.ensure("ens.write.done", z3.Implies(z3.Or(mxfer, z3.Not(rq)), bk_next == gv_next))          # whenever no master cycle is in flight the slave byte is the specified value
    h.ensure("ens.write.only-selected", z3.Implies(bk_next != bk, z3.And(rq, mwe, adr == gw, m_sel_g, bk_next == lane_of(V(m.dat_w), gl, NLm))))
    # (4) termination
    h.ensure("ens.obs.m_err-never", z3.Not(merr))                                                   # what LiteX does: err is not forwarded
    h.ensure("ens.obs.err-retry", z3.Implies(z3.And(sreq, serr), z3.And(z3.Not(mack), h.primed(k) == k)))   # ... the sub-access is simply presented again
    h.ensure("ens.term-bound", z3.Implies(z3.Not(b(erred)), ult(nterm, r)))                         # terminated at the latest with the r-th slave termination (ack terminations)
    h.finding("finding.down.err-hang", z3.Implies(b(erred), ult(nterm, r)),
              "wishbone.DownConverter ignores slave.err: master.err is never driven and the sub-access is repeated, so a master cycle whose sub-access the slave terminates with err "
              "is not terminated with the r-th slave termination (never, if the slave keeps answering err)")
    h.respond("resp.ack", z3.And(rq, z3.Or(z3.Not(sreq), sack)), mack, r)
    # ---- covers -----------------------------------------------------------------------------------------------------------
    h.cover("cover.burst-end-beat", z3.And(mxfer, end, MO, SO, scti == K(CTI_END, 3)), depth=2 * r + 2)
    h.cover("cover.burst-read-tracked", z3.And(mxfer, z3.Not(mwe), adr == gw, m_sel_g, MO, burstmode), depth=2 * r + 2)
    h.cover("cover.burst-write-changes", z3.And(gv != iv, MO), depth=2 * r + 2)
    h.cover("cover.classic-skip", z3.And(mxfer, skip), depth=r + 2)
    h.cover("cover.anticipated-ack-ignored", z3.And(sack, z3.Not(sreq), b(V(m.cyc)), MO), depth=r + 2)
    h.cover("cover.slave-err", z3.And(sreq, serr, k != K(0, KW)), depth=r + 2)
    h.functions = ["litex.soc.interconnect.wishbone.DownConverter.__init__"] + (["litex.soc.interconnect.wishbone.Converter.__init__"] if via_converter else [])
    h.bmc_depth = 3 * r + 4; h.cosim_cycles = 16
    return h

# ---------------------------------------------------------------------------------------------------------------------------
# Combinational adapters (UpConverter, Converter(up), Remapper): the slave's termination (ack OR err) is the master's, in the same
# cycle, one for one; the master's request is presented to the slave exactly while the master presents it.
def term_passthrough(h, m, s, tags=True):
    V = h.v
    rq = req(h, m); sreq = req(h, s)
    mack = b(V(m.ack)); merr = b(V(m.err)); sack = b(V(s.ack)); serr = b(V(s.err))
    p_minc = h.prev("m_inc", bv1(z3.And(rq, V(m.cti) == K(CTI_INCR, 3))))
    h.ensure("ens.req.passthrough", z3.And(V(s.cyc) == V(m.cyc), V(s.stb) == V(m.stb), V(s.we) == V(m.we), V(s.cti) == V(m.cti), V(s.bte) == V(m.bte)))
    h.ensure("ens.term.same-cycle", z3.And(mack == sack, merr == serr))                        # ack stays ack, err stays err
    h.ensure("ens.term.one-to-one", z3.And(rq, z3.Or(mack, merr)) == z3.And(sreq, z3.Or(sack, serr)))   # the master's cycle is terminated exactly when the slave terminates the cycle presented to it
    h.ensure("ens.term.not-both", z3.Not(z3.And(mack, merr)))
    h.ensure("ens.term.only-if-req", z3.And(z3.Implies(merr, rq), z3.Implies(mack, z3.Or(rq, b(p_minc)))))
    h.respond("resp.term", z3.And(rq, z3.Or(sack, serr)), z3.Or(mack, merr), 1)                 # never hangs: terminated in the very cycle the slave terminates
    h.cover("cover.err-forwarded", z3.And(rq, merr, z3.Not(mack)), depth=2)
    h.cover("cover.ack-forwarded", z3.And(rq, mack, z3.Not(merr)), depth=2)

def c_up_mem(dw_from, dw_to, aw=6, via_converter=False):
    r = dw_to // dw_from; lb = log2(r)
    NLm = dw_from // 8; NLs = dw_to // 8; LWm = log2(NLm); LWs = log2(NLs)
    m = wishbone.Interface(data_width=dw_from, adr_width=aw, bursting=True); s = wishbone.Interface(data_width=dw_to, adr_width=aw - lb, bursting=True)
    d = mk(wishbone.Converter if via_converter else wishbone.UpConverter, m, s)
    h = HwCheck(f"wishbone.{'Converter' if via_converter else 'UpConverter'}(mem+err,{dw_from}->{dw_to})", d, m_inputs(m) + s_inputs(s))
    V = h.v
    master_holds(h, m); slave_b4(h, s)
    rq = req(h, m); sreq = req(h, s); mack = b(V(m.ack)); sack = b(V(s.ack)); mwe = b(V(m.we)); adr = V(m.adr)
    gw = h.const("gw", aw); gl = h.const("gl", LWm) if LWm else None; iv = h.const("iv", 8)
    gsw = z3.Extract(aw - 1, lb, gw)                                            # slave word that holds the tracked byte
    slane = z3.Concat(z3.Extract(lb - 1, 0, gw), gl) if LWm else z3.Extract(lb - 1, 0, gw)   # its lane there: (master word offset) * NLm + lane
    gv = h.ghost("gv", 8, iv); bk = h.ghost("bk", 8, iv)
    m_sel_g = selbit(V(m.sel), gl, NLm)
    mxfer = z3.And(rq, mack); sdone = z3.And(sreq, sack)
    gv_next = z3.If(z3.And(mxfer, mwe, adr == gw, m_sel_g), lane_of(V(m.dat_w), gl, NLm), gv)
    h.ghost_next(gv, gv_next)
    at_bk = V(s.adr) == gsw
    bk_next = z3.If(z3.And(sdone, b(V(s.we)), at_bk, selbit(V(s.sel), slane, NLs)), lane_of(V(s.dat_w), slane, NLs), bk)
    h.ghost_next(bk, bk_next)
    h.assume(z3.Implies(z3.And(sdone, z3.Not(b(V(s.we))), at_bk, selbit(V(s.sel), slane, NLs)), lane_of(V(s.dat_r), slane, NLs) == bk),
             "abstract slave byte memory: an acknowledged read beat that selects the tracked byte returns the value of the last acknowledged write beat that selected it (ghost bk, arbitrary initial content); "
             "other bytes, wait states and err answers unconstrained")
    h.hint("bk=gv", bk == gv)
    h.ensure("ens.read", z3.Implies(z3.And(mxfer, z3.Not(mwe), adr == gw, m_sel_g), lane_of(V(m.dat_r), gl, NLm) == gv))
    h.ensure("ens.write.done", bk_next == gv_next)                                # the slave byte is the specified value after every cycle (an err-terminated write changes neither)
    h.ensure("ens.write.only-selected", z3.Implies(bk_next != bk, z3.And(mxfer, mwe, adr == gw, m_sel_g, bk_next == lane_of(V(m.dat_w), gl, NLm))))
    # write strobes only on the addressed lanes: the number of selected slave lanes equals the number of selected master lanes
    pop = lambda x: sum([zx(z3.Extract(i, i, x), 8) for i in range(x.size())], K(0, 8))
    h.ensure("ens.sel-count", pop(V(s.sel)) == pop(V(m.sel)))
    term_passthrough(h, m, s)
    h.cover("cover.read-back", z3.And(mxfer, z3.Not(mwe), adr == gw, m_sel_g, gv != iv), depth=3)
    h.cover("cover.err-write-ignored", z3.And(rq, mwe, adr == gw, m_sel_g, b(V(s.err)), lane_of(V(m.dat_w), gl, NLm) != gv), depth=2)
    h.functions = ["litex.soc.interconnect.wishbone.UpConverter.__init__"] + (["litex.soc.interconnect.wishbone.Converter.__init__"] if via_converter else [])
    h.cosim_cycles = 12
    return h

def c_remapper_err(kind):
    m = wishbone.Interface(data_width=32, adr_width=30, bursting=True); s = wishbone.Interface(data_width=32, adr_width=30, bursting=True)
    if kind == "origin":
        origin, size, src, dst = 0x1000_0000, 0x1_0000, [], []
    else:
        origin, size = 0x8000_0000, 0x1000_0000
        src = [SoCRegion(origin=0x8000_1000, size=0x1000)]; dst = [SoCRegion(origin=0x0000_0000, size=0x1000)]
    d = mk(wishbone.Remapper, m, s, origin, size, src, dst)
    h = HwCheck(f"wishbone.Remapper(err,{kind})", d, m_inputs(m) + s_inputs(s))
    master_holds(h, m); slave_b4(h, s)
    term_passthrough(h, m, s)
    h.ensure("ens.data.passthrough", z3.And(h.v(s.dat_w) == h.v(m.dat_w), h.v(s.sel) == h.v(m.sel), h.v(m.dat_r) == h.v(s.dat_r)))
    h.functions = ["litex.soc.interconnect.wishbone.Remapper.__init__"]
    h.cosim_cycles = 12
    return h

# ---------------------------------------------------------------------------------------------------------------------------
# Read-only SRAM built from a Memory object that carries `bus_read_only` (the way SoC.add_rom-style memories are handed over),
# possibly narrower than the bus: init contents visible (zero-extended), writes ignored but terminated exactly once.
def c_sram_ro_mem(depth, mw, dw, init, explicit=False):
    bus = wishbone.Interface(data_width=dw, adr_width=30, bursting=False)
    mem = Memory(mw, depth, init=init)
    if not explicit: mem.bus_read_only = True
    d = mk(wishbone.SRAM, mem, bus=bus, **(dict(read_only=True) if explicit else {}))
    h = HwCheck(f"wishbone.SRAM(Memory({mw}x{depth}),bus={dw},{'read_only=True' if explicit else 'mem.bus_read_only'})", d, m_inputs(bus))
    V = h.v
    AW = (depth - 1).bit_length(); NL = dw // 8; LW = log2(NL)
    gw = h.const("gw", AW); gl = h.const("gl", LW)
    cells = h.ts.mems[d.mem]
    def memrd(a):
        r = V(cells[depth - 1])
        for j in reversed(range(depth - 1)): r = z3.If(a == K(j, AW), V(cells[j]), r)
        return r
    iv = K(0, 8)                                                                   # specified content: the init image, zero above the memory's width
    for w_ in range(depth):
        for l_ in range(mw // 8):
            val = ((init[w_] if w_ < len(init) else 0) >> (8 * l_)) & 0xff
            iv = z3.If(z3.And(gw == K(w_, AW), gl == K(l_, LW)), K(val, 8), iv)
    p_pend = master_holds(h, bus); held = h.held[""]
    rq = req(h, bus); ack = b(V(bus.ack)); we = b(V(bus.we))
    at_g = z3.Extract(AW - 1, 0, V(bus.adr)) == gw
    word_g = zx(memrd(gw), dw) if mw < dw else memrd(gw)
    h.hint("mem=init", lane_of(word_g, gl, NL) == iv)
    h.hint("ack->pend", z3.Implies(ack, b(p_pend)))
    port = L(d, "port")
    p_adr = z3.Extract(AW - 1, 0, held.adr)
    if port is not None and port.dat_r in h.ts.state:                              # READ_FIRST port: registered read data
        h.hint("datreg", z3.Implies(z3.And(ack, p_adr == gw), lane_of(zx(V(port.dat_r), dw) if mw < dw else V(port.dat_r), gl, NL) == iv))
    for s_ in h.ts.state:
        if s_.nbits == AW and s_ not in h.ts.orig_signals and s_ not in cells: h.hint(f"adrreg:{s_.duid}", V(s_) == p_adr)
    h.pre_results = [res("struct.no-write-port", "ensures", PROVED if not any(c in h.ts.state for c in cells) else NOINPUT, 0.0, "structural",
                         info="no memory cell is a register of the extracted transition system (the read-only SRAM has no write port)")]
    h.ensure("ens.read", z3.Implies(z3.And(ack, rq, z3.Not(we), at_g), lane_of(V(bus.dat_r), gl, NL) == iv))      # init contents visible, whatever was "written" before
    h.ensure("ens.ro", h.primed(memrd(gw)) == memrd(gw))                                                          # writes are ignored
    h.ensure("ens.ack-only-if-req", z3.Implies(ack, rq))
    h.ensure("ens.ack1", z3.Implies(ack, z3.Not(b(h.n(bus.ack)))))
    h.ensure("ens.err-never", z3.Not(b(V(bus.err))))
    h.respond("resp.write-terminated", rq, ack, 2, start=z3.And(rq, we))                                          # ... but still terminated
    h.respond("resp.ack", rq, ack, 2)
    h.cover("cover.write-acked", z3.And(ack, rq, we, at_g, selbit(V(bus.sel), gl, NL), lane_of(V(bus.dat_w), gl, NL) != iv), depth=3)
    h.cover("cover.read-init", z3.And(ack, rq, z3.Not(we), at_g, iv != K(0, 8)), depth=3)
    h.functions = ["litex.soc.interconnect.wishbone.SRAM.__init__"]
    h.cosim_cycles = 12
    return h

# ---------------------------------------------------------------------------------------------------------------------------
# Assume-guarantee link DownConverter -> wishbone.SRAM(bursting=True) (LiteX's own registered-feedback burst slave).
# The SRAM burst contract (C07_sram_burst.c_sram_burst: real SRAM, its hints, its master environment A.hold + A.burst) is
# instantiated at the slave-side geometry and extended by the clauses that ARE the slave environment assumed in c_down_burst:
#   G1 err is never raised, ack only for a presented beat or in the cycle after a presented beat tagged 010        (= slave_b4)
#   G2 an acknowledged read beat that selects the tracked byte returns the value of the last ACKNOWLEDGED write beat that
#      selected it (ghost bk, updated at ack as in c_down_burst; the SRAM contract's own ghost is updated at the request)  (= abstract memory)
# In the other direction c_down_burst proves A.hold (= ens.s.hold) and A.burst (= ens.s.burst-seq, same ghost, same b4_next_adr)
# and that only linear bursts are emitted (ens.s.bte-linear), which is assumed here.
def c_link_sram(depth, dw):
    h = c_sram_burst(depth, dw, aw=8, findings=())
    d = h.dut; bus = d.bus; V = h.v
    h.name = f"AG-link wishbone.SRAM(burst,{depth}x{dw}) as slave of DownConverter"
    NL = dw // 8; LW = max(1, log2(NL)); AW = (depth - 1).bit_length()
    h.assume(V(bus.bte) == K(0, 2), "AG link: only linear bursts are presented (guaranteed by DownConverter: ens.s.bte-linear)")
    held = h.held[""]; pend = b(held.pend)
    G = lambda n: h.ghosts[n][0]
    gw = h.consts_decl["gw"]; gl = h.consts_decl["gl"]; gv = G("gv")
    rq = req(h, bus); ack = b(V(bus.ack)); we = b(V(bus.we)); xfer = z3.And(rq, ack)
    is_open = b(G("open")); beat_adr = z3.If(is_open, G("ea"), V(bus.adr))
    at_gs = z3.Extract(AW - 1, 0, beat_adr) == gw
    sel_g = selbit(V(bus.sel), gl, NL) if NL > 1 else b(V(bus.sel))
    lane = (lambda w: lane_of(w, gl, NL)) if NL > 1 else (lambda w: w)
    bk = h.ghost("bk", 8, h._ginit(h.ghosts["gv"]))
    h.ghost_next(bk, z3.If(z3.And(xfer, we, at_gs, sel_g), lane(V(bus.dat_w)), bk))
    hsel_g = selbit(held.sel, gl, NL) if NL > 1 else b(held.sel)
    hbeat = z3.If(is_open, G("ea"), held.adr)
    wr_pend_g = z3.And(pend, b(held.we), z3.Extract(AW - 1, 0, hbeat) == gw, hsel_g)
    h.hint("link.bk", z3.If(wr_pend_g, gv == lane(held.dat_w), bk == gv))
    h.hint("link.skew0", G("skew") == K(0, 1)); h.hint("link.tainted0", G("tainted") == K(0, 1)); h.hint("link.ebte0", z3.Implies(is_open, G("ebte") == K(0, 2)))
    p_inc = G("prev_rqinc")
    h.ensures.clear(); h.responds.clear(); h.findings.clear(); keep = {k_: v for k_, v in h.covers.items() if k_ in ("cover.end-beat", "cover.resume-after-wait")}; h.covers.clear(); h.covers.update(keep)
    h.ensure("ens.G1.err-never", z3.Not(b(V(bus.err))))
    h.ensure("ens.G1.ack-only-for-beat-or-anticipated", z3.Implies(ack, z3.Or(rq, b(p_inc))))
    h.ensure("ens.G2.read-returns-last-acked-write", z3.Implies(z3.And(xfer, z3.Not(we), at_gs), lane(V(bus.dat_r)) == bk))
    h.respond("resp.G3.no-unbounded-wait", rq, ack, 2)
    h.cover("cover.read-back-in-burst", z3.And(xfer, z3.Not(we), at_gs, is_open, bk != h._ginit(h.ghosts["gv"])), depth=6)
    return h

INIT_RO = [0x11223344, 0xa5a5a5a5, 0x01020304, 0xdeadbeef]
def cases(tier):
    cs = [Case("DownConverter(burst+err,32->16)", c_down_burst, 32, 16), Case("DownConverter(burst+err,64->32)", c_down_burst, 64, 32),
          Case("DownConverter(burst+err,32->8)", c_down_burst, 32, 8), Case("Converter(burst+err,64->32)", c_down_burst, 64, 32, 6, True),
          Case("UpConverter(mem+err,16->32)", c_up_mem, 16, 32), Case("UpConverter(mem+err,8->32)", c_up_mem, 8, 32), Case("UpConverter(mem+err,32->64)", c_up_mem, 32, 64),
          Case("Converter(mem+err,8->16)", c_up_mem, 8, 16, 6, True),
          Case("Remapper(err,origin)", c_remapper_err, "origin"), Case("Remapper(err,both)", c_remapper_err, "both"),
          Case("SRAM(ro,Memory32x4,bus32)", c_sram_ro_mem, 4, 32, 32, INIT_RO), Case("SRAM(ro,Memory16x4,bus32)", c_sram_ro_mem, 4, 16, 32, [0x3344, 0xa5a5, 0x0304, 0xbeef]),
          Case("SRAM(ro,Memory32x4,bus32,explicit)", c_sram_ro_mem, 4, 32, 32, INIT_RO, True),
          Case("AG-link SRAM-burst(8x16)", c_link_sram, 8, 16), Case("AG-link SRAM-burst(8x8)", c_link_sram, 8, 8), Case("AG-link SRAM-burst(8x32)", c_link_sram, 8, 32)]
    if tier == "thorough":
        cs += [Case("DownConverter(burst+err,64->8)", c_down_burst, 64, 8, timeout=1800), Case("DownConverter(burst+err,128->16)", c_down_burst, 128, 16, timeout=1800),
               Case("UpConverter(mem+err,8->64)", c_up_mem, 8, 64), Case("AG-link SRAM-burst(16x8)", c_link_sram, 16, 8), Case("AG-link SRAM-burst(16x16)", c_link_sram, 16, 16)]
    return cs

ASSUMPTIONS = ["M3 (paper): if for an arbitrary but fixed byte address every read returns the last enabled write to it, the device is a flat byte memory",
               "DownConverter/UpConverter (extension): the slave is an abstract byte memory of which only the tracked byte is modelled (ghost bk); it may insert any number of wait states, answer err, and raise the anticipated ack of a registered-feedback burst slave",
               "DownConverter bursts: the clauses about the slave-side beat sequence (ens.s.burst-seq, ens.s.abandon-only-without-request) are conditional on the master's own beat following the B4 rule for linear incrementing bursts (next address, same we/bte, tag 010 or 111); the flat-memory clauses are not",
               "DownConverter err: a slave beat terminated by err transfers nothing (the abstract memory is unchanged)",
               "AG link (paper): DownConverter in front of wishbone.SRAM(bursting) - each side's environment assumptions are the other side's proved guarantees (DownConverter: ens.s.hold, ens.s.burst-seq with the same ghost and b4_next_adr, ens.s.bte-linear; "
               "SRAM: AG-link cases ens.G1.*, ens.G2.*); the circular argument is sound by induction over time because the SRAM's ack/dat_r depend on its registers only (no combinational path from the slave-side request to the answer); "
               "cross-checked by native random simulation of the real composition (not part of the check)"]
