"""C19 (extension X2): SPI master receive path / CSR front end / corner configurations, I2C master data path and timing.
SPIMaster   - MISO capture (ghost shift register fed from pads.miso at the rising SCK edges, MSB first), result register latched only at the end
              of a transfer, loopback (received == bits on the MOSI wire == the relevant bits of the word written), irq = last cycle of a transfer,
              pads without cs_n; the whole transfer contract again behind a real CSRBank (with_csr=True + add_clk_divider: register fields drive
              start/length/cs/cs_mode/loopback/clk_divider, status.done/mode and miso read back), termination by a ranking function;
              corner configurations (clk_divider 0/1, length 0, length > data_width): bounded-duration clause = finding candidates (hangs).
I2CMaster   - (litex/soc/cores/i2c.py) data byte on SDA MSB first at the rising SCL edges, eight bits then the acknowledge slot (SDA released, ack
              sampled while SCL is high), read byte assembled MSB first from the samples taken while SCL is high, acknowledge bit driven from the
              written ack field, command priority, SCL phase length = divider + 1 system clock cycles, bus-side registers (xfer / config read back,
              one-cycle strobes, bus ack) and the idle event behind a real CSRBank.
I2CClockGen - one clk2x tick every load + 1 enabled cycles."""
import z3
from vf.elab import L, locals_of, mk
from vf.hw import *
from migen import *
from litex.gen import LiteXModule
from litex.soc.interconnect import csr_bus
from vf.core import Case

# ================================================================================================== SPIMaster
def _low(x, n, WD):
    """the low n bits of x (n a bit-vector term, value <= x.size()), in width WD > x.size()"""
    mask = (z3.BitVecVal(1, WD) << zx(n, WD)) - 1
    return zx(x, WD) & mask

def _wd(dw): return max(dw + 2, 18)

def _spi_contract(h, d, dw, mode, DIV, LEN, LB, scope="legal", global_div=True):
    """the transfer contract of SPIMaster over abstract configuration terms (rigid constants or CSR storage registers):
    DIV 16 bit divider, LEN 8 bit length, LB 1 bit loopback - all stable while a transfer is in progress (caller's assumptions)"""
    V = h.v; pads = d.pads
    st, enc = d.fsm.state, d.fsm.encoding
    idle, sstart, run, stop = [eqc(V(st), enc[n]) for n in ("IDLE", "START", "RUN", "STOP")]
    n_idle = eqc(h.n(st), enc["IDLE"])
    busy = z3.Not(idle)
    one, zero = K(1, 1), K(0, 1)
    # internal registers: by constructor-local name, else by shape (a harmless rename must not lose the invariants); a group of hints whose register is not found is dropped
    def ok_(x): return x is not None and x in h.ts.var
    csr_regs = {c.storage for c in (getattr(d, n, None) for n in ("_control", "_mosi", "_cs", "_loopback", "_clk_divider")) if c is not None and hasattr(c, "storage")}
    from vf.zutil import get_vars
    def find(name, width, exclude, reads=None):
        x = L(d, name)
        if ok_(x): return x
        cand = [s_ for s_ in h.ts.state if s_.nbits == width and s_ not in exclude and s_ not in csr_regs and s_ in getattr(h.ts, "orig_signals", h.ts.state)]
        if reads is not None and len(cand) > 1:      # told apart by what the register is loaded from
            cand = [s_ for s_ in cand if any(str(x_) == str(V(reads)) for x_ in get_vars(h.inline_comb(h.n(s_))))]
        return cand[0] if len(cand) == 1 else None
    cdiv = find("clk_divider", 16, {d.clk_divider}); count = L(d, "count"); ms = L(d, "mosi_sel")
    misod = find("miso_data", dw, {d.miso, d.mosi, L(d, "mosi_data")}, pads.miso); md = find("mosi_data", dw, {d.miso, d.mosi, misod}, d.mosi)
    haveA = ok_(count) and ok_(cdiv); haveB = haveA and ok_(md) and ok_(ms); haveC = haveA and ok_(misod); have = haveA
    if not (haveA and haveB and haveC): h.use_auto = True
    rise = z3.And(z3.Not(b(V(pads.clk))), b(h.n(pads.clk)))                   # rising SCK edge at the pad = the capture instant (CPOL = 0, CPHA = 0)
    start_now = z3.And(idle, b(V(d.start)))
    # ---- ghosts (specification state)
    np_ = h.ghost("npulses", 9); h.ghost_next(np_, z3.If(idle, K(0, 9), z3.If(rise, np_ + 1, np_)))
    gd = h.ghost("gdata", dw); h.ghost_next(gd, z3.If(start_now, V(d.mosi), gd))                   # the word offered when the transfer was started
    grx = h.ghost("grx", dw); gtx = h.ghost("gtx", dw)                                                # what an SPI monitor on the wires shifts in at the rising edges, MSB first
    def shin(g, bit): return z3.Concat(z3.Extract(dw - 2, 0, g), bit) if dw > 1 else bit
    h.ghost_next(grx, z3.If(idle, K(0, dw), z3.If(rise, shin(grx, V(pads.miso)), grx)))
    h.ghost_next(gtx, z3.If(idle, K(0, dw), z3.If(rise, shin(gtx, V(pads.mosi)), gtx)))
    WD = _wd(dw); W = 32
    ln9 = zx(LEN, 9)
    top = (ln9 - 1) if mode == "aligned" else K(dw - 1, 9)
    def bit_at(word, idx9):
        r = z3.Extract(dw - 1, dw - 1, word)
        for j in reversed(range(dw - 1)): r = z3.If(idx9 == K(j, 9), z3.Extract(j, j, word), r)
        return r
    def sent(n9):       # the n9 bits of the offered word that have been sent after n9 clock pulses, right aligned
        return z3.LShR(zx(gd, WD), zx(top + 1 - n9, WD))
    irq = b(V(d.irq))
    if scope == "legal" and have:
        div = zx(DIV, W); cnt = zx(V(cdiv), W); ln = zx(LEN, W); c_ = zx(V(count), W); half = z3.LShR(div, 1)
        # ---- helper invariants (from the code)
        if global_div: h.hint("cnt<div", z3.ULT(cnt, div))
        h.hint("cnt<div.xfer", z3.Implies(z3.Or(run, stop), z3.ULT(cnt, div)))
        h.hint("clk", b(V(pads.clk)) == z3.And(run, z3.UGE(cnt, half)))
        h.hint("np", z3.Implies(run, np_ == zx(V(count), 9) + zx(V(pads.clk), 9)))
        h.hint("np0", z3.Implies(sstart, np_ == K(0, 9)))
        h.hint("npstop", z3.Implies(stop, np_ == ln9))
        h.hint("count<len", z3.Implies(run, z3.ULT(c_, ln)))
        h.hint("st", ult(V(st), 4))
        h.hint("stop-phase", z3.Implies(stop, z3.ULT(cnt, half)))
        if haveB:
            h.hint("md", z3.Implies(busy, V(md) == gd))
            h.hint("ms.start", z3.Implies(sstart, zx(V(ms), 9) == top))
            MW = V(ms).size()
            h.hint("ms.run", z3.Implies(run, z3.Extract(MW - 1, 0, zx(V(ms), 9) + zx(V(count), 9) + 1) == z3.Extract(MW - 1, 0, top)))
        h.hint("mosi.run", z3.Implies(run, V(pads.mosi) == bit_at(gd, top - zx(V(count), 9))))
        if haveC: h.hint("rx", z3.Implies(z3.Or(run, stop), _low(V(misod) ^ z3.If(b(LB), gtx, grx), np_, WD) == K(0, WD)))
        h.hint("tx", z3.Implies(z3.Or(run, stop), _low(gtx, np_, WD) == _low(z3.Extract(dw - 1, 0, sent(np_)), np_, WD)))
        h.hint("np<=len", z3.Implies(busy, z3.ULE(np_, ln9)))
        # ---- termination: a lexicographic ranking function (SCK periods still to go, cycles to the next divider wrap) decreases in every busy cycle
        def periods(stx, cx):
            return z3.If(eqc(stx, enc["START"]), ln + 2, z3.If(eqc(stx, enc["RUN"]), ln - cx + 1, z3.If(eqc(stx, enc["STOP"]), K(1, W), K(0, W))))
        p0 = periods(V(st), c_); p1 = periods(h.n(st), zx(h.n(count), W))
        q0 = zx(DIV - 1 - V(cdiv), W); q1 = zx(h.primed(DIV) - 1 - h.n(cdiv), W)          # modulo 2^16: in START the free-running divider may have to wrap first
        h.ensure("ens.rank", z3.Implies(busy, z3.Or(n_idle, z3.ULT(p1, p0), z3.And(p1 == p0, z3.ULT(q1, q0)))))
        xfer = z3.Or(run, stop, z3.And(sstart, cnt == div - 1))
        # ---- SCK timing: period = divider cycles, high time = divider - divider//2; bounded start-up and wind-down (together: a transfer is busy for
        #      less than (divider + divider//2) + (length - 1) * divider + divider <= (length + 2) * divider cycles - the clause the corner cases violate)
        TW = 18
        tr = h.ghost("since_rise", TW); h.ghost_next(tr, z3.If(rise, K(0, TW), z3.If(tr == K((1 << TW) - 1, TW), tr, tr + 1)))
        age = h.ghost("age", TW); h.ghost_next(age, z3.If(idle, K(0, TW), z3.If(age == K((1 << TW) - 1, TW), age, age + 1)))          # busy cycles so far
        d17 = zx(DIV, TW); c17 = zx(V(cdiv), TW); h17 = z3.LShR(d17, 1)
        h.hint("tr.high", z3.Implies(z3.And(run, b(V(pads.clk))), tr + h17 == c17))
        h.hint("tr.low", z3.Implies(z3.And(z3.Or(stop, z3.And(run, z3.Not(b(V(pads.clk))))), np_ != K(0, 9)), tr + h17 == c17 + d17))
        h.ensure("ens.sck.period", z3.Implies(z3.And(rise, np_ != K(0, 9)), tr + 1 == d17))                       # consecutive rising edges are exactly `divider` cycles apart
        h.ensure("ens.sck.high", z3.Implies(z3.And(b(V(pads.clk)), z3.Not(b(h.n(pads.clk)))), tr + 1 + h17 == d17))   # SCK is high for divider - divider//2 cycles
        h.ensure("ens.sck.last-to-done", z3.Implies(z3.And(busy, np_ == ln9), z3.ULT(tr, d17)))                   # the transfer ends less than one period after the last rising edge
        if global_div:
            h.hint("age.start", z3.Implies(sstart, z3.ULE(age, c17)))
            h.hint("age.run0", z3.Implies(z3.And(run, np_ == K(0, 9)), z3.ULE(age, d17 + c17)))
            h.ensure("ens.sck.first-edge", z3.Implies(z3.And(busy, np_ == K(0, 9)), z3.ULT(age, d17 + h17)))      # the first rising edge comes less than 1.5 periods after the start
    elif scope == "legal":
        xfer = None
    if scope == "legal":
        # ---- pulse count, framing, MOSI (as in C19_periph.c_spi; re-stated here because the geometries / pads / front end differ)
        h.ensure("ens.pulse-only-in-run", z3.Implies(rise, run))
        h.ensure("ens.pulses", z3.Implies(z3.And(run, eqc(h.n(st), enc["STOP"])), np_ == ln9))
        h.ensure("ens.clk-idle-low", z3.Implies(z3.Not(run), z3.Not(b(V(pads.clk)))))
        h.ensure("ens.mosi", z3.Implies(rise, V(pads.mosi) == bit_at(gd, top - np_)))               # k-th rising edge (k = 0 first): bit top-k of the offered word
        if xfer is not None:
            ncs_ = V(d.cs).size()
            h.ensure("ens.cs", h.n(pads.cs_n) == ~(V(d.cs) & z3.If(z3.Or(xfer, b(V(d.cs_mode))), K((1 << ncs_) - 1, ncs_), K(0, ncs_))))
        # ---- MISO capture
        h.ensure("ens.capture.count", z3.Implies(irq, np_ == ln9))                                   # exactly `length` capture instants per transfer
        h.ensure("ens.capture.word", z3.Implies(z3.And(irq, z3.Not(b(LB))), _low(h.n(d.miso), LEN, WD) == _low(grx, LEN, WD)))     # received word = the bits the slave drove at the rising edges, MSB first
        h.ensure("ens.capture.loopback", z3.Implies(z3.And(irq, b(LB)), _low(h.n(d.miso), LEN, WD) == _low(gtx, LEN, WD)))       # loopback: received = the bits on the MOSI wire
        h.ensure("ens.capture.loopback-word", z3.Implies(z3.And(irq, b(LB)), _low(h.n(d.miso), LEN, WD) == _low(z3.Extract(dw - 1, 0, sent(ln9)), LEN, WD)))   # = the transmitted bits of the offered word
        h.ensure("ens.capture.latch-only-at-end", z3.Implies(z3.Not(irq), h.n(d.miso) == V(d.miso)))   # the result register is stable between transfers and during a transfer
    h.ensure("ens.irq", irq == z3.And(busy, n_idle))                                                # one pulse, in the last cycle of the transfer
    h.ensure("ens.done", b(V(d.done)) == z3.And(idle, z3.Not(b(V(d.start)))))
    h.ensure("ens.start", z3.Implies(idle, eqc(h.n(st), enc["START"]) == b(V(d.start))))         # a transfer begins exactly on start while idle
    return dict(idle=idle, sstart=sstart, run=run, stop=stop, busy=busy, np=np_, grx=grx, gtx=gtx, gd=gd, irq=irq, rise=rise, misod=misod if haveC else None, n_idle=n_idle)

class _PadsNoCs:
    def __init__(self): self.clk = Signal(); self.mosi = Signal(); self.miso = Signal()

def _spi_pads(kind):
    if kind == "nocs": return _PadsNoCs()
    if kind == "cs4": return Record([("clk", 1), ("cs_n", 4), ("mosi", 1), ("miso", 1)])
    return None

def c_spi_rx(dw=8, mode="raw", pads_kind="std"):
    """SPIMaster without CSRs: divider (>= 2), length (1..data_width) and loopback are rigid symbolic configuration constants"""
    from litex.soc.cores.spi import SPIMaster
    d = mk(SPIMaster, _spi_pads(pads_kind), dw, 100e6, 25e6, with_csr=False, mode=mode); pads = d.pads
    h = HwCheck(f"SPIMaster.rx(dw={dw},{mode},{pads_kind})", d, [d.start, d.length, d.mosi, d.cs, d.cs_mode, d.loopback, d.clk_divider, pads.miso])
    V = h.v
    pdiv = h.const("div", 16); plen = h.const("len", 8); plb = h.const("lb", 1)
    h.assume(z3.And(V(d.clk_divider) == pdiv, uge(pdiv, 2)), "the clock divider is configuration: constant and >= 2")
    h.assume(z3.And(V(d.length) == plen, uge(plen, 1), ule(plen, dw)), "transfer length constant during a transfer, 1..data_width (modelled as a rigid constant)")
    h.assume(V(d.loopback) == plb, "loopback is configuration: constant (rigid symbolic bit)")
    x = _spi_contract(h, d, dw, mode, pdiv, plen, plb)
    h.cover("cover.capture", z3.And(x["irq"], plb == K(0, 1), plen == K(min(dw, 8), 8), pdiv == K(2, 16), _low(x["grx"], plen, _wd(dw)) == K(0xA5 & ((1 << min(dw, 8)) - 1), _wd(dw))), depth=2 * min(dw, 8) + 8)
    h.cover("cover.loopback", z3.And(x["irq"], plb == K(1, 1), plen == K(min(3, dw), 8), pdiv == K(2, 16), _low(x["gtx"], plen, _wd(dw)) == K(5 & ((1 << min(3, dw)) - 1), _wd(dw))), depth=16)
    h.bmc_depth = 2 * min(dw, 8) + 8
    h.functions = ["litex.soc.cores.spi.spi_master.SPIMaster.__init__"]
    return h

def c_spi_corner(dw=8, what="div<2"):
    """corner configurations outside 'divider >= 2, 1 <= length <= data_width': does every started transfer finish?
    The bounded-duration clause (a transfer takes at most (length + 2) SCK periods) is a finding candidate: see tools/replay_spi_master_hang.py"""
    from litex.soc.cores.spi import SPIMaster
    d = mk(SPIMaster, None, dw, 100e6, 25e6, with_csr=False, mode="raw"); pads = d.pads
    h = HwCheck(f"SPIMaster.corner(dw={dw},{what})", d, [d.start, d.length, d.mosi, d.cs, d.cs_mode, d.loopback, d.clk_divider, pads.miso])
    V = h.v
    pdiv = h.const("div", 16); plen = h.const("len", 8); plb = h.const("lb", 1)
    legal_len = z3.And(uge(plen, 1), ule(plen, dw))
    if what == "div<2":
        h.assume(z3.And(V(d.clk_divider) == pdiv, ult(pdiv, 2)), "corner case: the clock divider is constant and 0 or 1")
        h.assume(z3.And(V(d.length) == plen, legal_len), "transfer length constant, 1..data_width")
    elif what == "len=0":
        h.assume(z3.And(V(d.clk_divider) == pdiv, uge(pdiv, 2)), "the clock divider is constant and >= 2")
        h.assume(z3.And(V(d.length) == plen, plen == K(0, 8)), "corner case: transfer length 0")
    else:
        h.assume(z3.And(V(d.clk_divider) == pdiv, uge(pdiv, 2)), "the clock divider is constant and >= 2")
        h.assume(z3.And(V(d.length) == plen, ugt(plen, dw)), "corner case: transfer length > data_width")
    h.assume(V(d.loopback) == plb, "loopback is configuration: constant (rigid symbolic bit)")
    x = _spi_contract(h, d, dw, "raw", pdiv, plen, plb, scope="corner")
    AW = 26
    age = h.ghost("age", AW); h.ghost_next(age, z3.If(x["idle"], K(0, AW), z3.If(age == K((1 << AW) - 1, AW), age, age + 1)))      # busy cycles so far
    periods = zx(plen, AW) + 2
    bound = periods * z3.If(ult(pdiv, 1), K(1, AW), zx(pdiv, AW))                                   # (length + 2) SCK periods of max(divider, 1) cycles
    clause = z3.Implies(x["busy"], z3.ULE(age, bound))
    name = {"div<2": "finding.spi-master-hang-divider-0-1", "len=0": "finding.spi-master-hang-length-0"}.get(what, "finding.spi-master-hang-length-over-data-width")
    text = {"div<2": "SPIMaster with clk_divider 0 or 1 (a value the 16-bit clk_divider CSR accepts): clk_rise = (counter == clk_divider[1:] - 1) can never be true (-1), so a started transfer "
                     "never leaves STOP (divider 1) / START (divider 0, clk_fall never true either): done stays 0 for ever; tools/replay_spi_master_hang.py div1 / div0",
            "len=0": "SPIMaster started with length 0: RUN compares count == length - 1 = -1, never true: SCK toggles for ever, done stays 0; tools/replay_spi_master_hang.py len0"}.get(what,
                     "SPIMaster started with length > data_width: count (bits_for(data_width-1) bits) wraps before it reaches length - 1: SCK toggles for ever, done stays 0 (lengths that still fit the counter, e.g. 13..16 for data_width 12, finish with more than data_width pulses); tools/replay_spi_master_hang.py lenbig")
    if what == "div<2":      # two mechanisms, two findings
        h.finding("finding.spi-master-hang-divider-1", z3.Implies(pdiv == K(1, 16), clause), "SPIMaster with clk_divider = 1 (a value the 16-bit clk_divider CSR accepts): the divider counter is reset in every cycle (clk_fall always true) and "
                  "clk_rise = (counter == clk_divider[1:] - 1 = -1) is never true: no SCK pulse is produced and a started transfer never leaves STOP - done stays 0 for ever (also in the generated Verilog: 0 == 16'hFFFF); tools/replay_spi_master_hang.py div1")
        h.finding("finding.spi-master-hang-divider-0", z3.Implies(pdiv == K(0, 16), clause), "SPIMaster with clk_divider = 0: clk_rise and clk_fall both compare the counter with -1, never true in the simulator: a started transfer never leaves START - done stays 0 "
                  "for ever (generated Verilog: 16-bit compare with 16'hFFFF, both strobes coincide every 65536 cycles and the rise branch wins: the transfer ends after (length + 2) * 65536 cycles without a single SCK pulse); tools/replay_spi_master_hang.py div0")
    else: h.finding(name, clause, text)
    h.cover("cover.started", z3.And(x["busy"], age == K(3, AW)), depth=8)
    h.bmc_depth = 4 * dw + 24
    h.functions = ["litex.soc.cores.spi.spi_master.SPIMaster.__init__"]
    return h

def c_spi_csr(dw=8, mode="raw"):
    """SPIMaster(with_csr=True) + add_clk_divider() behind a real CSRBank (32-bit CSR bus): the register fields drive the core, the status / miso
    registers read back, and the whole transfer contract holds for transfers programmed through the registers"""
    from litex.soc.cores.spi import SPIMaster
    class Top(LiteXModule):
        def __init__(self):
            self.spi = SPIMaster(None, dw, 100e6, 25e6, with_csr=True, mode=mode)
            self.spi.add_clk_divider()
            self.bus = csr_bus.Interface(data_width=32, address_width=14)
            self.bank = csr_bus.CSRBank(self.spi.get_csrs(), address=0, bus=self.bus)
    top = mk(Top); d = top.spi; bus = top.bus; pads = d.pads
    h = HwCheck(f"SPIMaster.csr(dw={dw},{mode})", top, [bus.adr, bus.we, bus.re, bus.dat_w, pads.miso])
    V = h.v; one, zero = K(1, 1), K(0, 1)
    regs = dict(control=d._control, status=d._status, mosi=d._mosi, miso=d._miso, cs=d._cs, loopback=d._loopback, clk_divider=d._clk_divider)
    idx = {}
    for n, r in regs.items():
        sc = r.simple_csrs
        if len(sc) != 1 or sc[0] not in top.bank.simple_csrs: raise SidecarMismatch(f"SPIMaster CSR {n}: not a single word of the bank")
        idx[n] = top.bank.simple_csrs.index(sc[0])
    AWB = len(bus.adr)
    def sel(n): return V(bus.adr) == K(idx[n], AWB)                     # bank at address 0 (paging 0x800 bytes = 512 words)
    def wr(n): return z3.And(b(V(bus.we)), sel(n))
    def reg32(r): return zx(V(r.storage), 32) if len(r.storage) <= 32 else z3.Extract(31, 0, V(r.storage))       # register as the 32-bit word software sees (layout from the CSR descriptions, whatever the storage width)
    ctrl = reg32(d._control); DIV = z3.Extract(15, 0, reg32(d._clk_divider)); LEN = z3.Extract(15, 8, ctrl); LB = z3.Extract(0, 0, reg32(d._loopback))
    dat = V(bus.dat_w)
    st, enc = d.fsm.state, d.fsm.encoding
    idle = eqc(V(st), enc["IDLE"]); busy = z3.Not(idle)
    pulse = z3.And(b(V(d._control.re)), z3.Extract(0, 0, ctrl) == one)
    active = z3.Or(busy, pulse)
    # ---- software discipline (partner = the CPU programming the registers)
    h.assume(z3.Implies(wr("clk_divider"), z3.And(z3.UGE(z3.Extract(15, 0, dat), K(2, 16)), z3.Not(active))), "software programs the divider register with values >= 2 and not while a transfer is in progress (start pulse to done)")
    h.assume(z3.Implies(z3.And(wr("control"), z3.Extract(0, 0, dat) == one), z3.And(z3.UGE(z3.Extract(15, 8, dat), K(1, 8)), z3.ULE(z3.Extract(15, 8, dat), K(dw, 8)))), "a write to the control register that sets start carries a length of 1..data_width")
    h.assume(z3.Implies(z3.And(wr("control"), active), z3.Extract(15, 8, dat) == LEN), "while a transfer is in progress the control register is only rewritten with the same length (a repeated start command is allowed and ignored)")
    h.assume(z3.Implies(z3.And(wr("loopback"), active), z3.Extract(0, 0, dat) == LB), "the loopback register is not changed while a transfer is in progress")
    # ---- register wiring (from the register descriptions in add_csr / add_clk_divider)
    p_wr = {n: h.prev("wr_" + n, bv1(wr(n))) for n in ("control", "mosi", "cs", "loopback", "clk_divider")}
    p_dat = h.prev("dat_w", dat)
    for n, r in (("control", d._control), ("mosi", d._mosi), ("cs", d._cs), ("loopback", d._loopback), ("clk_divider", d._clk_divider)):
        w = min(len(r.storage), 32)
        h.ensure(f"ens.csr.{n}.write", z3.Extract(w - 1, 0, h.n(r.storage)) == z3.If(wr(n), z3.Extract(w - 1, 0, dat), z3.Extract(w - 1, 0, V(r.storage))))        # written by a bus write to its address, stable otherwise
        h.hint(f"re.{n}", V(r.re) == p_wr[n])
    cw = min(len(d._control.storage), 32)
    h.hint("ctrl.written", z3.Implies(b(p_wr["control"]), z3.Extract(cw - 1, 0, ctrl) == z3.Extract(cw - 1, 0, p_dat)))
    h.ensure("ens.csr.start", b(V(d.start)) == z3.And(b(p_wr["control"]), z3.Extract(0, 0, p_dat) == one))             # a one-cycle start pulse in the cycle after a write with bit 0 set
    h.ensure("ens.csr.length", V(d.length) == LEN)
    h.ensure("ens.csr.mosi", zx(V(d.mosi), 32) == reg32(d._mosi))
    ncs = len(d.cs)
    h.ensure("ens.csr.cs", z3.And(V(d.cs) == z3.Extract(ncs - 1, 0, reg32(d._cs)), V(d.cs_mode) == z3.Extract(16, 16, reg32(d._cs))))      # sel in bits ncs-1:0, mode in bit 16
    h.ensure("ens.csr.loopback", V(d.loopback) == LB)
    h.ensure("ens.csr.clk_divider", V(d.clk_divider) == DIV)
    modebit = 1 if mode == "aligned" else 0
    h.ensure("ens.csr.status.read", z3.Implies(sel("status"), h.n(bus.dat_r) == zx(z3.Concat(K(modebit, 1), V(d.done)), 32)))       # done in bit 0, mode in bit 1, one cycle after the address
    h.ensure("ens.csr.miso.read", z3.Implies(sel("miso"), h.n(bus.dat_r) == zx(V(d.miso), 32)))
    h.ensure("ens.csr.control.read", z3.Implies(sel("control"), h.n(bus.dat_r) == ctrl))
    h.ensure("ens.csr.clk_divider.read", z3.Implies(sel("clk_divider"), h.n(bus.dat_r) == zx(DIV, 32)))
    # ---- configuration invariants (from the discipline)
    h.hint("div>=2", z3.UGE(DIV, K(2, 16)))
    legal = z3.And(z3.UGE(LEN, K(1, 8)), z3.ULE(LEN, K(dw, 8)))
    h.hint("len.pulse", z3.Implies(pulse, legal))
    h.hint("len.busy", z3.Implies(busy, legal))
    x = _spi_contract(h, d, dw, mode, DIV, LEN, LB, global_div=False)
    h.cover("cover.programmed-transfer", z3.And(x["irq"], LEN == K(2, 8), LB == zero, DIV == K(2, 16), _low(x["grx"], LEN, _wd(dw)) == K(2, _wd(dw))), depth=20)
    h.bmc_depth = 20
    h.functions = ["litex.soc.cores.spi.spi_master.SPIMaster.__init__", "litex.soc.cores.spi.spi_master.SPIMaster.add_csr", "litex.soc.cores.spi.spi_master.SPIMaster.add_clk_divider"]
    return h

# ================================================================================================== I2CMaster / I2CMasterMachine / I2CClockGen
def _i2c_ext(timing=False, ensures=True):
    """extends the pad-level contract of C19_serial_ext (mode 'disciplined': commands only while idle, divider >= 1 programmed first) by the data path:
    what is on SDA at every rising SCL edge of a write / read command, what the read shift register and the ack flag contain afterwards, the
    command priority of the bit machine, the bus-side registers; timing=True adds the SCL phase lengths (needs a constant divider)"""
    from contracts.C19_serial_ext import _c_i2c_common
    h, d, m, S, _ = _c_i2c_common("disciplined")
    h.name = "I2CMaster.timing" if timing else "I2CMaster.data"
    V = h.v; bus = d.bus; one, zero = K(1, 1), K(0, 1)
    st, enc = m.fsm.state, m.fsm.encoding
    bits = L(m, "bits"); cnts = [s for s in h.ts.state if s.nbits == 20 and s is not m.cg.load]
    if bits is None or bits not in h.ts.var or len(cnts) != 1: raise SidecarMismatch("I2CMasterMachine: bit counter / divider counter not found")
    cnt = cnts[0]
    B = V(bits); CNT = V(cnt); LOAD = V(m.cg.load)
    p_cmd = h.ghosts["cmd_recent"][0]
    wr = z3.And(b(V(bus.cyc)), b(V(bus.stb)), z3.Not(b(V(bus.ack))), b(V(bus.we)))
    a0 = z3.Extract(0, 0, V(bus.adr))
    wr_xfer = z3.And(wr, a0 == zero); wr_cfg = z3.And(wr, a0 == one)
    dat = V(bus.dat_w); cmdbits = z3.Extract(12, 9, dat)                       # (stop, start, write, read) = bits 12..9
    is_cmd = z3.And(wr_xfer, cmdbits != K(0, 4))
    strobes = z3.Concat(V(m.start), V(m.stop), V(m.write), V(m.read))
    ce = b(V(m.fsm.ce)); busy = z3.Not(S["IDLE"]); n_idle = eqc(h.n(st), enc["IDLE"])
    scl = V(m.scl_o); scl_n = h.n(m.scl_o)                                      # the SCL line (assumption of the base contract: no stretching, single master)
    sda = ~V(d.sda_t.oe)                                                        # SDA as driven by the master (open drain: released = 1)
    sda_in = V(d.sda_t.i)                                                       # SDA as seen by the master (driven by the slave when released)
    rise = z3.And(scl == zero, scl_n == one); fall = z3.And(scl == one, scl_n == zero)
    # ---- ghosts: the last xfer write, the number of rising SCL edges since it, what a bus monitor shifts in
    gbyte = h.ghost("wbyte", 8); gack = h.ghost("wack", 1); gcmd = h.ghost("wcmd", 4); nb = h.ghost("nrise", 4); grd = h.ghost("rbyte", 8)
    lastrw = h.ghost("last_was_byte", 1); follows = h.ghost("read_follows_byte", 1)
    h.ghost_next(gbyte, z3.If(wr_xfer, z3.Extract(7, 0, dat), gbyte)); h.ghost_next(gack, z3.If(wr_xfer, z3.Extract(8, 8, dat), gack))
    h.ghost_next(gcmd, z3.If(is_cmd, cmdbits, gcmd))
    h.ghost_next(nb, z3.If(is_cmd, K(0, 4), z3.If(z3.And(rise, nb != K(15, 4)), nb + 1, nb)))
    def bit(x, i): return z3.Extract(i, i, x)
    def kind(c):   # which command the documented priority executes: start > write > read > stop
        return dict(w=z3.And(bit(c, 1) == one, bit(c, 2) == zero), r=z3.And(bit(c, 0) == one, bit(c, 1) == zero, bit(c, 2) == zero))
    wcmd, rcmd = kind(gcmd)["w"], kind(gcmd)["r"]
    new = kind(cmdbits)
    h.ghost_next(lastrw, z3.If(is_cmd, bv1(z3.Or(new["w"], new["r"])), lastrw))
    h.ghost_next(follows, z3.If(is_cmd, lastrw, follows))                      # this command was preceded by a byte transfer (write = address / data byte, or read)
    sample = z3.And(rcmd, fall, uge(nb, 1), ule(nb, 8))                         # the eight data bits of a read are taken at the end of the SCL high phases 1..8
    h.ghost_next(grd, z3.If(sample, z3.Concat(z3.Extract(6, 0, grd), sda_in), grd))
    # ---- helper invariants (from the code)
    W_ = z3.Or(S["WRITE0"], S["WRITE1"]); RA = z3.Or(S["READACK0"], S["READACK1"]); R_ = z3.Or(S["READ0"], S["READ1"], S["READ2"]); WA = z3.Or(S["WRITEACK0"], S["WRITEACK1"])
    h.hint("x.strobes", z3.Implies(p_cmd == one, z3.And(strobes == z3.Concat(bit(gcmd, 2), bit(gcmd, 3), bit(gcmd, 1), bit(gcmd, 0)), V(m.data) == gbyte, V(m.ack) == gack, nb == K(0, 4))))
    h.hint("x.wstates", z3.Implies(z3.Or(W_, RA), wcmd)); h.hint("x.rstates", z3.Implies(z3.Or(R_, WA), rcmd))
    h.hint("x.ack.rd", z3.Implies(z3.Or(R_, WA), V(m.ack) == gack))
    h.hint("x.w.nb", z3.Implies(W_, z3.And(ule(B, 8), nb + B == K(8, 4))))
    h.hint("x.w.scl", z3.Implies(z3.And(S["WRITE0"], B != K(8, 4)), V(m.scl_o) == one))
    h.hint("x.ra.nb", z3.And(z3.Implies(S["READACK0"], nb == K(8, 4)), z3.Implies(S["READACK1"], nb == K(9, 4))))
    h.hint("x.w.data", z3.Implies(W_, z3.LShR(V(m.data), zx(nb, 8)) == z3.LShR(gbyte << zx(nb, 8), zx(nb, 8))))          # the b = 8 - nb bits still to send are the top bits of the shift register
    h.hint("x.w.sda", z3.Implies(S["WRITE1"], V(m.sda_o) == z3.Extract(0, 0, z3.LShR(gbyte, zx(B - 1, 8)))))
    fol = follows == one        # a read that does not follow a byte transfer (e.g. directly after START: SCL still high, SDA held low) is outside I2C: nothing is claimed for it
    h.hint("x.kind", lastrw == bv1(z3.Or(wcmd, rcmd)))
    h.hint("x.wstates.conv", z3.Implies(z3.And(busy, wcmd), z3.Or(W_, RA))); h.hint("x.rstates.conv", z3.Implies(z3.And(busy, rcmd), z3.Or(R_, WA)))
    h.hint("x.r.nb", z3.Implies(fol, z3.And(z3.Implies(S["READ0"], z3.And(nb == K(0, 4), B == K(7, 4), V(m.scl_o) == zero)), z3.Implies(z3.Or(S["READ1"], S["READ2"]), z3.And(ule(B, 7), nb + B == K(8, 4))))))
    h.hint("x.wa.nb", z3.Implies(fol, z3.And(z3.Implies(S["WRITEACK0"], nb == K(8, 4)), z3.Implies(S["WRITEACK1"], nb == K(9, 4)))))
    # READ1 with bits = b: samples s0..s(j-1), j = 7 - b = nb - 1, sit in data[j:1]; READ2 with bits = b: j = 8 - b = nb samples in data[j-1:0]
    def lowmask(x, n4): return x & ((K(1, 8) << zx(n4, 8)) - 1)
    h.hint("x.r1.data", z3.Implies(z3.And(S["READ1"], fol), lowmask(z3.LShR(V(m.data), K(1, 8)), nb - 1) == lowmask(grd, nb - 1)))
    h.hint("x.r2.data", z3.Implies(z3.And(S["READ2"], fol), lowmask(V(m.data), nb) == lowmask(grd, nb)))
    h.hint("x.wa.data", z3.Implies(z3.And(WA, fol), V(m.data) == grd))
    h.hint("x.wa.sda", z3.Implies(S["WRITEACK0"], V(m.sda_o) == ~gack))
    h.hint("x.r.released", z3.Implies(z3.And(R_, follows == one), V(m.sda_o) == one))
    h.hint("x.byte.end", z3.Implies(z3.And(S["IDLE"], p_cmd == zero, lastrw == one), z3.And(V(m.sda_o) == one, V(m.scl_o) == zero)))     # after a byte transfer: SDA released, SCL low
    h.hint("x.follows", z3.Implies(z3.And(p_cmd == one, fol), z3.And(V(m.sda_o) == one, V(m.scl_o) == zero)))
    if ensures:
        # ---- write: eight data bits MSB first, then the acknowledge slot
        h.ensure("ens.write.msb-first", z3.Implies(z3.And(wcmd, rise, ule(nb, 7)), sda == z3.Extract(0, 0, z3.LShR(gbyte, zx(K(7, 4) - nb, 8)))))    # k-th rising edge (k = 0 first): bit 7-k of the byte written
        h.ensure("ens.write.ack-slot-released", z3.Implies(z3.And(wcmd, rise, nb == K(8, 4)), sda == one))                                           # 9th clock: SDA released for the slave
        h.ensure("ens.write.ack-sampled-scl-high", z3.Implies(z3.And(wcmd, fall, nb == K(9, 4)), h.n(m.ack) == ~sda_in))                           # ack flag = SDA low at the end of the 9th SCL high phase
        h.ensure("ens.write.nine-clocks", z3.Implies(z3.And(wcmd, busy, n_idle), nb == K(9, 4)))
        h.ensure("ens.write.ack-stable", z3.Implies(z3.And(z3.Not(wr_xfer), z3.Not(z3.And(S["READACK1"], ce))), h.n(m.ack) == V(m.ack)))           # the ack flag changes only there (or by a register write)
        # ---- read: eight samples taken while SCL is high, assembled MSB first, then the acknowledge bit from the written ack field
        h.ensure("ens.read.msb-first", z3.Implies(z3.And(rcmd, fol, busy, n_idle), h.n(m.data) == grd))
        h.ensure("ens.read.sda-released", z3.Implies(z3.And(rcmd, follows == one, rise, ule(nb, 7)), sda == one))                                  # the master does not drive SDA during the data bits (read after a byte transfer)
        h.ensure("ens.read.ack-bit", z3.Implies(z3.And(rcmd, fol, rise, nb == K(8, 4)), sda == ~gack))                                                   # 9th clock: ack field 1 -> SDA low (ACK), 0 -> released (NACK)
        h.ensure("ens.read.nine-clocks", z3.Implies(z3.And(rcmd, fol, busy, n_idle), nb == K(9, 4)))
        h.ensure("ens.read.data-stable", z3.Implies(z3.And(S["IDLE"], z3.Not(wr_xfer)), h.n(m.data) == V(m.data)))                                  # the byte stays readable until the next register write
        # ---- command priority of the bit machine (comment in I2CMasterMachine: stop lowest, read, write, start, start with SCL high highest)
        stt, stp, wri, rea = b(V(m.start)), b(V(m.stop)), b(V(m.write)), b(V(m.read))
        def code(n): return K(enc[n], V(st).size())
        nxt = z3.If(z3.And(stt, scl == one), code("START0"), z3.If(stt, code("RESTART0"), z3.If(wri, code("WRITE0"), z3.If(rea, code("READ0"), z3.If(z3.And(stp, scl == zero), code("STOP0"), code("IDLE"))))))
        h.ensure("ens.priority", z3.Implies(S["IDLE"], h.n(st) == z3.If(ce, nxt, code("IDLE"))))
        h.ensure("ens.priority.immediate", z3.Implies(strobes != K(0, 4), ce))                                                                   # a command strobe steps the machine at once (does not wait for the divider)
        # ---- bus side: xfer / config registers
        acc = z3.And(b(V(bus.cyc)), b(V(bus.stb)), z3.Not(b(V(bus.ack))))
        h.ensure("ens.bus.ack", b(h.n(bus.ack)) == acc)                                                                                           # every access acknowledged in the next cycle, for one cycle
        h.ensure("ens.bus.read.xfer", z3.Implies(a0 == zero, h.n(bus.dat_r) == zx(z3.Concat(V(m.idle), K(0, 4), V(m.ack), V(m.data)), 32)))      # data 7:0, ack 8, idle 13
        h.ensure("ens.bus.read.config", z3.Implies(a0 == one, h.n(bus.dat_r) == zx(LOAD, 32)))
        h.ensure("ens.bus.write.xfer", z3.Implies(wr_xfer, z3.And(h.n(m.data) == z3.Extract(7, 0, dat), h.n(m.ack) == bit(dat, 8), h.n(m.read) == bit(dat, 9), h.n(m.write) == bit(dat, 10), h.n(m.start) == bit(dat, 11), h.n(m.stop) == bit(dat, 12))))
        h.ensure("ens.bus.strobe-one-cycle", z3.Implies(z3.Not(wr_xfer), z3.And(h.n(m.read) == zero, h.n(m.write) == zero, h.n(m.start) == zero, h.n(m.stop) == zero)))
        h.ensure("ens.bus.write.config", h.n(m.cg.load) == z3.If(wr_cfg, z3.Extract(19, 0, dat), LOAD))
        h.cover("cover.write-second-bit", z3.And(wcmd, rise, nb == K(1, 4), sda == one, gbyte == K(0x40, 8)), depth=16)
        h.cover("cover.read-second-sample", z3.And(rcmd, sample, nb == K(2, 4), sda_in == one), depth=18)
        # a read that follows a complete write: pinned to one bus schedule (divider := 1, WRITE 0xA5, READ as soon as the core is idle again) so that the deep search is propagation only
        tick = h.ghost("script_t", 3); ok = h.ghost("script_ok", 1, init=1); issued = h.ghost("script_read_issued", 1)
        noacc = z3.Not(z3.And(b(V(bus.cyc)), b(V(bus.stb))))
        full_ = z3.And(b(V(bus.cyc)), b(V(bus.stb)), b(V(bus.we)))
        step0 = z3.And(full_, a0 == one, dat == K(1, 32)); step2 = z3.And(full_, a0 == zero, dat == K((1 << 10) | 0xA5, 32)); stepr = z3.And(full_, a0 == zero, dat == K((1 << 9) | (1 << 8), 32))
        want_read = z3.And(tick == K(7, 3), issued == zero, b(V(m.idle)))
        follow = z3.If(tick == K(0, 3), step0, z3.If(tick == K(2, 3), step2, z3.If(want_read, stepr, noacc)))
        h.ghost_next(tick, z3.If(tick == K(7, 3), tick, tick + 1)); h.ghost_next(ok, z3.If(follow, ok, zero)); h.ghost_next(issued, z3.If(z3.And(want_read, stepr), one, issued))
        h.cover("cover.read-after-write", z3.And(ok == one, rcmd, fol, sample, nb == K(1, 4), sda_in == one, gack == one), depth=50)
        h.bmc_time = 200
    if timing:
        ldc = h.const("load", 20)
        h.assume(z3.Implies(wr_cfg, z3.Extract(19, 0, dat) == ldc), "timing clauses: every write to the divider register carries the same value (the divider is a constant once programmed)")
        EW = 22
        e = h.ghost("since_edge", EW, init=(1 << EW) - 1); le = h.ghost("last_step_edge", 1)
        edge = scl != scl_n
        h.ghost_next(e, z3.If(edge, K(0, EW), z3.If(e == K((1 << EW) - 1, EW), e, e + 1)))                                                   # cycles since the last SCL edge (saturating; 'never' after reset)
        h.ghost_next(le, z3.If(S["IDLE"], zero, z3.If(ce, bv1(edge), le)))
        cfg = h.ghosts["configured"][0]
        h.hint("t.load", z3.If(cfg == one, LOAD == ldc, LOAD == K(0, 20)))
        h.hint("t.cnt<=load", z3.ULE(CNT, LOAD))
        h.hint("t.never", z3.Implies(cfg == zero, e == K((1 << EW) - 1, EW)))
        h.hint("t.min", z3.UGE(zx(e, EW + 1) + zx(CNT, EW + 1), zx(LOAD, EW + 1)))           # also while idle: an ignored command (STOP with SCL high) advances the divider by one cycle, and takes at least one cycle
        h.hint("t.exact", z3.Implies(z3.And(busy, le == one), zx(e, EW + 1) + zx(CNT, EW + 1) == zx(LOAD, EW + 1)))
        h.hint("t.ss.nb", z3.Implies(z3.Or(S["STOP0"], S["STOP1"], S["RESTART0"], S["RESTART1"]), nb == K(0, 4)))
        h.hint("t.le", z3.Implies(z3.And(z3.Or(W_, RA, z3.And(z3.Or(R_, WA), fol)), uge(nb, 1)), le == one))
        h.ensure("ens.scl.min-phase", z3.Implies(edge, z3.UGE(e, zx(LOAD, EW))))                  # two SCL edges are never closer than divider + 1 system clock cycles
        h.ensure("ens.scl.phase-exact", z3.Implies(z3.And(edge, uge(nb, 1), z3.Or(z3.Not(rcmd), fol)), e == zx(LOAD, EW)))   # inside a byte transfer every SCL high / low phase lasts exactly divider + 1 cycles
        h.cover("cover.second-edge", z3.And(edge, uge(nb, 1), wcmd, ldc == K(2, 20)), depth=24)
    return h

def c_i2c_data(): return _i2c_ext(False, True)
def c_i2c_timing(): return _i2c_ext(True, False)

def c_i2c_clockgen(width=20, with_ce=False):
    """I2CClockGen: clk2x ticks are exactly load + 1 (enabled) cycles apart, i.e. one SCL phase = divider + 1 system clock cycles, SCL period = 2 * (divider + 1);
    the first tick comes in the first enabled cycle after reset"""
    from litex.soc.cores.i2c import I2CClockGen
    class Top(LiteXModule):
        def __init__(self):
            self.cg = CEInserter()(I2CClockGen(width)) if with_ce else I2CClockGen(width)
    top = mk(Top); cg = top.cg
    h = HwCheck(f"I2CClockGen({width}{',ce' if with_ce else ''})", top, [cg.load] + ([cg.ce] if with_ce else []))
    V = h.v; one, zero = K(1, 1), K(0, 1)
    ld = h.const("load", width)
    h.assume(V(cg.load) == ld, "the divider is configuration: constant")
    en = b(V(cg.ce)) if with_ce else z3.BoolVal(True)
    cnts = [s_ for s_ in h.ts.state if s_.nbits == width]
    tick = z3.And(b(V(cg.clk2x)), en)
    TW = width + 1
    t = h.ghost("since_tick", TW); seen = h.ghost("seen_tick", 1)
    h.ghost_next(t, z3.If(tick, K(0, TW), z3.If(en, t + 1, t))); h.ghost_next(seen, z3.If(tick, one, seen))        # enabled cycles since the last tick
    if len(cnts) == 1:
        c = V(cnts[0])
        h.hint("first", z3.Implies(seen == zero, z3.And(c == K(0, width), t == K(0, TW))))
        h.hint("phase", z3.Implies(seen == one, t + zx(c, TW) == zx(ld, TW)))
    else: h.use_auto = True
    h.ensure("ens.half-period", z3.Implies(z3.And(tick, seen == one), t == zx(ld, TW)))                               # ticks exactly load + 1 enabled cycles apart
    h.ensure("ens.no-early-tick", z3.Implies(z3.And(seen == one, z3.ULT(t, zx(ld, TW))), z3.Not(b(V(cg.clk2x)))))
    h.ensure("ens.first-tick", z3.Implies(seen == zero, b(V(cg.clk2x))))                                              # after reset the generator ticks in its first enabled cycle
    h.cover("cover.second-tick", z3.And(tick, seen == one, ld == K(3, width)), depth=10)
    h.functions = ["litex.soc.cores.i2c.I2CClockGen.__init__"]
    return h

def c_i2c_event():
    """the idle event of I2CMaster behind a real CSRBank (event manager clauses of C15 with the documented event: the core becomes idle)"""
    from migen.fhdl.specials import Tristate
    from litex.soc.cores.i2c import I2CMaster
    from contracts.C15_periph_events import event_clauses, _bus_inputs
    class Pads:
        def __init__(self): self.scl = Signal(); self.sda = Signal()
    class Top(LiteXModule):
        def __init__(self):
            self.c = I2CMaster(Pads())
            self.bus = csr_bus.Interface(data_width=32, address_width=14)
            self.bank = csr_bus.CSRBank(self.c.get_csrs(), address=0, bus=self.bus)
    top = mk(Top); d = top.c; m = d.i2c; ev = d.ev
    f = top.get_fragment()
    f.specials = {s_ for s_ in f.specials if not isinstance(s_, Tristate)}      # technology primitives without a simulation model: the pad inputs become environment inputs
    wb = d.bus
    h = HwCheck("I2CMaster.ev.idle", f, [wb.adr, wb.dat_w, wb.we, wb.cyc, wb.stb, wb.sel, d.scl_t.i, d.sda_t.i] + _bus_inputs(top))
    V = h.v
    st, enc = m.fsm.state, m.fsm.encoding
    strobes = z3.Concat(V(m.start), V(m.stop), V(m.write), V(m.read))
    idle_now = z3.And(eqc(V(st), enc["IDLE"]), strobes == K(0, 4))               # no command pending or executing
    p_idle = h.prev("idle", bv1(idle_now))                                          # history before reset: "not idle" (as the edge detector's reset value)
    becomes_idle = z3.And(idle_now, z3.Not(b(p_idle)))
    event_clauses(h, top, ev, [ev.idle], [becomes_idle], ["idle"])
    h.ensure("ens.idle.level", b(V(ev.idle.trigger)) == idle_now)                  # status bit = raw level "idle"
    h.ensure("ens.idle.flag", b(V(m.idle)) == idle_now)                            # the same level is bit 13 of the xfer register (ens.bus.read.xfer in I2CMaster.data)
    h.cover("cover.irq", b(V(ev.irq)), depth=6)
    done_cmd = h.ghost("cmd_seen", 1); h.ghost_next(done_cmd, z3.If(strobes != K(0, 4), K(1, 1), done_cmd))
    h.cover("cover.idle-after-command", z3.And(becomes_idle, b(done_cmd)), depth=10)
    h.bmc_depth = 12
    h.functions = ["litex.soc.cores.i2c.I2CMaster.__init__ (ev.idle)", "litex.soc.interconnect.csr_eventmanager.EventManager.do_finalize",
                   "litex.soc.interconnect.csr_eventmanager.EventSourceProcess.__init__"]
    return h

def c_i2c_machine():
    """I2CMasterMachine alone, command strobes unconstrained (any combination, any time): the documented command priority in IDLE,
    immediate step on a strobe, divider running exactly while not idle"""
    from litex.soc.cores.i2c import I2CMasterMachine
    m = mk(I2CMasterMachine, 20)
    h = HwCheck("I2CMasterMachine", m, [m.start, m.stop, m.write, m.read, m.sda_i, m.cg.load])
    V = h.v; one, zero = K(1, 1), K(0, 1)
    st, enc = m.fsm.state, m.fsm.encoding
    S = {n: eqc(V(st), c) for n, c in enc.items()}
    bits = L(m, "bits")
    stt, stp, wri, rea = b(V(m.start)), b(V(m.stop)), b(V(m.write)), b(V(m.read))
    run = z3.Or(stt, stp, wri, rea); ce = b(V(m.fsm.ce)); scl = V(m.scl_o)
    def code(n): return K(enc[n], V(st).size())
    nxt = z3.If(z3.And(stt, scl == one), code("START0"), z3.If(stt, code("RESTART0"), z3.If(wri, code("WRITE0"), z3.If(rea, code("READ0"), z3.If(z3.And(stp, scl == zero), code("STOP0"), code("IDLE"))))))
    h.ensure("ens.priority", z3.Implies(S["IDLE"], h.n(st) == z3.If(ce, nxt, code("IDLE"))))                 # stop lowest, read, write, start (restart), start with SCL high highest
    h.ensure("ens.step", ce == z3.Or(run, b(V(m.cg.clk2x))))                                                   # a strobe steps the machine at once, otherwise one step per clk2x tick
    h.ensure("ens.idle-flag", b(V(m.idle)) == z3.And(S["IDLE"], z3.Not(run)))
    h.ensure("ens.divider-runs-while-busy", b(V(m.cg.ce)) == z3.Not(b(V(m.idle))))
    h.ensure("ens.hold", z3.Implies(z3.Not(ce), z3.And(h.n(st) == V(st), h.n(m.scl_o) == V(m.scl_o), h.n(m.sda_o) == V(m.sda_o), h.n(m.data) == V(m.data))))   # nothing moves between steps
    if bits is not None and bits in h.ts.var:
        h.ensure("ens.bitcount", z3.Implies(z3.And(S["IDLE"], ce), h.n(bits) == z3.If(wri, K(8, 4), z3.If(rea, K(7, 4), V(bits)))))   # write: 8 bits then the ack slot; read: first bit + 7 shifts
    h.ensure("ens.levels-idle", z3.Implies(z3.And(S["IDLE"]), z3.And(h.n(m.scl_o) == V(m.scl_o), h.n(m.sda_o) == V(m.sda_o))))          # IDLE never moves the lines
    h.hint("st", ult(V(st), len(enc)))
    h.cover("cover.write-over-read", z3.And(S["IDLE"], wri, rea, z3.Not(stt)), depth=4)
    h.cover("cover.write-step", S["WRITE1"], depth=6)
    h.functions = ["litex.soc.cores.i2c.I2CMasterMachine.__init__"]
    return h

def cases(tier):
    cs = [Case("SPIMaster.rx(8,raw)", c_spi_rx, 8, "raw"), Case("SPIMaster.rx(8,aligned)", c_spi_rx, 8, "aligned"), Case("SPIMaster.rx(8,raw,nocs)", c_spi_rx, 8, "raw", "nocs"),
          Case("SPIMaster.rx(8,aligned,cs4)", c_spi_rx, 8, "aligned", "cs4"), Case("SPIMaster.rx(5,raw)", c_spi_rx, 5, "raw"), Case("SPIMaster.rx(2,aligned)", c_spi_rx, 2, "aligned"),
          Case("SPIMaster.csr(8,raw)", c_spi_csr, 8, "raw"), Case("SPIMaster.csr(8,aligned)", c_spi_csr, 8, "aligned"),
          Case("SPIMaster.corner(8,div<2)", c_spi_corner, 8, "div<2"),
          # SPIMaster.corner(*,len=0) / (*,len>dw) (c_spi_corner "len=0", "len>dw") are not registered: lengths outside 1..data_width are outside what C19 quantifies over
          # ("transfer lengths 1..data_width"); the hangs are recorded as observations in DESIGN.md (native replay tools/replay_spi_master_hang.py len0 / lenbig)
          Case("I2CMaster.data", c_i2c_data, timeout=1500), Case("I2CMaster.timing", c_i2c_timing, timeout=900), Case("I2CMasterMachine", c_i2c_machine), Case("I2CMaster.ev.idle", c_i2c_event),
          Case("I2CClockGen(20)", c_i2c_clockgen, 20, False), Case("I2CClockGen(20,ce)", c_i2c_clockgen, 20, True), Case("I2CClockGen(4,ce)", c_i2c_clockgen, 4, True)]
    if tier == "thorough":
        cs += [Case("SPIMaster.rx(12,raw)", c_spi_rx, 12, "raw"), Case("SPIMaster.rx(12,aligned)", c_spi_rx, 12, "aligned"), Case("SPIMaster.rx(12,raw,nocs)", c_spi_rx, 12, "raw", "nocs"),
               Case("SPIMaster.rx(32,raw)", c_spi_rx, 32, "raw"), Case("SPIMaster.rx(32,aligned,nocs)", c_spi_rx, 32, "aligned", "nocs"),
               Case("SPIMaster.csr(12,raw)", c_spi_csr, 12, "raw"), Case("SPIMaster.csr(32,aligned)", c_spi_csr, 32, "aligned"),
               Case("SPIMaster.corner(32,div<2)", c_spi_corner, 32, "div<2")]
    return cs

ASSUMPTIONS = [
    "SPIMaster.rx: clock divider (>= 2), transfer length (1..data_width) and the loopback bit are rigid symbolic configuration constants; start, mosi, cs, cs_mode and pads.miso are unconstrained in every cycle (start requests at any divider phase, also while busy)",
    "SPIMaster.csr: the CSR bus master is unconstrained except for the software discipline: divider register written with values >= 2 and not during a transfer; a control write that sets start carries a length of 1..data_width; "
    "during a transfer (start pulse to done) the control register is only rewritten with the same length and the loopback register is not changed.  The divider may be reprogrammed between transfers: the free-running "
    "divider counter may then have to wrap (up to 65536 cycles in START), which the ranking function (modulo 2^16 in START) covers; the bounded start-up clause ens.sck.first-edge is therefore only stated for the constant divider of SPIMaster.rx",
    "SPIMaster.corner: configurations outside the two ranges above (divider 0/1, length 0, length > data_width) with the bounded-duration clause as finding candidates; the clause itself follows for the legal ranges from "
    "ens.sck.first-edge + ens.sck.period + ens.pulses + ens.sck.last-to-done of SPIMaster.rx.  Simulator (litex.gen.sim) integer semantics: for divider 0 the generated Verilog compares in 16 bits (0 - 1 = 0xFFFF), so real hardware "
    "does not hang there but produces no SCK pulse (clk_rise and clk_fall coincide every 65536 cycles and the rise branch wins); divider 1 and the two length cases hang in both",
    "I2CMaster.data / .timing: everything assumed by I2CMaster(disciplined) in C19_serial_ext.py (Tristates removed, SCL pad = what the master drives, xfer register written only while idle, divider >= 1 programmed before the first command and only while idle). "
    "Which command executes is taken from the documented priority (start > write > read > stop). The read clauses are stated for a read that follows a byte transfer (write or read), the only place where I2C allows one: "
    "a read issued directly after START/STOP finds SCL high and SDA possibly held low, and nothing is claimed for it. I2CMaster.timing additionally assumes that every divider write carries the same value",
    "I2CMasterMachine / I2CClockGen / I2CMaster.ev.idle: no assumption on the strobes / bus masters (I2CClockGen: constant load)",
]
