"""C16: packet framing - headers round-trip, packets are never interleaved or torn."""
from vf.core import Case
from . import packet_cases as P
from .streamlib import select
def _c(fn, *a, **k): return select(fn(*a, **k), "C16")
def cases(tier): return [Case(c[0], _c, *c[1:]) for c in P.all_cases(tier)]
ASSUMPTIONS = ["producer holds valid and its token until accepted",
               "unaligned headers: raw packets offered to the Depacketizer are at least as long as their header (no last flag on a full header word); the don't-care bytes of a flush beat are not constrained",
               "header_words >= 1 (a header shorter than one data word is a listed finding)",
               "header definitions, data widths and port counts from a grid; all field values, payloads, schedules and mid-packet selector changes symbolic",
               "the Packetizer->Depacketizer round trip follows from the two layout contracts (both are proved against the same header layout spec function) and Header.decode(encode(x)) == x"]
