"""C07 (burst part): wishbone.SRAM built on a bus with bursting=True is a flat byte memory for every Wishbone B4 cycle type:
classic (cti 000), constant-address burst (001), incrementing burst (010; bte 00 linear, 01/10/11 wrap-4/8/16),
end-of-burst (111) and the reserved tags (011..110, which a slave may treat as classic).

Method M3 (symbolic address / tracked byte): rigid constants gw (word) and gl (lane) pick an arbitrary byte; ghost gv holds the
value of the last write that enabled it (or the initial content).  Every acknowledged read of *the address the B4 burst rules
give to the beat* must return gv in that lane; the memory cell of the tracked byte changes exactly when an enabled write of
the beat address selects it.

Specification of the beat addresses (Wishbone B4, chapter 4 "registered feedback bus cycles", section 4.3.3 and table 4-4,
written below as `b4_next_adr`): the first beat of an incrementing burst carries an arbitrary address A0; the address of the
next beat is "one increment more, with the addresses' LSBs modulo the wrap size": the low log2(wrap) bits count modulo the wrap
size, and when they come back to the LSBs of A0 (i.e. after `wrap size` beats) the remaining upper bits advance by one block
(table 4-4: a wrap-4 burst starting at 1 addresses 1-2-3-0-5-6-7-4).  A linear burst (bte 00) simply increments.

Master side (B4: the MASTER drives ADR_O/CTI_O/BTE_O on every beat; LiteX masters do exactly this: Interface.read/write in
test_wishbone.py present adr 0,1,2,3 with cti=2,2,2,7; AvalonMM2Wishbone drives burst_address+1 per beat and can lower stb in
the middle of a write burst; DownConverter presents Cat(count, adr)).  The SRAM never looks at adr after the first beat of an
incrementing burst: it predicts it (adr_counter/adr_counter_offset -> adr_next), which is only right if the master follows the
rule, hence the assumption `A.burst` below."""
import z3
from .wblib import *
from vf.core import Case

CTI_CLASSIC, CTI_CONSTANT, CTI_INCR, CTI_END = 0b000, 0b001, 0b010, 0b111

def lane_of(word, l, nlanes):
    r = z3.Extract(8 * nlanes - 1, 8 * (nlanes - 1), word)
    for j in reversed(range(nlanes - 1)): r = z3.If(l == K(j, l.size()), z3.Extract(8 * j + 7, 8 * j, word), r)
    return r
def selbit(sel, l, nlanes):
    r = z3.Extract(nlanes - 1, nlanes - 1, sel)
    for j in reversed(range(nlanes - 1)): r = z3.If(l == K(j, l.size()), z3.Extract(j, j, sel), r)
    return b(r)

# ---- Wishbone B4 specification functions (independent of the implementation) ------------------------------------------------
def b4_wrap_mask(bte, w):
    """B4 table 4-3: bte 00 linear, 01 4-beat wrap, 10 8-beat wrap, 11 16-beat wrap -> mask of the address LSBs that wrap"""
    return z3.If(bte == K(0, 2), K(0, w), z3.If(bte == K(1, 2), K(3, w), z3.If(bte == K(2, 2), K(7, w), K(15, w))))

def b4_next_adr(a, bte, off0):
    """address of the beat that follows a beat at (word) address `a` in an incrementing burst of type `bte` whose FIRST beat had
    the address LSBs `off0` (4 bits): LSBs incremented modulo the wrap size; when they return to the LSBs of the first beat
    (a whole wrap block has been transferred) the upper bits advance to the next block (B4 table 4-4); linear: a + 1"""
    w = a.size(); m = b4_wrap_mask(bte, w)
    lo = (a + K(1, w)) & m
    block_done = lo == (zx(off0, w) & m)
    return ((a & ~m) + z3.If(block_done, m + K(1, w), K(0, w))) | lo

def c_sram_burst(depth, dw=32, read_only=False, init=None, aw=30, findings=("read", "write"), bmc_time=60):
    bus = wishbone.Interface(data_width=dw, adr_width=aw, bursting=True)
    d = mk(wishbone.SRAM, depth * dw // 8, read_only=read_only, init=init, bus=bus)
    h = HwCheck(f"wishbone.SRAM(burst,{depth}x{dw},ro={read_only},init={'yes' if init else 'no'})", d, m_inputs(bus))
    V = h.v
    AW = (depth - 1).bit_length(); NL = dw // 8; LW = max(1, (NL - 1).bit_length())
    gw = h.const("gw", AW); gl = h.const("gl", LW)
    if (1 << LW) > NL: h.assume(ult(gl, NL))
    mem = h.ts.mems[d.mem]
    def memrd(a):
        r = V(mem[depth - 1])
        for j in reversed(range(depth - 1)): r = z3.If(a == K(j, AW), V(mem[j]), r)
        return r
    if init:
        iv = K(0, 8)
        for w_ in range(depth):
            for l_ in range(NL):
                val = ((init[w_] if w_ < len(init) else 0) >> (8 * l_)) & 0xff
                iv = z3.If(z3.And(gw == K(w_, AW), gl == K(l_, LW)), K(val, 8), iv)
    else:
        iv = 0
    gv = h.ghost("gv", 8, iv)
    low = lambda a: z3.Extract(AW - 1, 0, a)

    # ---- environment: any Wishbone B4 master -------------------------------------------------------------------------------
    p_pend = master_holds(h, bus); held = h.held[""]                       # A.hold: a presented beat is held until it is acknowledged
    rq = req(h, bus); ack = b(V(bus.ack)); we = b(V(bus.we)); cyc = b(V(bus.cyc))
    adr = V(bus.adr); cti = V(bus.cti); bte = V(bus.bte)
    incr = cti == K(CTI_INCR, 3)
    xfer = z3.And(rq, ack)                                                  # a beat is transferred in a cycle with cyc & stb & ack
    # ghost burst context (pure protocol state, no implementation signal except the bus handshake):
    #   open = the last transferred beat of the still asserted cyc was tagged "incrementing burst": another beat of the same burst follows
    #   ea/ewe/ebte = address/direction/type that beat must have, off0 = address LSBs of the first beat of the burst
    opn = h.ghost("open", 1); ea = h.ghost("ea", aw); ewe = h.ghost("ewe", 1); ebte = h.ghost("ebte", 2); off0 = h.ghost("off0", 4)
    is_open = b(opn)
    cur_off0 = z3.If(is_open, off0, z3.Extract(3, 0, adr))
    cont = z3.And(xfer, incr)
    h.ghost_next(opn, z3.If(cont, K(1, 1), z3.If(z3.Or(xfer, z3.Not(cyc)), K(0, 1), opn)))
    h.ghost_next(ea, z3.If(cont, b4_next_adr(adr, bte, cur_off0), ea))
    h.ghost_next(ewe, z3.If(cont, V(bus.we), ewe))
    h.ghost_next(ebte, z3.If(cont, bte, ebte))
    h.ghost_next(off0, z3.If(cont, cur_off0, off0))
    h.assume(z3.Implies(z3.And(is_open, rq), z3.And(adr == ea, V(bus.we) == ewe, bte == ebte, z3.Or(incr, cti == K(CTI_END, 3)))),
             "Wishbone B4 master, incrementing bursts: after a transferred beat tagged cti=010 the next beat presented under the same cyc belongs to the same burst: "
             "same we and bte, cti 010 or 111, and adr = the B4 next address (linear: +1; wrap-4/8/16: LSBs modulo the wrap size, next block after a whole block, table 4-4); "
             "the master may insert wait states (stb low) between beats or abandon the burst by lowering cyc")

    # ---- specification state -------------------------------------------------------------------------------------------------
    # the address a beat refers to: first beat of a cycle/burst: the presented address; further beats of an incrementing burst: the B4 rule
    beat_adr = z3.If(is_open, ea, adr)
    at_gs = low(beat_adr) == gw
    wr_spec = z3.And(rq, we, at_gs, selbit(V(bus.sel), gl, NL))            # an enabled write beat that selects the tracked byte
    gv_next = gv if read_only else z3.If(wr_spec, lane_of(V(bus.dat_w), gl, NL), gv)
    h.ghost_next(gv, gv_next)
    # ---- scope of finding.sram_burst_wrap_resume (pure protocol terms) ------------------------------------------------------------------
    # skew: the open burst is a WRAPPING burst that was last resumed, after a master wait state (a cycle without cyc&stb), at a beat
    #       whose index in the burst is not a multiple of the wrap size (address LSBs of the resumed beat != LSBs of the first beat)
    # in_scope: the beat presented now directly follows a transferred beat of such a burst (the resumed beat itself is not in scope)
    # tainted: some write beat in scope has been presented since reset (the memory content may then differ from the specification)
    p_rq = h.prev("rq", bv1(rq))
    skew = h.ghost("skew", 1); tainted = h.ghost("tainted", 1)
    m_in = b4_wrap_mask(bte, aw)
    resume = z3.And(is_open, rq, z3.Not(b(p_rq)))
    opn_next = z3.If(cont, K(1, 1), z3.If(z3.Or(xfer, z3.Not(cyc)), K(0, 1), opn))
    h.ghost_next(skew, z3.If(opn_next == K(0, 1), K(0, 1), z3.If(resume, bv1((adr & m_in) != (zx(off0, aw) & m_in)), skew)))
    p_ack = h.prev("ack", V(bus.ack))
    sk = b(skew); clean = z3.Not(b(tainted))
    in_scope = z3.And(sk, is_open, b(p_rq), b(p_ack))
    h.ghost_next(tainted, tainted | bv1(z3.And(rq, we, in_scope)))

    # ---- helper invariants (from the code) ----------------------------------------------------------------------------------
    latched = L(d, "adr_latched"); counter = L(d, "adr_counter"); offs = L(d, "adr_counter_offset")
    lat = b(V(latched))
    # what the master presents now if it presents anything: the held beat, else the next beat of the open burst
    pend = b(p_pend)
    xa = z3.If(pend, held.adr, ea); xwe = z3.If(pend, held.we, ewe); xbte = z3.If(pend, held.bte, ebte)
    xoff0 = z3.If(is_open, off0, z3.Extract(3, 0, held.adr))
    m30 = b4_wrap_mask(xbte, aw)
    adr_next_x = (V(counter) & ~m30) | ((V(counter) + zx(V(offs), aw)) & m30)             # adr_next as computed by the SRAM for bte = xbte
    p_inc = h.prev("rqinc", bv1(z3.And(rq, incr)))
    h.hint("mem=gv", z3.Implies(clean, lane_of(memrd(gw), gl, NL) == gv))
    h.hint("latched=p_inc", V(latched) == p_inc)
    h.hint("latched->ack", z3.Implies(lat, ack))
    h.hint("ack->p_rq", z3.Implies(ack, b(p_rq)))
    h.hint("ack&~lat->pend", z3.Implies(z3.And(ack, z3.Not(lat)), z3.And(pend, held.cti != K(CTI_INCR, 3))))
    h.hint("lat->pend|open", z3.Implies(lat, z3.Or(pend, is_open)))
    h.hint("lat&pend->inc", z3.Implies(z3.And(lat, pend), held.cti == K(CTI_INCR, 3)))
    h.hint("pend&open->held=exp", z3.Implies(z3.And(pend, is_open), z3.And(held.adr == ea, held.we == ewe, held.bte == ebte)))
    h.hint("pend=p_rq&~p_ack", pend == z3.And(b(p_rq), z3.Not(b(p_ack))))
    h.hint("p_inc->p_rq", z3.Implies(b(p_inc), b(p_rq)))
    h.hint("p_inc&p_ack->open", z3.Implies(z3.And(b(p_inc), b(p_ack)), is_open))
    h.hint("p_inc=def", b(p_inc) == z3.And(b(p_rq), held.cti == K(CTI_INCR, 3)))
    h.hint("pend->ack", z3.Implies(pend, ack))
    h.hint("xfer&open->p_inc", z3.Implies(z3.And(b(p_rq), b(p_ack), is_open), b(p_inc)))
    mh = b4_wrap_mask(held.bte, aw)
    # a beat of an open burst is found pending only right after a master wait state: skew was decided on that beat
    h.hint("I3.skew", z3.Implies(z3.And(pend, is_open), sk == ((held.adr & mh) != (zx(off0, aw) & mh))))
    # the SRAM's predicted address: for writes the address of the beat being presented, for reads one beat ahead (prefetch)
    h.hint("I1w.first", z3.Implies(z3.And(lat, pend, b(held.we)), adr_next_x == held.adr))
    h.hint("I1.adr_next", z3.Implies(z3.And(lat, z3.Not(sk)), adr_next_x == z3.If(b(xwe), xa, b4_next_adr(xa, xbte, xoff0))))
    # the SRAM's latched start offset agrees (on the wrapping bits) with the LSBs of the first beat of the burst
    h.hint("I2.offset", z3.Implies(z3.And(lat, z3.Not(sk)), (zx(V(offs), aw) & m30) == (zx(xoff0, aw) & m30)))
    # the read address register of the WRITE_FIRST port holds the address of the beat that is acknowledged now
    for s in h.ts.state:
        if s.nbits == AW and s not in h.ts.orig_signals and s not in mem:
            h.hint(f"adrreg:{s.duid}", z3.Implies(z3.And(ack, z3.Not(b(xwe)), z3.Or(pend, z3.Not(sk))), V(s) == low(xa)))

    port = L(d, "port")
    if port is not None and port.dat_r in h.ts.state:       # READ_FIRST port (read_only): the read DATA is registered instead of the address
        h.hint("datreg", z3.Implies(z3.And(ack, z3.Not(b(xwe)), z3.Or(pend, z3.Not(sk)), low(xa) == gw, clean), lane_of(V(port.dat_r), gl, NL) == gv))

    # ---- postconditions (from the property) ---------------------------------------------------------------------------------
    rd_clause = z3.Implies(z3.And(xfer, z3.Not(we), at_gs), lane_of(V(bus.dat_r), gl, NL) == gv)                          # every acknowledged read beat returns the last enabled write
    wr_clause = lane_of(h.primed(memrd(gw)), gl, NL) == gv_next    # the tracked byte changes iff an enabled write beat of its address selects it
    # both are proved for every beat outside the scope of finding.sram_burst_wrap_resume (see skew/tainted above) ...
    h.ensure("ens.read", z3.Implies(z3.And(clean, z3.Not(in_scope)), rd_clause))
    h.ensure("ens.write", z3.Implies(z3.And(clean, z3.Not(in_scope)), wr_clause))
    # ... and are violated inside it (genuine defect, native replay tools/replay_sram_burst_wrap_resume.py)
    if "read" in findings: h.finding("finding.sram_burst_wrap_resume.read", z3.Implies(z3.And(clean, in_scope), rd_clause),
              "wishbone.SRAM(bursting): after a master wait state (stb low) inside a wrapping incrementing burst, at a beat index that is not a multiple of the wrap size, the SRAM "
              "re-latches its wrap offset from the resumed beat and moves to the next wrap block at the wrong beat: read beats return another word than the one B4 table 4-4 addresses")
    if not read_only and "write" in findings:
        p_clean = h.prev("clean", bv1(clean), init=1)
        h.finding("finding.sram_burst_wrap_resume.write", z3.Implies(b(p_clean), lane_of(memrd(gw), gl, NL) == gv),
                  "wishbone.SRAM(bursting): same scenario, write beats: the word of the B4 beat address is left unwritten and another word is overwritten")
    if read_only: h.ensure("ens.ro", lane_of(h.primed(memrd(gw)), gl, NL) == lane_of(memrd(gw), gl, NL))
    # acknowledged exactly once: ack only for a presented beat or in anticipation (registered feedback) of the next beat of an incrementing burst ...
    h.ensure("ens.ack-only-if-req", z3.Implies(ack, z3.Or(rq, b(p_inc))))
    # ... the anticipated ack belongs to the open burst only: after a transferred beat that ends its cycle (classic or end-of-burst tag) ack goes low,
    #     so that a new cycle presented immediately afterwards is not terminated by a stale ack
    h.ensure("ens.ack1", z3.Implies(z3.And(xfer, z3.Or(cti == K(CTI_CLASSIC, 3), cti == K(CTI_END, 3))), z3.Not(b(h.n(bus.ack)))))
    h.ensure("ens.ack-after-idle", z3.Implies(z3.Not(rq), z3.Not(b(h.n(bus.ack)))))
    # burst timing: after any beat tagged incrementing the next beat is acknowledged without wait state
    h.ensure("ens.burst-ack", z3.Implies(z3.And(rq, incr), b(h.n(bus.ack))))
    h.respond("resp.ack", rq, ack, 2)
    # ---- covers -------------------------------------------------------------------------------------------------------------
    nbeat = h.ghost("nbeat", 3); h.ghost_next(nbeat, z3.If(cont, z3.If(nbeat == K(7, 3), nbeat, nbeat + 1), z3.If(z3.Or(xfer, z3.Not(cyc)), K(0, 3), nbeat)))
    h.cover("cover.read-beat3-wrap", z3.And(xfer, z3.Not(we), at_gs, nbeat == K(2, 3), bte == K(1, 2), ult(low(adr), 2) if AW > 1 else z3.BoolVal(True), off0 == K(2, 4)), depth=6)
    h.cover("cover.read-beat5-wrap4-next-block", z3.And(xfer, z3.Not(we), at_gs, nbeat == K(4, 3), bte == K(1, 2), z3.Not(sk)), depth=7)
    h.cover("cover.end-beat", z3.And(xfer, is_open, cti == K(CTI_END, 3)), depth=5)
    h.cover("cover.resume-after-wait", z3.And(is_open, pend, rq), depth=6)
    h.cover("cover.constant-burst-read", z3.And(xfer, z3.Not(we), at_gs, cti == K(CTI_CONSTANT, 3), held.cti == K(CTI_CONSTANT, 3), b(p_rq)), depth=4)
    if not read_only: h.cover("cover.burst-write-changes", z3.And(gv != (iv if not isinstance(iv, int) else K(iv, 8)), nbeat == K(2, 3), b(ewe)), depth=6)
    h.functions = ["litex.soc.interconnect.wishbone.SRAM.__init__"]
    h.cosim_cycles = 16; h.bmc_depth = 12; h.bmc_time = bmc_time
    return h

INIT8 = [0x11223344, 0xa5a5a5a5, 0x01020304, 0xdeadbeef, 0x55aa55aa, 0x0badf00d, 0x8badf00d, 0xfeedface]
def cases(tier):
    # the finding witnesses are searched where the search is cheap (one lane, or initialised memory); the scope guard is the same in every case
    cs = [Case("SRAM-burst(8x8,aw=6)", c_sram_burst, 8, 8, aw=6),
          Case("SRAM-burst(8x32)", c_sram_burst, 8, 32, findings=()),
          Case("SRAM-burst(8x32,init)", c_sram_burst, 8, 32, False, INIT8, findings=("read",)),
          Case("SRAM-burst(8x32,ro)", c_sram_burst, 8, 32, True, INIT8, findings=("read",)),
          Case("SRAM-burst(4x64)", c_sram_burst, 4, 64, findings=())]
    if tier == "thorough":
        # (the write witness is not searched in the big geometries: its BMC does not finish in 600 s there)
        cs += [Case("SRAM-burst(16x32)", c_sram_burst, 16, 32, findings=("read",), bmc_time=400, timeout=3000), Case("SRAM-burst(32x16)", c_sram_burst, 32, 16, findings=("read",), bmc_time=400, timeout=3000),
               Case("SRAM-burst(16x8,aw=5)", c_sram_burst, 16, 8, aw=5)]
    return cs

ASSUMPTIONS = ["wishbone.SRAM bursts: Wishbone B4 table 4-4 is read as written: in a wrapping burst longer than the wrap size the upper address bits advance to the next block after each whole block (1-2-3-0-5-6-7-4)",
               "wishbone.SRAM bursts: a beat is transferred in a cycle with cyc & stb & ack; an ack raised in anticipation of the next burst beat while the master inserts a wait state is ignored by the master (B4 registered feedback)",
               "wishbone.SRAM bursts: ens.read / ens.write are not claimed for beats inside the scope of finding.sram_burst_wrap_resume (wrapping burst resumed after a master wait state at a beat index that is not a multiple of the wrap size) nor after a write beat inside that scope"]
