"""C14: exported software maps tell the truth about the hardware.
Per SoC configuration the real SoCCore(cpu_type=None)/SoC.finalize is elaborated, the real exporters produce csr.h / JSON / CSV;
the generated C accessors are parsed into the bus transactions they perform; E1 extracts the whole SoC (bridge + bank array +
interconnect) and for every accessor word the obligation 'a bus write held at the published address is acknowledged, sets exactly
the published bits of exactly that register and leaves every other CSR storage unchanged' (and the read returns those bits) is
proved by symbolic simulation from an arbitrary idle state, for all data."""
import re, json, time, os, tempfile, itertools, z3
from vf import elab
from vf.elab import mk
from vf.hw import *
from migen import *
from litex.gen import *
from litex.build.generic_platform import *
from litex.build.sim import SimPlatform
from litex.soc.integration.soc_core import SoCCore
from litex.soc.integration import export
from litex.soc.integration.common import get_mem_data
from litex.soc.interconnect.csr import *
from litex.soc.interconnect import wishbone
from vf.core import Case, PROVED, VIOLATED, NOINPUT, UNKNOWN, BOUNDED_OK, OK, VACUOUS

_io = [("sys_clk", 0, Pins(1)), ("sys_rst", 0, Pins(1))]
class P(SimPlatform):
    def __init__(self): SimPlatform.__init__(self, "SIM", _io)
class Periph(LiteXModule):
    def __init__(self, with_mem):
        self.a = CSRStorage(40, name="a", reset=0x1234567890)
        self.b = CSRStatus(9, name="b")
        self.k = CSRStorage(128, name="k")                 # wider than 64 bits: no C accessor, registers after it must still be addressed right
        self.c = CSRStorage(8, name="c")
        self.d = CSRStorage(33, name="d", atomic_write=True)
        self.e = CSRStatus(64, name="e")
        if with_mem:
            self.mem = Memory(32, 16, name="tbl"); self.specials += self.mem
    def get_memories(self): return [self.mem] if hasattr(self, "mem") else []

def build(bus_standard="wishbone", csr_dw=32, paging=0x800, ordering="big", with_mem=False):
    soc = SoCCore(P(), 100e6, cpu_type=None, bus_standard=bus_standard, csr_data_width=csr_dw, csr_paging=paging, csr_ordering=ordering,
                  integrated_rom_size=0, integrated_sram_size=0x100, with_uart=False, with_timer=True, ident="", ident_version=False)
    elab.restore_stderr()
    soc.periph = Periph(with_mem)
    soc.add_ram("scratch", origin=0x2000_0000, size=0x60)          # a region whose size is NOT a power of two (decoded on a 0x80 window): every published byte must answer
    m = wishbone.Interface(data_width=32, address_width=32, addressing="word")
    soc.bus.add_master("tb", m)
    soc.finalize(); elab.restore_stderr()
    return soc, m

ACC_W = re.compile(r"csr_write_simple\((v(?: >> (\d+))?), \(?(?:CSR_BASE \+ )?(0x[0-9a-fA-F]+)L?\)?\);")
ACC_R = re.compile(r"csr_read_simple\(\(?(?:CSR_BASE \+ )?(0x[0-9a-fA-F]+)L?\)?\)")
def parse_accessors(header, csr_base):
    """C accessors -> {name: dict(write=[(shift, byte address)...], read=[(shift, byte address)...])} as the functions perform them"""
    acc = {}
    cur = None; kind = None
    for line in header.splitlines():
        m = re.match(r"static inline \w+ (\w+)_(read|write)\(", line)
        if m: cur, kind = m.group(1), m.group(2); acc.setdefault(cur, dict(write=[], read=[], busword=None)); continue
        if cur is None: continue
        if line.startswith("}"):
            if kind == "read":
                # MSB first: r = w0; r <<= busword; r |= w1 ...  => word i has shift (n-1-i)*busword
                n = len(acc[cur]["read"]); bw = acc[cur]["busword"] or 32
                acc[cur]["read"] = [((n - 1 - i) * bw, a) for i, (_, a) in enumerate(acc[cur]["read"])]
            cur = None; continue
        mw = ACC_W.search(line)
        if mw and kind == "write": acc[cur]["write"].append((int(mw.group(2) or 0), csr_base + int(mw.group(3), 16)))
        mr = ACC_R.search(line)
        if mr and kind == "read": acc[cur]["read"].append((0, csr_base + int(mr.group(1), 16)))
        ms = re.search(r"r <<= (\d+);", line)
        if ms: acc[cur]["busword"] = int(ms.group(1))
    return acc

def all_storages(soc):
    out = {}
    for name, csrs, mapaddr, rmap in soc.csr_bankarray.banks:
        for c in csrs:
            if hasattr(c, "storage"): out[f"{name}_{c.name}"] = c.storage
    return out

def c_soc(cfgname, **cfg):
    t0 = time.time()
    soc, m = build(**cfg)
    csr_base = soc.mem_regions["csr"].origin
    js = json.loads(export.get_csr_json(soc.csr_regions, soc.constants, soc.mem_regions))
    hdr = export.get_csr_header(soc.csr_regions, soc.constants, csr_base)
    csv = export.get_csr_csv(soc.csr_regions, soc.constants, soc.mem_regions)
    acc = parse_accessors(hdr, csr_base)
    busw = cfg.get("csr_dw", 32)
    h = HwCheck(f"SoC({cfgname})", soc, [m.adr, m.dat_w, m.sel, m.cyc, m.stb, m.we, m.cti, m.bte])
    out = []
    sto = all_storages(soc)
    per = soc.periph
    regs = {"periph_a": (per.a.storage, "rw"), "periph_c": (per.c.storage, "rw"), "periph_d": (per.d.storage, "rw"), "periph_k": (per.k.storage, "rw"),
            "periph_b": (per.b.status, "ro"), "periph_e": (per.e.status, "ro"), "ctrl_scratch": (soc.ctrl._scratch.storage, "rw"), "timer0_load": (soc.timer0._load.storage, "rw")}
    # ---- consistency of the publications: csr.h defines == JSON == CSV; accessor's first word == published address
    defs = {mm.group(1).lower(): csr_base + int(mm.group(2), 16) for mm in re.finditer(r"#define CSR_(\w+)_ADDR \(?(?:CSR_BASE \+ )?(0x[0-9a-fA-F]+)L?\)?", hdr)}
    csvaddr = {}
    for line in csv.splitlines():
        f = line.split(",")
        if len(f) >= 3 and f[0] == "csr_register": csvaddr[f[1]] = int(f[2], 16)
    for rname in regs:
        ja = js["csr_registers"][rname]["addr"]
        ok = defs.get(rname) == ja == csvaddr.get(rname)
        if rname in acc and acc[rname]["read"]: ok = ok and acc[rname]["read"][0][1] == ja
        if rname in acc and acc[rname]["write"]: ok = ok and acc[rname]["write"][0][1] == ja
        out.append(res(f"ens.publications-agree[{rname}]", "ensures", PROVED if ok else VIOLATED, 0, "executed (exporters on the elaborated SoC)",
                       info="" if ok else f"csr.h={defs.get(rname)} json={ja} csv={csvaddr.get(rname)} accessor={acc.get(rname, {}).get('read', [])[:1]}"))
    # ---- hardware agreement by symbolic simulation
    allvars = h._allvars(); at = h._at(allvars)
    N = 8 if cfg.get("bus_standard", "wishbone") != "wishbone" or cfg.get("csr_dw", 32) != 32 else 6
    pairs = h._pairs(); basec = h.base()
    unrolled = []
    for k in range(N):
        unrolled += [at(c, k) for c in basec]
        if k > 0: unrolled += [at(a, k) == at(e, k - 1) for a, e in pairs]
    idle0 = [at(z3.Not(b(h.v(m.ack))), 0)]
    # the bus is idle at cycle 0: every control register of the SoC (FSM states, flags, time-out counter, pipeline registers) holds its
    # reset value; the CSR storages, atomic-write staging registers and all memory contents are ARBITRARY
    memcells = set()
    for arr_ in h.ts.mems.values(): memcells |= set(arr_)
    free0 = set(sto.values()) | memcells | {s for s in h.ts.state if (s.name_override or "").endswith("_backstore")}
    idle0 += [at(h.v(s) == K(s.reset.value & ((1 << s.nbits) - 1), s.nbits), 0) for s in h.ts.state if s not in free0]
    def held(addr, we):
        cs = []
        for k in range(N):
            cs += [at(eqc(h.v(m.adr), (addr >> 2) & (2**30 - 1)), k), at(b(h.v(m.cyc)), k), at(b(h.v(m.stb)), k), at(h.v(m.we) == K(1 if we else 0, 1), k), at(h.v(m.sel) == K(15, 4), k), at(h.v(m.cti) == K(0, 3), k), at(h.v(m.bte) == K(0, 2), k)]
            if k > 0: cs.append(at(h.v(m.dat_w), k) == at(h.v(m.dat_w), 0))
        return cs
    def first_ack(k): return z3.And(at(b(h.v(m.ack)), k), *[z3.Not(at(b(h.v(m.ack)), j)) for j in range(k)])
    solver = z3.Solver(); solver.add(*unrolled); solver.add(*idle0)          # one incremental solver per configuration
    def prove(name, pre, goal_at_ack, kind="ensures", what=None):
        goal = z3.Or(*[z3.And(first_ack(k), goal_at_ack(k)) for k in range(1, N - 1)])
        t1 = time.time()
        solver.push(); solver.set("timeout", 60000); solver.add(*pre); solver.add(z3.Not(goal))
        rr = solver.check(); solver.pop()
        st = "unsat" if rr == z3.unsat else ("sat" if rr == z3.sat else "unknown")
        r = res(name, kind, PROVED if st == "unsat" else (UNKNOWN if st == "unknown" else NOINPUT), time.time() - t1, "z3-%s(api,incremental)" % z3.get_version_string())
        if what: r["what"] = what
        return r
    finding_cfg = busw == 8 or cfg.get("ordering", "big") == "little"
    for rname, (sig, mode) in regs.items():
        if busw == 8 and rname not in ("periph_c",): continue
        S = len(sig)
        words = acc.get(rname, {})
        if not words or not (words.get("write") or words.get("read")):
            # no C accessor (register wider than 64 bits): the JSON address with the documented word order
            nw = js["csr_registers"][rname]["size"]; ja = js["csr_registers"][rname]["addr"]
            wl = [((nw - 1 - j) * busw, ja + 4 * j) for j in range(nw)]
            words = dict(write=wl if mode == "rw" else [], read=wl)
        little_multi = cfg.get("ordering", "big") == "little" and len(words["read"]) > 1
        packed8 = busw == 8
        def mk_kind(base):
            if packed8: return "finding-witness", "csr_data_width=8 on a 32-bit bus: the automatically inserted 32->8 down-converter packs CSR word i at byte base+i while csr.h/JSON/CSV publish base+4*i (CSR_ALIGNMENT 32)"
            if little_multi: return "finding-witness", "generated C accessors compose multi-word CSRs most-significant word first regardless of csr_ordering='little'"
            return "ensures", None
        for (shift, addr) in words["write"]:
            lo, hi = shift, min(S, shift + busw)
            if lo >= S: continue
            kind, what = mk_kind("w")
            others = [s for n2, s in sto.items() if s is not sig]
            atomic_stage = (rname == "periph_d" and lo != 0)       # atomic register: upper words are staged, the register changes with the last word
            def goal(k, lo=lo, hi=hi, sig=sig, others=others, atomic_stage=atomic_stage):
                cl = []
                if not atomic_stage:
                    cl.append(z3.Extract(hi - 1, lo, at(h.v(sig), k + 1)) == z3.Extract(hi - lo - 1, 0, at(h.v(m.dat_w), 0)))
                    if rname != "periph_d":
                        if lo: cl.append(z3.Extract(lo - 1, 0, at(h.v(sig), k + 1)) == z3.Extract(lo - 1, 0, at(h.v(sig), 0)))
                        if hi < S: cl.append(z3.Extract(S - 1, hi, at(h.v(sig), k + 1)) == z3.Extract(S - 1, hi, at(h.v(sig), 0)))
                else:
                    cl.append(at(h.v(sig), k + 1) == at(h.v(sig), 0))
                cl += [at(h.v(o), k + 1) == at(h.v(o), 0) for o in others]            # ... and nothing else
                return z3.And(*cl)
            out.append(prove(f"{'finding' if kind != 'ensures' else 'ens'}.write[{rname}@{addr:#x}>>{shift}]", held(addr, True), goal, kind, what))
        for (shift, addr) in words["read"]:
            lo, hi = shift, min(S, shift + busw)
            if lo >= S: continue
            kind, what = mk_kind("r")
            def goal(k, lo=lo, hi=hi, sig=sig):
                # the value returned with the ack is the register's word as it was when the CSR bus sampled it (registered read): compare with
                # a register that does not change during the access (storages) or with the status input held by the environment
                return z3.And(z3.Extract(hi - lo - 1, 0, at(h.v(m.dat_r), k)) == z3.Extract(hi - 1, lo, at(h.v(sig), 0)),
                              *([z3.Extract(busw - 1, hi - lo, at(h.v(m.dat_r), k)) == K(0, busw - (hi - lo))] if hi - lo < busw and busw == 32 else []),
                              *[at(h.v(o), k + 1) == at(h.v(o), 0) for o in sto.values()])
            pre = held(addr, False)
            if mode == "ro": pre += [at(h.v(sig), k) == at(h.v(sig), 0) for k in range(1, N)]   # device holds the status while it is read
            out.append(prove(f"{'finding' if kind != 'ensures' else 'ens'}.read[{rname}@{addr:#x}>>{shift}]", pre, goal, kind, what))
    # ---- native replay of the known-finding classes on the REAL simulator: perform the generated accessor's bus writes, then look at the register
    if finding_cfg:
        from litex.gen.sim import run_simulation
        from vf.fhdl2smt import copy_fragment
        rname = "periph_a" if cfg.get("ordering", "big") == "little" else "periph_c"
        sig = regs[rname][0]; val = 0xA1B2C3D4E5 & ((1 << len(sig)) - 1); got = {}
        def gen():
            for (shift, addr) in acc[rname]["write"]:
                yield from m.write(addr >> 2, (val >> shift) & 0xffffffff, sel=0xf)
            yield; yield
            got["v"] = (yield sig)
        run_simulation(copy_fragment(h.ts.f0), gen())
        wrong = got.get("v") != val
        out.append(res(f"finding.native[{rname}_write({val:#x}) via csr.h accessor]", "finding-witness", VIOLATED if wrong else PROVED, 0, "litex.gen.sim", info=f"register holds {got.get('v'):#x} after the accessor sequence",
                       what=("csr_data_width=8 on a 32-bit bus: registers respond packed at base+i while csr.h/JSON/CSV publish base+4*i" if busw == 8 else
                             "csr_ordering='little': the generated C accessors write the most significant word first/at the lowest address, the hardware expects the least significant word there")))
    # ---- CSR memory window
    if cfg.get("with_mem"):
        base = js["csr_bases"]["periph_tbl"]
        arr = h.ts.mems[per.mem]
        for kidx in (0, 5, 15):
            addr = base + 4 * kidx
            def goal(k, kidx=kidx):
                return z3.And(at(h.v(arr[kidx]), k + 1) == at(h.v(m.dat_w), 0), *[at(h.v(arr[j]), k + 1) == at(h.v(arr[j]), 0) for j in range(16) if j != kidx],
                              *[at(h.v(o), k + 1) == at(h.v(o), 0) for o in sto.values()])
            out.append(prove(f"ens.memwrite[periph_tbl[{kidx}]@{addr:#x}]", held(addr, True), goal))
    # ---- memory regions (mem.h / JSON memories): the integrated SRAM answers at its published base
    sram_base = js["memories"]["sram"]["base"]
    sarr = h.ts.mems[soc.sram.mem]
    for kidx in (0, 7):
        addr = sram_base + 4 * kidx
        def goal(k, kidx=kidx):
            return z3.And(at(h.v(sarr[kidx]), k + 1) == at(h.v(m.dat_w), 0), *[at(h.v(o), k + 1) == at(h.v(o), 0) for o in sto.values()])
        out.append(prove(f"ens.region[sram[{kidx}]@{addr:#x}]", held(addr, True), goal))
    # ---- the published extent of a memory region answers: first word, last word of [base, base+size) and the words around the largest power-of-two
    # boundary inside it (the decoder is proved equal to its power-of-two window for ALL addresses in C06/C13, size_pow2 >= size for all sizes in C13:
    # here the chain publication -> window -> memory cell is closed on the real SoC at the addresses where a too small window would show)
    for rname_, memobj in (("sram", soc.sram.mem), ("scratch", soc.scratch.mem)):
        rb, rs = js["memories"][rname_]["base"], js["memories"][rname_]["size"]
        cells = h.ts.mems[memobj]; nwords = rs // 4; p2 = 1 << (nwords - 1).bit_length() >> 1
        if len(cells) < nwords:
            out.append(res(f"ens.region-extent[{rname_}]", "ensures", VIOLATED, 0, "executed", info=f"published size {rs:#x} but the memory has {len(cells)} words")); continue
        for kidx in sorted({0, max(p2 - 1, 0), min(p2, nwords - 1), nwords - 1}):
            addr = rb + 4 * kidx
            def goal(k, kidx=kidx, cells=cells):
                return z3.And(at(h.v(cells[kidx]), k + 1) == at(h.v(m.dat_w), 0), *[at(h.v(o), k + 1) == at(h.v(o), 0) for o in sto.values()])
            out.append(prove(f"ens.region-extent[{rname_}[{kidx}]@{addr:#x} of {nwords} words]", held(addr, True), goal))
    ok_mem = js["memories"]["csr"]["base"] == csr_base and js["memories"]["sram"]["size"] == 0x100
    out.append(res("ens.regions-match-handler", "ensures", PROVED if ok_mem and all(js["memories"][n]["base"] == r.origin for n, r in soc.bus.regions.items() if n in js["memories"]) else VIOLATED, 0, "executed"))
    out.append(res("cover.accessors-parsed", "cover", OK if len(acc) >= 6 and any(len(v["write"]) > 1 for v in acc.values()) else VACUOUS, time.time() - t0, "csr.h parser", accessors=len(acc)))
    return dict(results=out, functions=["litex.soc.integration.export.get_csr_header", "litex.soc.integration.export._generate_csr_region_access_functions_c", "litex.soc.integration.export._generate_csr_read_function_c/_write_function_c",
                                        "litex.soc.integration.export.get_csr_json", "litex.soc.integration.export.get_csr_csv", "litex.soc.integration.soc.SoC.finalize", "litex.soc.integration.soc.SoC.add_csr_bridge",
                                        "litex.soc.interconnect.csr_bus.CSRBankArray.scan", "litex.soc.integration.soc_core.SoCCore.__init__"],
                samples=[dict(configuration=cfgname, accessors=len(acc), sample_accessor={k: v for k, v in list(acc.items())[:1]})])

def c_mem_images():
    """get_mem_data: byte k of the file is the byte lane from which a CPU of the stated endianness reads address k (bounded: lengths <= 19)"""
    evals = 0; bad = []
    d = tempfile.mkdtemp(prefix="vf_img_")
    try:
        for dw, end in ((32, "little"), (64, "little"), (128, "little"), (32, "big")):
            bpw = dw // 8
            for n in list(range(1, 20)):
                data = bytes((37 * i + 11) & 0xff for i in range(n))
                fn = os.path.join(d, f"f{n}.bin"); open(fn, "wb").write(data)
                words = get_mem_data(fn, data_width=dw, endianness=end); evals += 1
                for k in range(n):
                    w = words[k // bpw]; lane = (k % bpw) if end == "little" else (bpw - 1 - k % bpw)
                    if (w >> (8 * lane)) & 0xff != data[k]: bad.append((dw, end, n, k)); break
                if len(words) != -(-n // bpw): bad.append((dw, end, n, "length"))
    finally:
        for f in os.listdir(d): os.unlink(os.path.join(d, f))
        os.rmdir(d)
    return dict(results=[res("ens.mem-image[dw 32/64/128 little, 32 big; len 1..19]", "bounded", BOUNDED_OK if not bad else VIOLATED, 0, "executed through the real function", evaluations=evals, info=str(bad[:3]))],
                functions=["litex.soc.integration.common.get_mem_data (bounded)"], samples=[dict(bounded="get_mem_data", evaluations=evals)])

def cases(tier):
    cs = [Case("SoC(wishbone,csr32,page0x800)", c_soc, "wishbone,csr32,page0x800", timeout=900),
          Case("SoC(wishbone,csr32,page0x400,mem)", c_soc, "wishbone,csr32,page0x400,mem", paging=0x400, with_mem=True, timeout=900),
          Case("SoC(wishbone,csr32,page0x1000,mem)", c_soc, "wishbone,csr32,page0x1000,mem", paging=0x1000, with_mem=True, timeout=900),
          Case("SoC(wishbone,csr32,little)", c_soc, "wishbone,csr32,little", ordering="little", timeout=900),
          Case("SoC(axi-lite,csr32)", c_soc, "axi-lite,csr32", bus_standard="axi-lite", timeout=900),
          Case("SoC(wishbone,csr8)", c_soc, "wishbone,csr8", csr_dw=8, timeout=900),
          Case("mem-images", c_mem_images)]
    return cs

ASSUMPTIONS = ["SoC configurations from a grid (cpu_type=None; wishbone/axi-lite; CSR data width 32 (8: known finding); paging 0x400/0x800/0x1000; ordering big (little: known finding for multi-word registers)); all register data symbolic",
               "the access starts from a state in which every control register (FSM states, flags, time-out counter) holds its reset value while all CSR storages, staging registers and memory contents are arbitrary; the bus master holds the request until ack (Wishbone classic)",
               "C accessors are interpreted by a parser for the emitted csr_read_simple/csr_write_simple statements; SVD, soc.h constants, mem.h and linker regions are in C14_mem_exports.py; big-endian images for buses wider than 32 bits are not judged",
               "memory images: bounded stand-in (file lengths 1..19)"]
