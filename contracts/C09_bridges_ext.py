"""C09 (extension): gaps found by an audit of C09_bridges / C09_axi_bridges / C09_add_adapter.
 1. AXILiteUpConverter: guarantees towards the SLAVE (a raised aw/w/ar valid and its payload stay stable until ready).
 2. AXI2Wishbone / Wishbone2AXI: direct flat-byte-memory contracts (symbolic-address method) from the outer master port to an abstract
    byte memory behind the outer slave port (no reference to the inner bridges except for invariant hints), bursts included.
 3. configurations that were never built: AXILiteSRAM(read_only / init / Memory argument), AXILite2AXI(64), AXILiteConverter ratio 1,
    AXILiteDownConverter 64->32, AXILite2CSR on an 8-bit CSR bus.
 4. SoCBusHandler.add_adapter: the AHB path, chains that contain an AXIInterface (byte address / byte lane preservation), AXI width
    conversion, bursting=True."""
import z3
from .axilib import *
from . import wblib
from .wblib import req as wbreq
from .C09_bridges import lane_of, sbit, c_axil_down
from .C09_axi_bridges import burst_legal, burst_off, WB, _Z
from litex.soc.interconnect import wishbone, csr_bus, ahb
from litex.soc.interconnect import axi as axi_pkg
from litex.soc.interconnect.axi import (AXIInterface, AXILiteInterface, AXILiteSRAM, AXILite2CSR, AXILiteUpConverter, AXILiteConverter,
                                        AXI2Wishbone, Wishbone2AXI, AXI2AXILite, AXILite2Wishbone, Wishbone2AXILite)
from litex.soc.interconnect.axi.axi_full_to_axi_lite import AXILite2AXI
from vf.core import Case as VCase

def _try(fn, default=None):
    try: return fn()
    except (AttributeError, KeyError, TypeError, IndexError): return default

def _subs(mod, cls):
    """sub-modules of a given class anywhere below mod (defensive: anonymous `self.submodules += x` included)"""
    out = []; todo = [mod]; seen = set()
    while todo:
        m = todo.pop()
        if id(m) in seen: continue
        seen.add(id(m))
        if isinstance(m, cls): out.append(m)
        for _n, s in (getattr(m, "_submodules", None) or []): todo.append(s)
    return out

# =========================================================================================================== 1. up-converter, slave side
UP_W = ("AXILiteUpConverter selects the slave-side W lane (w.strb / w.data position) combinationally from master.aw.addr whenever master.aw.valid is high: "
        "a master that raises the address of its NEXT write while the W beat of the current one is still stalled at the slave (or that offers W before AW), both allowed "
        "by AXI4-Lite, makes slave.w.strb/slave.w.data change while slave.w.valid is high and slave.w.ready is low; the beat is then written into the lane of the wrong address")

def c_up_slave(dw_from, dw_to, scenario):
    """scenario 'legal': any AXI4-Lite master; 'in-order': W offered with/after its AW and no further AW before that W was accepted"""
    m = AXILiteInterface(data_width=dw_from, address_width=16); s = AXILiteInterface(data_width=dw_to, address_width=16)
    d = mk(AXILiteUpConverter, m, s)
    h = HwCheck(f"AXILiteUpConverter.slave-side({dw_from}->{dw_to},{scenario})", d, master_side_inputs(m) + slave_side_inputs(s))
    V = h.v
    for ch in ("aw", "w", "ar"): src_env(h, getattr(m, ch), "m." + ch)
    F = lambda ep: fire(h, ep)
    ma = (dw_from // 8).bit_length() - 1; sa = (dw_to // 8).bit_length() - 1; LB = sa - ma
    # the slave-side address channels: forwarded, held with the master's
    src_guarantee(h, s.aw, "s.aw"); src_guarantee(h, s.ar, "s.ar")
    # the slave-side W channel, as a per-cycle clause over last cycle's values
    p_stall = h.prev("sw_stall", bv1(z3.And(b(V(s.w.valid)), z3.Not(b(V(s.w.ready))))))
    p_tok = h.prev("sw_tok", paytok(h, s.w))
    stable_w = z3.Implies(b(p_stall), z3.And(b(V(s.w.valid)), paytok(h, s.w) == p_tok))
    ahead = h.ghost("ahead", 1)                     # an AW has been accepted whose W has not
    h.ghost_next(ahead, z3.If(z3.And(F(m.aw), z3.Not(F(m.w))), K(1, 1), z3.If(z3.And(F(m.w), z3.Not(F(m.aw))), K(0, 1), ahead)))
    wr_lane = h.ghost("wr_lane", LB)
    h.ghost_next(wr_lane, z3.If(b(V(m.aw.valid)), z3.Extract(sa - 1, ma, V(m.aw.addr)), wr_lane))
    if scenario == "legal":
        h.finding("finding.w-unstable", stable_w, UP_W)
    else:
        h.assume(z3.Implies(b(V(m.aw.valid)), z3.Not(b(ahead))), "scenario restriction: the master raises no further AW before the W beat of the previous write has been accepted")
        h.assume(z3.Implies(b(V(m.w.valid)), z3.Or(b(V(m.aw.valid)), b(ahead))), "scenario restriction: the master offers W together with or after its AW (never before)")
        h.ensure("ens.stable.s.w", stable_w)
        wrr = L(d, "wr_word_r")
        if wrr is not None and wrr in h.ts.var: h.hint("wr_word_r", V(wrr) == wr_lane)
        # the W beat is forwarded in the lane of the address of ITS write
        cur = z3.If(b(V(m.aw.valid)), z3.Extract(sa - 1, ma, V(m.aw.addr)), wr_lane)
        NBm = dw_from // 8
        for j in range(dw_to // dw_from):
            on = cur == K(j, LB)
            h.ensure(f"ens.w.lane{j}", z3.Implies(b(V(s.w.valid)), z3.And(z3.Extract(NBm * (j + 1) - 1, NBm * j, V(s.w.strb)) == z3.If(on, V(m.w.strb), K(0, NBm)),
                                                                        z3.Implies(on, z3.Extract(dw_from * (j + 1) - 1, dw_from * j, V(s.w.data)) == V(m.w.data)))))
    h.use_auto = True
    h.cover("cover.w-stalled", z3.And(b(p_stall), F(s.w)), depth=4)
    h.bmc_depth = 6
    h.functions = ["litex.soc.interconnect.axi.axi_lite.AXILiteUpConverter.__init__ (slave-side channel stability)"]
    return h

def cases(tier):
    cs = [VCase("AXILiteUpConverter.slave-side(32->64,legal)", c_up_slave, 32, 64, "legal"), VCase("AXILiteUpConverter.slave-side(32->64,in-order)", c_up_slave, 32, 64, "in-order"),
          VCase("AXILiteUpConverter.slave-side(8->32,in-order)", c_up_slave, 8, 32, "in-order")]
    return cs

ASSUMPTIONS = ["AXILiteUpConverter slave side: AW/AR stability proved for every AXI4-Lite master; W stability proved for in-order masters only (W with/after its AW, one write address at a time) - for any legal master it is a finding"]

# =========================================================================================================== 2a. AXI2Wishbone, direct
def _burst_legal(W, addr, blen, bsize, btype, maxsize):
    Z = lambda x: zx(x, W)
    size_b = z3.BitVecVal(1, W) << Z(bsize); total = (Z(blen) + 1) * size_b
    return z3.And(ule(bsize, maxsize), ule(btype, 2),
                  z3.Implies(btype == K(2, 2), z3.And(z3.Or(blen == K(1, 8), blen == K(3, 8), blen == K(7, 8), blen == K(15, 8)), (Z(addr) & (size_b - 1)) == 0)),
                  z3.Implies(btype == K(1, 2), z3.ULE((Z(addr) & z3.BitVecVal(4095, W)) + total - (Z(addr) & (size_b - 1)), z3.BitVecVal(4096, W))))
def _burst_off(W, addr, blen, bsize, btype, n):
    """AMBA A3.4.1: byte offset of beat n relative to the start address (FIXED 0, INCR n*size, WRAP inside the aligned container)"""
    Z = lambda x: zx(x, W)
    size_b = z3.BitVecVal(1, W) << Z(bsize); total = (Z(blen) + 1) * size_b
    inc = Z(n) * size_b; base = Z(addr) & ~(total - 1)
    wrapped = base + ((Z(addr) - base + inc) & (total - 1)) - Z(addr)
    return z3.If(btype == K(0, 2), z3.BitVecVal(0, W), z3.If(btype == K(1, 2), inc, wrapped))

ERR_A2W = ("AXI2Wishbone (AXI2AXILite + AXILite2Wishbone) answers with RESP_OKAY a burst whose Wishbone cycle was terminated with ack+err: neither inner bridge propagates errors "
           "(same root causes as AXILite2Wishbone(err)/finding.err-ignored and AXI2AXILite(*)/finding.err.*)")

def axi_master_inputs(m):
    return [m.aw.valid] + pay(m.aw) + [m.w.valid, m.w.last] + pay(m.w) + [m.b.ready, m.ar.valid] + pay(m.ar) + [m.r.ready]

def axi2wb_contract(h, d, m, wb, base, quick_limits, err_case=False):
    """the AXI master port `m` of design `d` sees the abstract byte memory that sits behind the Wishbone port `wb` (classic cycles, word index = byte address // bytes per word);
    everything is stated over the two outer ports; internal registers appear in hints only"""
    V = h.v; F = lambda ep: fire(h, ep)
    AW = len(m.aw.addr); DW = len(m.w.data); NB = DW // 8; SH = NB.bit_length() - 1; IDW = len(m.aw.id); W = max(24, AW + 1)
    wsh = SH if wb.addressing == "word" else 0
    MW = AW - SH                                                          # width of a memory word index
    # ---- environment: AXI master
    st_aw, _ = src_env(h, m.aw, "m.aw"); st_ar, _ = src_env(h, m.ar, "m.ar"); st_w, _ = src_env(h, m.w, "m.w")
    p_wlast = h.prev("mwlast", V(m.w.last))
    h.assume(z3.Implies(b(st_w), V(m.w.last) == p_wlast), "AXI channel source holds valid and payload until ready (W last flag)")
    for ch in (m.aw, m.ar):
        h.assume(z3.Implies(b(V(ch.valid)), _burst_legal(W, V(ch.addr), V(ch.len), V(ch.size), V(ch.burst), SH)),
                 "burst requests are AXI-legal (size within the bus; WRAP: 2/4/8/16 beats, aligned start; INCR within a 4KB page)")
        if quick_limits:
            h.assume(z3.Implies(b(V(ch.valid)), z3.And(V(ch.burst) == K(1, 2), ule(V(ch.len), 3))), "quick tier: INCR bursts of 1..4 beats (all types and lengths in the thorough tier)")
    # ---- environment: Wishbone slave = abstract byte memory
    sreq = wbreq(h, wb); ack = z3.And(sreq, b(V(wb.ack)))
    wblib.slave_legal(h, wb)
    if err_case: h.assume(z3.Implies(b(V(wb.err)), b(V(wb.ack))), "err accompanies ack (slave terminates the cycle with ack+err as LiteX's Timeout and bridges do)")
    else:        h.assume(z3.Not(b(V(wb.err))), "scenario restriction: the Wishbone slave does not terminate with err (error propagation: see the finding case)")
    wr_ack = z3.And(ack, b(V(wb.we))); rd_ack = z3.And(ack, z3.Not(b(V(wb.we))))
    wbword = z3.Extract(MW + (SH - wsh) - 1, SH - wsh, V(wb.adr)) if wsh == 0 else V(wb.adr)
    LW = max(1, SH)
    gw = h.const("gw", MW); gl = h.const("gl", LW)
    mv = h.ghost("mv", 8)                                                 # content of the tracked byte of the memory behind the Wishbone port
    h.ghost_next(mv, z3.If(z3.And(wr_ack, wbword == gw, sbit(V(wb.sel), gl, NB)), lane_of(V(wb.dat_w), gl, NB), mv))
    h.assume(z3.Implies(z3.And(rd_ack, wbword == gw), lane_of(V(wb.dat_r), gl, NB) == mv), "the Wishbone slave is a byte memory: a read of the tracked word returns, in the tracked lane, the last enabled write to it")
    # ---- specification state (AXI side)
    mode = h.ghost("mode", 2)                                             # 0 idle, 1 read burst, 2 write burst
    gaddr = h.ghost("gaddr", AW); glen = h.ghost("glen", 8); gsize = h.ghost("gsize", 3); gtype = h.ghost("gtype", 2); gid = h.ghost("gid", IDW)
    na = h.ghost("na", 9); nr = h.ghost("nr", 9); nw = h.ghost("nw", 9)   # Wishbone cycles done / R beats delivered / W beats accepted, in the current burst
    idle, rd, wr = mode == K(0, 2), mode == K(1, 2), mode == K(2, 2)
    ar_f, aw_f, m_rf, m_bf, m_wf = F(m.ar), F(m.aw), F(m.r), F(m.b), F(m.w)
    L9 = zx(glen, 9)
    rd_done = z3.And(rd, m_rf, nr == L9); wr_done = z3.And(wr, m_bf)
    h.ghost_next(mode, z3.If(idle, z3.If(ar_f, K(1, 2), z3.If(aw_f, K(2, 2), K(0, 2))), z3.If(z3.Or(rd_done, wr_done), K(0, 2), mode)))
    for g, far, faw in ((gaddr, m.ar.addr, m.aw.addr), (glen, m.ar.len, m.aw.len), (gsize, m.ar.size, m.aw.size), (gtype, m.ar.burst, m.aw.burst), (gid, m.ar.id, m.aw.id)):
        h.ghost_next(g, z3.If(z3.And(idle, ar_f), V(far), z3.If(z3.And(idle, aw_f), V(faw), g)))
    start = z3.And(idle, z3.Or(ar_f, aw_f))
    h.ghost_next(na, z3.If(start, K(0, 9), z3.If(ack, na + 1, na)))
    h.ghost_next(nr, z3.If(start, K(0, 9), z3.If(m_rf, nr + 1, nr)))
    h.ghost_next(nw, z3.If(start, K(0, 9), z3.If(m_wf, nw + 1, nw)))
    h.assume(z3.Implies(z3.And(wr, b(V(m.w.valid))), b(V(m.w.last)) == (nw == L9)), "AXI master sends len+1 W beats, last on the final one")
    mask = (1 << AW) - 1
    def word_of(n_):
        """memory word index addressed by beat n_ of the current burst (AMBA address of the beat, minus the bridge's base address)"""
        a = z3.Extract(AW - 1, 0, zx(gaddr, W) + _burst_off(W, gaddr, glen, gsize, gtype, n_)) - K(base & mask, AW)
        return z3.Extract(AW - 1, SH, a)
    sv = h.ghost("sv", 8)                                                 # specified content of the tracked byte: last enabled write of the AXI master to it
    hit_w = z3.And(wr, m_wf, word_of(nw) == gw, sbit(V(m.w.strb), gl, NB))
    h.ghost_next(sv, z3.If(hit_w, lane_of(V(m.w.data), gl, NB), sv))
    g_data = h.ghost("g_data", DW); h.ghost_next(g_data, z3.If(rd_ack, V(wb.dat_r), g_data))
    g_err = h.ghost("g_err", 1); h.ghost_next(g_err, z3.If(start, K(0, 1), z3.If(z3.And(ack, b(V(wb.err))), K(1, 1), g_err)))
    if err_case:
        h.finding("finding.err-ignored", z3.And(z3.Implies(z3.And(b(V(m.b.valid)), b(g_err)), V(m.b.resp) != K(0, 2)), z3.Implies(z3.And(b(V(m.r.valid)), b(g_err), nr == L9), V(m.r.resp) != K(0, 2))), ERR_A2W)
        h.cover("cover.err", z3.And(b(V(m.b.valid)), b(g_err)), depth=6)
        h.bmc_depth = 8
        return
    # ---- postconditions: flat byte memory towards the AXI master
    h.ensure("ens.mem.read", z3.Implies(z3.And(b(V(m.r.valid)), word_of(nr) == gw), z3.And(rd, lane_of(V(m.r.data), gl, NB) == sv)))          # every byte read is the last enabled write to it
    h.ensure("ens.mem.write-before-b", z3.Implies(b(V(m.b.valid)), mv == sv))                                                                   # when the burst is answered all its enabled bytes are in the memory
    h.ensure("ens.mem.read-sees-writes", z3.Implies(z3.And(rd_ack, wbword == gw), mv == sv))                                                    # and a read never overtakes a write
    h.ensure("ens.mem.only-selected", z3.Implies(z3.And(wr_ack, wbword == gw, sbit(V(wb.sel), gl, NB)), hit_w))                                 # a byte of the memory is written only by an enabled byte of a W beat addressed to it
    # ---- postconditions: one Wishbone cycle per beat, at the beat's address, with the beat's data; responses
    h.ensure("ens.wb.write", z3.Implies(z3.And(sreq, b(V(wb.we))), z3.And(wr, b(V(m.w.valid)), z3.ULE(nw, L9), wbword == word_of(nw), V(wb.sel) == V(m.w.strb), V(wb.dat_w) == V(m.w.data))))
    h.ensure("ens.wb.read", z3.Implies(z3.And(sreq, z3.Not(b(V(wb.we)))), z3.And(rd, z3.ULE(na, L9), na == nr, wbword == word_of(na), V(wb.sel) == K(2**NB - 1, NB))))
    h.ensure("ens.w-consumed", m_wf == wr_ack)                                                                                                # each W beat is performed exactly once, when it is accepted
    h.ensure("ens.cyc=stb", V(wb.cyc) == V(wb.stb))
    h.ensure("ens.accept", z3.And(z3.Implies(z3.Or(ar_f, aw_f), idle), z3.Not(z3.And(ar_f, aw_f))))
    h.ensure("ens.r", z3.Implies(b(V(m.r.valid)), z3.And(rd, na == nr + 1, V(m.r.data) == g_data, V(m.r.id) == gid, b(V(m.r.last)) == (nr == L9), z3.ULE(nr, L9), V(m.r.resp) == K(0, 2))))
    h.ensure("ens.b", z3.Implies(b(V(m.b.valid)), z3.And(wr, nw == L9 + 1, na == L9 + 1, V(m.b.id) == gid, V(m.b.resp) == K(0, 2))))          # one B per burst, after all its beats were written
    h.ensure("ens.no-b-in-read", z3.Implies(z3.Not(wr), z3.Not(b(V(m.b.valid)))))
    wbs = [wb.adr, wb.dat_w, wb.sel, wb.we]
    h.ensure_seq("ens.wb_hold", lambda at: z3.Implies(at(z3.And(sreq, z3.Not(b(V(wb.ack)))), 0), z3.And(at(sreq, 1), *[at(V(s_), 1) == at(V(s_), 0) for s_ in wbs])))
    src_guarantee(h, m.r, "m.r"); src_guarantee(h, m.b, "m.b")
    stalled_r = z3.And(b(V(m.r.valid)), z3.Not(b(V(m.r.ready))))
    h.ensure_seq("ens.stable.m.r.last", lambda at: z3.Implies(at(stalled_r, 0), at(V(m.r.last), 1) == at(V(m.r.last), 0)))
    slave_coop = z3.Or(z3.Not(sreq), b(V(wb.ack)))
    h.respond("resp.rd.beat", z3.And(b(V(m.r.ready)), slave_coop), z3.Or(rd_ack, m_rf), 4, start=rd)
    h.respond("resp.wr.beat", z3.And(b(V(m.b.ready)), slave_coop, z3.Implies(z3.ULE(nw, L9), b(V(m.w.valid)))), z3.Or(wr_ack, m_bf), 4, start=wr)
    h.respond("resp.accept", z3.BoolVal(True), z3.Or(ar_f, aw_f), 2, start=z3.And(idle, z3.Or(b(V(m.ar.valid)), b(V(m.aw.valid)))))
    # ---- invariants from the code of the two inner bridges
    h.hint("mem", mv == sv)
    h.hint("na<=len+1", z3.ULE(na, L9 + 1))
    h.hint("rd.nr", z3.Implies(rd, z3.And(z3.ULE(nr, na), z3.ULE(na, nr + 1), z3.ULE(nr, L9))))
    h.hint("wr.nw", z3.Implies(wr, z3.And(nw == na)))
    h.hint("legal", z3.Implies(z3.Not(idle), _burst_legal(W, gaddr, glen, gsize, gtype, SH)))
    if quick_limits: h.hint("quick", z3.Implies(z3.Not(idle), z3.And(gtype == K(1, 2), ule(glen, 3))))
    h.hint("g_data", z3.Implies(z3.And(rd, na == nr + 1, word_of(nr) == gw), lane_of(g_data, gl, NB) == sv))
    try:
        a2l = _subs(d, AXI2AXILite)[0]; l2w = _subs(d, AXILite2Wishbone)[0]
        st, enc = a2l.fsm.state, a2l.fsm.encoding; S = lambda n_: eqc(V(st), enc[n_])
        st2, enc2 = l2w.fsm.state, l2w.fsm.encoding; T = lambda n_: eqc(V(st2), enc2[n_])
        buf = L(a2l, "ax_buffer"); b2b = L(a2l, "ax_burst2beat"); cd = L(a2l, "_cmd_done")
        bc, bo = L(b2b, "beat_count"), L(b2b, "beat_offset"); bs = buf.source
        h.hint("st", ult(V(st), len(enc))); h.hint("st2", ult(V(st2), len(enc2)))
        h.hint("idle", S("IDLE") == idle); h.hint("read", S("READ") == rd); h.hint("write", z3.Or(S("WRITE"), S("WRITE-RESP")) == wr)
        h.hint("buf", b(V(bs.valid)) == z3.Not(idle))
        h.hint("buf.req", z3.Implies(z3.Not(idle), z3.And(V(bs.addr) == gaddr, V(bs.len) == glen, V(bs.size) == gsize, V(bs.burst) == gtype, V(bs.id) == gid)))
        nmin = z3.If(z3.ULE(na, L9), na, L9)
        h.hint("count", z3.Implies(z3.Not(idle), zx(V(bc), 9) == nmin))
        h.hint("offset", z3.Implies(z3.Not(idle), sx(V(bo), W) == _burst_off(W, gaddr, glen, gsize, gtype, nmin)))
        h.hint("idle.b2b", z3.Implies(idle, z3.And(V(bc) == K(0, 8), V(bo) == K(0, V(bo).size()))))
        h.hint("cmd_done", z3.Implies(z3.Not(idle), b(V(cd)) == (na == L9 + 1)))
        h.hint("wresp", z3.Implies(wr, S("WRITE-RESP") == (nw == L9 + 1)))
        h.hint("l2w.idle", z3.Implies(idle, T("IDLE")))
        h.hint("l2w.doread", z3.Implies(T("DO-READ"), z3.And(rd, na == nr, z3.ULE(na, L9))))
        h.hint("l2w.sendr", T("SEND-READ-RESPONSE") == z3.And(rd, na == nr + 1))
        h.hint("l2w.dowrite", z3.Implies(T("DO-WRITE"), z3.And(wr, z3.ULE(na, L9))))
        h.hint("l2w.sendb", z3.Implies(T("SEND-WRITE-RESPONSE"), z3.And(wr, z3.UGE(na, K(1, 9)))))
        h.hint("l2w.data", z3.Implies(T("SEND-READ-RESPONSE"), V(L(l2w, "_data")) == g_data))
    except (AttributeError, KeyError, TypeError, IndexError) as e: h.note = f"hints skipped: {e!r}"; h.use_auto = True
    h.cover("cover.rd.burst", z3.And(rd_done, glen == K(2, 8), word_of(K(1, 9)) == gw), depth=12)
    h.cover("cover.wr.burst", z3.And(wr_done, glen == K(1, 8)), depth=10)
    h.cover("cover.readback", z3.And(m_rf, word_of(nr) == gw, sv != K(0, 8)), depth=10)
    h.bmc_depth = 12; h.bmc_time = 45

def c_axi2wb(base=0x400, addressing="word", dw=32, limits=True, err_case=False):
    AW, IDW = 16, 2
    m = AXIInterface(data_width=dw, address_width=AW, id_width=IDW); wb = wishbone.Interface(data_width=dw, address_width=AW, addressing=addressing)
    d = mk(AXI2Wishbone, m, wb, base)
    h = HwCheck(f"AXI2Wishbone.mem(base={base:#x},{addressing},dw={dw}{',err' if err_case else ''})", d, axi_master_inputs(m) + [wb.ack, wb.dat_r, wb.err])
    axi2wb_contract(h, d, m, wb, base, limits, err_case)
    h.functions = ["litex.soc.interconnect.axi.axi_full_to_wishbone.AXI2Wishbone.__init__", "litex.soc.interconnect.axi.axi_full_to_axi_lite.AXI2AXILite.__init__ (flattened)",
                   "litex.soc.interconnect.axi.axi_lite_to_wishbone.AXILite2Wishbone.__init__ (flattened)", "litex.soc.interconnect.axi.axi_full.AXIBurst2Beat.__init__ (flattened)"]
    return h

_cases1 = cases
def cases(tier):
    cs = _cases1(tier)
    cs += [VCase("AXI2Wishbone.mem(base=0x400,word)", c_axi2wb, 0x400, "word", 32, False, timeout=1800), VCase("AXI2Wishbone.mem(base=0,byte)", c_axi2wb, 0, "byte", 32, False, timeout=1800),
           VCase("AXI2Wishbone.mem(err)", c_axi2wb, 0, "word", 32, False, True)]
    if tier == "thorough":
        cs += [VCase("AXI2Wishbone.mem(base=0x800,word,dw=64)", c_axi2wb, 0x800, "word", 64, False, timeout=1800)]
    return cs
ASSUMPTIONS += ["AXI2Wishbone direct contract: AXI master holds channel payloads, issues AXI-legal bursts (FIXED/INCR/WRAP, any legal length and size) and len+1 W beats with last on the final one; the Wishbone slave answers only presented cycles, "
                "is a byte memory at the tracked byte, and does not raise err (error propagation is a finding case)"]

# =========================================================================================================== 2b. Wishbone2AXI, direct
W2A_BASE = ("Wishbone2AXILite (and Wishbone2AXI built on it) subtracts `base_address//4` from the Wishbone address whatever the bus geometry: that is the byte offset only for a 32-bit word-addressed "
            "Wishbone bus; with a 64-bit bus the AXI address is lowered by 2*base_address, with a byte-addressed bus by base_address/4")

def axi_slave_inputs(a):
    return [a.aw.ready, a.w.ready, a.b.valid] + pay(a.b) + [a.ar.ready, a.r.valid, a.r.last] + pay(a.r)

def wb2axi_contract(h, d, wb, a, base, only_address_finding=False):
    """the Wishbone master port `wb` sees the abstract byte memory behind the AXI port `a` (single-beat transfers)"""
    V = h.v; F = lambda ep: fire(h, ep)
    AW = len(a.aw.addr); DW = len(a.w.data); NB = DW // 8; SH = NB.bit_length() - 1; MW = AW - SH; LW = max(1, SH)
    wsh = SH if wb.addressing == "word" else 0
    pend = wblib.master_holds(h, wb); hd = h.held[""]
    rq = wbreq(h, wb); we = b(V(wb.we)); wack = b(V(wb.ack)); werr = b(V(wb.err))
    byte_of = lambda adr: (zx(adr, AW) << wsh) - K(base & ((1 << AW) - 1), AW) if adr.size() <= AW else None
    baddr = byte_of(V(wb.adr))                                             # byte address of the current cycle in the slave's address space
    word = z3.Extract(AW - 1, SH, baddr)
    # ---- environment: abstract AXI slave (byte memory), single outstanding by construction of the requests it receives
    src_env(h, a.b, "a.b"); src_env(h, a.r, "a.r")
    aw_got = h.ghost("aw_got", 1); w_got = h.ghost("w_got", 1); ar_got = h.ghost("ar_got", 1)
    endw, endr = F(a.b), F(a.r)
    h.ghost_next(aw_got, z3.If(endw, K(0, 1), z3.If(F(a.aw), K(1, 1), aw_got)))
    h.ghost_next(w_got, z3.If(endw, K(0, 1), z3.If(F(a.w), K(1, 1), w_got)))
    h.ghost_next(ar_got, z3.If(endr, K(0, 1), z3.If(F(a.ar), K(1, 1), ar_got)))
    h.assume(z3.Implies(b(V(a.b.valid)), z3.And(b(aw_got), b(w_got))), "AXI slave sends B only after it has received AW and W")
    h.assume(z3.Implies(b(V(a.r.valid)), b(ar_got)), "AXI slave sends R only after it has received AR")
    s_aw = h.ghost("s_aw", AW); s_ar = h.ghost("s_ar", AW); s_wd = h.ghost("s_wd", DW); s_ws = h.ghost("s_ws", NB)
    h.ghost_next(s_aw, z3.If(F(a.aw), V(a.aw.addr), s_aw)); h.ghost_next(s_ar, z3.If(F(a.ar), V(a.ar.addr), s_ar))
    h.ghost_next(s_wd, z3.If(F(a.w), V(a.w.data), s_wd)); h.ghost_next(s_ws, z3.If(F(a.w), V(a.w.strb), s_ws))
    if only_address_finding:
        ok = lambda ch: z3.Implies(b(V(ch.valid)), V(ch.addr) == baddr)
        h.ensure("ens.base-offset", z3.And(ok(a.aw), ok(a.ar)))        # was finding.base-offset: repaired in /repo by 3993fb8 (fixed: entry in known_findings.json)
        h.cover("cover.aw", b(V(a.aw.valid)), depth=3)
        h.bmc_depth = 4
        return
    gw = h.const("gw", MW); gl = h.const("gl", LW)
    mv = h.ghost("mv", 8)
    slave_wr = z3.And(endw, V(a.b.resp) == K(0, 2), z3.Extract(AW - 1, SH, s_aw) == gw, sbit(s_ws, gl, NB))
    mv_next = z3.If(slave_wr, lane_of(s_wd, gl, NB), mv)
    h.ghost_next(mv, mv_next)
    h.assumption_notes.append("the AXI slave is a byte memory: a write takes effect when its OKAY response is accepted (a write answered with an error leaves the memory unchanged); "
                              "read data accepted for the tracked word carries, in the tracked lane, the last such write")
    h.assume(z3.Implies(z3.And(endr, V(a.r.resp) == K(0, 2), z3.Extract(AW - 1, SH, s_ar) == gw), lane_of(V(a.r.data), gl, NB) == mv))
    # ---- specification state (Wishbone side)
    sv = h.ghost("sv", 8)
    ok_ack = z3.And(rq, wack, z3.Not(werr))
    hit_w = z3.And(ok_ack, we, word == gw, sbit(V(wb.sel), gl, NB))
    sv_next = z3.If(hit_w, lane_of(V(wb.dat_w), gl, NB), sv)
    h.ghost_next(sv, sv_next)
    g_bad = h.ghost("g_bad", 1)
    h.ghost_next(g_bad, bv1(z3.Or(z3.And(endw, V(a.b.resp) != K(0, 2)), z3.And(endr, V(a.r.resp) != K(0, 2)))))
    # ---- postconditions: flat byte memory towards the Wishbone master
    h.ensure("ens.mem.read", z3.Implies(z3.And(ok_ack, z3.Not(we), word == gw), lane_of(V(wb.dat_r), gl, NB) == sv))
    h.ensure("ens.mem.write", z3.Implies(z3.And(ok_ack, we), mv_next == sv_next))                                  # an acknowledged write is in the memory
    h.ensure("ens.mem.read-sees-writes", z3.Implies(b(V(a.ar.valid)), mv == sv))
    h.ensure("ens.mem.only-selected", z3.Implies(slave_wr, hit_w))
    # ---- postconditions: exactly one single-beat, full-width AXI transfer per cycle, at the cycle's byte address, with its data and strobes
    one = lambda ch: z3.And(V(ch.addr) == baddr, V(ch.len) == K(0, 8), V(ch.size) == K(SH, 3), ule(V(ch.burst), 2), V(ch.lock) == K(0, V(ch.lock).size()))
    h.ensure("ens.aw", z3.Implies(b(V(a.aw.valid)), z3.And(rq, we, z3.Not(b(aw_got)), one(a.aw))))
    h.ensure("ens.w", z3.Implies(b(V(a.w.valid)), z3.And(rq, we, z3.Not(b(w_got)), V(a.w.data) == V(wb.dat_w), V(a.w.strb) == V(wb.sel), b(V(a.w.last)))))
    h.ensure("ens.ar", z3.Implies(b(V(a.ar.valid)), z3.And(rq, z3.Not(we), z3.Not(b(ar_got)), one(a.ar))))
    h.ensure("ens.ack.ok", z3.Implies(z3.And(wack, z3.Not(werr)), z3.And(rq, z3.Or(z3.And(we, endw, V(a.b.resp) == K(0, 2)), z3.And(z3.Not(we), endr, V(a.r.resp) == K(0, 2), V(wb.dat_r) == V(a.r.data))))))
    h.ensure("ens.ack-only-if-req", z3.Implies(z3.Or(wack, werr), rq))
    h.ensure("ens.err", z3.Implies(b(g_bad), z3.And(wack, werr)))                                                  # error responses propagated (in the cycle after the response)
    h.ensure("ens.err.only", z3.Implies(werr, b(g_bad)))
    h.ensure("ens.resp-consumed", z3.And(z3.Implies(endw, z3.And(rq, we)), z3.Implies(endr, z3.And(rq, z3.Not(we)))))
    for ep, nm in ((a.aw, "a.aw"), (a.w, "a.w"), (a.ar, "a.ar")): src_guarantee(h, ep, nm)
    st_w = z3.And(b(V(a.w.valid)), z3.Not(b(V(a.w.ready))))
    h.ensure_seq("ens.stable.a.w.last", lambda at: z3.Implies(at(st_w, 0), at(V(a.w.last), 1) == at(V(a.w.last), 0)))
    h.respond("resp.write", z3.And(rq, we, b(V(a.aw.ready)), b(V(a.w.ready)), z3.Or(b(V(a.b.valid)), z3.Not(z3.And(b(aw_got), b(w_got))))), wack, 5)
    h.respond("resp.read", z3.And(rq, z3.Not(we), b(V(a.ar.ready)), z3.Or(b(V(a.r.valid)), z3.Not(b(ar_got)))), wack, 5)
    # ---- invariants from the code
    h.hint("mem", mv == sv)
    try:
        br = _subs(d, Wishbone2AXILite)[0]
        st, enc = br.fsm.state, br.fsm.encoding; cd_, dd_ = L(br, "_cmd_done"), L(br, "_data_done")
        inW, inR, inE, inI = eqc(V(st), enc["WRITE"]), eqc(V(st), enc["READ"]), eqc(V(st), enc["ERROR"]), eqc(V(st), enc["IDLE"])
        hbaddr = byte_of(hd.adr)
        h.hint("st<n", ult(V(st), len(enc)))
        h.hint("W", z3.Implies(inW, z3.And(V(cd_) == aw_got, V(dd_) == w_got, ar_got == K(0, 1), b(hd.pend), hd.we == K(1, 1))))
        h.hint("R", z3.Implies(inR, z3.And(V(cd_) == ar_got, aw_got == K(0, 1), w_got == K(0, 1), b(hd.pend), hd.we == K(0, 1))))
        h.hint("IE", z3.Implies(z3.Or(inI, inE), z3.And(aw_got == K(0, 1), w_got == K(0, 1), ar_got == K(0, 1))))
        h.hint("Epend", z3.Implies(inE, b(hd.pend)))
        h.hint("gbad", b(g_bad) == inE)
        h.hint("s_aw", z3.Implies(b(aw_got), s_aw == hbaddr)); h.hint("s_ar", z3.Implies(b(ar_got), s_ar == hbaddr))
        h.hint("s_w", z3.Implies(b(w_got), z3.And(s_wd == hd.dat_w, s_ws == hd.sel)))
    except (AttributeError, KeyError, TypeError, IndexError) as e: h.note = f"hints skipped: {e!r}"
    h.use_auto = True
    h.cover("cover.wr", z3.And(wack, we, z3.Not(werr)), depth=6); h.cover("cover.err", werr, depth=7)
    h.cover("cover.readback", z3.And(ok_ack, z3.Not(we), word == gw, sv != K(0, 8)), depth=10)
    h.bmc_depth = 10

def c_wb2axi(dw=32, base=0x400, addressing="word", only_address_finding=False):
    AW = 16
    wb = wishbone.Interface(data_width=dw, address_width=AW, addressing=addressing); a = AXIInterface(data_width=dw, address_width=AW, id_width=2)
    d = mk(Wishbone2AXI, wb, a, base)
    h = HwCheck(f"Wishbone2AXI.mem(dw={dw},base={base:#x},{addressing})", d, wblib.m_inputs(wb) + axi_slave_inputs(a))
    wb2axi_contract(h, d, wb, a, base, only_address_finding)
    h.functions = ["litex.soc.interconnect.axi.axi_full_to_wishbone.Wishbone2AXI.__init__", "litex.soc.interconnect.axi.axi_lite_to_wishbone.Wishbone2AXILite.__init__ (flattened)",
                   "litex.soc.interconnect.axi.axi_full_to_axi_lite.AXILite2AXI.__init__ (flattened)"]
    return h

_cases2 = cases
def cases(tier):
    cs = _cases2(tier)
    cs += [VCase("Wishbone2AXI.mem(32,base=0x400,word)", c_wb2axi, 32, 0x400, "word"), VCase("Wishbone2AXI.mem(64,base=0,word)", c_wb2axi, 64, 0, "word"), VCase("Wishbone2AXI.mem(32,base=0,byte)", c_wb2axi, 32, 0, "byte"),
           VCase("Wishbone2AXI.base(64,base=0x400,word)", c_wb2axi, 64, 0x400, "word", True), VCase("Wishbone2AXI.base(32,base=0x400,byte)", c_wb2axi, 32, 0x400, "byte", True),
           VCase("Wishbone2AXI.mem(64,base=0x400,word)", c_wb2axi, 64, 0x400, "word"), VCase("Wishbone2AXI.mem(32,base=0x400,byte)", c_wb2axi, 32, 0x400, "byte")]
    return cs
ASSUMPTIONS += ["Wishbone2AXI direct contract: classic Wishbone master holding its request; AXI slave answers B after AW and W, R after AR, holds responses, is a byte memory at the tracked byte whose writes take effect with the OKAY response"]

# =========================================================================================================== 3. configurations that were never built
SRAM_NARROW = ("AXILiteSRAM accepts a Memory narrower than the bus (assert mem.width <= bus_data_width) but then indexes port.we for every byte of the BUS: "
               "for a writable narrower memory the constructor raises IndexError instead of building the memory")

def c_axilsram_cfg(depth=4, read_only=False, init=None, memarg=False):
    """AXILiteSRAM as a flat byte memory (symbolic-address method) in the configurations SoC.add_ram uses: ROM (read_only), initial contents, a prebuilt Memory"""
    from migen import Memory
    ax = AXILiteInterface(data_width=32, address_width=32)
    if memarg:
        mobj = Memory(32, depth, init=init)
        if read_only: mobj.bus_read_only = True                     # the attribute SoC.add_ram-style callers set on a prebuilt ROM (read_only argument left at None)
        d = mk(AXILiteSRAM, mobj, bus=ax)
    else:
        d = mk(AXILiteSRAM, depth * 4, read_only=read_only, init=init, bus=ax)
    h = HwCheck(f"AXILiteSRAM({depth}x32,ro={read_only},init={'yes' if init else 'no'},{'Memory' if memarg else 'size'})", d, master_side_inputs(ax))
    V = h.v
    for ch in ("aw", "w", "ar"): src_env(h, getattr(ax, ch), ch)
    AW = (depth - 1).bit_length()
    mem = h.ts.mems[d.mem]
    gw = h.const("gw", AW); gl = h.const("gl", 2)
    if init:
        iv = K(0, 8)
        for w_ in range(depth):
            for l_ in range(4):
                val = ((init[w_] if w_ < len(init) else 0) >> (8 * l_)) & 0xff
                iv = z3.If(z3.And(gw == K(w_, AW), gl == K(l_, 2)), K(val, 8), iv)
    else: iv = 0
    gv = h.ghost("gv", 8, iv)
    def memrd(a):
        r = V(mem[depth - 1])
        for j in reversed(range(depth - 1)): r = z3.If(a == K(j, AW), V(mem[j]), r)
        return r
    F = lambda ep: fire(h, ep)
    awf, wf, arf, rf, bf = F(ax.aw), F(ax.w), F(ax.ar), F(ax.r), F(ax.b)
    wadr = h.ghost("wadr", AW); aw_first = h.ghost("aw_first", 1)
    cur_wadr = z3.If(b(aw_first), wadr, z3.Extract(AW + 1, 2, V(ax.aw.addr)))
    h.ghost_next(aw_first, z3.If(z3.And(awf, z3.Not(wf)), K(1, 1), z3.If(wf, K(0, 1), aw_first)))
    h.ghost_next(wadr, z3.If(z3.And(awf, z3.Not(wf)), z3.Extract(AW + 1, 2, V(ax.aw.addr)), wadr))
    hit_w = z3.And(wf, cur_wadr == gw, sbit(V(ax.w.strb), gl, 4)) if not read_only else z3.BoolVal(False)      # a ROM ignores writes (they are still answered)
    gv_next = z3.If(hit_w, lane_of(V(ax.w.data), gl, 4), gv)
    h.ghost_next(gv, gv_next)
    rd_tracked = h.ghost("rd_tracked", 1); rd_val = h.ghost("rd_val", 8)
    h.ghost_next(rd_tracked, z3.If(arf, bv1(z3.Extract(AW + 1, 2, V(ax.ar.addr)) == gw), z3.If(rf, K(0, 1), rd_tracked)))
    h.ghost_next(rd_val, z3.If(arf, gv, rd_val))
    owe_b = h.ghost("owe_b", 1); owe_r = h.ghost("owe_r", 1)
    h.ghost_next(owe_b, z3.If(wf, K(1, 1), z3.If(bf, K(0, 1), owe_b))); h.ghost_next(owe_r, z3.If(arf, K(1, 1), z3.If(rf, K(0, 1), owe_r)))
    h.hint("mem", lane_of(memrd(gw), gl, 4) == gv)
    try:
        st, enc = d.fsm.state, d.fsm.encoding
        for cand in [x for x in h.ts.state if x.nbits == AW]:
            h.hint(f"latch.adr{cand.duid}", z3.Implies(z3.And(eqc(V(st), enc["LATCH-READ-RESPONSE"]), b(rd_tracked)), V(cand) == gw))
            h.hint(f"wait.adr{cand.duid}", z3.Implies(eqc(V(st), enc["WAIT-FOR-WRITE-DATA"]), V(cand) == wadr))
        for cand in [x for x in h.ts.state if x.nbits == 32 and x not in mem]:
            h.hint(f"send.dat{cand.duid}", z3.Implies(z3.And(eqc(V(st), enc["SEND-READ-RESPONSE"]), b(rd_tracked)), lane_of(V(cand), gl, 4) == rd_val))
            h.hint(f"latch.dat{cand.duid}", z3.Implies(z3.And(eqc(V(st), enc["LATCH-READ-RESPONSE"]), b(rd_tracked)), lane_of(V(cand), gl, 4) == rd_val))      # READ_FIRST port: registered read data
        h.hint("owe_r.st", b(owe_r) == z3.Or(eqc(V(st), enc["LATCH-READ-RESPONSE"]), eqc(V(st), enc["SEND-READ-RESPONSE"])))
        h.hint("owe_b.st", b(owe_b) == eqc(V(st), enc["SEND-WRITE-RESPONSE"]))
        h.hint("aw_first.st", b(aw_first) == eqc(V(st), enc["WAIT-FOR-WRITE-DATA"]))
        h.hint("st<n", ult(V(st), len(enc)))
    except (AttributeError, KeyError, TypeError): pass
    h.hint("rd_val=gv", z3.Implies(b(owe_r), rd_val == gv))
    h.use_auto = True
    h.ensure("ens.read", z3.Implies(z3.And(b(V(ax.r.valid)), b(rd_tracked)), lane_of(V(ax.r.data), gl, 4) == rd_val))
    h.ensure("ens.write", lane_of(h.primed(memrd(gw)), gl, 4) == gv_next)
    if read_only: h.ensure("ens.ro", lane_of(h.primed(memrd(gw)), gl, 4) == lane_of(memrd(gw), gl, 4))
    if init or read_only: h.ensure("ens.init-kept", z3.Implies(z3.BoolVal(bool(read_only)), gv == (iv if not isinstance(iv, int) else K(iv, 8))))      # a ROM returns its initial contents for ever
    h.ensure("ens.rvalid", z3.Implies(b(V(ax.r.valid)), b(owe_r))); h.ensure("ens.bvalid", z3.Implies(b(V(ax.b.valid)), b(owe_b)))
    h.ensure("ens.w_needs_aw", z3.Implies(wf, z3.Or(awf, b(aw_first))))
    h.ensure("ens.resp_ok", z3.And(z3.Implies(b(V(ax.r.valid)), V(ax.r.resp) == K(0, 2)), z3.Implies(b(V(ax.b.valid)), V(ax.b.resp) == K(0, 2))))
    src_guarantee(h, ax.b, "b"); src_guarantee(h, ax.r, "r")
    h.respond("resp.read", z3.And(b(V(ax.ar.valid)), z3.Not(b(V(ax.aw.valid))), b(V(ax.r.ready)), b(V(ax.b.ready)), z3.Implies(b(aw_first), b(V(ax.w.valid)))), rf, 7)
    h.respond("resp.write", z3.And(b(V(ax.aw.valid)), b(V(ax.w.valid)), z3.Not(b(V(ax.ar.valid))), b(V(ax.r.ready)), b(V(ax.b.ready))), bf, 5)
    h.cover("cover.rd", z3.And(rf, b(rd_tracked)), depth=6)
    if init: h.cover("cover.rd.init", z3.And(rf, b(rd_tracked), rd_val != K(0, 8), z3.Not(b(owe_b))), depth=4)
    if read_only: h.cover("cover.wr-answered", bf, depth=4)
    h.bmc_depth = 8; h.bmc_time = 40; h.cosim_cycles = 12
    h.functions = ["litex.soc.interconnect.axi.axi_lite.AXILiteSRAM.__init__", "litex.soc.interconnect.axi.axi_lite.axi_lite_to_simple"]
    return h

def c_axilsram_narrow():
    """a Memory narrower than the bus is admitted by the constructor's own assertion: it has to elaborate"""
    import time, traceback
    from migen import Memory
    t0 = time.time()
    ax = AXILiteInterface(data_width=32, address_width=32)
    try:
        mk(AXILiteSRAM, Memory(16, 4), bus=ax); st, info = PROVED, "elaborates"
    except AssertionError as e: st, info = OK, "refused by an assertion"
    except Exception as e:
        tb = traceback.extract_tb(e.__traceback__)[-1]; tb2 = [t for t in traceback.extract_tb(e.__traceback__) if "/litex/" in t.filename]
        st, info = VIOLATED, f"{type(e).__name__} at {(tb2[-1] if tb2 else tb).filename.split('/litex/')[-1]}:{(tb2[-1] if tb2 else tb).lineno} ({(tb2[-1] if tb2 else tb).line})"
    r = res("finding.narrow-memory-elaborates", "finding-witness", st, time.time() - t0, "native", info=info, what=SRAM_NARROW, replay="tools/replay_axilsram_narrow_memory.py")
    return dict(results=[r], functions=["litex.soc.interconnect.axi.axi_lite.AXILiteSRAM.__init__ (Memory narrower than the bus)"], assumptions=[])

def c_axil2axi_w(dw=64, burst_type="INCR"):
    AW = 16; SH = (dw // 8).bit_length() - 1
    s_ = AXILiteInterface(data_width=dw, address_width=AW); a = AXIInterface(data_width=dw, address_width=AW, id_width=2)
    class Top(LiteXModule):
        def __init__(self): self.bridge = AXILite2AXI(s_, a, write_id=3, read_id=2, prot=1, burst_type=burst_type)
    d = mk(Top)
    h = HwCheck(f"AXILite2AXI(dw={dw},{burst_type})", d, master_side_inputs(s_) + axi_slave_inputs(a))
    V = h.v
    bt = {"FIXED": 0, "INCR": 1, "WRAP": 2}[burst_type]
    for ch, idv in (("aw", 3), ("ar", 2)):
        f, t = getattr(s_, ch), getattr(a, ch)
        h.ensure(f"ens.{ch}", z3.And(V(t.valid) == V(f.valid), V(f.ready) == V(t.ready), V(t.addr) == V(f.addr), V(t.len) == K(0, 8), V(t.size) == K(SH, 3),
                                     V(t.burst) == K(bt, 2), V(t.id) == K(idv, 2), V(t.lock) == K(0, V(t.lock).size()), V(t.prot) == K(1, 3)))     # one beat of the FULL bus width (size = log2(bytes per word)) at the same address
    h.ensure("ens.w", z3.And(V(a.w.valid) == V(s_.w.valid), V(s_.w.ready) == V(a.w.ready), V(a.w.data) == V(s_.w.data), V(a.w.strb) == V(s_.w.strb), b(V(a.w.last))))
    h.ensure("ens.b", z3.And(V(s_.b.valid) == V(a.b.valid), V(a.b.ready) == V(s_.b.ready), V(s_.b.resp) == V(a.b.resp)))
    h.ensure("ens.r", z3.And(V(s_.r.valid) == V(a.r.valid), V(a.r.ready) == V(s_.r.ready), V(s_.r.resp) == V(a.r.resp), V(s_.r.data) == V(a.r.data)))
    h.cover("cover.rd", z3.And(b(V(a.ar.valid)), b(V(a.ar.ready))), depth=2)
    h.functions = ["litex.soc.interconnect.axi.axi_full_to_axi_lite.AXILite2AXI.__init__"]
    return h

def c_axil_conv1(dw=32):
    """AXILiteConverter with equal widths: a wire (every channel forwarded unchanged, in both directions)"""
    m = AXILiteInterface(data_width=dw, address_width=16); s = AXILiteInterface(data_width=dw, address_width=16)
    d = mk(AXILiteConverter, m, s)
    h = HwCheck(f"AXILiteConverter({dw}->{dw})", d, master_side_inputs(m) + slave_side_inputs(s))
    V = h.v
    for c in ("aw", "w", "ar"):
        f, t = getattr(m, c), getattr(s, c)
        h.ensure(f"ens.{c}", z3.And(V(t.valid) == V(f.valid), V(f.ready) == V(t.ready), *[V(x) == V(y) for x, y in zip(pay(t), pay(f))]))
    for c in ("b", "r"):
        f, t = getattr(s, c), getattr(m, c)
        h.ensure(f"ens.{c}", z3.And(V(t.valid) == V(f.valid), V(f.ready) == V(t.ready), *[V(x) == V(y) for x, y in zip(pay(t), pay(f))]))
    h.cover("cover.w", fire(h, s.w), depth=2)
    h.functions = ["litex.soc.interconnect.axi.axi_lite.AXILiteConverter.__init__ (ratio 1)"]
    return h

def c_axil2csr_w(dw=8, aw=14):
    """AXILite2CSR at CSR data width dw (the bridge requires the AXI-Lite bus to have the same width): word address = byte address // (dw/8)"""
    SH = (dw // 8).bit_length() - 1; NB = dw // 8; CA = aw - SH
    ax = AXILiteInterface(data_width=dw, address_width=aw); cs = csr_bus.Interface(data_width=dw, address_width=CA)
    d = mk(AXILite2CSR, ax, cs)
    h = HwCheck(f"AXILite2CSR(dw={dw})", d, master_side_inputs(ax) + [cs.dat_r])
    V = h.v
    for ch in ("aw", "w", "ar"): src_env(h, getattr(ax, ch), ch)
    F = lambda ep: fire(h, ep)
    awf, wf, arf, rf, bf = F(ax.aw), F(ax.w), F(ax.ar), F(ax.r), F(ax.b)
    wa = lambda sig: z3.Extract(aw - 1, SH, V(sig))
    wadr = h.ghost("wadr", CA); aw_first = h.ghost("aw_first", 1)
    cur_wadr = z3.If(b(aw_first), wadr, wa(ax.aw.addr))
    h.ghost_next(aw_first, z3.If(z3.And(awf, z3.Not(wf)), K(1, 1), z3.If(wf, K(0, 1), aw_first)))
    h.ghost_next(wadr, z3.If(z3.And(awf, z3.Not(wf)), wa(ax.aw.addr), wadr))
    owe_b = h.ghost("owe_b", 1); owe_r = h.ghost("owe_r", 1)
    h.ghost_next(owe_b, z3.If(wf, K(1, 1), z3.If(bf, K(0, 1), owe_b))); h.ghost_next(owe_r, z3.If(arf, K(1, 1), z3.If(rf, K(0, 1), owe_r)))
    g_rd = h.ghost("g_rd", dw); p_re = h.prev("re", V(cs.re))
    h.ghost_next(g_rd, z3.If(b(p_re), V(cs.dat_r), g_rd))
    h.use_auto = True
    try:
        st, enc = d.fsm.state, d.fsm.encoding
        for cand in [x for x in h.ts.state if x.nbits == CA]: h.hint(f"wait.adr{cand.duid}", z3.Implies(eqc(V(st), enc["WAIT-FOR-WRITE-DATA"]), V(cand) == wadr))
        for cand in [x for x in h.ts.state if x.nbits == dw]: h.hint(f"send.dat{cand.duid}", z3.Implies(eqc(V(st), enc["SEND-READ-RESPONSE"]), V(cand) == g_rd))
        h.hint("latch", eqc(V(st), enc["LATCH-READ-RESPONSE"]) == b(p_re))
        h.hint("owe_r.st", b(owe_r) == z3.Or(eqc(V(st), enc["LATCH-READ-RESPONSE"]), eqc(V(st), enc["SEND-READ-RESPONSE"])))
        h.hint("owe_b.st", b(owe_b) == eqc(V(st), enc["SEND-WRITE-RESPONSE"]))
        h.hint("aw_first.st", b(aw_first) == eqc(V(st), enc["WAIT-FOR-WRITE-DATA"]))
        h.hint("st<n", ult(V(st), len(enc)))
    except (AttributeError, KeyError, TypeError): pass
    h.ensure("ens.csr.we", b(V(cs.we)) == z3.And(wf, V(ax.w.strb) != K(0, NB)))
    h.ensure("ens.csr.we.addr", z3.Implies(b(V(cs.we)), z3.And(V(cs.adr) == cur_wadr, V(cs.dat_w) == V(ax.w.data))))
    h.ensure("ens.csr.re", z3.And(b(V(cs.re)) == arf, z3.Implies(arf, V(cs.adr) == wa(ax.ar.addr))))
    h.ensure("ens.csr.one-at-a-time", z3.Not(z3.And(b(V(cs.we)), b(V(cs.re)))))
    h.ensure("ens.r", z3.Implies(b(V(ax.r.valid)), z3.And(b(owe_r), V(ax.r.data) == g_rd, V(ax.r.resp) == K(0, 2))))
    h.ensure("ens.b", z3.Implies(b(V(ax.b.valid)), z3.And(b(owe_b), V(ax.b.resp) == K(0, 2))))
    h.ensure("ens.w_needs_aw", z3.Implies(wf, z3.Or(awf, b(aw_first))))
    src_guarantee(h, ax.b, "b"); src_guarantee(h, ax.r, "r")
    h.respond("resp.read", z3.And(b(V(ax.ar.valid)), z3.Not(b(V(ax.aw.valid))), b(V(ax.r.ready)), b(V(ax.b.ready)), z3.Implies(b(aw_first), b(V(ax.w.valid)))), rf, 7)
    h.respond("resp.write", z3.And(b(V(ax.aw.valid)), b(V(ax.w.valid)), z3.Not(b(V(ax.ar.valid))), b(V(ax.r.ready)), b(V(ax.b.ready))), bf, 5)
    h.cover("cover.rd", rf, depth=6); h.cover("cover.we", b(V(cs.we)), depth=4)
    h.functions = ["litex.soc.interconnect.axi.axi_lite_to_csr.AXILite2CSR.__init__", "litex.soc.interconnect.axi.axi_lite.axi_lite_to_simple"]
    return h

_cases3 = cases
def cases(tier):
    cs = _cases3(tier)
    INIT = [0x11223344, 0xa5a5f00f, 0x00000000, 0xdeadbeef]
    cs += [VCase("AXILiteSRAM(4x32,read_only)", c_axilsram_cfg, 4, True, INIT, False), VCase("AXILiteSRAM(4x32,init)", c_axilsram_cfg, 4, False, INIT, False),
           VCase("AXILiteSRAM(4x32,Memory)", c_axilsram_cfg, 4, False, INIT, True), VCase("AXILiteSRAM(4x32,Memory,read_only)", c_axilsram_cfg, 4, True, INIT, True),

           VCase("AXILite2AXI(dw=64,INCR)", c_axil2axi_w, 64, "INCR"), VCase("AXILite2AXI(dw=64,WRAP)", c_axil2axi_w, 64, "WRAP"),
           VCase("AXILiteConverter(32->32)", c_axil_conv1, 32), VCase("AXILiteConverter(64->64)", c_axil_conv1, 64),
           VCase("AXILiteDownConverter(64->32)", c_axil_down, 64, 32, timeout=1200),
           VCase("AXILite2CSR(dw=8)", c_axil2csr_w, 8, 14), VCase("AXILite2CSR(dw=16)", c_axil2csr_w, 16, 14)]
    if tier == "thorough": cs += [VCase("AXILiteDownConverter(64->16)", c_axil_down, 64, 16, timeout=1800), VCase("AXILite2CSR(dw=64)", c_axil2csr_w, 64, 14)]
    return cs
ASSUMPTIONS += ["AXILiteSRAM read_only: writes are accepted and answered OKAY but ignored (the property does not ask for an error response)"]

# =========================================================================================================== 4. SoCBusHandler.add_adapter
from litex.soc.integration.soc import SoCBusHandler
from .C09_add_adapter import _views, BW

def _build_adapter(itf, bus_kind, bus_dw, direction):
    class Top(LiteXModule):
        def __init__(self):
            self.bus = SoCBusHandler(standard=bus_kind, data_width=bus_dw, address_width=32)
            self.adapted = self.bus.add_adapter("dut", itf, direction)
    d = mk(Top)
    return d, d.adapted

def _shape(d, ad, bus_kind, bus_dw):
    want_cls = {"wishbone": wishbone.Interface, "axi-lite": AXILiteInterface, "axi": AXIInterface}[bus_kind]
    ok = isinstance(ad, want_cls) and ad.data_width == bus_dw and ad.address_width == 32 and getattr(ad, "addressing", d.bus.addressing) == d.bus.addressing
    return res("ens.shape", "ensures", OK if ok else VIOLATED, 0, "structural", got=f"{type(ad).__name__}/{ad.data_width}/{getattr(ad, 'addressing', None)}/{ad.address_width}")

def _elab_failure(name, e):
    import traceback
    tb = [t for t in traceback.extract_tb(e.__traceback__) if "/litex/" in t.filename]
    where = f"{tb[-1].filename.split('/litex/')[-1]}:{tb[-1].lineno} ({tb[-1].line})" if tb else ""
    if isinstance(e, AssertionError):
        return dict(results=[res("ens.refused", "ensures", OK, 0, "structural", info=f"configuration rejected by an assertion at {where} - nothing is built")], functions=["litex.soc.integration.soc.SoCBusHandler.add_adapter"], assumptions=[])
    return dict(results=[res("ens.elaborates", "ensures", VIOLATED, 0, "native", info=f"{type(e).__name__}: {e} at {where}")], functions=["litex.soc.integration.soc.SoCBusHandler.add_adapter"], assumptions=[])

def ahb_contract(h, d, a, w):
    """AHB-Lite master port `a` -> Wishbone port `w`: every NONSEQ transfer becomes one Wishbone cycle on the same bytes (address, size -> byte lanes, write data on its lanes)"""
    V = h.v
    AW = len(a.addr); dw = len(a.wdata); NB = dw // 8; SH = NB.bit_length() - 1; shift = SH if w.addressing == "word" else 0
    ready = b(V(a.readyout))
    ctl = cat(V(a.addr), V(a.size), V(a.trans), V(a.write), V(a.sel), V(a.burst))
    p_ctl = h.prev("ctl", ctl); p_nrdy = h.prev("nrdy", bv1(z3.Not(ready))); p_wdata = h.prev("wdata", V(a.wdata))
    h.assume(z3.Implies(b(p_nrdy), ctl == p_ctl), "AHB master holds the address-phase signals of the next transfer while hready is low")
    busy = h.ghost("busy", 1); gadr = h.ghost("gadr", AW); gsize = h.ghost("gsize", 3); gwr = h.ghost("gwr", 1)
    accept = z3.And(ready, b(V(a.sel)), V(a.trans) == K(2, 2), ule(V(a.size), SH))
    h.assume(z3.Implies(z3.And(b(p_nrdy), b(busy)), V(a.wdata) == p_wdata), "AHB master holds hwdata during the data phase while hready is low")
    wb_req = z3.And(b(V(w.cyc)), b(V(w.stb))); wb_ack = z3.And(wb_req, b(V(w.ack)))
    wblib.slave_legal(h, w)
    h.ghost_next(busy, z3.If(accept, K(1, 1), z3.If(ready, K(0, 1), busy)))
    for g, sig in ((gadr, a.addr), (gsize, a.size), (gwr, a.write)): h.ghost_next(g, z3.If(accept, V(sig), g))
    acked = h.ghost("acked", 1); h.ghost_next(acked, z3.If(accept, K(0, 1), z3.If(wb_ack, K(1, 1), acked)))
    grd = h.ghost("grd", dw); h.ghost_next(grd, z3.If(wb_ack, V(w.dat_r), grd))
    lanes = K(0, NB)
    for sz in range(SH + 1):
        nbytes = 1 << sz
        off = z3.Extract(SH - 1, 0, gadr) & K(((1 << SH) - 1) & ~(nbytes - 1), SH)
        lanes = z3.If(gsize == K(sz, 3), K((1 << nbytes) - 1, NB) << zx(off, NB), lanes)
    wadr_bytes = zx(V(w.adr), BW) << shift
    h.ensure("ens.wb.req", z3.Implies(wb_req, z3.And(b(busy), z3.Not(b(acked)), (wadr_bytes & ~z3.BitVecVal(NB - 1, BW)) == (zx(gadr, BW) & ~z3.BitVecVal(NB - 1, BW)), V(w.we) == gwr, V(w.sel) == lanes,
                                                    z3.Implies(b(gwr), V(w.dat_w) == V(a.wdata)), V(w.cyc) == V(w.stb))))
    h.ensure("ens.wb.once", z3.Implies(z3.And(b(busy), b(acked)), z3.Not(wb_req)))
    h.ensure("ens.wait", z3.Implies(z3.And(b(busy), z3.Not(b(acked))), z3.And(z3.Not(ready), wb_req)))
    h.ensure("ens.done", z3.Implies(z3.And(b(busy), b(acked)), z3.And(ready, z3.Implies(z3.Not(b(gwr)), V(a.rdata) == grd))))
    h.ensure("ens.idle", z3.Implies(z3.Not(b(busy)), z3.And(ready, z3.Not(wb_req), z3.Not(b(V(a.resp))))))
    h.ensure_seq("ens.wb.stable", lambda at: z3.Implies(at(z3.And(wb_req, z3.Not(b(V(w.ack)))), 0), z3.And(at(wb_req, 1), at(cat(V(w.adr), V(w.we), V(w.sel)), 1) == at(cat(V(w.adr), V(w.we), V(w.sel)), 0))))
    h.respond("resp.done", b(V(w.ack)), ready, 2)
    try:
        br = _subs(d, ahb.AHB2Wishbone)[0]; st, enc = br.fsm.state, br.fsm.encoding
        h.hint("data", eqc(V(st), enc["DATA-PHASE"]) == z3.And(b(busy), z3.Not(b(acked))))
        h.hint("regs", z3.Implies(b(busy), z3.And((wadr_bytes & ~z3.BitVecVal(NB - 1, BW)) == (zx(gadr, BW) & ~z3.BitVecVal(NB - 1, BW)), V(w.we) == gwr, V(w.sel) == lanes)))
        h.hint("rdata", z3.Implies(z3.And(b(busy), b(acked)), V(a.rdata) == grd))
        h.hint("size", z3.Implies(b(busy), ule(gsize, SH)))
    except (AttributeError, KeyError, TypeError, IndexError): pass
    h.use_auto = True
    h.cover("cover.read", z3.And(b(busy), b(acked), z3.Not(b(gwr))), depth=4)
    h.cover("cover.write8", z3.And(wb_ack, b(gwr), gsize == K(0, 3)), depth=4)
    h.bmc_depth = 8

def axi2axil_contract(h, d, m, s):
    """AXI master port -> AXI-Lite port (slaves with one read outstanding that take write data with/after its address): beat k of a burst is one AXI-Lite access at the AMBA
    address of beat k carrying the master's k-th W beat unchanged (byte lanes preserved), read data returned unchanged"""
    V = h.v; F = lambda ep: fire(h, ep)
    AW = len(m.aw.addr); DW = len(m.w.data); NB = DW // 8; SH = NB.bit_length() - 1; IDW = len(m.aw.id); W = max(24, AW + 1)
    src_env(h, m.aw, "m.aw"); src_env(h, m.ar, "m.ar"); st_w, _ = src_env(h, m.w, "m.w")
    p_wlast = h.prev("mwlast", V(m.w.last))
    h.assume(z3.Implies(b(st_w), V(m.w.last) == p_wlast), "AXI channel source holds valid and payload until ready (W last flag)")
    for ch in (m.aw, m.ar):
        h.assume(z3.Implies(b(V(ch.valid)), _burst_legal(W, V(ch.addr), V(ch.len), V(ch.size), V(ch.burst), SH)), "burst requests are AXI-legal (size within the bus; WRAP: 2/4/8/16 beats, aligned start; INCR within a 4KB page)")
    src_env(h, s.r, "s.r"); src_env(h, s.b, "s.b")
    mode = h.ghost("mode", 2); gaddr = h.ghost("gaddr", AW); glen = h.ghost("glen", 8); gsize = h.ghost("gsize", 3); gtype = h.ghost("gtype", 2); gid = h.ghost("gid", IDW)
    na = h.ghost("na", 9); nr = h.ghost("nr", 9); nw = h.ghost("nw", 9)
    idle, rd, wr = mode == K(0, 2), mode == K(1, 2), mode == K(2, 2)
    ar_f, aw_f = F(m.ar), F(m.aw)
    s_arf, s_awf, s_wf, s_rf, m_rf, m_bf, m_wf = F(s.ar), F(s.aw), F(s.w), F(s.r), F(m.r), F(m.b), F(m.w)
    L9 = zx(glen, 9)
    rd_done = z3.And(rd, m_rf, nr == L9); wr_done = z3.And(wr, m_bf)
    h.ghost_next(mode, z3.If(idle, z3.If(ar_f, K(1, 2), z3.If(aw_f, K(2, 2), K(0, 2))), z3.If(z3.Or(rd_done, wr_done), K(0, 2), mode)))
    for g, far, faw in ((gaddr, m.ar.addr, m.aw.addr), (glen, m.ar.len, m.aw.len), (gsize, m.ar.size, m.aw.size), (gtype, m.ar.burst, m.aw.burst), (gid, m.ar.id, m.aw.id)):
        h.ghost_next(g, z3.If(z3.And(idle, ar_f), V(far), z3.If(z3.And(idle, aw_f), V(faw), g)))
    start = z3.And(idle, z3.Or(ar_f, aw_f))
    h.ghost_next(na, z3.If(start, K(0, 9), z3.If(z3.Or(s_arf, s_awf), na + 1, na)))
    h.ghost_next(nr, z3.If(start, K(0, 9), z3.If(m_rf, nr + 1, nr)))
    h.ghost_next(nw, z3.If(start, K(0, 9), z3.If(s_wf, nw + 1, nw)))
    h.assume(z3.Implies(z3.And(wr, b(V(m.w.valid))), b(V(m.w.last)) == (nw == L9)), "AXI master sends len+1 W beats, last on the final one")
    h.assume(z3.Implies(s_arf, na == nr), "scenario: the AXI-Lite slave has at most one read outstanding (it accepts an address only when it owes no data)")
    h.assume(z3.Implies(s_wf, z3.Or(z3.UGT(na, nw), s_awf)), "scenario: the AXI-Lite slave accepts write data only with or after the matching write address")
    h.assume(z3.Implies(b(V(s.r.valid)), z3.And(rd, z3.UGT(na, nr))), "AXI-Lite slave returns R only for an accepted, unanswered AR")
    mask = z3.BitVecVal((1 << AW) - 1, W)
    want = lambda n_: z3.LShR((zx(gaddr, W) + _burst_off(W, gaddr, glen, gsize, gtype, n_)) & mask, zx(gsize, W))
    got = lambda a_: z3.LShR(zx(V(a_), W), zx(gsize, W))
    h.ensure("ens.rd.ar", z3.Implies(b(V(s.ar.valid)), z3.And(rd, z3.ULE(na, L9), got(s.ar.addr) == want(na))))
    h.ensure("ens.wr.aw", z3.Implies(b(V(s.aw.valid)), z3.And(wr, z3.ULE(na, L9), got(s.aw.addr) == want(na))))
    h.ensure("ens.wr.w", z3.And(z3.Implies(b(V(s.w.valid)), z3.And(wr, b(V(m.w.valid)), V(s.w.data) == V(m.w.data), V(s.w.strb) == V(m.w.strb), z3.ULE(nw, L9))), s_wf == m_wf))
    h.ensure("ens.rd.r", z3.Implies(b(V(m.r.valid)), z3.And(rd, b(V(s.r.valid)), V(m.r.data) == V(s.r.data), V(m.r.id) == gid, b(V(m.r.last)) == (nr == L9))))
    h.ensure("ens.accept", z3.And(z3.Implies(z3.Or(ar_f, aw_f), idle), z3.Not(z3.And(ar_f, aw_f))))
    try:
        a2l = _subs(d, AXI2AXILite)[0]
        st, enc = a2l.fsm.state, a2l.fsm.encoding; S = lambda n_: eqc(V(st), enc[n_])
        buf = L(a2l, "ax_buffer"); b2b = L(a2l, "ax_burst2beat"); cd = L(a2l, "_cmd_done"); bc, bo = L(b2b, "beat_count"), L(b2b, "beat_offset"); bs = buf.source
        h.hint("st", ult(V(st), len(enc)))
        h.hint("idle", S("IDLE") == idle); h.hint("read", S("READ") == rd); h.hint("write", z3.Or(S("WRITE"), S("WRITE-RESP")) == wr)
        h.hint("buf", b(V(bs.valid)) == z3.Not(idle))
        h.hint("buf.req", z3.Implies(z3.Not(idle), z3.And(V(bs.addr) == gaddr, V(bs.len) == glen, V(bs.size) == gsize, V(bs.burst) == gtype, V(bs.id) == gid)))
        h.hint("legal", z3.Implies(z3.Not(idle), _burst_legal(W, gaddr, glen, gsize, gtype, SH)))
        nmin = z3.If(z3.ULE(na, L9), na, L9)
        h.hint("count", z3.Implies(z3.Not(idle), zx(V(bc), 9) == nmin))
        h.hint("offset", z3.Implies(z3.Not(idle), sx(V(bo), W) == _burst_off(W, gaddr, glen, gsize, gtype, nmin)))
        h.hint("idle.b2b", z3.Implies(idle, z3.And(V(bc) == K(0, 8), V(bo) == K(0, V(bo).size()))))
        h.hint("na<=len+1", z3.ULE(na, L9 + 1))
        h.hint("cmd_done", z3.Implies(z3.Not(idle), b(V(cd)) == (na == L9 + 1)))
        h.hint("rd.nr", z3.Implies(rd, z3.And(z3.ULE(nr, na), z3.ULE(na, nr + 1), z3.ULE(nr, L9))))
        h.hint("wr.nw", z3.Implies(wr, z3.And(z3.ULE(nw, na), z3.ULE(nw, L9 + 1))))
        h.hint("wresp", z3.Implies(wr, S("WRITE-RESP") == (nw == L9 + 1)))
    except (AttributeError, KeyError, TypeError, IndexError) as e: h.note = f"hints skipped: {e!r}"; h.use_auto = True
    h.cover("cover.rd.burst", z3.And(rd_done, glen == K(2, 8)), depth=12); h.cover("cover.wr.burst", z3.And(wr_done, glen == K(1, 8)), depth=12)
    h.bmc_depth = 14; h.bmc_time = 45

def axil2axi_contract(h, s_, a):
    V = h.v; SH = (len(a.w.data) // 8).bit_length() - 1
    for ch in ("aw", "ar"):
        f, t = getattr(s_, ch), getattr(a, ch)
        h.ensure(f"ens.{ch}", z3.And(V(t.valid) == V(f.valid), V(f.ready) == V(t.ready), V(t.addr) == V(f.addr), V(t.len) == K(0, 8), V(t.size) == K(SH, 3), ule(V(t.burst), 2), V(t.lock) == K(0, V(t.lock).size())))
    h.ensure("ens.w", z3.And(V(a.w.valid) == V(s_.w.valid), V(s_.w.ready) == V(a.w.ready), V(a.w.data) == V(s_.w.data), V(a.w.strb) == V(s_.w.strb), b(V(a.w.last))))
    h.ensure("ens.b", z3.And(V(s_.b.valid) == V(a.b.valid), V(a.b.ready) == V(s_.b.ready), V(s_.b.resp) == V(a.b.resp)))
    h.ensure("ens.r", z3.And(V(s_.r.valid) == V(a.r.valid), V(a.r.ready) == V(s_.r.ready), V(s_.r.resp) == V(a.r.resp), V(s_.r.data) == V(a.r.data)))
    h.cover("cover.rd", z3.And(b(V(a.ar.valid)), b(V(a.ar.ready))), depth=2)

def axi_width_contract(h, d, m, s):
    """AXI width conversion selected by add_adapter: address channels forwarded in the same cycle onto the same bytes: same wide word at the start, same number of bytes for full-width bursts,
    ids/burst kind kept; the data paths of the converters are under contract in C10"""
    V = h.v
    NBm = len(m.w.strb); NBs = len(s.w.strb); big = max(NBm, NBs); SHm = NBm.bit_length() - 1; SHs = NBs.bit_length() - 1; LBIG = big.bit_length() - 1
    AWd = len(m.aw.addr)
    for ch in ("aw", "ar"):
        f, t = getattr(m, ch), getattr(s, ch)
        full = V(f.size) == K(SHm, 3)
        bytes_m = (zx(V(f.len), 16) + 1) << SHm; bytes_s = (zx(V(t.len), 16) + 1) << zx(V(t.size), 16)
        if NBm > NBs: fits = z3.BoolVal(True) if True else None
        idw = min(V(t.id).size(), V(f.id).size())                      # (a change of id width is reported by the structural clause ens.id-width-kept)
        h.ensure(f"ens.{ch}.ctrl", z3.And(V(t.valid) == V(f.valid), V(f.ready) == V(t.ready), z3.Extract(idw - 1, 0, V(t.id)) == z3.Extract(idw - 1, 0, V(f.id))))
        h.ensure(f"ens.{ch}.word", z3.Implies(b(V(f.valid)), z3.Extract(AWd - 1, LBIG, V(t.addr)) == z3.Extract(AWd - 1, LBIG, V(f.addr))))                      # the burst starts in the same wide word
        if NBm > NBs:   # down: (len+1)*ratio beats of the narrow width (as long as the result fits the 8-bit len field)
            nofl = z3.ULE((zx(V(f.len), 16) + 1) * (NBm // NBs), z3.BitVecVal(256, 16))
            h.ensure(f"ens.{ch}.bytes", z3.Implies(z3.And(b(V(f.valid)), full, nofl), z3.And(bytes_s == bytes_m, V(t.size) == K(SHs, 3))))
            h.ensure(f"ens.{ch}.burst", z3.Implies(b(V(f.valid)), V(t.burst) == z3.If(V(f.burst) == K(0, 2), K(1, 2), V(f.burst))))
        else:           # up: full-width narrow bursts whose beat count is a multiple of the ratio, starting on a wide word
            r = NBs // NBm
            whole = z3.And((zx(V(f.len), 16) + 1) & z3.BitVecVal(r - 1, 16) == 0, z3.Extract(LBIG - 1, 0, V(f.addr)) == K(0, LBIG))
            h.ensure(f"ens.{ch}.bytes", z3.Implies(z3.And(b(V(f.valid)), full, whole), z3.And(bytes_s == bytes_m, V(t.size) == K(SHs, 3))))
            h.ensure(f"ens.{ch}.burst", z3.Implies(b(V(f.valid)), V(t.burst) == V(f.burst)))
    idw = min(V(m.b.id).size(), V(s.b.id).size())
    h.ensure("ens.b", z3.And(V(m.b.valid) == V(s.b.valid), V(s.b.ready) == V(m.b.ready), V(m.b.resp) == V(s.b.resp), z3.Extract(idw - 1, 0, V(m.b.id)) == z3.Extract(idw - 1, 0, V(s.b.id))))
    h.cover("cover.aw", z3.And(fire(h, s.aw), V(m.aw.len) == K(3, 8), V(m.aw.size) == K(SHm, 3)), depth=2)
    h.use_auto = False

def lane_contract(h, d, master, slave, down_aligned):
    """wishbone / AXI-Lite chains (as C09_add_adapter): every byte written on the slave side is a selected byte of the master's current write at the same byte address; reads stay inside the master's word"""
    from .C09_add_adapter import _kind
    V = h.v
    if _kind(master) == "wishbone": wblib.master_holds(h, master, "m")
    else:
        for ch in ("aw", "w", "ar"): src_env(h, getattr(master, ch), "m." + ch)
        if down_aligned:
            nbm = len(master.w.strb)
            for a_ in (master.aw.addr, master.ar.addr): h.assume(z3.Extract(nbm.bit_length() - 2, 0, V(a_)) == 0, "AXI-Lite master addresses are aligned to its data width when a down-converter is in the chain (unaligned addresses: finding of AXILiteDownConverter)")
    if _kind(slave) == "wishbone": wblib.slave_legal(h, slave, "s")
    else:
        for ch in ("b", "r"): src_env(h, getattr(slave, ch), "s." + ch)
    m, s = _views(h, master), _views(h, slave)
    NBm, NBs = m["nb"], s["nb"]
    lanes = []
    for j in range(NBs):
        off = s["wba"] + j - m["wba"]
        pick_sel = z3.BoolVal(False); pick_dat = z3.BitVecVal(0, 8)
        for i in range(NBm):
            hit = off == z3.BitVecVal(i, BW)
            pick_sel = z3.If(hit, z3.Extract(i, i, m["sel"]) == K(1, 1), pick_sel); pick_dat = z3.If(hit, z3.Extract(8 * i + 7, 8 * i, m["dat"]), pick_dat)
        lanes.append(z3.Implies(z3.Extract(j, j, s["sel"]) == K(1, 1), z3.And(z3.ULT(off, z3.BitVecVal(NBm, BW)), pick_sel, z3.Extract(8 * j + 7, 8 * j, s["dat"]) == pick_dat)))
    both = z3.And(s["wdat"], s["wadr"])
    h.ensure("ens.write.bytes", z3.Implies(both, z3.And(m["wdat"], m["wadr"], *lanes)))
    inside_w = z3.ULT(s["wba"] - m["wba"], z3.BitVecVal(NBm, BW)) if NBm >= NBs else z3.ULT(m["wba"] - s["wba"], z3.BitVecVal(NBs, BW))
    h.ensure("ens.write.addr", z3.Implies(s["wadr"], z3.And(m["wadr"], inside_w)))
    inside = z3.ULT(s["rba"] - m["rba"], z3.BitVecVal(NBm, BW)) if NBm >= NBs else z3.ULT(m["rba"] - s["rba"], z3.BitVecVal(NBs, BW))
    h.ensure("ens.read.addr", z3.Implies(s["radr"], z3.And(m["radr"], inside)))
    h.ensure("ens.write.data-needs-master", z3.Implies(s["wdat"], m["wdat"]))
    if _kind(master) == "wishbone" and _kind(slave) == "wishbone":
        h.ensure("ens.burst-tags", z3.Implies(z3.And(b(V(slave.cyc)), b(V(slave.stb)), V(slave.cti) != K(0, 3)), V(master.cti) != K(0, 3)))      # a burst tag on the slave side only if the master is bursting
    h.use_auto = True
    h.cover("cover.write", both, depth=6); h.cover("cover.read", s["radr"], depth=6)
    if _kind(master) == "wishbone": h.cover("cover.burst-beat", z3.And(both, V(master.cti) == K(2, 3)), depth=6)
    h.bmc_depth = 8

def _mk_if(kind, dw, addressing="word", bursting=False):
    if kind == "wishbone": return wishbone.Interface(data_width=dw, address_width=32, addressing=addressing, bursting=bursting)
    if kind == "axi-lite": return AXILiteInterface(data_width=dw, address_width=32)
    if kind == "axi":      return AXIInterface(data_width=dw, address_width=32, id_width=2, bursting=bursting)
    if kind == "ahb":      return ahb.AHBInterface(data_width=dw, address_width=32)
    raise ValueError(kind)

def _ins_m(itf, kind):
    if kind == "wishbone": return wblib.m_inputs(itf)
    if kind == "axi": return axi_master_inputs(itf)
    if kind == "axi-lite": return master_side_inputs(itf)
    if kind == "ahb": return [itf.addr, itf.burst, itf.mastlock, itf.prot, itf.size, itf.trans, itf.wdata, itf.write, itf.sel]
def _ins_s(itf, kind):
    if kind == "wishbone": return wblib.s_inputs(itf)
    if kind == "axi": return axi_slave_inputs(itf)
    if kind == "axi-lite": return slave_side_inputs(itf)

def c_adapter_ext(i_kind, i_dw, i_addr, bus_kind, bus_dw, direction, bursting=False):
    itf = _mk_if(i_kind, i_dw, i_addr, bursting)
    name = f"add_adapter.ext({i_kind}/{i_dw}/{i_addr}{'/bursting' if bursting else ''}->{bus_kind}/{bus_dw},{direction})"
    try: d, ad = _build_adapter(itf, bus_kind, bus_dw, direction)
    except Exception as e: return _elab_failure(name, e)
    pre = [_shape(d, ad, bus_kind, bus_dw)]
    if bursting and i_kind == bus_kind and i_dw != bus_dw:
        pre.append(res("ens.bursting-kept", "ensures", OK if getattr(ad, "bursting", None) == bursting else VIOLATED, 0, "structural", got=str(getattr(ad, "bursting", None))))
    (master, mk_), (slave, sk_) = ((itf, i_kind), (ad, bus_kind)) if direction == "m2s" else ((ad, bus_kind), (itf, i_kind))
    h = HwCheck(name, d, _ins_m(master, mk_) + _ins_s(slave, sk_))
    pair = (mk_, sk_)
    if pair == ("ahb", "wishbone"): ahb_contract(h, d, master, slave)
    elif pair == ("axi", "wishbone") and master.data_width == slave.data_width: axi2wb_contract(h, d, master, slave, 0, False)
    elif pair == ("wishbone", "axi") and master.data_width == slave.data_width: wb2axi_contract(h, d, master, slave, 0)
    elif pair == ("axi", "axi-lite") and master.data_width == slave.data_width: axi2axil_contract(h, d, master, slave)
    elif pair == ("axi-lite", "axi") and master.data_width == slave.data_width: axil2axi_contract(h, master, slave)
    elif pair == ("axi", "axi"): axi_width_contract(h, d, master, slave)
    elif mk_ in ("wishbone", "axi-lite") and sk_ in ("wishbone", "axi-lite", "axi"):          # (an AXI slave of such a chain only sees single-beat transfers: its AW address is the beat address)
        lane_contract(h, d, master, slave, mk_ == "axi-lite" and master.data_width > min(bus_dw, i_dw))
        if sk_ == "axi":
            for ch in ("aw", "ar"): h.ensure(f"ens.{ch}.single-beat", z3.Implies(b(h.v(getattr(slave, ch).valid)), z3.And(h.v(getattr(slave, ch).len) == K(0, 8), h.v(getattr(slave, ch).size) == K((len(slave.w.strb)).bit_length() - 1, 3))))
    elif mk_ == "axi" and sk_ == "wishbone":
        # AXI master with a width change in front of the bridge: structure only (classes, directions, shape); the two stages have their own contracts (C10 converter, AXI2Wishbone above)
        h.ensure("ens.cyc=stb", h.v(slave.cyc) == h.v(slave.stb))
        h.cover("cover.wb-write", z3.And(b(h.v(slave.cyc)), b(h.v(slave.stb)), b(h.v(slave.we))), depth=8)
        pre.append(res("ens.chain", "ensures", OK if len(_subs(d, axi_pkg.AXIConverter)) == 1 and len(_subs(d, AXI2Wishbone)) == 1 else VIOLATED, 0, "structural"))
    else: raise ValueError(f"no contract for the chain {pair} with a width change")
    # the right converter / bridge classes were instantiated, in the right direction (structural)
    want = {("ahb", "wishbone"): ahb.AHB2Wishbone, ("axi", "wishbone"): AXI2Wishbone, ("wishbone", "axi"): Wishbone2AXI, ("axi", "axi-lite"): AXI2AXILite, ("axi-lite", "axi"): AXILite2AXI}.get(pair)
    if want is not None: pre.append(res("ens.bridge-class", "ensures", OK if len(_subs(d, want)) == 1 else VIOLATED, 0, "structural", got=str([type(x).__name__ for _n, x in getattr(d.bus, "_submodules", [])])))
    if pair == ("axi", "axi"):
        cv = _subs(d, axi_pkg.AXIConverter)
        okc = len(cv) == 1 and cv[0].master is master and cv[0].slave is slave and len(_subs(d, axi_pkg.AXIDownConverter if master.data_width > slave.data_width else axi_pkg.AXIUpConverter)) == 1
        pre.append(res("ens.converter-direction", "ensures", OK if okc else VIOLATED, 0, "structural"))
        idok = all(len(getattr(ad, c).id) == len(getattr(itf, c).id) for c in ("aw", "w", "b", "ar", "r"))
        pre.append(res("ens.id-width-kept", "ensures", OK if idok else VIOLATED, 0, "structural"))
    # the chain drives the master-side port only on its response signals and the slave-side port only on its request signals (the converters were given the ports the right way round)
    driven = set(h.ts.comb_targets) | set(h.ts.state)
    wrong = [s_ for s_ in _ins_m(master, mk_) + _ins_s(slave, sk_) if s_ in driven]
    pre.append(res("ens.port-directions", "ensures", OK if not wrong else VIOLATED, 0, "structural", got=f"{len(wrong)} environment-side signals are driven by the adapter chain"))
    h.functions = ["litex.soc.integration.soc.SoCBusHandler.add_adapter", "(converters / bridges it instantiates: own contracts in C07 / C09 / C10)"]
    h.pre_results = pre
    return h

GRID4 = [("ahb", 32, "byte", "wishbone", 32, "m2s"), ("ahb", 64, "byte", "wishbone", 64, "m2s"),
         ("axi", 32, "byte", "wishbone", 32, "m2s"), ("wishbone", 32, "word", "axi", 32, "s2m"),
         ("wishbone", 32, "word", "axi", 32, "m2s"), ("axi", 32, "byte", "wishbone", 32, "s2m"), ("wishbone", 32, "byte", "axi", 32, "m2s"),
         ("axi", 32, "byte", "axi-lite", 32, "m2s"), ("axi-lite", 32, "byte", "axi", 32, "s2m"),
         ("axi-lite", 32, "byte", "axi", 32, "m2s"), ("axi", 32, "byte", "axi-lite", 32, "s2m"), ("axi-lite", 64, "byte", "axi", 64, "m2s"),
         ("axi", 64, "byte", "axi", 32, "m2s"), ("axi", 32, "byte", "axi", 64, "m2s"), ("axi", 32, "byte", "axi", 64, "s2m"), ("axi", 64, "byte", "axi", 32, "s2m"),
         ("wishbone", 64, "word", "wishbone", 32, "m2s", True), ("wishbone", 32, "word", "wishbone", 64, "m2s", True), ("wishbone", 32, "byte", "wishbone", 32, "m2s", True),
         ("wishbone", 32, "word", "axi-lite", 32, "m2s", True), ("axi", 64, "byte", "axi", 32, "m2s", True),
         ("axi-lite", 32, "byte", "axi", 64, "m2s"), ("axi", 64, "byte", "wishbone", 32, "m2s")]

_cases4 = cases
def cases(tier):
    cs = _cases4(tier)
    for c in GRID4:
        cs.append(VCase(f"add_adapter.ext({c[0]}/{c[1]}/{c[2]}{'/bursting' if len(c) > 6 and c[6] else ''}->{c[3]}/{c[4]},{c[5]})", c_adapter_ext, *c, timeout=1800))
    return cs
ASSUMPTIONS += ["add_adapter (extension): AHB masters follow AHB-Lite (address phase held while hready is low); AXI chains use the environments of the AXI2Wishbone / Wishbone2AXI / AXI2AXILite contracts; "
                "AXI width conversion: address channels and class / direction / id widths are checked here, the converters' data paths are C10's; an AXI MASTER whose width differs from the bus (AXI converter + bridge) gets structural clauses only"]
