"""C12: CSR banks give software exact, side-effect-free register semantics.
Step contracts on the real csr_bus.CSRBank / csr.CSRStorage / CSRStatus / CSR / fields against a layout spec function
written from the property (word k of a register at address base+k in the chosen ordering)."""
import z3
from vf.elab import L, locals_of, mk
from vf.hw import *
from migen import *
from litex.soc.interconnect import csr_bus
from litex.soc.interconnect.csr import *
from litex.soc.interconnect import csr as csrmod
from vf.core import Case

def c_bank(regs, busw, ordering, address=3, paging=0x800):
    """regs: list of ("storage", size, atomic, from_dev) | ("status", size) | ("csr", size)"""
    class Top(Module, AutoCSR):
        def __init__(self):
            self.objs = []
            for i, r in enumerate(regs):
                if r[0] == "storage": o = CSRStorage(r[1], atomic_write=r[2], write_from_dev=r[3], name=f"r{i}", reset=(0x5a5a5a5a5a5a5a5a5a5a >> 3) & (2**r[1] - 1))
                elif r[0] == "status": o = CSRStatus(r[1], name=f"r{i}")
                else: o = CSR(r[1], name=f"r{i}")
                self.objs.append(o)
            self.bus = csr_bus.Interface(data_width=busw, address_width=14)
            self.submodules.bank = csr_bus.CSRBank(self.objs, address=address, bus=self.bus, paging=paging, ordering=ordering)
    d = mk(Top); bus = d.bus
    ins = [bus.adr, bus.we, bus.re, bus.dat_w]
    for o, r in zip(d.objs, regs):
        if r[0] == "status": ins.append(o.status)
        if r[0] == "storage" and r[3]: ins += [o.we, o.dat_w]
        if r[0] == "csr": ins.append(o.w)
    h = HwCheck(f"CSRBank(bus={busw},{ordering},page={paging:#x},addr={address})", d, ins)
    ap = paging // 4; pb = ap.bit_length() - 1
    adr = h.v(bus.adr); idx = z3.Extract(pb - 1, 0, adr); page = z3.Extract(13, pb, adr)
    sel = page == K(address, 14 - pb)
    # layout spec (from the property): register ri occupies nwords consecutive word addresses; big ordering = most significant word first
    layout = []
    for ri, r in enumerate(regs):
        S = r[1]; nw = (S + busw - 1) // busw if r[0] != "csr" else 1
        for k in range(nw):
            i = (nw - 1 - k) if ordering == "big" else k
            layout.append((ri, i * busw, min(S, (i + 1) * busw), k == nw - 1, i))
    we, re = b(h.v(bus.we)), b(h.v(bus.re))
    # read: registered; zero when the bank is not addressed or the offset is beyond the last word
    spec_rd = K(0, busw)
    for a, (ri, lo, hi, _, i) in reversed(list(enumerate(layout))):
        o, r = d.objs[ri], regs[ri]
        src = h.v(o.storage) if r[0] == "storage" else (h.v(o.status) if r[0] == "status" else h.v(o.w))
        word = zx(z3.Extract(hi - 1, lo, src), busw)
        spec_rd = z3.If(idx == K(a, pb), word, spec_rd)
    h.ensure("ens.read", h.n(bus.dat_r) == z3.If(sel, spec_rd, K(0, busw)))
    strobes_re = []; strobes_we = []
    for ri, (o, r) in enumerate(zip(d.objs, regs)):
        if r[0] != "storage": continue
        S = r[1]; words = [(a, lo, hi, i) for a, (rj, lo, hi, _, i) in enumerate(layout) if rj == ri]
        cur, nxt = h.v(o.storage), h.n(o.storage)
        devw = b(h.v(o.we)) if r[3] else z3.BoolVal(False)
        devd = h.v(o.dat_w) if r[3] else cur
        hit = {a: z3.And(sel, we, idx == K(a, pb)) for a, *_ in words}
        anyhit = z3.Or(*hit.values())
        atomic = r[2] and len(words) > 1
        other = z3.If(devw, devd, cur)      # bits not addressed by the bus write: device value if the device writes in this cycle, else unchanged
        if not atomic:
            for a, lo, hi, i in words:
                # a bus write changes exactly the addressed register bits, to dat_w - also in the cycle of a device-side update
                h.ensure(f"ens.write.r{ri}.w{i}", z3.Implies(hit[a], z3.And(z3.Extract(hi - 1, lo, nxt) == z3.Extract(hi - lo - 1, 0, h.v(bus.dat_w)),
                         *([z3.Extract(lo - 1, 0, nxt) == z3.Extract(lo - 1, 0, other)] if lo else []), *([z3.Extract(S - 1, hi, nxt) == z3.Extract(S - 1, hi, other)] if hi < S else []))))
        else:
            back = None
            for s in h.ts.state:
                nm_ = s.name_override or (s.backtrace[-1][0] if getattr(s, "backtrace", None) else "")
                if (nm_ or "").endswith(f"r{ri}_backstore"): back = s
            if back is None: raise RuntimeError(f"atomic register r{ri}: staging register not found - the atomic-write clauses cannot be stated")   # never skip silently
            commit = [a for a, lo, hi, i in words if i == 0][0]
            for a, lo, hi, i in words:
                if i == 0: continue
                cl = [nxt == other]            # staging a word does not touch the register
                if back is not None: cl.append(z3.Extract(hi - busw - 1, lo - busw, h.n(back)) == z3.Extract(hi - lo - 1, 0, h.v(bus.dat_w)))
                h.ensure(f"ens.stage.r{ri}.w{i}", z3.Implies(hit[a], z3.And(*cl)))
            if back is not None:
                h.ensure(f"ens.commit.r{ri}", z3.Implies(hit[commit], nxt == z3.Concat(h.v(back), z3.Extract(min(busw, S) - 1, 0, h.v(bus.dat_w)))))   # all words at once
                # the staged words are exactly the last values written to the upper words (ghost copy per word)
                for a, lo, hi, i in words:
                    if i == 0: continue
                    g = h.ghost(f"staged.r{ri}.w{i}", hi - lo); h.ghost_next(g, z3.If(hit[a], z3.Extract(hi - lo - 1, 0, h.v(bus.dat_w)), g))
                    h.hint(f"staged.r{ri}.w{i}", z3.Extract(hi - busw - 1, lo - busw, h.v(back)) == g)
                    h.ensure(f"ens.atomic.r{ri}.w{i}", z3.Implies(hit[commit], z3.Extract(hi - 1, lo, nxt) == g))
        h.ensure(f"ens.frame.r{ri}", z3.Implies(z3.Not(anyhit), nxt == other))      # accesses to other addresses / banks / reads change nothing
        last = [a for a, (rj, lo, hi, is_last, i) in enumerate(layout) if rj == ri and is_last][0]
        h.ensure(f"ens.re.r{ri}", b(h.n(o.re)) == hit[last])          # write strobe: one cycle, caused only by a write access to this register
        strobes_re.append(b(h.n(o.re)))
    for ri, (o, r) in enumerate(zip(d.objs, regs)):
        if r[0] == "status":
            last = [a for a, (rj, lo, hi, is_last, i) in enumerate(layout) if rj == ri and is_last][0]
            h.ensure(f"ens.we.r{ri}", b(h.v(o.we)) == z3.And(sel, re, idx == K(last, pb)))
            strobes_we.append(b(h.v(o.we)))
        if r[0] == "csr":
            a = [a for a, (rj, *_) in enumerate(layout) if rj == ri][0]
            h.ensure(f"ens.csr.r{ri}", z3.And(b(h.v(o.re)) == z3.And(sel, we, idx == K(a, pb)), b(h.v(o.we)) == z3.And(sel, re, idx == K(a, pb)), h.v(o.r) == z3.Extract(r[1] - 1, 0, h.v(bus.dat_w))))
    # no two registers share an address: at most one simple CSR strobes per access
    simple = list(d.bank.simple_csrs)
    res_ = [b(h.v(c.re)) for c in simple]; wes_ = [b(h.v(c.we)) for c in simple]
    h.ensure("ens.unique", z3.And(z3.AtMost(*res_, 1), z3.AtMost(*wes_, 1)))
    h.cover("cover.write", z3.And(sel, we), depth=2)
    h.functions = ["litex.soc.interconnect.csr_bus.CSRBank.__init__", "litex.soc.interconnect.csr.GenericBank.__init__", "litex.soc.interconnect.csr.CSRStorage.__init__/do_finalize",
                   "litex.soc.interconnect.csr.CSRStatus.__init__/do_finalize", "litex.soc.interconnect.csr.CSR.__init__"]
    return h

def c_fields(busw):
    """fields sit at their declared offsets; pulse fields last one cycle (only while the write strobe is high)"""
    class Top(Module, AutoCSR):
        def __init__(self):
            self.ctrl = CSRStorage(name="ctrl", fields=[CSRField("en", size=1, offset=0, reset=1), CSRField("go", size=1, offset=1, pulse=True),
                                                         CSRField("mode", size=3, offset=4, reset=5), CSRField("len", size=6, reset=9)])
            self.stat = CSRStatus(name="stat", fields=[CSRField("busy", size=1), CSRField("code", size=4, offset=3), CSRField("cnt", size=10, offset=8)])
            self.bus = csr_bus.Interface(data_width=busw, address_width=14)
            self.submodules.bank = csr_bus.CSRBank([self.ctrl, self.stat], address=0, bus=self.bus)
    d = mk(Top)
    h = HwCheck(f"fields(bus={busw})", d, [d.bus.adr, d.bus.we, d.bus.re, d.bus.dat_w, d.stat.fields.busy, d.stat.fields.code, d.stat.fields.cnt])
    st = h.v(d.ctrl.storage); F = d.ctrl.fields; re = b(h.v(d.ctrl.re))
    # the aggregate's size and every field's resolved offset are structural postconditions of CSRFieldAggregate (explicit offsets kept, an
    # unplaced field right after its predecessor): a wrong layout is REPORTED here, the bit-level clauses below are stated only for the right one
    want = dict(ctrl=(13, dict(en=0, go=1, mode=4, len=7)), stat=(18, dict(busy=0, code=3, cnt=8)))
    got = {n: (getattr(d, n).size, {f.name: f.offset for f in getattr(d, n).fields.fields}) for n in want}
    h.pre_results = [res("ens.field-layout(size, resolved offsets)", "ensures", PROVED if got == want else VIOLATED, 0, "executed", info="" if got == want else f"got {got}, declared {want}")]
    if got != want:
        h.cover("cover.elaborated", z3.BoolVal(True), depth=1); return h
    h.ensure("ens.field.en", h.v(F.en) == z3.Extract(0, 0, st))
    h.ensure("ens.field.mode", h.v(F.mode) == z3.Extract(6, 4, st))
    h.ensure("ens.field.len", h.v(F.len) == z3.Extract(12, 7, st))        # automatic offset: right after the previous field
    h.ensure("ens.field.pulse", h.v(F.go) == z3.If(re, z3.Extract(1, 1, st), K(0, 1)))
    h.ensure_seq("ens.pulse.onecycle", lambda at: z3.Implies(z3.And(at(b(h.v(F.go)), 0), z3.Not(z3.And(at(b(h.v(d.bus.we)), 0)))), z3.Not(at(b(h.v(F.go)), 1))))
    h.ensure("ens.status.fields", h.v(d.stat.status) == cat(h.v(d.stat.fields.cnt), K(0, 1), h.v(d.stat.fields.code), K(0, 2), h.v(d.stat.fields.busy)))
    h.ensure("ens.reset", z3.BoolVal(d.ctrl.storage.reset.value == (1 | (5 << 4) | (9 << 7))))
    h.cover("cover.pulse", b(h.v(F.go)), depth=4)
    h.functions = ["litex.soc.interconnect.csr.CSRFieldAggregate.__init__/check_ordering_overlap/get_size/get_reset", "litex.soc.interconnect.csr.CSRField.__init__",
                   "litex.soc.interconnect.csr.CSRStorage.__init__ (fields)", "litex.soc.interconnect.csr.CSRStatus.__init__ (fields)"]
    return h

def c_two_banks(busw, shared=False):
    """Interconnect / InterconnectShared: a bank that is not addressed drives zero, so a read returns exactly the addressed bank's word"""
    class Top(Module, AutoCSR):
        def __init__(self):
            self.a = CSRStorage(12, name="a", reset=0x123); self.bq = CSRStorage(7, name="bq", reset=0x55)
            self.m = csr_bus.Interface(data_width=busw, address_width=14)
            self.b1 = csr_bus.Interface(data_width=busw, address_width=14); self.b2 = csr_bus.Interface(data_width=busw, address_width=14)
            self.submodules.bank1 = csr_bus.CSRBank([self.a], address=1, bus=self.b1)
            self.submodules.bank2 = csr_bus.CSRBank([self.bq], address=2, bus=self.b2)
            if shared:
                self.m2 = csr_bus.Interface(data_width=busw, address_width=14)
                self.submodules.ic = csr_bus.InterconnectShared([self.m, self.m2], [self.b1, self.b2])
            else:
                self.submodules.ic = csr_bus.Interconnect(self.m, [self.b1, self.b2])
    d = mk(Top); m = d.m
    ins = [m.adr, m.we, m.re, m.dat_w] + ([d.m2.adr, d.m2.we, d.m2.re, d.m2.dat_w] if shared else [])
    h = HwCheck(f"csr_bus.{'InterconnectShared' if shared else 'Interconnect'}(2 banks,bus={busw})", d, ins)
    if shared:
        # CSR masters are ORed: only one may be active at a time (idle masters drive zero)
        h.assume(z3.And(h.v(d.m2.adr) == 0, h.v(d.m2.we) == 0, h.v(d.m2.re) == 0, h.v(d.m2.dat_w) == 0), "csr_bus.InterconnectShared ORs its masters: all masters but one are idle (drive zero)")
    adr = h.v(m.adr); page = z3.Extract(13, 9, adr); idx = z3.Extract(8, 0, adr)
    nwa = (12 + busw - 1) // busw
    def word(sig, S, k):       # big ordering: word k (address order) is the (nw-1-k)-th least significant word
        nw = (S + busw - 1) // busw; i = nw - 1 - k; lo = i * busw; hi = min(S, lo + busw)
        return zx(z3.Extract(hi - 1, lo, sig), busw)
    spec = K(0, busw)
    for k in reversed(range(nwa)): spec = z3.If(z3.And(page == K(1, 5), idx == K(k, 9)), word(h.v(d.a.storage), 12, k), spec)
    spec = z3.If(z3.And(page == K(2, 5), idx == K(0, 9)), word(h.v(d.bq.storage), 7, 0), spec)
    h.ensure_seq("ens.read", lambda at: at(h.v(m.dat_r), 1) == at(spec, 0))
    if shared: h.ensure_seq("ens.read.m2", lambda at: at(h.v(d.m2.dat_r), 1) == at(spec, 0))
    h.ensure("ens.frame.other-bank", z3.Implies(page != K(2, 5), h.n(d.bq.storage) == h.v(d.bq.storage)))
    h.ensure("ens.write.bank2", z3.Implies(z3.And(page == K(2, 5), idx == K(0, 9), b(h.v(m.we))), h.n(d.bq.storage) == z3.Extract(6, 0, h.v(m.dat_w))))
    # every bank port sees exactly the request of the (one active) master: address, write strobe, READ strobe and write data - the read strobe is
    # what read-sensitive registers (CSRStatus.we, pop-on-read ports) are driven by, "strobes ... caused only by accesses to that register"
    for nme in ("adr", "we", "re", "dat_w"):
        h.ensure(f"ens.fwd.{nme}", z3.And(*[h.v(getattr(sl, nme)) == h.v(getattr(m, nme)) for sl in (d.b1, d.b2)]))
    h.cover("cover.read", z3.And(page == K(1, 5), b(h.v(m.re))), depth=1)
    h.functions = ["litex.soc.interconnect.csr_bus.Interconnect.__init__", "litex.soc.interconnect.csr_bus.InterconnectShared.__init__", "litex.soc.interconnect.csr_bus.Interface.connect"]
    return h

# ---- generator code: placement of items with fixed locations (bounded stand-in: exhaustive small scope) -------------
def c_sort_items():
    import itertools
    class It:
        def __init__(self, duid, fixed, n, name): self.duid, self.fixed, self.n, self.name = duid, fixed, n, name
    evals = 0; bad = []
    for total in range(0, 5):
        for fixed_mask in itertools.product([False, True], repeat=total):
            nfixed = sum(fixed_mask)
            for locs in itertools.product(range(0, total + 2), repeat=nfixed):
                items = []; li = iter(locs)
                for i, f in enumerate(fixed_mask): items.append(It(10 - i, f, next(li) if f else None, f"i{i}"))
                evals += 1
                try:
                    out = csrmod._sort_gathered_items(list(items))
                except ValueError:
                    if len(set(locs)) == len(locs): bad.append((fixed_mask, locs, "ValueError without conflict"))
                    continue
                except Exception as e:
                    bad.append((fixed_mask, locs, f"{type(e).__name__}: {e}")); continue
                ids = {id(x) for x in items}
                placed = [x for x in out if id(x) in ids]       # the other locations are filled with reserved CSRs
                if any(x is None for x in out): bad.append((fixed_mask, locs, "unfilled location"))
                ok = len(placed) == len(items) and len(set(map(id, placed))) == len(items) and all(out[it.n] is it for it in items if it.fixed)
                var = [x for x in placed if not x.fixed]
                ok = ok and var == sorted(var, key=lambda x: x.duid)
                if len(set(locs)) != len(locs): ok = False     # conflicting fixed locations must be rejected
                if not ok: bad.append((fixed_mask, locs, "wrong placement"))
    st = BOUNDED_OK if not bad else VIOLATED
    return dict(results=[res("ens.placement[<=4 items, locations<=len+1]", "bounded", st, 0, "exhaustive small-scope enumeration through the real function", evaluations=evals, info=str(bad[:3]) if bad else "")],
                functions=["litex.soc.interconnect.csr._sort_gathered_items (bounded: <=4 items)"], samples=[dict(bounded="_sort_gathered_items", evaluations=evals)])

REGS = [("storage", 9, False, False), ("status", 33), ("storage", 40, True, False), ("csr", 5), ("storage", 8, False, True), ("storage", 70, True, True), ("storage", 1, False, False)]
REGS2 = [("storage", 32, False, False), ("storage", 64, False, True), ("status", 7), ("storage", 33, True, False), ("status", 64)]

def cases(tier):
    cs = []
    for busw in (8, 32):
        for ordering in ("big", "little"):
            cs.append(Case(f"CSRBank(mixed,bus={busw},{ordering})", c_bank, REGS, busw, ordering))
    cs += [Case("CSRBank(regs2,bus=32,big,page=0x400,addr=17)", c_bank, REGS2, 32, "big", 17, 0x400),
           Case("CSRBank(regs2,bus=8,little,page=0x800,addr=0)", c_bank, REGS2, 8, "little", 0, 0x800),
           Case("fields(bus=32)", c_fields, 32), Case("fields(bus=8)", c_fields, 8),
           Case("Interconnect(2 banks,bus=8)", c_two_banks, 8), Case("Interconnect(2 banks,bus=32)", c_two_banks, 32),
           Case("InterconnectShared(2 banks,bus=32)", c_two_banks, 32, True),
           Case("_sort_gathered_items", c_sort_items)]
    return cs

ASSUMPTIONS = ["register sets, bus widths, orderings, paging and bank addresses from a grid; all bus/device input valuations and all register states",
               "_sort_gathered_items: the bounded enumeration (<= 4 items) is kept as a cross-check beside the all-input proof in C12_sort_proof.py",
               "CSR names given explicitly (nameless CSRs cannot be elaborated on this interpreter without the harness shim)"]
