"""C13 (extension): the remaining functions the property names, by engine E3 (vf/pysym.py): the REAL functions of
litex/soc/integration/soc.py and litex/build/generic_platform.py run under CPython on z3-backed proxies, loops over unbounded
collections are cut by the mechanical AST rewrite around sidecar invariants.

  check_region_is_in / check_region_is_io   against their set-theoretic specification (all origins/sizes, unbounded io_regions)
  add_region (fixed origin / SoCIORegion / unsupported object)   from an ARBITRARY handler state: names unique over regions and
                                            io_regions, IO/cached rule, pairwise disjoint windows re-established, frame
  SoCLocHandler.add/alloc with a SYMBOLIC n_locs (loop over range(n_locs) cut), SoCCSRHandler.__init__/add/address_map/add_region,
  SoCIRQHandler.__init__/add                class invariant (names -> numbers injective, 0 <= n < n_locs) from an arbitrary state;
                                            CSR pages inside the CSR address space implied by address_width/alignment/paging
  SoCBusHandler.add_slave / add_master      name uniqueness (hardware adapters stubbed)
  ConstraintManager.get_sig_constraints / get_io_signals / add_extension / request_all / request_remaining
  SoC.finalize                              what it re-checks, as a labelled BOUNDED stand-in on real SoCCore builds
"""
import sys, time, logging, itertools, z3
from vf import elab, pysym
from vf.pysym import SymInt, SymBool, SymRecordSeq, SymRecord, SymDict, SymKeys, SymList, SymKey, VC, rewrite, explore, toint, tobool, PathEnd, Unsupported
from vf.core import Case, PROVED, VIOLATED, NOINPUT, UNKNOWN, BOUNDED_OK, OK, VACUOUS, FAULT
from vf.hw import res
from litex.soc.integration import soc as S
from litex.build import generic_platform as GP
import contracts.C13_alloc_proofs as AP          # pow2 theory (SymInt gains bit_length / 2**r there, additively), AVC, _agg
from contracts.C13_alloc_proofs import AVC, _agg, ov_t

BACKEND = AP.BACKEND
FEAS_MS = 5000
I = z3.IntSort()
CAT = z3.Function("str.cat", I, I, I); SUF = z3.Function("str.cat_underscore", I, I)
def _quiet(o):
    o.logger = logging.getLogger("x"); o.logger.disabled = True
    for n in ("SoCCSRHandler", "SoCIRQHandler", "SoCRegion", "SoCBusHandler", "SoC"): logging.getLogger(n).disabled = True
    return o

# =====================================================================================================================================
# proxies
# =====================================================================================================================================
class Name:
    """a string known only by its identity (names are compared by equality only); `+` gives some other string"""
    def __init__(self, t): self.t = t
    def __format__(self, spec): return f"<name {self.t}>"
    __str__ = __repr__ = lambda self: f"<name {self.t}>"
    def __hash__(self): return id(self)
    def __eq__(self, o): return isinstance(o, Name) and (o is self or bool(SymBool(self.t == o.t)))
    def __ne__(self, o): return not self.__eq__(o)
    def __add__(self, o):
        """string concatenation, uninterpreted: name + "_" is SUF(name), name + other_name is CAT(name, other_name); any other suffix gives some string"""
        if isinstance(o, Name): return Name(CAT(self.t, o.t))
        if o == "_": return Name(SUF(self.t))
        return Name(pysym.CTX.fresh("concat"))
    def __radd__(self, o): return Name(pysym.CTX.fresh("concat"))
    def upper(self): return self

class NDict(SymDict):
    """SymDict whose key set is known: `name in d` is decided by the set K of the names of the symbolic prefix (a z3 array name -> bool) and the
    concretely added items.  A dict holds each key once by construction; which entry of the prefix carries which name is not needed by any clause."""
    def __init__(self, seq):
        SymDict.__init__(self, seq); self.K = z3.Array(f"{seq.name}.names", I, z3.BoolSort())
    def has(self, t, old=False):
        return z3.Or(z3.Select(self.K, t), *([] if old else [k.t == t for k, _ in self.extra if isinstance(k, Name)]))
    def __contains__(self, key):
        if not isinstance(key, Name): raise Unsupported("NDict key")
        for k, _ in self.extra:
            if k is key: return True
        return bool(SymBool(self.has(key.t)))
    def get(self, key, default=None): raise Unsupported("NDict.get")

FIELDS = {"origin": "int", "size": "int", "size_pow2": "int", "linker": "bool", "cached": "bool"}
def inside(ro, rs, co, cs):                  # extent [ro, ro+rs) inside [co, co+cs), as check_region_is_in computes it
    return z3.And(ro >= co, ro + rs <= co + cs)
def inside_set(ro, rs, co, cs):              # the same, set-theoretically: every address of the region is an address of the container
    x = z3.Int("x")
    return z3.ForAll([x], z3.Implies(z3.And(ro <= x, x < ro + rs), z3.And(co <= x, x < co + cs)))

def _wrap(tag, runner, functions, state, need=(), min_paths=1, extra_cover=lambda stats: True):
    """runner(wrong) -> (paths, obligations, stats); the case is run a second time with a deliberately wrong postcondition that must be refuted"""
    t0 = time.time()
    paths, obl, stats = runner(False)
    out = _agg(tag, obl)
    _, obl2, _ = runner(True)
    refuted = any(s == "FAILED" for n, s, _ in obl2 if n.startswith("wrong."))
    have = {n for n, _, _ in obl}
    ok = refuted and set(need) <= have and paths >= min_paths and extra_cover(stats)
    out.append(res(f"{tag}.cover.paths;wrong-postcondition-refuted", "cover", OK if ok else VACUOUS, time.time() - t0, "pysym", paths=paths, refuted=refuted,
                   missing=sorted(set(need) - have), **{k: v for k, v in stats.items() if isinstance(v, (int, str, bool))}))
    elab.restore_stderr()
    return dict(results=out, functions=functions, samples=[dict(function=tag, paths=paths, state=state)])

# =====================================================================================================================================
# check_region_is_in / check_region_is_io
# =====================================================================================================================================
def _mk_region(prefix, cls=S.SoCRegion, cached=None, origin=True):
    r = cls.__new__(cls)
    r.origin = SymInt(z3.Int(f"{prefix}.origin")) if origin else None
    r.size = SymInt(z3.Int(f"{prefix}.size")); r.size_pow2 = SymInt(z3.Int(f"{prefix}.pow2"))
    r.linker = SymBool(z3.Bool(f"{prefix}.linker")); r.cached = SymBool(z3.Bool(f"{prefix}.cached")) if cached is None else cached
    r.mode = "rw"; r.decode = True; r.type = ""; _quiet(r)
    return r

def _run_is_in(wrong):
    stats = dict(true=0, false=0)
    def run(ctx):
        r = _mk_region("r"); c = _mk_region("c")
        ctx.assume(r.size >= 1)                                            # a region has at least one byte (SoCRegion.__init__(proof): size >= 1 is its precondition)
        got = S.SoCBusHandler.check_region_is_in(None, r, c)
        ctx.check("post.returns-a-bool", z3.BoolVal(got is True or got is False))
        stats["true" if got else "false"] += 1
        ro, rs, co, cs = toint(r.origin), toint(r.size), toint(c.origin), toint(c.size)
        ctx.check("post.result==(every-address-of-region-is-an-address-of-container)", z3.BoolVal(bool(got)) == inside_set(ro, rs, co, cs))
        ctx.check("post.boundary:region-ending-exactly-at-the-container-end-is-inside", z3.Implies(z3.And(ro >= co, ro + rs == co + cs), z3.BoolVal(bool(got))))
        ctx.check("post.boundary:one-byte-beyond-the-container-end-is-outside", z3.Implies(ro + rs == co + cs + 1, z3.BoolVal(not got)))
        ctx.check("post.boundary:starting-one-byte-before-the-container-is-outside", z3.Implies(ro == co - 1, z3.BoolVal(not got)))
        if wrong: ctx.check("wrong.result==(strictly-inside)", z3.BoolVal(bool(got)) == z3.And(ro > co, ro + rs < co + cs))
    paths, obl = explore(run)
    return paths, obl, stats

def c_is_in():
    return _wrap("check_region_is_in", _run_is_in, ["litex.soc.integration.soc.SoCBusHandler.check_region_is_in"],
                 "symbolic origin/size of region (size >= 1) and container (any ints)", min_paths=4, extra_cover=lambda s: s["true"] >= 1 and s["false"] >= 3)

def _is_io_loops(ios, r):
    a = z3.Int("a")
    def in_io(x): return inside(toint(r.origin), toint(r.size), ios.fn["origin"](x), ios.fn["size"](x))
    def some(n): return z3.Exists([a], z3.And(0 <= a, a < n, in_io(a)))
    loops = {0: dict(pos="s", havoc={"is_io": "bool"}, inv=lambda L: tobool(L["is_io"]) == some(toint(L["s"])))}
    return loops, some

def _run_is_io(wrong):
    stats = dict(returned=0)
    def run(ctx):
        ctx.solver.set("timeout", FEAS_MS)
        ios = SymRecordSeq("IO", FIELDS); ioregs = NDict(ios); ctx.assume(SymBool(ios.len >= 0))
        r = _mk_region("r"); ctx.assume(r.size >= 1)
        bus = _quiet(S.SoCBusHandler.__new__(S.SoCBusHandler)); bus.io_regions = ioregs
        loops, some = _is_io_loops(ios, r)
        vc = AVC(loops)
        fn, src = rewrite(S.SoCBusHandler.check_region_is_io, loops, vc)
        assert src.count("__vc.for_begin(0,") == 1, "loop structure of check_region_is_io changed"
        got = fn(bus, r)
        stats["returned"] += 1
        a, x = z3.Ints("a x")
        ctx.check("post.result==(inside-some-IO-region)", tobool(got) == some(ios.len))
        ro, rs = toint(r.origin), toint(r.size)
        ctx.check("post.result==(some-IO-region-contains-every-address-of-the-region)",
                  tobool(got) == z3.Exists([a], z3.And(0 <= a, a < ios.len, z3.ForAll([x], z3.Implies(z3.And(ro <= x, x < ro + rs), z3.And(ios.fn["origin"](a) <= x, x < ios.fn["origin"](a) + ios.fn["size"](a)))))))
        ctx.check("post.no-IO-region=>False", z3.Implies(ios.len == 0, z3.Not(tobool(got))))
        ctx.check("post.io_regions-unchanged", z3.BoolVal(bus.io_regions is ioregs and not ioregs.extra))
        if wrong: ctx.check("wrong.result==(inside-the-LAST-IO-region)", tobool(got) == z3.And(ios.len > 0, inside(ro, rs, ios.fn["origin"](ios.len - 1), ios.fn["size"](ios.len - 1))))
    paths, obl = explore(run)
    return paths, obl, stats

def c_is_io():
    return _wrap("check_region_is_io", _run_is_io, ["litex.soc.integration.soc.SoCBusHandler.check_region_is_io", "litex.soc.integration.soc.SoCBusHandler.check_region_is_in (run unmodified inside the cut loop)"],
                 "unbounded symbolic io_regions; symbolic region (size >= 1)", need=("loop0.init", "loop0.step"), extra_cover=lambda s: s["returned"] >= 1)

# =====================================================================================================================================
# add_region: fixed origin (SoCRegion), SoCIORegion, unsupported object - from an arbitrary handler state
# =====================================================================================================================================
def _combined(d, f):
    """field f of entry x of dict d = symbolic prefix followed by the concretely added items"""
    seq = d.seq
    def g(i):
        t = seq.fn[f](i)
        for j, (k, v) in reversed(list(enumerate(d.extra))):
            xv = getattr(v, f); xt = tobool(xv) if FIELDS[f] == "bool" else toint(xv)
            t = z3.If(i == seq.len + j, xt, t)
        return t
    return g
def _pair_ok(d):
    O = lambda f: _combined(d, f)
    return lambda x, y: z3.Or(O("linker")(x), O("linker")(y), z3.Not(ov_t(O("origin")(x), O("size_pow2")(x), O("origin")(y), O("size_pow2")(y))))
def _disjoint(d, n=None):
    a, b_ = z3.Ints("a b"); n = toint(d.total_len()) if n is None else n
    return z3.ForAll([a, b_], z3.Implies(z3.And(0 <= a, a < b_, b_ < n), _pair_ok(d)(a, b_)))
def _overlap_loops(d):
    """sidecar invariants of the two loops of check_regions_overlap over dict d (same as contracts/C13_alloc.py)"""
    a, b_ = z3.Ints("a b"); pair_ok = _pair_ok(d)
    def tl(): return toint(d.total_len())
    return {0: dict(havoc={"i": "int"}, inv=lambda L: z3.And(toint(L["i"]) >= 0, toint(L["i"]) <= tl(),
                        z3.ForAll([a, b_], z3.Implies(z3.And(0 <= a, a < toint(L["i"]), a < b_, b_ < tl()), pair_ok(a, b_))))),
            1: dict(pos="j", inv=lambda L: z3.And(toint(L["i"]) >= 0, toint(L["i"]) < tl(),
                        z3.ForAll([b_], z3.Implies(z3.And(toint(L["i"]) < b_, b_ < toint(L["i"]) + 1 + toint(L["j"])), pair_ok(toint(L["i"]), b_))),
                        z3.ForAll([a, b_], z3.Implies(z3.And(0 <= a, a < toint(L["i"]), a < b_, b_ < tl()), pair_ok(a, b_)))))}

def _bus_state(ctx, address_width=32, inv_regs=False, inv_io=False):
    """arbitrary handler state; the part of the class invariant a case relies on is assumed: non-linker windows of `regions` pairwise disjoint (inv_regs),
    non-linker windows of `io_regions` pairwise disjoint (inv_io)"""
    ctx.solver.set("timeout", FEAS_MS)
    seq = SymRecordSeq("R", FIELDS); regs = NDict(seq); ios = SymRecordSeq("IO", FIELDS); ioregs = NDict(ios)
    ctx.assume(SymBool(z3.And(seq.len >= 0, ios.len >= 0)))
    if inv_regs: ctx.assume(SymBool(_disjoint(regs, seq.len)))
    if inv_io: ctx.assume(SymBool(_disjoint(ioregs, ios.len)))
    bus = _quiet(S.SoCBusHandler.__new__(S.SoCBusHandler))
    bus.regions = regs; bus.io_regions = ioregs; bus.address_width = address_width; bus.masters = {}; bus.slaves = {}
    return bus, seq, regs, ios, ioregs

def _install_overlap(bus, d_of):
    """bus.check_regions_overlap := the real function with both loops cut (invariants over the dict it is called with)"""
    def call(regions, check_linker=False):
        loops = _overlap_loops(regions); vc = VC(loops)
        fn, src = rewrite(S.SoCBusHandler.check_regions_overlap, loops, vc)
        assert src.count("__vc.loop_begin(0,") == 1 and src.count("__vc.for_begin(1,") == 1, "loop structure of check_regions_overlap changed"
        return fn(bus, regions, check_linker)
    bus.check_regions_overlap = call

def _run_add_fixed(wrong, address_width=32):
    stats = dict(accepted=0, raised=0, accepted_cached=0, accepted_uncached=0)
    def run(ctx):
        bus, seq, regs, ios, ioregs = _bus_state(ctx, address_width, inv_regs=True)
        bus.io_regions_check = SymBool(z3.Bool("io_regions_check"))
        r = _mk_region("n"); name = Name(z3.Int("name"))
        ctx.assume((r.origin >= 0) & (r.size >= 1) & (r.size_pow2 >= r.size))          # SoCRegion.__init__(proof): size_pow2 >= size for size >= 1
        dup = z3.Or(regs.has(name.t, old=True), ioregs.has(name.t, old=True))
        loops, some = _is_io_loops(ios, r); vc = AVC(loops)
        is_io_fn, src = rewrite(S.SoCBusHandler.check_region_is_io, loops, vc)
        bus.check_region_is_io = lambda region: is_io_fn(bus, region)
        _install_overlap(bus, regs)
        is_io = some(ios.len); ca = tobool(r.cached); ioc = tobool(bus.io_regions_check)
        io_bad = z3.And(ioc, z3.Or(z3.And(is_io, ca), z3.And(z3.Not(is_io), z3.Not(ca))))
        a = z3.Int("a")
        ro, rp, rl = toint(r.origin), toint(r.size_pow2), tobool(r.linker)
        ovl = z3.Exists([a], z3.And(0 <= a, a < seq.len, z3.Not(seq.fn["linker"](a)), z3.Not(rl), ov_t(seq.fn["origin"](a), seq.fn["size_pow2"](a), ro, rp)))
        try:
            S.SoCBusHandler.add_region(bus, name, r)
        except S.SoCError:
            elab.restore_stderr(); stats["raised"] += 1
            ctx.check("raise=>(duplicate-name-or-IO/cached-rule-broken-or-window-overlaps-an-existing-region)", z3.Or(dup, io_bad, ovl))
            ctx.check("raise.io_regions-unchanged", z3.BoolVal(bus.io_regions is ioregs and not ioregs.extra))
            return
        stats["accepted"] += 1
        ctx.check("post.name-was-not-used-by-any-region-or-IO-region", z3.Not(dup))
        ctx.check("post.added-exactly-this-region-under-this-name;io_regions-unchanged", z3.BoolVal(bus.regions is regs and len(regs.extra) == 1 and regs.extra[0][0] is name and regs.extra[0][1] is r and bus.io_regions is ioregs and not ioregs.extra))
        ctx.check("post.invariant(pairwise-disjoint-windows)", _disjoint(regs))
        ctx.check("post.window-disjoint-from-every-existing-non-linker-region", z3.Not(ovl))
        ctx.check("post.io-check=>uncached-region-lies-inside-an-IO-region", z3.Implies(z3.And(ioc, z3.Not(ca)), is_io))
        ctx.check("post.io-check=>region-inside-an-IO-region-is-uncached", z3.Implies(z3.And(ioc, is_io), z3.Not(ca)))
        # candidate finding: nothing confines a FIXED-origin region to the address space of the bus
        ctx.check("finding.fixed-origin-region-lies-inside-the-address-space", toint(r.origin) + toint(r.size) <= 2**address_width)
        if wrong: ctx.check("wrong.accepted=>cached", ca)
    paths, obl = explore(run, max_paths=4000)
    return paths, obl, stats

def _replay_outside(address_width=32):
    """native replay of the finding candidate on the unmodified functions"""
    bus = S.SoCBusHandler(address_width=address_width); elab.restore_stderr()
    logging.getLogger("SoCBusHandler").disabled = True
    try: bus.add_region("x", S.SoCRegion(origin=2**address_width, size=0x1000))
    except S.SoCError: elab.restore_stderr(); return dict(reproduced=False)
    g = bus.regions["x"]
    return dict(reproduced=g.origin + g.size > 2**address_width, call=f"SoCBusHandler(address_width={address_width}).add_region('x', SoCRegion(origin=2**{address_width}, size=0x1000))", granted=f"origin=0x{g.origin:x} size=0x{g.size:x}")

def c_add_fixed():
    out = _wrap("add_region[fixed-origin]", _run_add_fixed, ["litex.soc.integration.soc.SoCBusHandler.add_region (fixed-origin branch, io_regions_check symbolic)",
                "litex.soc.integration.soc.SoCBusHandler.check_region_is_io (loop-cut, inlined)", "litex.soc.integration.soc.SoCBusHandler.check_regions_overlap (loop-cut, inlined)"],
                "arbitrary handler state satisfying the class invariant (unbounded regions and io_regions, symbolic names); symbolic region, symbolic cached / linker / io_regions_check",
                need=("loop0.init", "loop0.step", "loop1.init", "loop1.step"), extra_cover=lambda s: s["accepted"] >= 2 and s["raised"] >= 3)
    for r_ in out["results"]:
        if ".finding." in r_["name"]:
            r_["kind"] = "finding-witness"; r_["what"] = "add_region accepts a fixed-origin region that lies beyond 2**address_width (no range check on fixed origins)"
            if r_["status"] == NOINPUT:
                rp = _replay_outside(); r_["replay_info"] = rp
                if rp.get("reproduced"): r_["status"] = VIOLATED; r_["replay"] = "tools/replay_add_region_outside_address_space.py"
    return out

def _run_add_io(wrong):
    stats = dict(accepted=0, raised=0)
    def run(ctx):
        bus, seq, regs, ios, ioregs = _bus_state(ctx, inv_io=True)
        bus.io_regions_check = True
        r = _mk_region("n", cls=S.SoCIORegion); name = Name(z3.Int("name"))
        ctx.assume((r.origin >= 0) & (r.size >= 1) & (r.size_pow2 >= r.size))
        dup = z3.Or(regs.has(name.t, old=True), ioregs.has(name.t, old=True))
        _install_overlap(bus, ioregs)
        a = z3.Int("a")
        ro, rp, rl = toint(r.origin), toint(r.size_pow2), tobool(r.linker)
        ovl = z3.Exists([a], z3.And(0 <= a, a < ios.len, z3.Not(ios.fn["linker"](a)), z3.Not(rl), ov_t(ios.fn["origin"](a), ios.fn["size_pow2"](a), ro, rp)))
        try:
            S.SoCBusHandler.add_region(bus, name, r)
        except S.SoCError:
            elab.restore_stderr(); stats["raised"] += 1
            ctx.check("raise=>(duplicate-name-or-window-overlaps-an-existing-IO-region)", z3.Or(dup, ovl))
            ctx.check("raise.regions-unchanged", z3.BoolVal(bus.regions is regs and not regs.extra))
            return
        stats["accepted"] += 1
        ctx.check("post.name-was-not-used-by-any-region-or-IO-region", z3.Not(dup))
        ctx.check("post.added-exactly-this-IO-region-under-this-name;regions-unchanged", z3.BoolVal(bus.io_regions is ioregs and len(ioregs.extra) == 1 and ioregs.extra[0][0] is name and ioregs.extra[0][1] is r and bus.regions is regs and not regs.extra))
        ctx.check("post.invariant(IO-regions-pairwise-disjoint-windows)", _disjoint(ioregs))
        ctx.check("post.window-disjoint-from-every-existing-non-linker-IO-region", z3.Not(ovl))
        if wrong: ctx.check("wrong.accepted=>no-IO-region-before", ios.len == 0)
    paths, obl = explore(run, max_paths=4000)
    return paths, obl, stats

def c_add_io():
    return _wrap("add_region[SoCIORegion]", _run_add_io, ["litex.soc.integration.soc.SoCBusHandler.add_region (SoCIORegion branch)", "litex.soc.integration.soc.SoCBusHandler.check_regions_overlap (loop-cut, inlined)"],
                 "arbitrary handler state satisfying the class invariant; symbolic IO region", need=("loop0.init", "loop0.step", "loop1.init", "loop1.step"),
                 extra_cover=lambda s: s["accepted"] >= 1 and s["raised"] >= 2)

def _run_add_other(wrong):
    stats = dict(raised=0, accepted=0)
    def run(ctx):
        bus, seq, regs, ios, ioregs = _bus_state(ctx); bus.io_regions_check = True
        name = Name(z3.Int("name"))
        for obj in (object(), None, 0x1000, S.SoCCSRRegion(0, 32, None)):
            try: S.SoCBusHandler.add_region(bus, name, obj)
            except S.SoCError: elab.restore_stderr(); stats["raised"] += 1
            else: stats["accepted"] += 1
        ctx.check("post.object-that-is-no-SoCRegion-is-never-accepted", z3.BoolVal(stats["accepted"] == 0))
        ctx.check("post.state-unchanged", z3.BoolVal(bus.regions is regs and not regs.extra and bus.io_regions is ioregs and not ioregs.extra))
        if wrong: ctx.check("wrong.name-unused", z3.Not(z3.Or(regs.has(name.t), ioregs.has(name.t))))
    paths, obl = explore(run)
    return paths, obl, stats
def c_add_other():
    return _wrap("add_region[not-a-region]", _run_add_other, ["litex.soc.integration.soc.SoCBusHandler.add_region (unsupported-object branch)"], "arbitrary handler state; four objects that are not SoCRegion instances",
                 extra_cover=lambda s: s["raised"] >= 4)

# =====================================================================================================================================
# location handlers: SoCLocHandler.add/alloc with a symbolic n_locs; SoCCSRHandler / SoCIRQHandler
# =====================================================================================================================================
class Locs:
    """the `locs` dict of a location handler in an arbitrary state: present[name], val[name] (z3 arrays over name identities) plus the GHOST
    inverse used[number] / owner[number] (specification state: which numbers are taken and by whom).  `n in locs.values()` is answered from the ghost,
    which the class invariant ties to the dict (see loc_inv): this keeps every query free of quantifier alternation."""
    def __init__(self, pres, val, used, owner): self.pres, self.val, self.used, self.owner = pres, val, used, owner
    @staticmethod
    def fresh(tag=""):
        c = pysym.CTX
        if tag == "": mk = lambda n, srt: z3.Const(n, srt)
        else: mk = lambda n, srt: c.fresh(n + tag, srt)
        AB, AI = z3.ArraySort(I, z3.BoolSort()), z3.ArraySort(I, I)
        return Locs(mk("pres", AB), mk("val", AI), mk("used", AB), mk("owner", AI))
    @staticmethod
    def empty(): return Locs(z3.K(I, z3.BoolVal(False)), z3.K(I, z3.IntVal(0)), z3.K(I, z3.BoolVal(False)), z3.K(I, z3.IntVal(0)))
    def keys(self): return _LView(self, "k")
    def values(self): return _LView(self, "v")
    def items(self): raise Unsupported("locs.items")
    def __getitem__(self, name):
        pysym.CTX.check("locs[name]:name-is-present(no-KeyError)", z3.Select(self.pres, name.t))
        return SymInt(z3.Select(self.val, name.t))
    def get(self, name, default=None):
        return SymInt(z3.Select(self.val, name.t)) if bool(SymBool(z3.Select(self.pres, name.t))) else default
    def __setitem__(self, name, n):
        k, nt = name.t, toint(n)
        if nt is None: raise Unsupported("locs value")
        used = z3.If(z3.Select(self.pres, k), z3.Store(self.used, z3.Select(self.val, k), z3.BoolVal(False)), self.used)      # overwriting a present name frees its number
        self.pres = z3.Store(self.pres, k, z3.BoolVal(True)); self.val = z3.Store(self.val, k, nt)
        self.used = z3.Store(used, nt, z3.BoolVal(True)); self.owner = z3.Store(self.owner, nt, k)
    def snapshot(self): return Locs(self.pres, self.val, self.used, self.owner)
class _LView:
    def __init__(self, d, kind): self.d, self.kind = d, kind
    def __contains__(self, x):
        if self.kind == "k": return bool(SymBool(z3.Select(self.d.pres, x.t)))
        if x is None: return False                        # the values are ints (class invariant)
        return bool(SymBool(z3.Select(self.d.used, toint(x))))
def loc_inv(l, n_locs):
    """class invariant of a location handler: names -> numbers is injective and every number lies in [0, n_locs); with the ghost inverse:
    every present name owns its number, every used number is the number of its (present) owner"""
    k, m = z3.Ints("k m"); P, V, U, O = l.pres, l.val, l.used, l.owner
    return z3.And(z3.ForAll([k], z3.Implies(z3.Select(P, k), z3.And(z3.Select(V, k) >= 0, z3.Select(V, k) < n_locs, z3.Select(U, z3.Select(V, k)), z3.Select(O, z3.Select(V, k)) == k))),
                  z3.ForAll([m], z3.Implies(z3.Select(U, m), z3.And(z3.Select(P, z3.Select(O, m)), z3.Select(V, z3.Select(O, m)) == m))))
def loc_inv_plain(l, n_locs):
    """the same invariant without the ghost: injective, in range (what the property states) - proved to follow from loc_inv"""
    a, b_ = z3.Ints("a b"); P, V = l.pres, l.val
    return z3.And(z3.ForAll([a, b_], z3.Implies(z3.And(z3.Select(P, a), z3.Select(P, b_), a != b_), z3.Select(V, a) != z3.Select(V, b_))),
                  z3.ForAll([a], z3.Implies(z3.Select(P, a), z3.And(z3.Select(V, a) >= 0, z3.Select(V, a) < n_locs))))

class SymRange:
    """range(n) for a symbolic n: element i is i, length max(n, 0)"""
    def __init__(self, n): self.n = toint(n)
    def __getitem__(self, i): return SymInt(toint(i))
    def length(self): return SymInt(z3.If(self.n > 0, self.n, 0))
class Reserved:
    """the reserved_csrs / reserved_irqs dict handed to a constructor: unknown length, entry i = (name rname(i), number rnum(i) or None)"""
    def __init__(self, tag):
        self.len = z3.Int(f"{tag}.len"); self.rname = z3.Function(f"{tag}.name", I, I); self.rnum = z3.Function(f"{tag}.num", I, I); self.none = z3.Function(f"{tag}.isNone", I, z3.BoolSort())
    def items(self): return self
    def __getitem__(self, i):
        it = toint(i)
        return (Name(self.rname(it)), None if bool(SymBool(self.none(it))) else SymInt(self.rnum(it)))
    def length(self): return SymInt(self.len)
class HVC(AVC):
    """AVC + loops that modify the heap: sp["heap"](locals) replaces the modified object state by fresh symbols between `check init` and `assume inv`"""
    def len(self, x):
        if isinstance(x, (SymRange, Reserved)): return x.length()
        return AVC.len(self, x)
    def for_begin(self, lid, iterable, L):
        sp = self.loops[lid]
        if "heap" not in sp: return AVC.for_begin(self, lid, iterable, L)
        C = pysym.CTX; pos_name = sp["pos"]; st = {"it": iterable}
        L0 = dict(L); L0[pos_name] = SymInt(z3.IntVal(0))
        C.check(f"loop{lid}.init", sp["inv"](L0))
        sp["heap"](L)
        hv = {pos_name: SymInt(C.fresh(pos_name))}
        L2 = dict(L); L2.update(hv)
        C.assume(hv[pos_name] >= 0); C.assume(hv[pos_name] <= self.len(iterable)); C.assume(sp["inv"](L2))
        st["hv"] = hv; st["pos"] = hv[pos_name]; self.st[lid] = st
        return st

def _alloc_cut(hnd):
    """the real SoCLocHandler.alloc with its loop over range(self.n_locs) cut: invariant `every number below the position is used`"""
    m = z3.Int("m")
    loops = {0: dict(pos="p", inv=lambda L: z3.ForAll([m], z3.Implies(z3.And(0 <= m, m < toint(L["p"])), z3.Select(L["self"].locs.used, m))))}
    vc = HVC(loops)
    fn, src = rewrite(S.SoCLocHandler.alloc, loops, vc)
    assert src.count("__vc.for_begin(0,") == 1, "loop structure of SoCLocHandler.alloc changed"
    fn.__globals__["range"] = SymRange
    return lambda name: fn(hnd, name)

def _mk_handler(cls, ctx):
    ctx.solver.set("timeout", FEAS_MS)
    hnd = _quiet(cls.__new__(cls))
    hnd.name = {S.SoCLocHandler: "LOC", S.SoCCSRHandler: "CSR", S.SoCIRQHandler: "IRQ"}[cls]
    hnd.n_locs = SymInt(z3.Int("n_locs")); hnd.locs = Locs.fresh()
    ctx.assume(SymBool(loc_inv(hnd.locs, hnd.n_locs.t)))
    hnd.alloc = _alloc_cut(hnd)
    if cls is S.SoCIRQHandler: hnd.enabled = SymBool(z3.Bool("enabled"))
    return hnd

def _check_add_post(ctx, hnd, old, name, n, reuse, stats, prefix="post."):
    """postcondition of an accepted add(name, n, use_loc_if_exists=reuse) from the state `old`"""
    l = hnd.locs; N = hnd.n_locs.t; k, m = z3.Ints("k m")
    was = z3.Select(old.pres, name.t); g = z3.Select(l.val, name.t)
    ctx.check(prefix + "invariant(names->numbers-injective,numbers-in-[0,n_locs))", z3.And(loc_inv(l, N), loc_inv_plain(l, N)))
    ctx.check(prefix + "granted:name-present,0<=number<n_locs", z3.And(z3.Select(l.pres, name.t), g >= 0, g < N))
    ctx.check(prefix + "frame:every-other-name-keeps-its-number", z3.ForAll([k], z3.Implies(k != name.t, z3.And(z3.Select(l.pres, k) == z3.Select(old.pres, k), z3.Select(l.val, k) == z3.Select(old.val, k)))))
    ctx.check(prefix + "name-was-present-before=>reuse-requested-and-state-unchanged", z3.Implies(was, z3.And(tobool(reuse), g == z3.Select(old.val, name.t), l.used == old.used)))
    ctx.check(prefix + "new-name=>its-number-was-granted-to-no-other-client", z3.Implies(z3.Not(was), z3.And(z3.Not(z3.Select(old.used, g)),
                    z3.ForAll([k], z3.Implies(z3.And(z3.Select(old.pres, k)), z3.Select(old.val, k) != g)))))
    if n is not None: ctx.check(prefix + "new-name=>granted-the-requested-number", z3.Implies(z3.Not(was), g == toint(n)))
    else: ctx.check(prefix + "new-name=>granted-the-lowest-free-number", z3.Implies(z3.Not(was), z3.ForAll([m], z3.Implies(z3.And(0 <= m, m < g), z3.Select(old.used, m)))))

def _run_loc_add(wrong, cls=S.SoCLocHandler, fixed=True):
    stats = dict(accepted=0, raised=0, reused=0)
    def run(ctx):
        hnd = _mk_handler(cls, ctx); old = hnd.locs.snapshot(); N = hnd.n_locs.t
        ctx.check("pre.ghost-invariant=>plain-invariant(injective,in-range)", loc_inv_plain(old, N))
        name = Name(z3.Int("name")); n = SymInt(z3.Int("n")) if fixed else None
        reuse = SymBool(z3.Bool("use_loc_if_exists"))
        m = z3.Int("m")
        was = z3.Select(old.pres, name.t)
        try:
            cls.add(hnd, name, n, use_loc_if_exists=reuse)
        except S.SoCError:
            elab.restore_stderr(); stats["raised"] += 1
            l = hnd.locs
            ctx.check("raise.state-unchanged", z3.And(l.pres == old.pres, l.val == old.val, l.used == old.used, l.owner == old.owner))
            why = [z3.And(was, z3.Not(tobool(reuse)))]
            if fixed: why += [z3.Select(old.used, n.t), n.t < 0, n.t >= N]
            else: why += [z3.ForAll([m], z3.Implies(z3.And(0 <= m, m < N), z3.Select(old.used, m)))]
            if cls is S.SoCIRQHandler: why += [z3.Not(tobool(hnd.enabled))]
            ctx.check("raise=>(name-already-used-or-number-already-used-or-out-of-range/no-free-number" + ("-or-IRQs-not-enabled)" if cls is S.SoCIRQHandler else ")"), z3.Or(*why))
            return
        stats["accepted"] += 1
        if cls is S.SoCIRQHandler: ctx.check("post.accepted=>IRQs-enabled", tobool(hnd.enabled))
        _check_add_post(ctx, hnd, old, name, n, reuse, stats)
        if wrong: ctx.check("wrong.granted-number-is-0", z3.Select(hnd.locs.val, name.t) == 0)
    paths, obl = explore(run, max_paths=4000)
    return paths, obl, stats

def c_loc_add(clsname, fixed):
    cls = getattr(S, clsname)
    tag = f"{clsname}.add[{'n' if fixed else 'n=None(alloc)'},n_locs-symbolic]"
    need = () if fixed else ("loop0.init", "loop0.step")
    return _wrap(tag, lambda w: _run_loc_add(w, cls, fixed), [f"litex.soc.integration.soc.{clsname}.add", "litex.soc.integration.soc.SoCLocHandler.add"] + ([] if fixed else ["litex.soc.integration.soc.SoCLocHandler.alloc (loop over range(n_locs) cut)"]),
                 "arbitrary name->number map satisfying the class invariant (z3 arrays + ghost inverse), SYMBOLIC n_locs, symbolic name / number / use_loc_if_exists" + (" / enabled" if cls is S.SoCIRQHandler else ""),
                 need=need, extra_cover=lambda s: s["accepted"] >= 2 and s["raised"] >= 2)

# ---- constructors --------------------------------------------------------------------------------------------------------------------
class _Opaque:
    """value that only reaches a log message"""
    def __format__(self, spec): return "<opaque>"
    __str__ = __repr__ = lambda self: "<opaque>"
class CInt(SymInt):
    """SymInt for constructor parameters: 2**x stays a CInt and `/` (true division, only used to print KiB figures) gives an opaque value"""
    def __rpow__(self, base, mod=None): return CInt(AP._rpow(self, base, mod).t)
    def __truediv__(self, o): return _Opaque()
    def __rtruediv__(self, o): return _Opaque()
    __hash__ = SymInt.__hash__

def _sub(cls):
    """subclass of the real handler class that differs in one point only: the EMPTY dict the constructor stores in self.locs is represented by the
    empty symbolic map (so that the real add/alloc called by the constructor run on the proxy); alloc is the loop-cut real alloc"""
    class X(cls):
        @property
        def locs(self): return self.__dict__["_locs"]
        @locs.setter
        def locs(self, v):
            if isinstance(v, dict):
                if v: raise Unsupported("non-empty dict literal stored in locs")
                v = Locs.empty()
            self.__dict__["_locs"] = v
        def alloc(self, name): return _alloc_cut(self)(name)
    X.__name__ = cls.__name__; X.__qualname__ = cls.__qualname__
    return X

def _reserved_loop(rsv, n_locs_of):
    """sidecar invariant of `for name, n in reserved.items(): self.add(name, n)`: the class invariant holds and every reserved entry handled so far
    is present (with its number when one was given); the loop modifies self.locs (heap havoc)"""
    a = z3.Int("a")
    def inv(L):
        h = L["self"]; l = h.locs; kpos = toint(L["k"])
        return z3.And(loc_inv(l, n_locs_of(h)), z3.ForAll([a], z3.Implies(z3.And(0 <= a, a < kpos), z3.And(z3.Select(l.pres, rsv.rname(a)), z3.Or(rsv.none(a), z3.Select(l.val, rsv.rname(a)) == rsv.rnum(a))))))
    def heap(L): L["self"].locs = Locs.fresh("!h")
    return {0: dict(pos="k", inv=inv, heap=heap)}, inv

CSR_DW, CSR_AW, CSR_AL, CSR_PG, CSR_ORD = [8, 32], [14, 15, 16, 17, 18], [32], [0x400, 0x800, 0x1000, 0x2000, 0x4000], ["big", "little"]
def _member(t, vals): return z3.Or(*[t == v for v in vals])

def _run_csr_init(wrong, ordering="big"):
    """the real constructor, unmodified, on ALL int configurations, with no reserved entries"""
    AP._init_z3()
    stats = dict(returned=0, raised=0)
    def run(ctx):
        ctx.solver.set("timeout", FEAS_MS)
        ctx.assume(z3.And(*[AP.pow2_def(z3.IntVal(i)) for i in range(0, 20)]))          # instances of the definition of 2**k (k = 0..19)
        dw, aw, al, pg = CInt(z3.Int("data_width")), CInt(z3.Int("address_width")), CInt(z3.Int("alignment")), CInt(z3.Int("paging"))
        ctx.assume(z3.And(aw.t >= 0, pg.t != 0))          # a negative width makes 2**x a float, paging 0 a ZeroDivisionError (both before any check): outside the contract
        X = _sub(S.SoCCSRHandler)
        h = X.__new__(X)
        legal = z3.And(_member(dw.t, CSR_DW), _member(aw.t, CSR_AW), _member(al.t, CSR_AL), _member(pg.t, CSR_PG), z3.BoolVal(ordering in CSR_ORD), dw.t <= al.t)
        try:
            S.SoCCSRHandler.__init__(h, data_width=dw, address_width=aw, alignment=al, paging=pg, ordering=ordering, reserved_csrs={})
        except S.SoCError:
            elab.restore_stderr(); stats["raised"] += 1
            ctx.check("raise=>illegal-configuration", z3.Not(legal))
            return
        stats["returned"] += 1
        N = toint(h.n_locs); l = h.locs
        ctx.check("post.configuration-is-a-supported-one", legal)
        ctx.check("post.fields-kept", z3.BoolVal(h.data_width is dw and h.address_width is aw and h.alignment is al and h.paging is pg and h.ordering == ordering and h.masters == {} and h.regions == {} and h.name == "CSR"))
        ctx.check("post.pages-tile-the-CSR-space:n_locs*paging==(alignment//8)*2**address_width==2**(address_width+2)", z3.And(N * pg.t == (al.t / 8) * AP.POW2(aw.t), N >= 1, (al.t / 8) * AP.POW2(aw.t) == 4 * AP.POW2(aw.t)))
        ctx.check("post.no-location-granted-yet(invariant-holds-trivially)", z3.And(l.pres == z3.K(I, z3.BoolVal(False)), l.used == z3.K(I, z3.BoolVal(False)), loc_inv(l, N)))
        # every page of the handler lies inside the bus region add_csr_bridge creates for the CSR space (2**(address_width+2) bytes): for ALL page numbers
        n_ = z3.Int("n_")
        ctx.check("post.every-location-0<=n<n_locs-is-a-page-inside-the-CSR-space:0<=paging*n,paging*(n+1)<=2**(address_width+2)", z3.ForAll([n_], z3.Implies(z3.And(0 <= n_, n_ < N), z3.And(pg.t * n_ >= 0, pg.t * (n_ + 1) <= 4 * AP.POW2(aw.t)))))
        if wrong: ctx.check("wrong.n_locs==32", N == 32)
    paths, obl = explore(run, max_paths=6000)
    return paths, obl, stats

def c_csr_init(ordering):
    legal = ordering in CSR_ORD
    return _wrap(f"SoCCSRHandler.__init__[ordering={ordering!r}]", lambda w: _run_csr_init(w, ordering), ["litex.soc.integration.soc.SoCCSRHandler.__init__", "litex.soc.integration.soc.SoCLocHandler.__init__"],
                 "ALL int data_width / address_width >= 0 / alignment / paging != 0 (symbolic); reserved_csrs = {}",
                 extra_cover=(lambda s: s["returned"] == 50 and s["raised"] >= 4) if legal else (lambda s: s["returned"] == 0 and s["raised"] >= 1))

def _run_csr_reserved(wrong, address_width=14, paging=0x800):
    """the constructor's loop over an UNBOUNDED reserved_csrs dict (loop cut; the loop modifies self.locs), at one legal configuration"""
    stats = dict(returned=0, raised=0)
    def run(ctx):
        ctx.solver.set("timeout", FEAS_MS)
        rsv = Reserved("reserved"); ctx.assume(SymBool(rsv.len >= 0))
        X = _sub(S.SoCCSRHandler)
        loops, inv = _reserved_loop(rsv, lambda h: toint(h.n_locs)); vc = HVC(loops)
        init, src = rewrite(S.SoCCSRHandler.__init__, loops, vc)
        assert src.count("__vc.for_begin(0,") == 1 and "reserved_csrs.items()" in src, "loop structure of SoCCSRHandler.__init__ changed"
        h = X.__new__(X); a = z3.Int("a")
        try:
            init(h, data_width=32, address_width=address_width, alignment=32, paging=paging, ordering="big", reserved_csrs=rsv)
        except S.SoCError:
            elab.restore_stderr(); stats["raised"] += 1
            ctx.check("raise=>a-reserved-entry-was-rejected", rsv.len > 0)
            return
        stats["returned"] += 1
        N = h.n_locs; l = h.locs
        ctx.check("post.n_locs", z3.BoolVal(N == 4 * 2**address_width // paging))
        ctx.check("post.invariant(names->numbers-injective,numbers-in-[0,n_locs))", z3.And(loc_inv(l, N), loc_inv_plain(l, N)))
        ctx.check("post.every-reserved-CSR-holds-its-requested-page", z3.ForAll([a], z3.Implies(z3.And(0 <= a, a < rsv.len), z3.And(z3.Select(l.pres, rsv.rname(a)), z3.Or(rsv.none(a), z3.Select(l.val, rsv.rname(a)) == rsv.rnum(a))))))
        ctx.check("post.reserved-names-are-pairwise-different,numbers-too", z3.ForAll([a], z3.Implies(z3.And(0 <= a, a < rsv.len), z3.And(z3.Select(l.val, rsv.rname(a)) >= 0, z3.Select(l.val, rsv.rname(a)) < N))))
        if wrong: ctx.check("wrong.at-most-one-reserved-entry", rsv.len <= 1)
    paths, obl = explore(run, max_paths=6000)
    return paths, obl, stats

def c_csr_reserved(address_width, paging):
    return _wrap(f"SoCCSRHandler.__init__[reserved_csrs,aw={address_width},paging=0x{paging:x}]", lambda w: _run_csr_reserved(w, address_width, paging),
                 ["litex.soc.integration.soc.SoCCSRHandler.__init__ (loop over reserved_csrs cut)", "litex.soc.integration.soc.SoCLocHandler.add", "litex.soc.integration.soc.SoCLocHandler.alloc (loop-cut)"],
                 "unbounded symbolic reserved_csrs dict (symbolic names; numbers symbolic or None); one legal configuration",
                 need=("loop0.init", "loop0.step"), extra_cover=lambda s: s["returned"] >= 1 and s["raised"] >= 2)

def _run_irq_init(wrong):
    stats = dict(returned=0, raised=0)
    def run(ctx):
        ctx.solver.set("timeout", FEAS_MS)
        n_irqs = CInt(z3.Int("n_irqs")); rsv = Reserved("reserved"); ctx.assume(SymBool(rsv.len >= 0))
        X = _sub(S.SoCIRQHandler)
        EMPTY = z3.K(I, z3.BoolVal(False))
        loops = {0: dict(pos="k", heap=lambda L: None, inv=lambda L: z3.And(toint(L["k"]) == 0, L["self"].locs.pres == EMPTY, L["self"].locs.used == EMPTY, z3.BoolVal(L["self"].enabled is False)))}
        vc = HVC(loops)
        init, src = rewrite(S.SoCIRQHandler.__init__, loops, vc)
        assert src.count("__vc.for_begin(0,") == 1 and "reserved_irqs.items()" in src, "loop structure of SoCIRQHandler.__init__ changed"
        h = X.__new__(X)
        try:
            init(h, n_irqs=n_irqs, reserved_irqs=rsv)
        except S.SoCError:
            elab.restore_stderr(); stats["raised"] += 1
            ctx.check("raise=>(more-than-32-IRQs-or-a-reserved-entry)", z3.Or(n_irqs.t > 32, rsv.len > 0))
            return
        stats["returned"] += 1
        ctx.check("post.n_locs==n_irqs<=32", z3.And(z3.BoolVal(h.n_locs is n_irqs), n_irqs.t <= 32))
        ctx.check("post.no-IRQ-granted-yet,handler-disabled", z3.And(h.locs.pres == EMPTY, h.locs.used == EMPTY, loc_inv(h.locs, n_irqs.t), z3.BoolVal(h.enabled is False and h.name == "IRQ")))
        ctx.check("post.(observation)returns-only-without-reserved-entries", rsv.len == 0)     # add() raises while the handler is not enabled, and __init__ leaves it disabled
        if wrong: ctx.check("wrong.n_irqs==32", n_irqs.t == 32)
    paths, obl = explore(run)
    return paths, obl, stats

def c_irq_init():
    return _wrap("SoCIRQHandler.__init__", _run_irq_init, ["litex.soc.integration.soc.SoCIRQHandler.__init__", "litex.soc.integration.soc.SoCIRQHandler.add (called by the constructor)"],
                 "ALL int n_irqs (symbolic), unbounded symbolic reserved_irqs dict", need=("loop0.init",), extra_cover=lambda s: s["returned"] >= 1 and s["raised"] >= 2)

# ---- SoCCSRHandler.address_map / add_region -------------------------------------------------------------------------------------------
def _run_address_map(wrong, with_memory=False):
    stats = dict(accepted=0, raised=0)
    def run(ctx):
        hnd = _mk_handler(S.SoCCSRHandler, ctx); old = hnd.locs.snapshot(); N = hnd.n_locs.t
        name = Name(z3.Int("name")); m = z3.Int("m"); k = z3.Int("k")
        memid = z3.Int("memory.id") if with_memory else z3.IntVal(0)
        OV = z3.Function("memory.name_override", I, I)
        class Mem: name_override = Name(OV(memid))
        if with_memory: ctx.assume(memid != 0)
        def mangle(n_, m_): return z3.If(m_ == 0, n_, CAT(SUF(n_), OV(m_)))
        key = mangle(name.t, memid)
        # GHOST: which keys address_map has already handed out, and to which client (module name, memory id; 0 = the module's CSR bank)
        handed = z3.Array("ghost.handed", I, z3.BoolSort()); cl_name = z3.Array("ghost.client.name", I, I); cl_mem = z3.Array("ghost.client.memory", I, I)
        # ghost invariant `a handed key is present and is the mangled name of the client it was handed to`, instantiated at the one key this call touches
        ctx.assume(z3.Implies(z3.Select(handed, key), z3.And(z3.Select(old.pres, key), key == mangle(z3.Select(cl_name, key), z3.Select(cl_mem, key)))))
        try:
            got = S.SoCCSRHandler.address_map(hnd, name, Mem if with_memory else None)
        except S.SoCError:
            elab.restore_stderr(); stats["raised"] += 1
            l = hnd.locs
            ctx.check("raise.state-unchanged", z3.And(l.pres == old.pres, l.val == old.val, l.used == old.used))
            ctx.check("raise=>name-is-new-and-no-free-page", z3.And(z3.Not(z3.Select(old.pres, key)), z3.ForAll([m], z3.Implies(z3.And(0 <= m, m < N), z3.Select(old.used, m)))))
            return
        stats["accepted"] += 1
        final = Name(key)
        ctx.check("post.returns-the-page-recorded-for-the-(mangled)-name", z3.And(z3.Select(hnd.locs.pres, key), toint(got) == z3.Select(hnd.locs.val, key)))
        ctx.check("post.page-inside-[0,n_locs)", z3.And(toint(got) >= 0, toint(got) < N))
        _check_add_post(ctx, hnd, old, final, None, True, stats)
        # each CSR page is granted to at most one client: a key already handed to a client must belong to THIS client (candidate finding: the mangling is not injective)
        ctx.check("finding.page-was-not-already-handed-to-a-different-client", z3.Implies(z3.Select(handed, key), z3.And(z3.Select(cl_name, key) == name.t, z3.Select(cl_mem, key) == memid)))
        if wrong: ctx.check("wrong.name-was-new", z3.Not(z3.Select(old.pres, key)))
    paths, obl = explore(run, max_paths=4000)
    return paths, obl, stats

def _replay_tool(fname, func="scenario", *args):
    import io as _io, contextlib, importlib.util
    spec = importlib.util.spec_from_file_location(fname, f"/verif/tools/{fname}.py"); rp = importlib.util.module_from_spec(spec); spec.loader.exec_module(rp)
    buf = _io.StringIO()
    lvl = logging.root.manager.disable
    try:
        with contextlib.redirect_stdout(buf): hit = getattr(rp, func)(*args)
    finally: logging.disable(lvl); elab.restore_stderr()
    return bool(hit), buf.getvalue()[-900:]

def _mark_findings(out, what, tool):
    for r_ in out["results"]:
        if ".finding." in r_["name"]:
            r_["kind"] = "finding-witness"; r_["what"] = what
            if r_["status"] == NOINPUT:
                hit, txt = _replay_tool(tool); r_["replay_info"] = txt
                if hit: r_["status"] = VIOLATED; r_["replay"] = f"tools/{tool}.py"
    return out

def c_address_map(with_memory):
    out = _wrap(f"SoCCSRHandler.address_map[memory={'given' if with_memory else 'None'}]", lambda w: _run_address_map(w, with_memory),
                ["litex.soc.integration.soc.SoCCSRHandler.address_map", "litex.soc.integration.soc.SoCLocHandler.add (use_loc_if_exists=True)", "litex.soc.integration.soc.SoCLocHandler.alloc (loop-cut)"],
                "arbitrary name->page map satisfying the class invariant, symbolic n_locs; symbolic module name / memory name; ghost record of the clients already served",
                need=("loop0.init", "loop0.step"), extra_cover=lambda s: s["accepted"] >= 2 and s["raised"] >= 1)
    return _mark_findings(out, "SoCCSRHandler.address_map hands the CSR page of an existing client to a different client when module + '_' + memory name equals another module's name (mangling not injective, use_loc_if_exists=True)",
                          "replay_csr_name_mangling_collision")

def _run_csr_add_region(wrong):
    stats = dict(accepted=0, raised=0)
    def run(ctx):
        ctx.solver.set("timeout", FEAS_MS)
        hnd = _quiet(S.SoCCSRHandler.__new__(S.SoCCSRHandler))
        seq = SymRecordSeq("CR", {"origin": "int"}); regs = NDict(seq); ctx.assume(SymBool(seq.len >= 0)); hnd.regions = regs
        name = Name(z3.Int("name")); region = S.SoCCSRRegion(SymInt(z3.Int("origin")), 32, None)
        dup = regs.has(name.t, old=True)
        try:
            S.SoCCSRHandler.add_region(hnd, name, region)
        except S.SoCError:
            elab.restore_stderr(); stats["raised"] += 1; return
        stats["accepted"] += 1
        ctx.check("post.region-recorded-under-the-name", z3.BoolVal(hnd.regions is regs and len(regs.extra) == 1 and regs.extra[0][0] is name and regs.extra[0][1] is region))
        ctx.check("finding.name-was-not-already-used-by-another-CSR-region", z3.Not(dup))
        if wrong: ctx.check("wrong.no-region-before", seq.len == 0)
    paths, obl = explore(run)
    return paths, obl, stats

def c_csr_add_region():
    out = _wrap("SoCCSRHandler.add_region", _run_csr_add_region, ["litex.soc.integration.soc.SoCCSRHandler.add_region"], "arbitrary regions dict (unbounded), symbolic name", extra_cover=lambda s: s["accepted"] >= 1)
    return _mark_findings(out, "SoCCSRHandler.add_region has no checks ('FIXME: add checks'): a second region with a name already in use silently replaces the first (reached from SoC.finalize through the same name mangling collision)",
                          "replay_csr_name_mangling_collision")

def cases(tier):
    cs = [Case("check_region_is_in(proof)", c_is_in), Case("check_region_is_io(proof)", c_is_io),
          Case("add_region(proof,fixed-origin,io-rule,names)", c_add_fixed), Case("add_region(proof,SoCIORegion)", c_add_io), Case("add_region(proof,not-a-region)", c_add_other)]
    for cn in ("SoCLocHandler", "SoCCSRHandler", "SoCIRQHandler"):
        cs += [Case(f"{cn}.add(proof,n,symbolic-n_locs)", c_loc_add, cn, True), Case(f"{cn}.add(proof,alloc,symbolic-n_locs)", c_loc_add, cn, False)]
    cs += [Case(f"SoCCSRHandler.__init__(proof,all-configurations,{o})", c_csr_init, o) for o in ("big", "little", "middle")]
    geoms = [(14, 0x800), (14, 0x4000), (18, 0x400)] if tier == "quick" else [(14, 0x800)] + [(aw, pg) for aw in CSR_AW for pg in CSR_PG if (aw, pg) != (14, 0x800)]
    cs += [Case(f"SoCCSRHandler.__init__(proof,reserved_csrs,aw{aw},paging0x{pg:x})", c_csr_reserved, aw, pg) for aw, pg in geoms]
    cs += [Case("SoCIRQHandler.__init__(proof)", c_irq_init), Case("SoCCSRHandler.address_map(proof,memory=None)", c_address_map, False), Case("SoCCSRHandler.address_map(proof,memory)", c_address_map, True),
           Case("SoCCSRHandler.add_region(proof)", c_csr_add_region)]
    return cs

ASSUMPTIONS = []
