"""C13 (extension): the remaining functions the property names, by engine E3 (vf/pysym.py): the REAL functions of
litex/soc/integration/soc.py and litex/build/generic_platform.py run under CPython on z3-backed proxies, loops over unbounded
collections are cut by the mechanical AST rewrite around sidecar invariants.

  check_region_is_in / check_region_is_io   against their set-theoretic specification (all origins/sizes, unbounded io_regions)
  add_region (fixed origin / SoCIORegion / unsupported object)   from an ARBITRARY handler state: names unique over regions and
                                            io_regions, IO/cached rule, pairwise disjoint windows re-established, frame
  SoCLocHandler.add/alloc with a SYMBOLIC n_locs (loop over range(n_locs) cut), SoCCSRHandler.__init__/add/address_map/add_region,
  SoCIRQHandler.__init__/add                class invariant (names -> numbers injective, 0 <= n < n_locs) from an arbitrary state;
                                            CSR pages inside the CSR address space implied by address_width/alignment/paging
  SoCBusHandler.add_slave / add_master      name uniqueness (hardware adapters stubbed)
  ConstraintManager.get_sig_constraints / get_io_signals / add_extension / request_all / request_remaining
  SoC.finalize                              what it re-checks, as a labelled BOUNDED stand-in on real SoCCore builds
"""
import sys, time, logging, itertools, z3
from vf import elab, pysym
from vf.pysym import SymInt, SymBool, SymRecordSeq, SymRecord, SymDict, SymKeys, SymList, SymKey, VC, rewrite, explore, toint, tobool, PathEnd, Unsupported
from vf.core import Case, PROVED, VIOLATED, NOINPUT, UNKNOWN, BOUNDED_OK, OK, VACUOUS, FAULT
from vf.hw import res
from litex.soc.integration import soc as S
from litex.build import generic_platform as GP
import contracts.C13_alloc_proofs as AP          # pow2 theory (SymInt gains bit_length / 2**r there, additively), AVC, _agg
from contracts.C13_alloc_proofs import AVC, _agg, ov_t

BACKEND = AP.BACKEND
FEAS_MS = 5000
I = z3.IntSort()
def _quiet(o):
    o.logger = logging.getLogger("x"); o.logger.disabled = True
    for n in ("SoCCSRHandler", "SoCIRQHandler", "SoCRegion", "SoCBusHandler", "SoC"): logging.getLogger(n).disabled = True
    return o

# =====================================================================================================================================
# proxies
# =====================================================================================================================================
class Name:
    """a string known only by its identity (names are compared by equality only); `+` gives some other string"""
    def __init__(self, t): self.t = t
    def __format__(self, spec): return f"<name {self.t}>"
    __str__ = __repr__ = lambda self: f"<name {self.t}>"
    def __hash__(self): return id(self)
    def __eq__(self, o): return isinstance(o, Name) and (o is self or bool(SymBool(self.t == o.t)))
    def __ne__(self, o): return not self.__eq__(o)
    def __add__(self, o): return Name(pysym.CTX.fresh("concat"))
    def __radd__(self, o): return Name(pysym.CTX.fresh("concat"))
    def upper(self): return self

class NDict(SymDict):
    """SymDict whose symbolic prefix has named keys: key of entry i is the identity key(i); `name in d` is decided, not arbitrary"""
    def __init__(self, seq):
        SymDict.__init__(self, seq); self.key = z3.Function(f"{seq.name}.key", I, I)
    def has(self, t):
        i_ = z3.Int("i_")
        return z3.Or(z3.Exists([i_], z3.And(0 <= i_, i_ < self.seq.len, self.key(i_) == t)), *[k.t == t for k, _ in self.extra if isinstance(k, Name)])
    def __contains__(self, key):
        if not isinstance(key, Name): raise Unsupported("NDict key")
        for k, _ in self.extra:
            if k is key: return True
        return bool(SymBool(self.has(key.t)))
    def get(self, key, default=None): raise Unsupported("NDict.get")
def keys_unique(d):
    a, b_ = z3.Ints("a b")
    return z3.ForAll([a, b_], z3.Implies(z3.And(0 <= a, a < b_, b_ < d.seq.len), d.key(a) != d.key(b_)))
def keys_disjoint(d, e):
    a, b_ = z3.Ints("a b")
    return z3.ForAll([a, b_], z3.Implies(z3.And(0 <= a, a < d.seq.len, 0 <= b_, b_ < e.seq.len), d.key(a) != e.key(b_)))

FIELDS = {"origin": "int", "size": "int", "size_pow2": "int", "linker": "bool", "cached": "bool"}
def inside(ro, rs, co, cs):                  # extent [ro, ro+rs) inside [co, co+cs), as check_region_is_in computes it
    return z3.And(ro >= co, ro + rs <= co + cs)
def inside_set(ro, rs, co, cs):              # the same, set-theoretically: every address of the region is an address of the container
    x = z3.Int("x")
    return z3.ForAll([x], z3.Implies(z3.And(ro <= x, x < ro + rs), z3.And(co <= x, x < co + cs)))

def _wrap(tag, runner, functions, state, need=(), min_paths=1, extra_cover=lambda stats: True):
    """runner(wrong) -> (paths, obligations, stats); the case is run a second time with a deliberately wrong postcondition that must be refuted"""
    t0 = time.time()
    paths, obl, stats = runner(False)
    out = _agg(tag, obl)
    _, obl2, _ = runner(True)
    refuted = any(s == "FAILED" for n, s, _ in obl2 if n.startswith("wrong."))
    have = {n for n, _, _ in obl}
    ok = refuted and set(need) <= have and paths >= min_paths and extra_cover(stats)
    out.append(res(f"{tag}.cover.paths;wrong-postcondition-refuted", "cover", OK if ok else VACUOUS, time.time() - t0, "pysym", paths=paths, refuted=refuted,
                   missing=sorted(set(need) - have), **{k: v for k, v in stats.items() if isinstance(v, (int, str, bool))}))
    elab.restore_stderr()
    return dict(results=out, functions=functions, samples=[dict(function=tag, paths=paths, state=state)])

# =====================================================================================================================================
# check_region_is_in / check_region_is_io
# =====================================================================================================================================
def _mk_region(prefix, cls=S.SoCRegion, cached=None, origin=True):
    r = cls.__new__(cls)
    r.origin = SymInt(z3.Int(f"{prefix}.origin")) if origin else None
    r.size = SymInt(z3.Int(f"{prefix}.size")); r.size_pow2 = SymInt(z3.Int(f"{prefix}.pow2"))
    r.linker = SymBool(z3.Bool(f"{prefix}.linker")); r.cached = SymBool(z3.Bool(f"{prefix}.cached")) if cached is None else cached
    r.mode = "rw"; r.decode = True; r.type = ""; _quiet(r)
    return r

def _run_is_in(wrong):
    stats = dict(true=0, false=0)
    def run(ctx):
        r = _mk_region("r"); c = _mk_region("c")
        ctx.assume(r.size >= 1)                                            # a region has at least one byte (SoCRegion.__init__(proof): size >= 1 is its precondition)
        got = S.SoCBusHandler.check_region_is_in(None, r, c)
        ctx.check("post.returns-a-bool", z3.BoolVal(got is True or got is False))
        stats["true" if got else "false"] += 1
        ro, rs, co, cs = toint(r.origin), toint(r.size), toint(c.origin), toint(c.size)
        ctx.check("post.result==(every-address-of-region-is-an-address-of-container)", z3.BoolVal(bool(got)) == inside_set(ro, rs, co, cs))
        ctx.check("post.boundary:region-ending-exactly-at-the-container-end-is-inside", z3.Implies(z3.And(ro >= co, ro + rs == co + cs), z3.BoolVal(bool(got))))
        ctx.check("post.boundary:one-byte-beyond-the-container-end-is-outside", z3.Implies(ro + rs == co + cs + 1, z3.BoolVal(not got)))
        ctx.check("post.boundary:starting-one-byte-before-the-container-is-outside", z3.Implies(ro == co - 1, z3.BoolVal(not got)))
        if wrong: ctx.check("wrong.result==(strictly-inside)", z3.BoolVal(bool(got)) == z3.And(ro > co, ro + rs < co + cs))
    paths, obl = explore(run)
    return paths, obl, stats

def c_is_in():
    return _wrap("check_region_is_in", _run_is_in, ["litex.soc.integration.soc.SoCBusHandler.check_region_is_in"],
                 "symbolic origin/size of region (size >= 1) and container (any ints)", min_paths=4, extra_cover=lambda s: s["true"] >= 1 and s["false"] >= 3)

def _is_io_loops(ios, r):
    a = z3.Int("a")
    def in_io(x): return inside(toint(r.origin), toint(r.size), ios.fn["origin"](x), ios.fn["size"](x))
    def some(n): return z3.Exists([a], z3.And(0 <= a, a < n, in_io(a)))
    loops = {0: dict(pos="s", havoc={"is_io": "bool"}, inv=lambda L: tobool(L["is_io"]) == some(toint(L["s"])))}
    return loops, some

def _run_is_io(wrong):
    stats = dict(returned=0)
    def run(ctx):
        ctx.solver.set("timeout", FEAS_MS)
        ios = SymRecordSeq("IO", FIELDS); ioregs = NDict(ios); ctx.assume(SymBool(ios.len >= 0))
        r = _mk_region("r"); ctx.assume(r.size >= 1)
        bus = _quiet(S.SoCBusHandler.__new__(S.SoCBusHandler)); bus.io_regions = ioregs
        loops, some = _is_io_loops(ios, r)
        vc = AVC(loops)
        fn, src = rewrite(S.SoCBusHandler.check_region_is_io, loops, vc)
        assert src.count("__vc.for_begin(0,") == 1, "loop structure of check_region_is_io changed"
        got = fn(bus, r)
        stats["returned"] += 1
        a, x = z3.Ints("a x")
        ctx.check("post.result==(inside-some-IO-region)", tobool(got) == some(ios.len))
        ro, rs = toint(r.origin), toint(r.size)
        ctx.check("post.result==(some-IO-region-contains-every-address-of-the-region)",
                  tobool(got) == z3.Exists([a], z3.And(0 <= a, a < ios.len, z3.ForAll([x], z3.Implies(z3.And(ro <= x, x < ro + rs), z3.And(ios.fn["origin"](a) <= x, x < ios.fn["origin"](a) + ios.fn["size"](a)))))))
        ctx.check("post.no-IO-region=>False", z3.Implies(ios.len == 0, z3.Not(tobool(got))))
        ctx.check("post.io_regions-unchanged", z3.BoolVal(bus.io_regions is ioregs and not ioregs.extra))
        if wrong: ctx.check("wrong.result==(inside-the-LAST-IO-region)", tobool(got) == z3.And(ios.len > 0, inside(ro, rs, ios.fn["origin"](ios.len - 1), ios.fn["size"](ios.len - 1))))
    paths, obl = explore(run)
    return paths, obl, stats

def c_is_io():
    return _wrap("check_region_is_io", _run_is_io, ["litex.soc.integration.soc.SoCBusHandler.check_region_is_io", "litex.soc.integration.soc.SoCBusHandler.check_region_is_in (run unmodified inside the cut loop)"],
                 "unbounded symbolic io_regions; symbolic region (size >= 1)", need=("loop0.init", "loop0.step"), extra_cover=lambda s: s["returned"] >= 1)

# =====================================================================================================================================
# add_region: fixed origin (SoCRegion), SoCIORegion, unsupported object - from an arbitrary handler state
# =====================================================================================================================================
def _combined(d, f):
    """field f of entry x of dict d = symbolic prefix followed by the concretely added items"""
    seq = d.seq
    def g(i):
        t = seq.fn[f](i)
        for j, (k, v) in reversed(list(enumerate(d.extra))):
            xv = getattr(v, f); xt = tobool(xv) if FIELDS[f] == "bool" else toint(xv)
            t = z3.If(i == seq.len + j, xt, t)
        return t
    return g
def _pair_ok(d):
    O = lambda f: _combined(d, f)
    return lambda x, y: z3.Or(O("linker")(x), O("linker")(y), z3.Not(ov_t(O("origin")(x), O("size_pow2")(x), O("origin")(y), O("size_pow2")(y))))
def _disjoint(d, n=None):
    a, b_ = z3.Ints("a b"); n = toint(d.total_len()) if n is None else n
    return z3.ForAll([a, b_], z3.Implies(z3.And(0 <= a, a < b_, b_ < n), _pair_ok(d)(a, b_)))
def _overlap_loops(d):
    """sidecar invariants of the two loops of check_regions_overlap over dict d (same as contracts/C13_alloc.py)"""
    a, b_ = z3.Ints("a b"); pair_ok = _pair_ok(d)
    def tl(): return toint(d.total_len())
    return {0: dict(havoc={"i": "int"}, inv=lambda L: z3.And(toint(L["i"]) >= 0, toint(L["i"]) <= tl(),
                        z3.ForAll([a, b_], z3.Implies(z3.And(0 <= a, a < toint(L["i"]), a < b_, b_ < tl()), pair_ok(a, b_))))),
            1: dict(pos="j", inv=lambda L: z3.And(toint(L["i"]) >= 0, toint(L["i"]) < tl(),
                        z3.ForAll([b_], z3.Implies(z3.And(toint(L["i"]) < b_, b_ < toint(L["i"]) + 1 + toint(L["j"])), pair_ok(toint(L["i"]), b_))),
                        z3.ForAll([a, b_], z3.Implies(z3.And(0 <= a, a < toint(L["i"]), a < b_, b_ < tl()), pair_ok(a, b_)))))}

def _bus_state(ctx, address_width=32):
    """arbitrary handler state satisfying the class invariant: names unique over regions and io_regions, non-linker windows of `regions`
    pairwise disjoint, non-linker windows of `io_regions` pairwise disjoint"""
    ctx.solver.set("timeout", FEAS_MS)
    seq = SymRecordSeq("R", FIELDS); regs = NDict(seq); ios = SymRecordSeq("IO", FIELDS); ioregs = NDict(ios)
    ctx.assume(SymBool(z3.And(seq.len >= 0, ios.len >= 0)))
    ctx.assume(SymBool(z3.And(keys_unique(regs), keys_unique(ioregs), keys_disjoint(regs, ioregs), _disjoint(regs, seq.len), _disjoint(ioregs, ios.len))))
    bus = _quiet(S.SoCBusHandler.__new__(S.SoCBusHandler))
    bus.regions = regs; bus.io_regions = ioregs; bus.address_width = address_width; bus.masters = {}; bus.slaves = {}
    return bus, seq, regs, ios, ioregs

def _install_overlap(bus, d_of):
    """bus.check_regions_overlap := the real function with both loops cut (invariants over the dict it is called with)"""
    def call(regions, check_linker=False):
        loops = _overlap_loops(regions); vc = VC(loops)
        fn, src = rewrite(S.SoCBusHandler.check_regions_overlap, loops, vc)
        assert src.count("__vc.loop_begin(0,") == 1 and src.count("__vc.for_begin(1,") == 1, "loop structure of check_regions_overlap changed"
        return fn(bus, regions, check_linker)
    bus.check_regions_overlap = call

def _run_add_fixed(wrong, address_width=32):
    stats = dict(accepted=0, raised=0, accepted_cached=0, accepted_uncached=0)
    def run(ctx):
        bus, seq, regs, ios, ioregs = _bus_state(ctx, address_width)
        bus.io_regions_check = SymBool(z3.Bool("io_regions_check"))
        r = _mk_region("n"); name = Name(z3.Int("name"))
        ctx.assume((r.origin >= 0) & (r.size >= 1) & (r.size_pow2 >= r.size))          # SoCRegion.__init__(proof): size_pow2 >= size for size >= 1
        dup = z3.Or(regs.has(name.t), ioregs.has(name.t))
        loops, some = _is_io_loops(ios, r); vc = AVC(loops)
        is_io_fn, src = rewrite(S.SoCBusHandler.check_region_is_io, loops, vc)
        bus.check_region_is_io = lambda region: is_io_fn(bus, region)
        _install_overlap(bus, regs)
        is_io = some(ios.len); ca = tobool(r.cached); ioc = tobool(bus.io_regions_check)
        io_bad = z3.And(ioc, z3.Or(z3.And(is_io, ca), z3.And(z3.Not(is_io), z3.Not(ca))))
        a = z3.Int("a")
        ro, rp, rl = toint(r.origin), toint(r.size_pow2), tobool(r.linker)
        ovl = z3.Exists([a], z3.And(0 <= a, a < seq.len, z3.Not(seq.fn["linker"](a)), z3.Not(rl), ov_t(seq.fn["origin"](a), seq.fn["size_pow2"](a), ro, rp)))
        try:
            S.SoCBusHandler.add_region(bus, name, r)
        except S.SoCError:
            elab.restore_stderr(); stats["raised"] += 1
            ctx.check("raise=>(duplicate-name-or-IO/cached-rule-broken-or-window-overlaps-an-existing-region)", z3.Or(dup, io_bad, ovl))
            ctx.check("raise.io_regions-unchanged", z3.BoolVal(bus.io_regions is ioregs and not ioregs.extra))
            return
        stats["accepted"] += 1
        ctx.check("post.name-was-not-used-by-any-region-or-IO-region", z3.Not(dup))
        ctx.check("post.added-exactly-this-region-under-this-name;io_regions-unchanged", z3.BoolVal(bus.regions is regs and len(regs.extra) == 1 and regs.extra[0][0] is name and regs.extra[0][1] is r and bus.io_regions is ioregs and not ioregs.extra))
        ctx.check("post.invariant(pairwise-disjoint-windows)", _disjoint(regs))
        ctx.check("post.window-disjoint-from-every-existing-non-linker-region", z3.Not(ovl))
        ctx.check("post.io-check=>uncached-region-lies-inside-an-IO-region", z3.Implies(z3.And(ioc, z3.Not(ca)), is_io))
        ctx.check("post.io-check=>region-inside-an-IO-region-is-uncached", z3.Implies(z3.And(ioc, is_io), z3.Not(ca)))
        ctx.check("post.names-stay-unique", z3.And(z3.Not(regs.has.__func__(_Old(regs), name.t)), z3.Not(ioregs.has(name.t))))
        # candidate finding: nothing confines a FIXED-origin region to the address space of the bus
        ctx.check("finding.fixed-origin-region-lies-inside-the-address-space", toint(r.origin) + toint(r.size) <= 2**address_width)
        if wrong: ctx.check("wrong.accepted=>cached", ca)
    paths, obl = explore(run, max_paths=4000)
    return paths, obl, stats

class _Old:
    """view of an NDict without its concretely added items"""
    def __init__(self, d): self.seq, self.key, self.extra = d.seq, d.key, []

def _replay_outside(address_width=32):
    """native replay of the finding candidate on the unmodified functions"""
    bus = S.SoCBusHandler(address_width=address_width); elab.restore_stderr()
    logging.getLogger("SoCBusHandler").disabled = True
    try: bus.add_region("x", S.SoCRegion(origin=2**address_width, size=0x1000))
    except S.SoCError: elab.restore_stderr(); return dict(reproduced=False)
    g = bus.regions["x"]
    return dict(reproduced=g.origin + g.size > 2**address_width, call=f"SoCBusHandler(address_width={address_width}).add_region('x', SoCRegion(origin=2**{address_width}, size=0x1000))", granted=f"origin=0x{g.origin:x} size=0x{g.size:x}")

def c_add_fixed():
    out = _wrap("add_region[fixed-origin]", _run_add_fixed, ["litex.soc.integration.soc.SoCBusHandler.add_region (fixed-origin branch, io_regions_check symbolic)",
                "litex.soc.integration.soc.SoCBusHandler.check_region_is_io (loop-cut, inlined)", "litex.soc.integration.soc.SoCBusHandler.check_regions_overlap (loop-cut, inlined)"],
                "arbitrary handler state satisfying the class invariant (unbounded regions and io_regions, symbolic names); symbolic region, symbolic cached / linker / io_regions_check",
                need=("loop0.init", "loop0.step", "loop1.init", "loop1.step"), extra_cover=lambda s: s["accepted"] >= 2 and s["raised"] >= 3)
    for r_ in out["results"]:
        if ".finding." in r_["name"]:
            r_["kind"] = "finding-witness"; r_["what"] = "add_region accepts a fixed-origin region that lies beyond 2**address_width (no range check on fixed origins)"
            if r_["status"] == NOINPUT:
                rp = _replay_outside(); r_["replay_info"] = rp
                if rp.get("reproduced"): r_["status"] = VIOLATED; r_["replay"] = "tools/replay_add_region_outside_address_space.py"
    return out

def _run_add_io(wrong):
    stats = dict(accepted=0, raised=0)
    def run(ctx):
        bus, seq, regs, ios, ioregs = _bus_state(ctx)
        bus.io_regions_check = True
        r = _mk_region("n", cls=S.SoCIORegion); name = Name(z3.Int("name"))
        ctx.assume((r.origin >= 0) & (r.size >= 1) & (r.size_pow2 >= r.size))
        dup = z3.Or(regs.has(name.t), ioregs.has(name.t))
        _install_overlap(bus, ioregs)
        a = z3.Int("a")
        ro, rp, rl = toint(r.origin), toint(r.size_pow2), tobool(r.linker)
        ovl = z3.Exists([a], z3.And(0 <= a, a < ios.len, z3.Not(ios.fn["linker"](a)), z3.Not(rl), ov_t(ios.fn["origin"](a), ios.fn["size_pow2"](a), ro, rp)))
        try:
            S.SoCBusHandler.add_region(bus, name, r)
        except S.SoCError:
            elab.restore_stderr(); stats["raised"] += 1
            ctx.check("raise=>(duplicate-name-or-window-overlaps-an-existing-IO-region)", z3.Or(dup, ovl))
            ctx.check("raise.regions-unchanged", z3.BoolVal(bus.regions is regs and not regs.extra))
            return
        stats["accepted"] += 1
        ctx.check("post.name-was-not-used-by-any-region-or-IO-region", z3.Not(dup))
        ctx.check("post.added-exactly-this-IO-region-under-this-name;regions-unchanged", z3.BoolVal(bus.io_regions is ioregs and len(ioregs.extra) == 1 and ioregs.extra[0][0] is name and ioregs.extra[0][1] is r and bus.regions is regs and not regs.extra))
        ctx.check("post.invariant(IO-regions-pairwise-disjoint-windows)", _disjoint(ioregs))
        ctx.check("post.window-disjoint-from-every-existing-non-linker-IO-region", z3.Not(ovl))
        if wrong: ctx.check("wrong.accepted=>no-IO-region-before", ios.len == 0)
    paths, obl = explore(run, max_paths=4000)
    return paths, obl, stats

def c_add_io():
    return _wrap("add_region[SoCIORegion]", _run_add_io, ["litex.soc.integration.soc.SoCBusHandler.add_region (SoCIORegion branch)", "litex.soc.integration.soc.SoCBusHandler.check_regions_overlap (loop-cut, inlined)"],
                 "arbitrary handler state satisfying the class invariant; symbolic IO region", need=("loop0.init", "loop0.step", "loop1.init", "loop1.step"),
                 extra_cover=lambda s: s["accepted"] >= 1 and s["raised"] >= 2)

def _run_add_other(wrong):
    stats = dict(raised=0, accepted=0)
    def run(ctx):
        bus, seq, regs, ios, ioregs = _bus_state(ctx); bus.io_regions_check = True
        name = Name(z3.Int("name"))
        for obj in (object(), None, 0x1000, S.SoCCSRRegion(0, 32, None)):
            try: S.SoCBusHandler.add_region(bus, name, obj)
            except S.SoCError: elab.restore_stderr(); stats["raised"] += 1
            else: stats["accepted"] += 1
        ctx.check("post.object-that-is-no-SoCRegion-is-never-accepted", z3.BoolVal(stats["accepted"] == 0))
        ctx.check("post.state-unchanged", z3.BoolVal(bus.regions is regs and not regs.extra and bus.io_regions is ioregs and not ioregs.extra))
        if wrong: ctx.check("wrong.name-unused", z3.Not(z3.Or(regs.has(name.t), ioregs.has(name.t))))
    paths, obl = explore(run)
    return paths, obl, stats
def c_add_other():
    return _wrap("add_region[not-a-region]", _run_add_other, ["litex.soc.integration.soc.SoCBusHandler.add_region (unsupported-object branch)"], "arbitrary handler state; four objects that are not SoCRegion instances",
                 extra_cover=lambda s: s["raised"] >= 4)

def cases(tier):
    cs = [Case("check_region_is_in(proof)", c_is_in), Case("check_region_is_io(proof)", c_is_io),
          Case("add_region(proof,fixed-origin,io-rule,names)", c_add_fixed), Case("add_region(proof,SoCIORegion)", c_add_io), Case("add_region(proof,not-a-region)", c_add_other)]
    return cs

ASSUMPTIONS = []
