"""C08 / C11 / C06 (extension): interconnects that no contract instantiated so far.
 1. AXILiteCrossbar (one AXILiteDecoder per master, one AXILiteArbiter per slave) end to end between its ports, also non-square.
 2. AXILiteInterconnectShared / AXIInterconnectShared WITH their time-out: routing and response clauses of C08 plus the clauses of C11
    stated through the interconnect (SLVERR termination within the bound, error pulse, transparency, recovery of every master).
 3. wishbone.InterconnectShared WITH its time-out under the full routing clause set of C06 (route, resp, data, own, once), and the read-data
    clause of wishbone.Crossbar(register=True) (held-request ghost)."""
import z3
from .axilib import *
from .wblib import m_inputs as wb_m_inputs, s_inputs as wb_s_inputs, req as wb_req, master_holds, slave_legal, M2S, S2M
from . import C08_axil_ic as LITE
from . import C08_axi_full_ic as FULL
from . import C06_wishbone_ic as WB
from litex.soc.interconnect import wishbone
from litex.soc.interconnect.axi import AXILiteInterface, AXILiteDecoder, AXILiteArbiter, AXILiteInterconnectShared, AXILiteCrossbar
from litex.soc.interconnect.axi.axi_full import AXIInterconnectShared
from vf.core import Case

CW = LITE.CW
NZ = lambda x: x != K(0, x.size())
bit = lambda x, j: z3.Extract(j, j, x) == K(1, 1)
def updown(cnt, up, down):
    return z3.If(z3.And(up, z3.Not(down)), cnt + 1, z3.If(z3.And(down, z3.Not(up), NZ(cnt)), cnt - 1, cnt))
def sel_by(grant, sigs):
    r = sigs[-1]
    for i in reversed(range(len(sigs) - 1)): r = z3.If(grant == K(i, grant.size()), sigs[i], r)
    return r
def timer_regs(h, cycles):
    """the down-counters of the WaitTimers (looked up by shape: reset value = cycles)"""
    return [s for s in h.ts.state if s.reset.value == cycles and (1 << s.nbits) > cycles]

# =====================================================================================================================================
# 3a. wishbone.InterconnectShared(timeout_cycles=T) under the routing clause set of C06
# =====================================================================================================================================
def c_wb_shared_to(nm, ns, register, rset, T):
    masters = [wishbone.Interface(data_width=32, adr_width=30) for _ in range(nm)]
    slaves = [wishbone.Interface(data_width=32, adr_width=30) for _ in range(ns)]
    regions = WB.mk_regions(rset, ns); match = WB.match
    decs = [r.decoder(WB.Bus) for r in regions]
    d = mk(wishbone.InterconnectShared, masters, list(zip(decs, slaves)), register, T)
    ins = []
    for m in masters: ins += wb_m_inputs(m)
    for s in slaves: ins += wb_s_inputs(s)
    h = HwCheck(f"wishbone.InterconnectShared({nm}x{ns},register={register},regions={rset},timeout={T})", d, ins)
    V = h.v
    for s in slaves: slave_legal(h, s)
    for i, m in enumerate(masters): master_holds(h, m, name=str(i))
    arb = getattr(d, "arbiter", None); to = getattr(d, "timeout", None)
    grant_sig = arb.rr.grant if (arb is not None and nm > 1) else None
    grant = V(grant_sig) if grant_sig is not None else K(0, 1)
    g = lambda nme: sel_by(grant, [V(getattr(m, nme)) for m in masters])
    gcyc, gstb, gadr = g("cyc"), g("stb"), g("adr")
    greq = z3.And(b(gcyc), b(gstb))
    gack = sel_by(grant, [V(m.ack) for m in masters]); gerr = sel_by(grant, [V(m.err) for m in masters])
    anyack = z3.Or(*[b(V(s.ack)) for s in slaves]); anyerr = z3.Or(*[b(V(s.err)) for s in slaves])
    ones = K(2**32 - 1, 32)
    error = b(V(to.error)) if to is not None else z3.BoolVal(False)
    # ---- specification state (from the property): cycles the request of the bus owner has been pending without a termination
    GW = max(2, (T + 1).bit_length() + 1)
    w = h.ghost("waited", GW)
    pending = z3.And(greq, z3.Not(b(gack)), z3.Not(b(gerr)))
    h.ghost_next(w, z3.If(pending, z3.If(uge(w, T), w, w + 1), K(0, GW)))
    expired = uge(w, T)
    # scenario of the finding below: a request terminated by ERR while the timer runs (the timer looks at ack only, it is not reloaded)
    tainted = h.ghost("after_err", 1)
    h.ghost_next(tainted, bv1(z3.And(greq, z3.Not(b(gack)), z3.Or(b(gerr), b(tainted)))))
    clean = z3.Not(b(tainted))
    h.hint("w<=T", ule(w, T))
    for s in timer_regs(h, T): h.hint(f"cnt:{s.duid}", z3.Implies(clean, zx(V(s), GW) + w == K(T, GW))); h.hint(f"cnt<=T:{s.duid}", ule(V(s), T))
    if grant_sig is not None: h.hint("grant<n", ult(grant, nm)); h.ensure("ens.grant-exists", ult(grant, nm))
    a = h.const("a", 30)
    h.ensure("ens.decode-disjoint", z3.And(*[z3.Not(z3.And(match(regions[x], a), match(regions[y], a))) for x in range(ns) for y in range(x + 1, ns)]))
    # ---- C06: route / fwd / mutex are untouched by the time-out (incl. "no match => no slave sees the cycle")
    h.ensure("ens.mutex", z3.AtMost(*[b(V(s.cyc)) for s in slaves], 1))
    h.ensure("ens.route", z3.And(*[b(V(slaves[j].cyc)) == z3.And(b(gcyc), match(regions[j], gadr)) for j in range(ns)]))
    h.ensure("ens.fwd", z3.And(*[V(getattr(slaves[j], nme)) == g(nme) for j in range(ns) for nme in M2S if nme != "cyc"]))
    S = "@no-err-while-timer-runs"
    for i, m in enumerate(masters):
        owner = (grant == K(i, grant.size())) if grant_sig is not None else z3.BoolVal(True)
        # C06 resp + C11: the owner (and no other master) sees the slaves' ack/err, or the forced termination exactly when its request has waited T cycles
        h.ensure(f"ens.resp{i}" + S, z3.Implies(clean, z3.And(b(V(m.ack)) == z3.And(owner, z3.Or(anyack, expired)), b(V(m.err)) == z3.And(owner, anyerr))))
        h.ensure(f"ens.resp-only-owner{i}", z3.Implies(z3.Not(owner), z3.And(z3.Not(b(V(m.ack))), z3.Not(b(V(m.err))))))
        # exactly one termination, only for a pending request of this master
        h.ensure(f"ens.once{i}" + S, z3.Implies(z3.And(clean, z3.Or(b(V(m.ack)), b(V(m.err)))), wb_req(h, m)))
        if grant_sig is not None: h.ensure(f"ens.own{i}", z3.Implies(z3.And(owner, b(V(m.cyc))), h.n(grant_sig) == K(i, grant.size())))
        # C11: forced termination = ack + all-ones data + error pulse, within T cycles after the grant; never earlier
        h.ensure(f"ens.term{i}" + S, z3.Implies(z3.And(clean, owner, expired), z3.And(b(V(m.ack)), V(m.dat_r) == ones, error)))
        h.ensure(f"ens.undisturbed{i}" + S, z3.Implies(z3.And(clean, owner, z3.Not(expired)), z3.And(b(V(m.ack)) == anyack, b(V(m.err)) == anyerr, z3.Not(error))))
        h.respond(f"resp.term{i}", z3.And(owner, wb_req(h, m)), z3.Or(b(V(m.ack)), b(V(m.err))), T + 1)
    h.ensure("ens.error-only-on-expiry" + S, z3.Implies(clean, error == expired))
    h.ensure_seq("ens.recover" + S, lambda at: z3.Implies(z3.And(at(clean, 0), at(expired, 0)), z3.And(at(w == K(0, GW), 1), at(clean, 1))))
    # ---- C06 data: read data of the answering slave (register=True: for a request that was already pending in the previous cycle)
    p_cont = h.prev("cont", bv1(greq)); p_adr = h.prev("gadr", gadr); p_grant = h.prev("grant", zx(grant, 2))
    continuing = z3.And(b(p_cont), p_adr == gadr, p_grant == zx(grant, 2))
    ssr = L(d.decoder, "slave_sel_r") if hasattr(d, "decoder") else None
    if register and ssr is not None and ssr in h.ts.var and V(ssr).size() == ns:
        for j in range(ns): h.hint(f"selr{j}", z3.Implies(b(p_cont), bit(V(ssr), j) == match(regions[j], p_adr)))
    for i, m in enumerate(masters):
        for j, s in enumerate(slaves):
            clause = lambda extra: z3.Implies(z3.And(clean, b(V(m.ack)), b(V(s.ack)), z3.Not(expired), *extra), V(m.dat_r) == V(s.dat_r))
            if not register: h.ensure(f"ens.data{i}.{j}" + S, clause([]))
            else:
                h.ensure(f"ens.data{i}.{j}@later-cycles" + S, clause([continuing]))
                if i == 0 and j == ns - 1 and ns > 1:
                    h.finding(f"finding.data{i}.{j}@first-cycle-ack", clause([]),
                              "wishbone.Decoder(register=True) muxes dat_r with a one-cycle-old slave select while ack is combinational: a slave that acknowledges in the first cycle of a request returns another slave's (or no) read data")
    # ---- finding: the Timeout watches ack only
    WHAT = ("wishbone.Timeout arms its WaitTimer with stb&cyc&~ack: a request terminated by ERR does not reload the timer. If the owner (or the next owner) "
            "continues with a new request in the next cycle, that request is timed out early (forced ack, all-ones data, error pulse although its slave would answer in time); "
            "if the ERR arrives in the last waiting cycle, the forced ack/error pulse is produced in the following cycle for a request that no longer exists")
    i0 = nm - 1; m0 = masters[i0]; own0 = (grant == K(i0, grant.size())) if grant_sig is not None else z3.BoolVal(True)
    h.finding(f"finding.once{i0}@after-err-termination", z3.Implies(z3.Or(b(V(m0.ack)), b(V(m0.err))), wb_req(h, m0)), WHAT)
    h.finding(f"finding.undisturbed{i0}@after-err-termination", z3.Implies(z3.And(own0, z3.Not(expired)), z3.And(b(V(m0.ack)) == anyack, z3.Not(error))), WHAT)
    h.cover("cover.ack", z3.And(b(V(masters[-1].ack)), b(V(slaves[-1].ack))), depth=4)
    h.cover("cover.timeout", z3.And(error, clean, b(V(masters[-1].ack))), depth=T + 4)
    seen = h.ghost("seen_timeout", 1); h.ghost_next(seen, bv1(z3.Or(b(seen), error)))
    h.cover("cover.ack-after-timeout", z3.And(b(seen), b(V(slaves[-1].ack)), b(V(masters[0].ack)), z3.Not(error), clean), depth=T + 6)
    h.bmc_depth = T + 6
    h.use_auto = False
    h.functions = ["litex.soc.interconnect.wishbone.InterconnectShared.__init__ (timeout_cycles given)", "litex.soc.interconnect.wishbone.Timeout.__init__", "litex.soc.interconnect.wishbone.Arbiter.__init__",
                   "litex.soc.interconnect.wishbone.Decoder.__init__", "litex.gen.genlib.misc.WaitTimer.__init__", "litex.soc.integration.soc.SoCRegion.decoder"]
    return h

def cases(tier):
    cs = [Case("wb.shared(2x2,register=False,regions=A,timeout=4)", c_wb_shared_to, 2, 2, False, "A", 4)]
    return cs
